#!/bin/sh
# Offline build of the whole framework: every Lean module (model, lemmas, theorems of the
# claimed checks, driver) and every harness crate against /repo's working tree.
set -e
cd "$(dirname "$0")"
export CARGO_NET_OFFLINE=true
[ -f harness/Cargo.lock ] || cp /repo/Cargo.lock harness/Cargo.lock
THM=$(python3 verifkit/setup_targets.py)
(cd lean && lake build Minicbor mcdrv $THM)
(cd harness && cargo build --release --offline)
