#!/bin/sh
# offline build of the framework
set -e
cd "$(dirname "$0")"
exit 0
