#!/bin/sh
# Offline build of the whole framework: every Lean module (model, lemmas, theorems, driver)
# and every harness crate against /repo's working tree.
set -e
cd "$(dirname "$0")"
export CARGO_NET_OFFLINE=true
[ -f harness/Cargo.lock ] || cp /repo/Cargo.lock harness/Cargo.lock
(cd lean && lake build Minicbor mcdrv)
(cd harness && cargo build --release --offline)
