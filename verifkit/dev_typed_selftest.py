#!/usr/bin/env python3
"""Development self-test of the typed harness ops and the C01 / C07 streams WITHOUT the Lean side:
builds hcore, builds the streams exactly as `./check` would, runs only the implementation, and applies the
judges with the model answer `bad-op` (tolerated because VERIF_NO_MODEL=1 is forced here).

usage: python3 verifkit/dev_typed_selftest.py [--model] [quick|thorough] [seed]
"""
import os, sys, time, random, collections
WITH_MODEL = "--model" in sys.argv          # also run the existing mcdrv binary (no lake build) and judge against it
if WITH_MODEL:
    sys.argv.remove("--model")
else:
    os.environ["VERIF_NO_MODEL"] = "1"
sys.path.insert(0, os.path.dirname(os.path.dirname(os.path.abspath(__file__))))
from verifkit import runner, typegen
from verifkit.props import C01, C07


def run_stream(st):
    t0 = time.time()
    impl = runner.run_lines(runner.harness_bin(st.binary), st.ops, st.impl_args)
    model = runner.run_lines(runner.MCDRV, st.model_ops) if WITH_MODEL else ["bad-op"] * len(impl)
    if st.canon:
        impl = [st.canon(o, x) for o, x in zip(st.ops, impl)]
        model = [st.canon(o, x) for o, x in zip(st.ops, model)]
    verdicts = collections.Counter()
    kinds = collections.Counter()
    bad = []
    for op, i, m in zip(st.ops, impl, model):
        v = st.judge(op, i, m, None)
        verdicts[v if isinstance(v, str) else v[0]] += 1
        kinds[runner.kind_of(i)] += 1
        if v != "ok" and len(bad) < 8 and not any(b[1].split(" ")[1] == op.split(" ")[1] for b in bad):
            bad.append((v, op[:240], i[:240], m[:240]))
    nt = sum(1 for op, i in zip(st.ops, impl) if st.nontrivial(op, i))
    print(f"[{st.name}] {len(st.ops)} ops, {nt} non-trivial, {time.time() - t0:.1f}s, verdicts={dict(verdicts)} kinds={dict(kinds)}")
    for b in bad:
        print("   ", b)
    return verdicts


def main():
    tier = sys.argv[1] if len(sys.argv) > 1 else "quick"
    seed = int(sys.argv[2]) if len(sys.argv) > 2 else 1
    rc, out = runner.cargo_build(["hcore"])
    if rc != 0:
        print(out[-4000:]); return 1
    reg = C01.registry()
    print(f"{len(reg)} registered instantiations")
    # descriptor / value syntax sanity: every generated value re-parses to the same text
    rng = random.Random(seed)
    for rt in reg:
        assert typegen.show_desc(rt.desc) == rt.desc_s and typegen.show_desc(rt.gdesc) == rt.gdesc_s, rt.name
        for v, t in typegen.values_for(rng, rt, 20, 40):
            assert typegen.show_value(rt.gdesc, typegen.parse_value(rt.gdesc, t)) == t, (rt.name, t[:100])
    total = collections.Counter()
    for mod in (C01, C07):
        t0 = time.time()
        sts = mod.streams(random.Random(seed), tier)
        print(f"{mod.ID}: streams built in {time.time() - t0:.1f}s")
        for st in sts:
            total += run_stream(st)
    t0 = time.time()
    sts = C01.typed_mutation_streams(random.Random(seed), tier)
    print(f"typed_mutation_streams built in {time.time() - t0:.1f}s")
    for st in sts:
        total += run_stream(st)
    # token sanity: Decoder::tokens() of the bytes Encoder::tokens wrote (not a C07 obligation; exercises tokdec)
    ops = C07.token_ops(random.Random(seed), "quick")[:]
    enc = runner.run_lines(runner.harness_bin("hcore"), ops)
    dops = ["tokdec " + e.split(" ")[0] for e in enc]
    dec = runner.run_lines(runner.harness_bin("hcore"), dops)
    odd = [(o, e, d) for o, e, d in zip(ops, enc, dec) if " end pos=" not in d]
    print(f"[tokdec-sanity] {len(dops)} ops, {len(odd)} not ending in `end`")
    for x in odd[:5]:
        print("   ", tuple(s[:160] for s in x))
    bad = sum(v for k, v in total.items() if k != "ok")
    print("TOTAL", dict(total))
    return 1 if bad else 0


if __name__ == "__main__":
    sys.exit(main())
