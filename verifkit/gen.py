"""Shared generators: boundary-dense integers, byte strings, wire trees."""
import struct

U64 = 1 << 64

def boundaries(bits_max=64):
    s = set()
    for k in range(0, bits_max + 1):
        for d in range(-3, 4):
            v = (1 << k) + d
            if 0 <= v < (1 << bits_max):
                s.add(v)
    for v in (0, 1, 22, 23, 24, 25, 255, 256, 65535, 65536):
        if v < (1 << bits_max):
            s.add(v)
    s.add((1 << bits_max) - 1)
    return sorted(s)

def rand_u(rng, bits):
    """size-biased random unsigned integer below 2^bits."""
    k = rng.randint(0, bits)
    return rng.getrandbits(k) if k else 0

def signed_range(bits):
    return -(1 << (bits - 1)), (1 << (bits - 1)) - 1

def hexb(b):
    return b.hex() if b else "-"

def head(maj, n, width=None):
    """CBOR head of major type maj with argument n at the given width (None = preferred)."""
    if width is None:
        width = 0 if n < 24 else 1 if n < 256 else 2 if n < 65536 else 4 if n < (1 << 32) else 8
    if width == 0:
        assert n < 24
        return bytes([maj * 32 + n])
    ai = {1: 24, 2: 25, 4: 26, 8: 27}[width]
    return bytes([maj * 32 + ai]) + n.to_bytes(width, "big")

WIDTHS = (0, 1, 2, 4, 8)

def fits(width, n):
    return n < 24 if width == 0 else n < (1 << (8 * width))

def rand_bytes(rng, n):
    return bytes(rng.getrandbits(8) for _ in range(n))

UTF8_SAMPLES = ["", "a", "hello", "é", "€", "😀", "a\u0000b", "߿ࠀ￿", "\U00010000\U0010ffff"]

def rand_text(rng, maxlen=12):
    n = rng.randint(0, maxlen)
    cs = []
    for _ in range(n):
        r = rng.random()
        if r < 0.6: cs.append(chr(rng.randint(0x20, 0x7e)))
        elif r < 0.75: cs.append(chr(rng.randint(0x80, 0x7ff)))
        elif r < 0.9:
            c = rng.randint(0x800, 0xffff)
            if 0xd800 <= c <= 0xdfff: c = 0x20ac
            cs.append(chr(c))
        else: cs.append(chr(rng.randint(0x10000, 0x10ffff)))
    return "".join(cs)
