"""Descriptors, values, generators and encoding mutators for the built-in codec universe
(docs/TYPES_PROTOCOL.md).  Python stdlib only.

Descriptor AST: a tuple `(kind, *args)`:
  atoms      ('u8',) ... ('i64',) ('int',) ('bool',) ('char',) ('f32',) ('f64',) ('str',) ('bytes',) ('cstr',)
             ('unit',) ('tag',) ('duration',) ('systime',)
  ('barr', N) ('opt', T) ('seq', T) ('set', T) ('uset', T) ('ubag', T) ('arr', N, T) ('tup', [T..]) ('map', K, V)
  ('umap', K, V) ('nz', I) ('tagged', N, T) ('enum', [T..]) ('fields', [T..]) ('bound', T)
`set` only occurs in *generation* descriptors (third column of `hcore tlist`): a `seq` that stands for a BTreeSet.

Python representation of values:
  integers / char / tag / nz : int          bool : bool            f32 / f64 : int (bit pattern)
  str : bytes (UTF-8)                       bytes / barr / cstr : bytes        unit : ()
  opt : None | ('S', v)                     enum / bound : ('V', index, v)     tagged : the inner value
  seq / set / uset / ubag / arr / tup / fields / duration / systime : list
  map / umap : list of (k, v) tuples
"""
import os, subprocess
from verifkit import gen

# ----------------------------------------------------------------------------- descriptors

ATOMS = {"u8", "u16", "u32", "u64", "i8", "i16", "i32", "i64", "int", "bool", "char", "f32", "f64", "str", "bytes",
         "cstr", "unit", "tag", "duration", "systime"}
INT_RANGE = {"u8": (0, 2**8 - 1), "u16": (0, 2**16 - 1), "u32": (0, 2**32 - 1), "u64": (0, 2**64 - 1),
             "i8": (-2**7, 2**7 - 1), "i16": (-2**15, 2**15 - 1), "i32": (-2**31, 2**31 - 1), "i64": (-2**63, 2**63 - 1),
             "int": (-2**64, 2**64 - 1), "tag": (0, 2**64 - 1), "char": (0, 0x10ffff)}
LISTY = {"seq", "set", "uset", "ubag"}


def parse_desc(s):
    node, i = _pd(s, 0)
    if i != len(s):
        raise ValueError(f"trailing input in descriptor {s!r} at {i}")
    return node


def _pd(s, i):
    j = i
    while j < len(s) and (s[j].isalnum() or s[j] == "_"):
        j += 1
    name = s[i:j]
    if j >= len(s) or s[j] != "(":
        if name not in ATOMS:
            raise ValueError(f"unknown atom {name!r} in {s!r}")
        return (name,), j
    j += 1
    args = []
    while True:
        if s[j].isdigit():
            k = j
            while s[k].isdigit():
                k += 1
            if s[k] in ",)":            # a number argument (N of barr/arr/tagged)
                args.append(int(s[j:k])); j = k
            else:
                raise ValueError(f"bad descriptor {s!r}")
        else:
            a, j = _pd(s, j)
            args.append(a)
        if s[j] == ",":
            j += 1; continue
        if s[j] == ")":
            j += 1; break
        raise ValueError(f"bad descriptor {s!r} at {j}")
    if name == "barr":
        return ("barr", args[0]), j
    if name in ("opt", "seq", "set", "uset", "ubag", "nz", "bound"):
        return (name, args[0]), j
    if name in ("arr", "tagged"):
        return (name, args[0], args[1]), j
    if name in ("map", "umap"):
        return (name, args[0], args[1]), j
    if name in ("tup", "enum", "fields"):
        return (name, list(args)), j
    raise ValueError(f"unknown constructor {name!r} in {s!r}")


def show_desc(n):
    k = n[0]
    if k in ATOMS:
        return k
    if k == "barr":
        return f"barr({n[1]})"
    if k in ("opt", "seq", "set", "uset", "ubag", "nz", "bound"):
        return f"{k}({show_desc(n[1])})"
    if k in ("arr", "tagged"):
        return f"{k}({n[1]},{show_desc(n[2])})"
    if k in ("map", "umap"):
        return f"{k}({show_desc(n[1])},{show_desc(n[2])})"
    return f"{k}({','.join(show_desc(x) for x in n[1])})"


# ----------------------------------------------------------------------------- values: print / parse

def _hx(b):
    return b.hex() if b else "-"


def show_value(n, v):
    k = n[0]
    if k in INT_RANGE or k == "nz":
        return str(v)
    if k == "bool":
        return "T" if v else "F"
    if k == "f32":
        return f"x{v:08x}"
    if k == "f64":
        return f"x{v:016x}"
    if k == "str":
        return "s" + _hx(v)
    if k in ("bytes", "barr", "cstr"):
        return "h" + _hx(v)
    if k == "unit":
        return "U"
    if k == "opt":
        return "N" if v is None else f"S({show_value(n[1], v[1])})"
    if k in LISTY:
        return "[" + ",".join(show_value(n[1], x) for x in v) + "]"
    if k == "arr":
        return "[" + ",".join(show_value(n[2], x) for x in v) + "]"
    if k in ("tup", "fields"):
        return "[" + ",".join(show_value(t, x) for t, x in zip(n[1], v)) + "]"
    if k in ("duration", "systime"):
        return f"[{v[0]},{v[1]}]"
    if k in ("map", "umap"):
        return "{" + ",".join(show_value(n[1], a) + ":" + show_value(n[2], b) for a, b in v) + "}"
    if k == "enum":
        return f"V{v[1]}({show_value(n[1][v[1]], v[2])})"
    if k == "bound":
        return f"V{v[1]}({show_value(n[1] if v[1] < 2 else ('unit',), v[2])})"
    if k == "tagged":
        return show_value(n[2], v)
    raise ValueError(k)


class _VP:
    def __init__(self, s):
        self.s, self.i = s, 0
    def peek(self):
        return self.s[self.i] if self.i < len(self.s) else ""
    def eat(self, c):
        if self.peek() != c:
            raise ValueError(f"expected {c!r} at {self.i} in {self.s[:80]!r}")
        self.i += 1
    def int(self):
        j = self.i
        if self.peek() == "-":
            self.i += 1
        while self.peek().isdigit():
            self.i += 1
        return int(self.s[j:self.i])
    def hexrun(self):
        if self.peek() == "-":
            self.i += 1
            return b""
        j = self.i
        while self.peek() and self.peek() in "0123456789abcdef":
            self.i += 1
        return bytes.fromhex(self.s[j:self.i])
    def list(self, f):
        self.eat("[")
        out = []
        if self.peek() == "]":
            self.i += 1
            return out
        while True:
            out.append(f())
            if self.peek() == ",":
                self.i += 1
            else:
                break
        self.eat("]")
        return out


def parse_value(n, text):
    p = _VP(text)
    v = _pv(n, p)
    if p.i != len(text):
        raise ValueError(f"trailing input in value {text[:80]!r}")
    return v


def _pv(n, p):
    k = n[0]
    if k in INT_RANGE or k == "nz":
        return p.int()
    if k == "bool":
        c = p.peek(); p.i += 1
        if c not in "TF" or not c:
            raise ValueError("bool")
        return c == "T"
    if k in ("f32", "f64"):
        p.eat("x")
        d = 8 if k == "f32" else 16
        r = int(p.s[p.i:p.i + d], 16); p.i += d
        return r
    if k == "str":
        p.eat("s"); return p.hexrun()
    if k in ("bytes", "barr", "cstr"):
        p.eat("h"); return p.hexrun()
    if k == "unit":
        p.eat("U"); return ()
    if k == "opt":
        if p.peek() == "N":
            p.i += 1; return None
        p.eat("S"); p.eat("(")
        v = _pv(n[1], p)
        p.eat(")")
        return ("S", v)
    if k in LISTY:
        return p.list(lambda: _pv(n[1], p))
    if k == "arr":
        return p.list(lambda: _pv(n[2], p))
    if k in ("tup", "fields"):
        p.eat("[")
        out = []
        for i, t in enumerate(n[1]):
            if i:
                p.eat(",")
            out.append(_pv(t, p))
        p.eat("]")
        return out
    if k in ("duration", "systime"):
        p.eat("["); a = p.int(); p.eat(","); b = p.int(); p.eat("]")
        return [a, b]
    if k in ("map", "umap"):
        p.eat("{")
        out = []
        if p.peek() == "}":
            p.i += 1
            return out
        while True:
            a = _pv(n[1], p); p.eat(":"); b = _pv(n[2], p)
            out.append((a, b))
            if p.peek() == ",":
                p.i += 1
            else:
                break
        p.eat("}")
        return out
    if k in ("enum", "bound"):
        p.eat("V"); idx = p.int(); p.eat("(")
        if k == "enum":
            t = n[1][idx]
        else:
            t = n[1] if idx < 2 else ("unit",)
        v = _pv(t, p)
        p.eat(")")
        return ("V", idx, v)
    if k == "tagged":
        return _pv(n[2], p)
    raise ValueError(k)


def expected_decode_text(n, v):
    """The text `tdec` prints for a value that round-trips (canonical form of top-level unordered collections)."""
    k = n[0]
    if k == "uset":
        return "[" + ",".join(sorted({show_value(n[1], x) for x in v})) + "]"
    if k == "ubag":
        return "[" + ",".join(sorted(show_value(n[1], x) for x in v)) + "]"
    if k == "umap":
        d = {}
        for a, b in v:
            d[show_value(n[1], a)] = show_value(n[2], b)      # last entry for a key wins
        return "{" + ",".join(sorted(f"{a}:{b}" for a, b in d.items())) + "}"
    return show_value(n, v)


def same_value(n, a, b):
    """Equality of two parsed values of descriptor n: floats bitwise, top-level uset as sets, ubag as multisets,
    umap as finite maps."""
    k = n[0]
    if k == "uset":
        return {show_value(n[1], x) for x in a} == {show_value(n[1], x) for x in b}
    if k == "ubag":
        return sorted(show_value(n[1], x) for x in a) == sorted(show_value(n[1], x) for x in b)
    if k == "umap":
        f = lambda m: {show_value(n[1], x): show_value(n[2], y) for x, y in m}
        return f(a) == f(b)
    return show_value(n, a) == show_value(n, b)


def canon_collections(n, v):
    """What the real collections hold after decoding the element list v in input order: `set` nodes sorted by Rust Ord
    without duplicates, `map` nodes sorted by key with the last entry for a key winning.  (The model prints `seq`/`map`
    in input order; on input that did not come from the encoder the two differ only by this normalisation.)"""
    k = n[0]
    if k == "opt":
        return None if v is None else ("S", canon_collections(n[1], v[1]))
    if k in LISTY:
        xs = [canon_collections(n[1], x) for x in v]
        if k == "set":
            d = {}
            for x in xs:
                d.setdefault(ord_key(n[1], x), x)
            return [d[q] for q in sorted(d)]
        return xs
    if k == "arr":
        return [canon_collections(n[2], x) for x in v]
    if k in ("tup", "fields"):
        return [canon_collections(t, x) for t, x in zip(n[1], v)]
    if k in ("map", "umap"):
        es = [(canon_collections(n[1], a), canon_collections(n[2], b)) for a, b in v]
        if k == "map":
            d = {}
            for a, b in es:
                d[ord_key(n[1], a)] = (a, b)
            return [d[q] for q in sorted(d)]
        return es
    if k == "enum":
        return ("V", v[1], canon_collections(n[1][v[1]], v[2]))
    if k == "bound":
        return ("V", v[1], canon_collections(n[1], v[2]) if v[1] < 2 else ())
    if k == "tagged":
        return canon_collections(n[2], v)
    return v


def has_sorted_collection(n):
    if n[0] in ("set", "map"):
        return True
    return any(has_sorted_collection(x) for a in n[1:] for x in (a if isinstance(a, list) else [a]) if isinstance(x, tuple))


# ----------------------------------------------------------------------------- Rust `Ord`

def ord_key(n, v):
    """A Python sort key reproducing the Rust `Ord` of the type a descriptor stands for."""
    k = n[0]
    if k == "int":                         # minicbor::data::Int derives Ord on { neg: bool, val: u64 }
        return (0, v) if v >= 0 else (1, -1 - v)
    if k in INT_RANGE or k == "nz" or k == "bool":
        return v
    if k in ("str", "bytes", "barr", "cstr"):
        return v
    if k == "unit":
        return 0
    if k == "opt":
        return (0,) if v is None else (1, ord_key(n[1], v[1]))
    if k in ("seq", "set"):
        return tuple(ord_key(n[1], x) for x in v)
    if k == "arr":
        return tuple(ord_key(n[2], x) for x in v)
    if k == "tup":
        return tuple(ord_key(t, x) for t, x in zip(n[1], v))
    if k == "duration":
        return tuple(v)
    if k == "tagged":
        return ord_key(n[2], v)
    if k == "enum":
        return (v[1], ord_key(n[1][v[1]], v[2]))
    if k == "map":
        return tuple((ord_key(n[1], a), ord_key(n[2], b)) for a, b in v)
    raise ValueError(f"no Rust Ord modelled for {show_desc(n)}")


# ----------------------------------------------------------------------------- generators

F32_SPECIAL = [0, 0x80000000, 1, 0x007fffff, 0x00800000, 0x3f800000, 0xbf800000, 0x7f7fffff, 0x7f800000, 0xff800000,
               0x7fc00000, 0x7f800001, 0x7fffffff, 0xffc00001, 0xffffffff, 0x477fe000, 0x33800000, 0x38800000]
F64_SPECIAL = [0, 1 << 63, 1, 0x000fffffffffffff, 0x0010000000000000, 0x3ff0000000000000, 0xbff0000000000000,
               0x7fefffffffffffff, 0x7ff0000000000000, 0xfff0000000000000, 0x7ff8000000000000, 0x7ff0000000000001,
               0x7fffffffffffffff, 0xfff8000000000001, 0xffffffffffffffff, 0x40effc0000000000]
CORE_U = [0, 1, 23, 24, 255, 256, 65535, 65536, 2**32 - 1, 2**32, 2**63 - 1, 2**63, 2**64 - 1]
CHAR_B = [0, 0x17, 0x18, 0x41, 0x7f, 0x80, 0xff, 0x100, 0x7ff, 0x800, 0xd7ff, 0xe000, 0xffff, 0x10000, 0x10ffff]
NANOS_B = [0, 1, 23, 24, 255, 256, 65535, 65536, 999_999_999]
LEN_EDGES = [0, 1, 23, 24, 255, 256]
# text whose UTF-8 length hits the length-width edges, with multi-byte characters straddling them
def _text_of_len(nbytes, filler):
    fb = filler.encode()
    out = fb * (nbytes // len(fb))
    return out + b"a" * (nbytes - len(out))


def int_boundaries(k, full):
    lo, hi = INT_RANGE[k]
    src = gen.boundaries(64) if full else CORE_U
    out = set()
    for v in src:
        for s in (v, -v, -1 - v):
            if lo <= s <= hi:
                out.add(s)
    out.add(lo); out.add(hi)
    if k == "char":
        out = {c for c in out if not 0xd800 <= c <= 0xdfff} | set(CHAR_B)
    if k == "tag":
        out |= {55799, 55798, 55800, 24, 32, 258}          # registered numbers a decoder might know about (55799 = self-described CBOR)
    return sorted(out)


def rand_int(rng, k):
    lo, hi = INT_RANGE[k]
    bits = hi.bit_length()
    r = rng.random()
    if r < 0.25:
        v = rng.randint(0, 30)
    elif r < 0.5:
        v = (1 << rng.randint(0, bits)) + rng.randint(-2, 2)
    else:
        v = gen.rand_u(rng, bits)
    if lo < 0 and rng.random() < 0.5:
        v = -1 - v
    v = max(lo, min(hi, v))
    if k == "char" and 0xd800 <= v <= 0xdfff:
        v = 0xe000
    return v


def rand_len(rng, depth, cheap=True):
    """size-biased container / string length."""
    r = rng.random()
    if depth >= 3:
        return rng.randint(0, 2)
    if r < 0.55:
        return rng.randint(0, 3)
    if r < 0.85 or depth >= 2:
        return rng.randint(0, 10)
    if r < 0.97 or not cheap or depth >= 1:
        return rng.randint(20, 30)
    return rng.choice([255, 256, 257, 300])


def _is_cheap(n):
    return n[0] in INT_RANGE or n[0] in ("bool", "unit", "nz", "f32", "f64")


def simple_value(n):
    """A small fixed inhabitant."""
    k = n[0]
    if k in INT_RANGE:
        return 0
    if k == "nz":
        return 1
    if k == "bool":
        return False
    if k in ("f32", "f64"):
        return 0
    if k in ("str", "bytes", "cstr"):
        return b""
    if k == "barr":
        return bytes(n[1])
    if k == "unit":
        return ()
    if k == "opt":
        return None
    if k in LISTY or k in ("map", "umap"):
        return []
    if k == "arr":
        return [simple_value(n[2]) for _ in range(n[1])]
    if k in ("tup", "fields"):
        return [simple_value(t) for t in n[1]]
    if k in ("duration", "systime"):
        return [0, 0]
    if k == "enum":
        return ("V", 0, simple_value(n[1][0]))
    if k == "bound":
        return ("V", 2, ())
    if k == "tagged":
        return simple_value(n[2])
    raise ValueError(k)


def _distinct(n, vals, key):
    seen, out = set(), []
    for v in vals:
        kk = key(v)
        if kk not in seen:
            seen.add(kk); out.append(v)
    return out


def normalise_list(n, vals):
    """Make a generated element list a legal value of the list-like descriptor n."""
    k = n[0]
    if k == "set":
        return sorted(_distinct(n, vals, lambda v: ord_key(n[1], v)), key=lambda v: ord_key(n[1], v))
    if k == "uset":
        return _distinct(n, vals, lambda v: show_value(n[1], v))
    return vals


def normalise_map(n, entries):
    k = n[0]
    if k == "map":
        return sorted(_distinct(n, entries, lambda e: ord_key(n[1], e[0])), key=lambda e: ord_key(n[1], e[0]))
    return _distinct(n, entries, lambda e: show_value(n[1], e[0]))


def gen_value(rng, n, depth=0):
    """A size-biased random value of descriptor n (a generation descriptor: `set` is honoured)."""
    k = n[0]
    if k in INT_RANGE:
        return rand_int(rng, k)
    if k == "nz":
        v = rand_int(rng, n[1][0])
        return v if v != 0 else 1
    if k == "bool":
        return rng.random() < 0.5
    if k == "f32":
        return rng.choice(F32_SPECIAL) if rng.random() < 0.2 else rng.getrandbits(32)
    if k == "f64":
        return rng.choice(F64_SPECIAL) if rng.random() < 0.2 else rng.getrandbits(64)
    if k == "str":
        r = rng.random()
        if r < 0.9 or depth > 0:
            return gen.rand_text(rng, 12 if r < 0.8 else 40).encode()
        return _text_of_len(rng.choice([23, 24, 255, 256, 300]), rng.choice(["a", "é", "€", "😀"]))
    if k == "bytes":
        return gen.rand_bytes(rng, rand_len(rng, depth))
    if k == "cstr":
        return bytes(rng.randint(1, 255) for _ in range(rand_len(rng, depth)))
    if k == "barr":
        return gen.rand_bytes(rng, n[1]) if rng.random() < 0.8 else bytes([rng.choice([0, 255])]) * n[1]
    if k == "unit":
        return ()
    if k == "opt":
        if rng.random() < 0.3:
            return None
        inner = gen_value(rng, n[1], depth + 1)
        # an Option directly inside an Option is lossy by construction: Some(None) is never generated
        while n[1][0] == "opt" and inner is None:
            inner = gen_value(rng, n[1], depth + 1)
        return ("S", inner)
    if k in LISTY:
        m = rand_len(rng, depth, _is_cheap(n[1]))
        return normalise_list(n, [gen_value(rng, n[1], depth + 1) for _ in range(m)])
    if k == "arr":
        return [gen_value(rng, n[2], depth + 1) for _ in range(n[1])]
    if k in ("tup", "fields"):
        return [gen_value(rng, t, depth + 1) for t in n[1]]
    if k in ("map", "umap"):
        m = rand_len(rng, depth, _is_cheap(n[1]) and _is_cheap(n[2]))
        return normalise_map(n, [(gen_value(rng, n[1], depth + 1), gen_value(rng, n[2], depth + 1)) for _ in range(m)])
    if k == "duration":
        return [rand_int(rng, "u64"), rng.choice(NANOS_B) if rng.random() < 0.3 else rng.randint(0, 999_999_999)]
    if k == "systime":
        return [rand_int(rng, "u64") & (2**63 - 1), rng.choice(NANOS_B) if rng.random() < 0.3 else rng.randint(0, 999_999_999)]
    if k == "enum":
        i = rng.randrange(len(n[1]))
        return ("V", i, gen_value(rng, n[1][i], depth + 1))
    if k == "bound":
        i = rng.randrange(3)
        return ("V", i, gen_value(rng, n[1], depth + 1) if i < 2 else ())
    if k == "tagged":
        return gen_value(rng, n[2], depth)
    raise ValueError(k)


_END = object()


def _fill(n, m, pool):
    """m elements for a list-like / map key position: first the pool, then a simple enumeration of distinct values."""
    out = list(pool[:m])
    i = 0
    while len(out) < m:
        v = _nth_value(n, i)
        i += 1
        if v is _END:
            break
        out.append(v)
    return out


def _card(n):
    """number of values `_nth_value` can enumerate (capped)."""
    k = n[0]
    if k == "bool":
        return 2
    if k == "unit":
        return 1
    if k in INT_RANGE:
        lo, hi = INT_RANGE[k]
        return min(hi - lo + 1, 10**6)
    if k == "nz":
        return _card(n[1]) - 1
    if k in ("str", "bytes", "cstr"):
        return 10**6
    if k == "barr":
        return min(256 ** n[1], 10**6)
    if k == "tup":
        c = 1
        for t in n[1]:
            c = min(c * min(_card(t), 200), 10**6)
        return c
    if k == "tagged":
        return _card(n[2])
    if k == "opt":
        return min(_card(n[1]) + 1, 10**6)
    return 1


def _nth_value(n, i):
    """i-th member of a simple enumeration of distinct values of n (_END when exhausted); fills big sets / maps."""
    if i >= _card(n):
        return _END
    k = n[0]
    if k in INT_RANGE:
        lo, hi = INT_RANGE[k]
        v = i if lo == 0 else (i // 2 if i % 2 == 0 else -1 - i // 2)
        if k == "char" and v >= 0xd800:
            v += 0x800
        return v
    if k == "nz":
        return _nth_value(n[1], i + 1)
    if k == "bool":
        return bool(i)
    if k == "str":
        return str(i).encode()
    if k in ("bytes", "cstr"):
        return b"%d" % i
    if k == "barr":
        return i.to_bytes(n[1], "big")
    if k == "tup":
        out = []
        for t in reversed(n[1]):             # the last component varies fastest
            r = min(_card(t), 200)
            out.append(_nth_value(t, i % r)); i //= r
        return list(reversed(out))
    if k == "tagged":
        return _nth_value(n[2], i)
    if k == "opt":
        return None if i == 0 else ("S", _nth_value(n[1], i - 1))
    return simple_value(n)


def boundary_values(n, full=True):
    """The interesting values of descriptor n.  `full` = top level (all 2^k±3 boundaries, 65535/65536-byte strings);
    nested positions use the core set."""
    k = n[0]
    if k in INT_RANGE:
        return int_boundaries(k, full)
    if k == "nz":
        return [v for v in int_boundaries(n[1][0], full) if v != 0]
    if k == "bool":
        return [False, True]
    if k == "f32":
        return list(F32_SPECIAL)
    if k == "f64":
        return list(F64_SPECIAL)
    if k == "str":
        out = [s.encode() for s in gen.UTF8_SAMPLES]
        lens = [1, 22, 23, 24, 25, 254, 255, 256, 257] + ([65534, 65535, 65536, 65537] if full else [])
        for m in lens:
            out.append(_text_of_len(m, "a"))
        for m in (23, 24, 255, 256):
            for f in ("é", "€", "😀"):
                out.append(_text_of_len(m, f))
        if full:
            out += [_text_of_len(65535, "€"), _text_of_len(65536, "€")]
        return out
    if k == "bytes":
        lens = [0, 1, 23, 24, 255, 256] + ([65535, 65536] if full else [])
        return [bytes((i * 7 + m) & 0xff for i in range(m)) for m in lens] + [b"\x00", b"\xff", b"\xf6", b"\xff\xff"]
    if k == "cstr":
        lens = [0, 1, 22, 23, 24, 254, 255, 256] + ([65534, 65535, 65536] if full else [])
        return [bytes(1 + (i * 7 + m) % 255 for i in range(m)) for m in lens]
    if k == "barr":
        m = n[1]
        special = []
        if m == 16:
            # the octets of an IPv6 address: IPv4-mapped (::ffff:a.b.c.d), IPv4-compatible, loopback, link-local, multicast
            special = [bytes(10) + b"\xff\xff" + bytes([192, 0, 2, 1]), bytes(10) + b"\xff\xff\xff\xff\xff\xff", bytes(10) + b"\xff\xff" + bytes(4),
                       bytes(12) + bytes([127, 0, 0, 1]), bytes(15) + b"\x01", b"\xfe\x80" + bytes(13) + b"\x01", b"\xff\x02" + bytes(13) + b"\x01",
                       b"\x00\x64\xff\x9b" + bytes(8) + bytes([192, 0, 2, 33]), b"\x20\x01\x0d\xb8" + bytes(12)]
        if m == 4:
            special = [bytes([127, 0, 0, 1]), bytes([192, 0, 2, 1]), bytes([255, 255, 255, 255]), bytes([10, 0, 0, 0]), bytes([224, 0, 0, 1])]
        return _distinct(n, [bytes(m), b"\xff" * m, bytes((i + 1) & 0xff for i in range(m)), b"\xf6" * m] + special, lambda v: v)
    if k == "unit":
        return [()]
    if k == "opt":
        inner = boundary_values(n[1], full)
        return [None] + [("S", v) for v in inner if not (n[1][0] == "opt" and v is None)]
    if k in LISTY:
        el = boundary_values(n[1], False)
        out = [[]]
        out += [[v] for v in el[:40]]
        out.append(list(el))                                   # every element boundary in one collection
        for m in LEN_EDGES[1:]:
            out.append(_fill(n[1], m, [] if k in ("set", "uset") else el))
        if k == "ubag":
            out.append([el[0]] * 3 + el[:2])                   # duplicates are legal in a BinaryHeap
        if k not in ("set", "uset") and (n[1][0] in LISTY or n[1][0] in ("map", "umap", "str", "bytes", "opt", "unit")):
            # long runs of EMPTY / nil elements: whatever a decoder counts per container opened must not add up
            e = simple_value(n[1])
            out += [[e] * 127, [e] * 128, [e] * 129, [e] * 300, [e] * 127 + el[:3] + [e] * 130]
        return [x for x in (normalise_list(n, v) for v in out)]
    if k == "arr":
        el = boundary_values(n[2], False)
        m = n[1]
        if m == 0:
            return [[]]
        out = []
        for i in range(0, len(el), m):
            chunk = el[i:i + m]
            out.append(chunk + [simple_value(n[2])] * (m - len(chunk)))
        return out
    if k in ("tup", "fields"):
        base = [simple_value(t) for t in n[1]]
        out = [list(base)]
        for i, t in enumerate(n[1]):
            for v in boundary_values(t, False)[:60]:
                x = list(base); x[i] = v
                out.append(x)
        # all components at a boundary together
        bs = [boundary_values(t, False) for t in n[1]]
        for j in range(max(len(b) for b in bs) if bs else 0):
            out.append([b[j % len(b)] for b in bs])
        return out
    if k in ("map", "umap"):
        ks = boundary_values(n[1], False)
        vs = boundary_values(n[2], False)
        out = [[]]
        out += [[(a, vs[i % len(vs)])] for i, a in enumerate(ks[:40])]
        out += [[(ks[i % len(ks)], b)] for i, b in enumerate(vs[:40])]
        out.append([(a, vs[i % len(vs)]) for i, a in enumerate(ks)])
        for m in LEN_EDGES[1:]:
            keys = _fill(n[1], m, [])
            out.append([(a, vs[i % len(vs)] if m < 30 else simple_value(n[2])) for i, a in enumerate(keys)])
        return [normalise_map(n, e) for e in out]
    if k == "duration":
        return [[s, ns] for s in CORE_U for ns in NANOS_B]
    if k == "systime":
        return [[s, ns] for s in CORE_U if s < 2**63 for ns in NANOS_B]
    if k == "enum":
        out = []
        for i, t in enumerate(n[1]):
            out += [("V", i, v) for v in boundary_values(t, False)]
        return out
    if k == "bound":
        inner = boundary_values(n[1], False)
        return [("V", 0, v) for v in inner] + [("V", 1, v) for v in inner] + [("V", 2, ())]
    if k == "tagged":
        return boundary_values(n[2], full)
    raise ValueError(k)


# ----------------------------------------------------------------------------- the registry (from `hcore tlist`)

class RType:
    def __init__(self, name, desc, gdesc, flags):
        self.name, self.desc_s, self.gdesc_s = name, desc, gdesc
        self.desc, self.gdesc = parse_desc(desc), parse_desc(gdesc)
        self.flags = set() if flags == "-" else set(flags.split(","))
    @property
    def enconly(self):
        return "enconly" in self.flags


def load_registry(binary):
    out = subprocess.run([binary, "tlist"], stdout=subprocess.PIPE, text=True, check=True).stdout
    reg = []
    for line in out.splitlines():
        w = line.split(" ")
        if len(w) >= 2:
            reg.append(RType(w[0], w[1], w[2] if len(w) > 2 else w[1], w[3] if len(w) > 3 else "-"))
    return reg


def values_for(rng, rt, n_random, max_boundary=None):
    """boundary + random values of a registered type, de-duplicated by text, as (value, text) pairs."""
    vals = boundary_values(rt.gdesc, True)
    if max_boundary is not None and len(vals) > max_boundary:
        keep = vals[:max_boundary // 2]
        rest = vals[max_boundary // 2:]
        keep += rng.sample(rest, max_boundary - len(keep))
        vals = keep
    vals = vals + [gen_value(rng, rt.gdesc) for _ in range(n_random)]
    seen, out = set(), []
    for v in vals:
        t = show_value(rt.gdesc, v)
        if t not in seen:
            seen.add(t); out.append((v, t))
    return out


# ----------------------------------------------------------------------------- CBOR item walker + mutators

class Item:
    __slots__ = ("start", "hend", "end", "major", "ai", "arg", "kids", "indef")
    def __repr__(self):
        return f"Item({self.major},{self.arg},{self.start}:{self.hend}:{self.end})"


def walk(b, pos=0):
    """Parse one well-formed item of b at pos into an Item tree (None if not well-formed)."""
    try:
        return _walk(b, pos)
    except (IndexError, ValueError):
        return None


def _walk(b, pos):
    it = Item()
    it.start = pos
    ib = b[pos]
    it.major, it.ai = ib >> 5, ib & 31
    it.indef = False
    it.kids = []
    if it.ai < 24:
        it.arg, it.hend = it.ai, pos + 1
    elif it.ai < 28:
        w = 1 << (it.ai - 24)
        if pos + 1 + w > len(b):
            raise IndexError
        it.arg, it.hend = int.from_bytes(b[pos + 1:pos + 1 + w], "big"), pos + 1 + w
    elif it.ai == 31 and it.major in (2, 3, 4, 5):
        it.arg, it.hend, it.indef = None, pos + 1, True
    else:
        raise ValueError("reserved")
    p = it.hend
    if it.indef:
        while b[p] != 0xff:
            k = _walk(b, p); it.kids.append(k); p = k.end
        it.end = p + 1
    elif it.major in (2, 3):
        if p + it.arg > len(b):
            raise IndexError
        it.end = p + it.arg
    elif it.major == 4:
        for _ in range(it.arg):
            k = _walk(b, p); it.kids.append(k); p = k.end
        it.end = p
    elif it.major == 5:
        for _ in range(2 * it.arg):
            k = _walk(b, p); it.kids.append(k); p = k.end
        it.end = p
    elif it.major == 6:
        k = _walk(b, p); it.kids.append(k); it.end = k.end
    else:
        it.end = p
    return it


def all_items(it):
    out = [it]
    for k in it.kids:
        out += all_items(k)
    return out


def mutate(rng, b, per_kind=2):
    """Mutations of the valid encoding b.  Returns a list of (kind, bytes); kind 'prefix' = strict prefix,
    'widen' = same data item with one non-preferred (wider) head, the others change the structure."""
    out = []
    root = walk(b)
    if root is None or root.end != len(b):
        return out
    items = all_items(root)
    pick = lambda xs: rng.sample(xs, min(per_kind, len(xs)))
    # widen a head (majors 0..6 only; major 7 heads are the value itself)
    cands = [i for i in items if i.major < 7 and not i.indef and i.ai < 27]
    for i in pick(cands):
        cur = {0: 0, 24: 1, 25: 2, 26: 4}[i.ai if i.ai >= 24 else 0]
        w = rng.choice([x for x in (1, 2, 4, 8) if x > cur])
        out.append(("widen", b[:i.start] + gen.head(i.major, i.arg, w) + b[i.hend:]))
    # bump a length / count / argument
    cands = [i for i in items if i.major in (2, 3, 4, 5) and not i.indef]
    for i in pick(cands):
        for d in (1, -1):
            a = i.arg + d
            if a >= 0:
                out.append(("bump", b[:i.start] + gen.head(i.major, a) + b[i.hend:]))
    for i in pick(cands):
        out.append(("huge", b[:i.start] + gen.head(i.major, rng.choice([2**32 - 1, 2**63, 2**64 - 1]), 8) + b[i.hend:]))
    # definite -> indefinite
    for i in pick([i for i in items if i.major in (4, 5) and not i.indef]):
        out.append(("indef", b[:i.start] + bytes([i.major * 32 + 31]) + b[i.hend:i.end] + b"\xff" + b[i.end:]))
    for i in pick([i for i in items if i.major in (2, 3) and not i.indef]):
        body = b[i.hend:i.end]
        cut = rng.randint(0, len(body))
        chunks = [body] if rng.random() < 0.5 else [body[:cut], body[cut:]]
        enc = b"".join(gen.head(i.major, len(c)) + c for c in chunks)
        out.append(("indef", b[:i.start] + bytes([i.major * 32 + 31]) + enc + b"\xff" + b[i.end:]))
    # swap a major type
    for i in pick(items):
        m = rng.choice([x for x in range(8) if x != i.major])
        out.append(("major", b[:i.start] + bytes([(m << 5) | (b[i.start] & 31)]) + b[i.start + 1:]))
    # insert a break at an item boundary, replace an item by null / undefined / break
    for i in pick(items):
        out.append(("break", b[:i.start] + b"\xff" + b[i.start:]))
    for i in pick(items):
        out.append(("subst", b[:i.start] + bytes([rng.choice([0xf6, 0xf7, 0xff, 0x00, 0x80, 0xa0, 0x40, 0x60, 0xf8, 0x1c])]) + b[i.end:]))
    # … or by a float: 2^64 (the first value a u64 cannot hold), 2^63, infinities, NaN, -0.0, in all three widths
    for i in pick(items):
        f = rng.choice(["fa5f800000", "fb43f0000000000000", "fa5f000000", "fb43e0000000000000", "f97c00", "f9fc00", "f97e00", "fa7f800000", "fa80000000",
                        "fb7ff0000000000000", "fb7ff8000000000000", "fa4f800000", "fb41f0000000000000", "f93c00", "fb3ff0000000000000"])
        out.append(("subst", b[:i.start] + bytes.fromhex(f) + b[i.end:]))
        if i is root:
            for f2 in ("fa5f800000", "fb43f0000000000000", "fb7ff0000000000000", "f97e00"):
                out.append(("subst", bytes.fromhex(f2)))
    # replace an integer item by a boundary value at the 8-byte width (the typed position stays an integer)
    for i in pick([i for i in items if i.major in (0, 1) and not i.indef]):
        for v in (2**63 - 1, 2**63, 2**64 - 1, 2**32, 2**31):
            out.append(("intsubst", b[:i.start] + gen.head(i.major, v, 8) + b[i.hend:]))
            out.append(("intsubst", b[:i.start] + gen.head(1 - i.major, v, 8) + b[i.hend:]))
    # a tag in front of the whole item: the self-described tag 55799 (d9 d9 f7, and at the 4-byte width), another registered one, a small one
    for t, w in ((55799, None), (55799, 4), (rng.choice([0, 1, 24, 32, 55800]), None)):
        out.append(("tagged", gen.head(6, t, w) + b))
    # flip one random bit / append a byte
    p = rng.randrange(len(b))
    out.append(("bitflip", b[:p] + bytes([b[p] ^ (1 << rng.randrange(8))]) + b[p + 1:]))
    out.append(("append", b + bytes([rng.getrandbits(8)])))
    return out


def prefixes(b, limit=None, rng=None):
    """Every strict prefix of b (a sample of `limit` of them, always including the shortest and longest, if given)."""
    idx = list(range(len(b)))
    if limit is not None and len(idx) > limit:
        keep = {0, 1, len(b) - 1, len(b) - 2}
        keep |= set(rng.sample(idx, limit - 4)) if rng else set(idx[:limit - 4])
        idx = sorted(i for i in keep if 0 <= i < len(b))
    return [b[:i] for i in idx]


# ----------------------------------------------------------------------------- tokens (C07 token part)

def half_to_f32_bits(h):
    """f32 bit pattern `Decoder::f16` returns for the half pattern h (checked against the implementation for all 65536
    patterns): exact widening; a signalling NaN comes back quieted, as in the `half` crate / IEEE 754 convertFormat."""
    s, e, m = (h >> 15) & 1, (h >> 10) & 31, h & 0x3ff
    if e == 0:
        if m == 0:
            return s << 31
        sh = 0
        while not (m & 0x400):
            m <<= 1; sh += 1
        return (s << 31) | ((113 - sh) << 23) | ((m & 0x3ff) << 13)
    if e == 31:
        return (s << 31) | (0xff << 23) | (m << 13) | (0x00400000 if m else 0)
    return (s << 31) | ((e + 112) << 23) | (m << 13)


NULLARY_TOKENS = ["break", "null", "undefined", "beginbytes", "beginstring", "beginarray", "beginmap"]
TOKEN_INT = {"u8": "u8", "u16": "u16", "u32": "u32", "u64": "u64", "i8": "i8", "i16": "i16", "i32": "i32", "i64": "i64", "int": "int"}
HALF_B = [0x0000, 0x8000, 0x0001, 0x03ff, 0x0400, 0x3c00, 0xbc00, 0x7bff, 0x7c00, 0xfc00, 0x7e00, 0x7c01, 0xffff]


def boundary_tokens(lossy_f16=True):
    """every Token variant at its boundary payloads; lossy_f16=False leaves out F16 payloads that are not the image of a half
    (the encoder is documented as lossy for them)."""
    out = ["bool:T", "bool:F"] + list(NULLARY_TOKENS)
    for k in TOKEN_INT:
        out += [f"{k}:{v}" for v in int_boundaries(k, True)]
    for k in ("array", "map", "tag"):
        out += [f"{k}:{v}" for v in int_boundaries("u64", True)]
    out += [f"simple:{v}" for v in range(256)]
    out += [f"f16:x{half_to_f32_bits(h):08x}" for h in HALF_B]
    if lossy_f16:
        out += [f"f16:x{b:08x}" for b in F32_SPECIAL]            # not all half-representable: the encoder rounds, len stays 3
    out += [f"f32:x{b:08x}" for b in F32_SPECIAL]
    out += [f"f64:x{b:016x}" for b in F64_SPECIAL]
    for m in list(range(0, 301)) + [65535, 65536]:
        out.append("bytes:h" + _hx(bytes((i * 5 + m) & 0xff for i in range(m))))
    for v in boundary_values(("str",), True):
        out.append("string:s" + _hx(v))
    return out


def rand_token(rng):
    r = rng.randrange(26)
    if r < 9:
        k = list(TOKEN_INT)[r]
        return f"{k}:{rand_int(rng, k)}"
    if r == 9:
        return "bool:" + rng.choice("TF")
    if r == 10:
        return f"f16:x{half_to_f32_bits(rng.getrandbits(16)):08x}"
    if r == 11:
        return f"f32:x{rng.getrandbits(32):08x}"
    if r == 12:
        return f"f64:x{rng.getrandbits(64):016x}"
    if r == 13:
        return "bytes:h" + _hx(gen.rand_bytes(rng, rng.choice([rng.randint(0, 30), rng.randint(0, 300)])))
    if r == 14:
        return "string:s" + _hx(gen.rand_text(rng, rng.choice([12, 100])).encode())
    if r in (15, 16, 17):
        return f"{['array', 'map', 'tag'][r - 15]}:{rand_int(rng, 'u64')}"
    if r == 18:
        return f"simple:{rng.randrange(256)}"
    return NULLARY_TOKENS[r - 19]


def token_kind(tok):
    return tok.split(":", 1)[0]


def same_token(a, b):
    """Token equality as C01 states it: integer tokens by numeric value, everything else (floats bitwise) literally."""
    ka, kb = token_kind(a), token_kind(b)
    if ka in TOKEN_INT and kb in TOKEN_INT:
        return int(a.split(":")[1]) == int(b.split(":")[1])
    return a == b
