"""Prints the Lean theorem modules and cargo packages needed by the checks claimed in MANIFEST.json."""
import importlib, json, os, sys
ROOT = os.path.dirname(os.path.dirname(os.path.abspath(__file__)))
sys.path.insert(0, ROOT)
m = json.load(open(os.path.join(ROOT, "MANIFEST.json")))
mods = []
for c in m["checks"]:
    try:
        p = importlib.import_module("verifkit.props." + c["property_id"])
    except Exception as e:
        print("skip", c["property_id"], e, file=sys.stderr); continue
    for t in p.THM_MODULES:
        if t not in mods: mods.append(t)
print(" ".join(mods))
