"""Orchestration of one property check: build + audit the Lean theorems, build the Rust
harness against /repo's working tree, run the correspondence streams, judge, shrink,
write evidence and replays.  Python stdlib only."""
import fcntl, importlib, json, os, re, subprocess, sys, time, random, hashlib

ROOT = os.path.dirname(os.path.dirname(os.path.abspath(__file__)))
LEAN = os.path.join(ROOT, "lean")
HARNESS = os.path.join(ROOT, "harness")
WORK = os.path.join(ROOT, "work")
MCDRV = os.path.join(LEAN, ".lake", "build", "bin", "mcdrv")
ALLOWED_AXIOMS = {"propext", "Classical.choice", "Quot.sound"}
FORBIDDEN = re.compile(r"\bsorry\b|\badmit\b|^\s*axiom\s|native_decide|bv_decide|implemented_by|\bunsafe\s|maxHeartbeats\s+0\b", re.M)
ENV = dict(os.environ, CARGO_NET_OFFLINE="true")
# Development aid only (seeded-change experiments without touching /repo): VERIF_REPO=<worktree> makes every
# cargo build use that checkout instead of /repo (cargo `paths` override) and a separate target dir.
# The registered checks never set it.
REPO_OVERRIDE = os.environ.get("VERIF_REPO")


def cargo_extra_args(default_target=None):
    """extra cargo arguments implementing VERIF_REPO; `default_target` is the target dir otherwise used."""
    if not REPO_OVERRIDE:
        return ["--target-dir", default_target] if default_target else []
    tag = hashlib.sha1(REPO_OVERRIDE.encode()).hexdigest()[:8]
    crates = ["minicbor", "minicbor-derive", "minicbor-io", "minicbor-serde"]
    paths = ",".join('"%s/%s"' % (REPO_OVERRIDE, c) for c in crates)
    tdir = (default_target or os.path.join(HARNESS, "target")) + "-override-" + tag
    return ["--config", f"paths=[{paths}]", "--target-dir", tdir]


def target_dir(default_target):
    if not REPO_OVERRIDE:
        return default_target
    return default_target + "-override-" + hashlib.sha1(REPO_OVERRIDE.encode()).hexdigest()[:8]

TRUSTED_BASE = [
    "Lean 4.33.0 kernel (leanchecker re-check in the thorough tier)",
    "axioms allowed: propext, Classical.choice, Quot.sound (audited per theorem with #print axioms); no native_decide / bv_decide / sorry",
    "the hand-written Lean model of the code (lean/Minicbor/*.lean), tied to /repo only by the differential correspondence run of this check",
    "the Rust harness (harness/), the mcdrv driver (lean/Main.lean, lean/Minicbor/Drv) and this orchestrator",
    "rustc/core/std semantics, the half crate, serde: modelled, not verified",
]


def log(*a):
    print(*a, file=sys.stderr, flush=True)


class Lock:
    def __init__(self, name):
        os.makedirs(WORK, exist_ok=True)
        self.path = os.path.join(WORK, name)
    def __enter__(self):
        self.f = open(self.path, "w")
        fcntl.flock(self.f, fcntl.LOCK_EX)
    def __exit__(self, *a):
        fcntl.flock(self.f, fcntl.LOCK_UN)
        self.f.close()


def sh(cmd, cwd=None, timeout=None):
    p = subprocess.run(cmd, cwd=cwd, env=ENV, stdout=subprocess.PIPE, stderr=subprocess.STDOUT, text=True, timeout=timeout)
    return p.returncode, p.stdout


# ----------------------------------------------------------------------------- Lean side

def strip_comments(src):
    out, i, depth = [], 0, 0
    while i < len(src):
        if src.startswith("/-", i):
            depth += 1; i += 2; continue
        if depth and src.startswith("-/", i):
            depth -= 1; i += 2; continue
        if depth:
            i += 1; continue
        if src.startswith("--", i):
            j = src.find("\n", i)
            i = len(src) if j < 0 else j
            continue
        out.append(src[i]); i += 1
    return "".join(out)


def import_closure(modules):
    """Lean source files reachable through `import Minicbor…` / `import Main` from the given modules."""
    seen, todo = {}, list(modules)
    while todo:
        m = todo.pop()
        if m in seen:
            continue
        path = os.path.join(LEAN, *m.split(".")) + ".lean"
        if not os.path.exists(path):
            continue
        src = open(path).read()
        seen[m] = (path, src)
        for im in re.findall(r"^\s*import\s+([A-Za-z0-9_.]+)", src, re.M):
            if im.startswith("Minicbor") or im == "Main":
                todo.append(im)
    return seen


def forbidden_tokens(modules):
    """sorry / axiom / native_decide … in any source file the property's theorems or the driver depend on."""
    hits = []
    for m, (p, src) in sorted(import_closure(list(modules) + ["Main"]).items()):
        for mt in FORBIDDEN.finditer(strip_comments(src)):
            hits.append(f"{os.path.relpath(p, LEAN)}: {mt.group(0).strip()}")
    return hits


def lean_build(targets):
    with Lock("lean.lock"):
        rc, out = sh(["lake", "build"] + targets, cwd=LEAN, timeout=3600)
    return rc, out


def audit(thm_modules, theorems, tag):
    """#print axioms for every required theorem; returns {name: (ok, detail)}."""
    os.makedirs(WORK, exist_ok=True)
    path = os.path.join(WORK, f"Audit_{tag}_{os.getpid()}.lean")      # per process: two runs of one property must not share the file
    with open(path, "w") as f:
        for m in thm_modules:
            f.write(f"import {m}\n")
        for t in theorems:
            f.write(f"#print axioms {t}\n")
    with Lock("lean.lock"):                                             # no `lake build` of another run may rewrite the .olean files meanwhile
        rc, out = sh(["lake", "env", "lean", path], cwd=LEAN, timeout=1800)
    try:
        os.remove(path)
    except OSError:
        pass
    res = {}
    text = out.replace("\n  ", " ")
    for t in theorems:
        m = re.search(r"'" + re.escape(t) + r"' depends on axioms: \[([^\]]*)\]", text)
        if m:
            ax = {a.strip() for a in m.group(1).replace("\n", " ").split(",") if a.strip()}
            bad = ax - ALLOWED_AXIOMS
            res[t] = (not bad, "axioms: " + ", ".join(sorted(ax)))
        elif re.search(r"'" + re.escape(t) + r"' does not depend on any axioms", text):
            res[t] = (True, "axioms: none")
        else:
            res[t] = (False, "not found / does not elaborate")
    return res, out


# ----------------------------------------------------------------------------- Rust side

def cargo_lock(name="cargo.lock"):
    """one build at a time per target directory (a VERIF_REPO run has target directories of its own)"""
    if not REPO_OVERRIDE:
        return Lock(name)
    return Lock(name[:-5] + "-" + hashlib.sha1(REPO_OVERRIDE.encode()).hexdigest()[:8] + ".lock")


def cargo_build(packages):
    with cargo_lock():
        lock = os.path.join(HARNESS, "Cargo.lock")
        if not os.path.exists(lock):
            import shutil; shutil.copy("/repo/Cargo.lock", lock)
        cmd = ["cargo", "build", "--release", "--offline"] + cargo_extra_args()
        for p in packages:
            if "@" not in p:
                cmd += ["-p", p]
        rc, out = sh(cmd, cwd=HARNESS, timeout=3600)
        dbg = [p.split("@")[0] for p in packages if p.endswith("@dbg")]
        if rc == 0 and dbg:
            # the same crates once more with debug assertions on (profile `dbg` of harness/Cargo.toml): code under
            # `debug_assert!` / `cfg!(debug_assertions)` in /repo is part of what a user's `cargo test` / `cargo run` executes
            cmd = ["cargo", "build", "--profile", "dbg", "--offline"] + cargo_extra_args()
            for p in dbg:
                cmd += ["-p", p]
            rc, out = sh(cmd, cwd=HARNESS, timeout=3600)
    return rc, out


def debug_twins(streams, names=None):
    """`streams` plus, for each one named in `names` (all when None), the same stream run on the debug-assertions build of its
    binary: same operations, same model answers, same judge."""
    import copy
    def gen():
        for st in streams:
            yield st
            if isinstance(st, Stream) and (names is None or st.name in names) and st.binary in DBG_BINARIES:
                tw = copy.copy(st)
                tw.name = st.name + "-debug-assertions-build"; tw.binary = "dbg/" + st.binary
                tw.twin_of = st                 # same model operations: the model's answers are taken from the first run
                yield tw
    return gen() if hasattr(streams, "send") else list(gen())


DBG_BINARIES = ("hcore", "hio", "hserde")


def harness_bin(name):
    if name.startswith("/"):
        return name
    if "/" in name:             # "<profile>/<binary>", e.g. dbg/hcore: the same crate built with debug assertions
        return os.path.join(target_dir(os.path.join(HARNESS, "target")), name)
    return os.path.join(target_dir(os.path.join(HARNESS, "target")), "release", name)


def run_lines(binary, lines, extra_args=(), timeout=3600, max_crashes=200):
    """Feed `lines` to `binary` on stdin; one output line per input line.  If the process dies part-way
    (abort, stack overflow, allocation failure) the line it died on is reported as `crash rc=<n>` and the
    rest is fed to a fresh process (iteratively; after `max_crashes` deaths the remainder is `crash-skipped`)."""
    res = []
    rest = list(lines)
    crashes = 0
    while rest:
        data = "\n".join(rest) + "\n"
        try:
            p = subprocess.run([binary, *extra_args], input=data, stdout=subprocess.PIPE, stderr=subprocess.PIPE, text=True,
                               env=ENV, timeout=timeout)
            out, rc = p.stdout.split("\n"), p.returncode
        except subprocess.TimeoutExpired as e:
            out, rc = ((e.stdout or b"").decode("utf8", "replace") if isinstance(e.stdout, bytes) else (e.stdout or "")).split("\n"), -9
        if out and out[-1] == "":
            out.pop()
        if rc == 0 and len(out) == len(rest):
            res += out
            break
        k = min(len(out), len(rest))
        res += out[:k]
        if k >= len(rest):
            break
        rest = rest[k:]
        # the process died somewhere at or after line k (its output is block-buffered, so the lines answered but not yet
        # flushed are lost): find the operation that kills it by feeding the next lines one at a time, each to a fresh process
        j = 0
        while j < len(rest) and j < 2000:
            try:
                q = subprocess.run([binary, *extra_args], input=rest[j] + "\n", stdout=subprocess.PIPE, stderr=subprocess.PIPE, text=True,
                                   env=ENV, timeout=300)
                o1, rc1 = q.stdout.split("\n"), q.returncode
            except subprocess.TimeoutExpired:
                o1, rc1 = [], -9
            if o1 and o1[-1] == "":
                o1.pop()
            if rc1 == 0 and len(o1) == 1:
                res.append(o1[0]); j += 1
                continue
            rc = rc1
            break
        if j >= len(rest) or j >= 2000:
            # no single line reproduces the death (it depends on what the process did before): blame the first line that
            # was not answered, as a process-level failure, and go on after it
            res = res[:len(res) - j]
            j = 0
        res.append(f"crash rc={rc}")
        rest = rest[j + 1:]
        crashes += 1
        if crashes >= max_crashes:
            res += ["crash-skipped"] * len(rest)
            break
    return res


# ----------------------------------------------------------------------------- streams

class Stream:
    """A correspondence stream.
    ops        : operation lines given to the harness binary (`impl`)
    model_ops  : lines for mcdrv (default: ops)
    spec_ops   : optional lines for mcdrv computing the independent specification
    judge      : (op, impl, model, spec) -> 'ok' | 'violation' | 'corr' | ('known', id)
    canon      : optional canonicaliser applied to impl and model lines before judging
    nontrivial : (op, impl) -> bool, what counts as a non-trivial case
    """
    def __init__(self, name, binary, ops, model_ops=None, spec_ops=None, judge=None, canon=None,
                 nontrivial=None, impl_args=(), rule=""):
        self.name, self.binary, self.ops = name, binary, ops
        self.model_ops = model_ops if model_ops is not None else ops
        self.spec_ops = spec_ops
        self.judge = judge or default_judge
        self.canon = canon
        self.nontrivial = nontrivial or (lambda op, impl: not impl.startswith("bad-op"))
        self.impl_args = impl_args
        self.rule = rule


def default_judge(op, impl, model, spec):
    return "ok" if impl == model else "violation"


def kind_of(line):
    w = line.split(" ")
    if w[0] == "err" and len(w) > 1:
        return "err:" + w[1]
    if w[0] in ("ok", "panic", "bad-op", "crash"):
        return w[0]
    return "value"


def eval_stream(st, ops=None, model_ops=None, spec_ops=None):
    ops = st.ops if ops is None else ops
    model_ops = st.model_ops if model_ops is None else model_ops
    spec_ops = st.spec_ops if spec_ops is None else spec_ops
    impl = run_lines(harness_bin(st.binary), ops, st.impl_args)
    src = getattr(st, "twin_of", None)
    if src is not None and getattr(src, "_model_raw", None) is not None and model_ops is src.model_ops and spec_ops is src.spec_ops and len(src._model_raw[0]) == len(ops):
        model, spec = list(src._model_raw[0]), list(src._model_raw[1])
    else:
        model = run_lines(MCDRV, model_ops)
        spec = run_lines(MCDRV, spec_ops) if spec_ops else [None] * len(ops)
        if ops is st.ops:
            st._model_raw = (list(model), list(spec))
    if st.canon:
        impl = [st.canon(o, x) for o, x in zip(ops, impl)]
        model = [st.canon(o, x) for o, x in zip(ops, model)]
    return impl, model, spec


# ----------------------------------------------------------------------------- shrinking

HEXTOK = re.compile(r"^(?:[0-9a-f]{2})+$")
DECTOK = re.compile(r"^-?[0-9]+$")


def shrink_candidates(op):
    w = op.split(" ")
    out = []
    for i, t in enumerate(w):
        if i == 0:
            continue
        if HEXTOK.match(t) and len(t) > 2:
            n = len(t) // 2
            for cut in (n // 2, 1):
                if cut <= 0:
                    continue
                for start in range(0, n, cut):
                    s = t[:2 * start] + t[2 * (start + cut):]
                    if s:
                        out.append(" ".join(w[:i] + [s] + w[i + 1:]))
        elif DECTOK.match(t) and len(t) < 30:
            v = int(t)
            for c in {v // 2, v - 1 if v > 0 else v + 1, 0}:
                if c != v and abs(c) < abs(v):
                    out.append(" ".join(w[:i] + [str(c)] + w[i + 1:]))
    seen, res = set(), []
    for c in out:
        if c not in seen:
            seen.add(c); res.append(c)
    return res[:200]


def shrink(st, op, verdict_kind, map_model=None, map_spec=None, rounds=25):
    """Greedy delta-debugging of one failing op (only when model/spec ops derive from op)."""
    if map_model is None and st.model_ops is not st.ops:
        return op
    cur = op
    for _ in range(rounds):
        cands = shrink_candidates(cur)
        if not cands:
            break
        mops = cands if map_model is None else [map_model(c) for c in cands]
        sops = None
        if st.spec_ops is not None:
            if map_spec is None:
                break
            sops = [map_spec(c) for c in cands]
        try:
            impl, model, spec = eval_stream(st, cands, mops, sops)
        except Exception:
            break
        nxt = None
        for c, i, m, s in zip(cands, impl, model, spec):
            if "bad-op" in (i, m):
                continue
            v = st.judge(c, i, m, s)
            if v == verdict_kind:
                nxt = c; break
        if nxt is None:
            break
        cur = nxt
    return cur


# ----------------------------------------------------------------------------- known findings

def load_known():
    p = os.path.join(ROOT, "known_findings.json")
    if not os.path.exists(p):
        return []
    return json.load(open(p))["findings"]


# ----------------------------------------------------------------------------- main entry

def write_replay(pid, name, payload):
    d = os.path.join(WORK, "replays-override", pid) if REPO_OVERRIDE else os.path.join(ROOT, "replays", pid)
    os.makedirs(d, exist_ok=True)
    h = hashlib.sha1(json.dumps(payload, sort_keys=True).encode()).hexdigest()[:10]
    p = os.path.join(d, f"{name}-{h}.json")
    json.dump(payload, open(p, "w"), indent=1)
    return p


def check(pid, tier, seed, replay=None):
    t0 = time.time()
    mod = importlib.import_module(f"verifkit.props.{pid}")
    rp = json.load(open(replay)) if replay else None
    if rp is not None:
        seed, tier = int(rp.get("seed", seed)), rp.get("tier", tier)
    violations = []     # (replay_path, no_input_found)
    known_lines = []
    notes = []

    # ---- 1. theorems
    rc, out = lean_build(list(mod.THM_MODULES) + ["mcdrv"])
    build_ok = rc == 0
    if not build_ok:
        log(out[-4000:])
    theorems = list(mod.REQUIRED)
    if build_ok:
        res, aout = audit(mod.THM_MODULES, theorems, pid)
    else:
        # find which modules still build, to name the broken obligations precisely
        res = {t: (False, "theorem module does not build") for t in theorems}
        aout = out
    hits = forbidden_tokens(mod.THM_MODULES)
    discharged = sum(1 for t in theorems if res[t][0]) if not hits else 0
    failed = [t for t in theorems if not res[t][0]]
    if hits:
        notes.append("forbidden tokens: " + "; ".join(hits))
    leanchecker = None
    if tier == "thorough" and build_ok:
        lrc, lout = 0, ""
        for m in mod.THM_MODULES:
            r, o = sh(["lake", "env", "leanchecker", m], cwd=LEAN, timeout=3600)
            lrc |= r; lout += o
        leanchecker = (lrc == 0)
        if lrc != 0:
            failed.append("leanchecker"); notes.append("leanchecker: " + lout[-500:])

    # ---- 2. harness
    pkgs = sorted({p for p in getattr(mod, "PACKAGES", ["hcore"])})
    twins = getattr(mod, "DEBUG_TWINS", None)
    if twins:
        # the streams are run on two builds of the harness binaries: optimised without debug assertions (what `cargo build --release`
        # gives a user) and the same with debug assertions on (what `debug_assert!` / `cfg!(debug_assertions)` in /repo do in `cargo test` / `cargo run`)
        pkgs = sorted(set(pkgs) | {p + "@dbg" for p in pkgs if p in DBG_BINARIES})
    if hasattr(mod, "prepare"):
        try:
            mod.prepare(seed, tier)
        except (Exception, SystemExit) as ex:
            # a crate the check has to build per configuration / generate does not build against this tree (e.g. the library no longer
            # compiles without `alloc`): the property is no longer shown to hold; say so instead of dying without a verdict
            log(f"preparation failed: {ex}")
            payload = {"property": pid, "kind": "harness-build-failure", "output": str(ex)[-3000:]}
            p = write_replay(pid, "build", payload)
            print(f"VIOLATION property={pid} replay={p} no-failing-input-found")
            write_evidence(pid, tier, seed, mod, theorems, 0, [], {}, t0, 1, notes + ["preparation of the harness failed"], leanchecker)
            return 1
    rc, out = cargo_build(pkgs)
    build_note = None
    tries = 0
    while rc != 0 and hasattr(mod, "on_build_failure") and tries < 6:
        # a generated crate that no longer compiles against /repo (a macro regression that only some of the generated
        # definitions hit): the property module may take the failing definitions out, so that the rest can still be
        # run and, where the regression also changes bytes or values, yield a concrete failing input
        tries += 1
        what = mod.on_build_failure(out)
        if not what:
            break
        build_note = (build_note + "; " if build_note else "") + what
        rc, out = cargo_build(pkgs)
    if rc == 0 and build_note:
        log("harness build failed at first: " + build_note)
        payload = {"property": pid, "kind": "harness-build-failure-partial", "note": build_note}
        p = write_replay(pid, "build", payload)
        print(f"VIOLATION property={pid} replay={p} no-failing-input-found")
        notes = notes + ["generated definitions no longer compile against /repo: " + build_note]
        violations_pre = 1
    else:
        violations_pre = 0
    if rc != 0:
        log(out[-6000:])
        log("harness build failed: /repo does not compile against the harness")
        payload = {"property": pid, "kind": "harness-build-failure", "output": out[-3000:]}
        p = write_replay(pid, "build", payload)
        print(f"VIOLATION property={pid} replay={p} no-failing-input-found")
        write_evidence(pid, tier, seed, mod, theorems, 0, [], {}, t0, 1, notes + ["harness build failed"], leanchecker)
        return 1
    if not os.path.exists(MCDRV):
        log("mcdrv missing (Lean build failed)")

    # ---- 3. correspondence
    rng = random.Random(seed)
    known = [k for k in load_known() if k["property"] == pid and k["kind"] == "known"]
    total = 0; nontriv = set(); kinds = {}; samples = []; stream_stats = {}
    disagreements = 0
    streams = mod.streams(rng, tier)
    if twins:
        streams = debug_twins(streams, None if twins is True else twins)
    if rp is not None and rp.get("kind") in ("proof-obligation", "harness-build-failure"):
        streams = []        # nothing to re-run: the theorem audit / harness build above is the replay
    found = rp is None
    def all_streams():
        nonlocal found
        yield from ((st, True) for st in streams)
        if not found and hasattr(mod, "replay_streams"):
            # the recorded operation depends on what the implementation answered at the time (e.g. "decode your own
            # bytes"): fall back to the property's own replay stream built from the recorded operation
            found = True
            yield from ((st, False) for st in mod.replay_streams(rp))
    for st, restrict in all_streams():
        ts = time.time()
        if rp is not None and restrict:
            # replay: regenerate the streams of the recorded seed/tier, run the prerequisites of generator-style
            # stream sequences, and restrict the recorded stream to the recorded operation (same judge as the original run)
            if st.name != rp.get("stream"):
                if hasattr(streams, "send"):
                    impl, model, spec = eval_stream(st)
                    st.impl_results, st.model_results = impl, model
                continue
            want = rp.get("original_op") or rp.get("op")
            idxs = [k for k, o in enumerate(st.ops) if o == want][:1]
            if not idxs:
                continue
            found = True
            sel = lambda xs: [xs[k] for k in idxs]
            same = st.model_ops is st.ops
            st.ops = sel(st.ops)
            st.model_ops = st.ops if same else sel(st.model_ops)
            if st.spec_ops is not None:
                st.spec_ops = sel(st.spec_ops)
        impl, model, spec = eval_stream(st)
        st.impl_results, st.model_results = impl, model     # later streams may be derived from these
        if rp is not None:
            for o, i_, m_ in zip(st.ops, impl, model):
                print(f"replay op:    {o}\nreplay impl:  {i_}\nreplay model: {m_}")
        n = len(st.ops)
        total += n
        bad = {}
        for idx in range(n):
            op, i, m, s = st.ops[idx], impl[idx], model[idx], spec[idx]
            k = kind_of(i)
            kinds[k] = kinds.get(k, 0) + 1
            if st.nontrivial(op, i):
                nontriv.add(hash((st.name, op)))
            if i.startswith("crash") or i == "panic":
                v = "violation"      # the real library died or panicked on this op: a failing input for any property
            else:
                v = st.judge(op, i, m, s)
            if v == "corr" and (i.startswith("ok ") or m.startswith("ok ")):
                # model and code disagree on a successful decode (value / position) or on whether there is one:
                # that is an observable every property constrains, so the op is a failing input, not a mere mismatch
                v = "violation"
            if v != "ok":
                bad.setdefault(v if isinstance(v, str) else v, []).append(idx)
        if n:
            for idx in sorted({0, n // 2, n - 1}):
                samples.append({"stream": st.name, "op": st.ops[idx][:300], "impl": impl[idx][:300], "model": model[idx][:300]})
        stream_stats[st.name] = {"ops": n, "wall_s": round(time.time() - ts, 2), "rule": st.rule}
        for v, idxs in bad.items():
            disagreements += len(idxs)
            if isinstance(v, tuple) and v[0] == "known":
                kid = v[1]
                idx = idxs[0]
                known_lines.append((kid, st.ops[idx], impl[idx], len(idxs)))
                continue
            idx = idxs[0]
            op = st.ops[idx]
            small = op
            try:
                if getattr(st, "shrinkable", True) and st.model_ops is st.ops and st.spec_ops is None:
                    small = shrink(st, op, v)
            except Exception as e:
                notes.append(f"shrink failed: {e}")
            si, sm, ss = eval_stream(st, [small], [small] if st.model_ops is st.ops else [st.model_ops[idx]],
                                     [st.spec_ops[idx]] if st.spec_ops else None)
            payload = {"property": pid, "seed": seed, "tier": tier, "stream": st.name, "verdict": v, "op": small, "impl": si[0], "model": sm[0],
                       "spec": ss[0], "original_op": op, "count_in_stream": len(idxs),
                       "more_ops": [st.ops[j] for j in idxs[1:6]],
                       "binary": st.binary, "impl_args": list(st.impl_args),
                       "model_op": small if st.model_ops is st.ops else st.model_ops[idx],
                       "spec_op": (st.spec_ops[idx] if st.spec_ops else None)}
            p = write_replay(pid, st.name, payload)
            violations.append((p, v == "corr"))
            log(f"[{pid}/{st.name}] {v}: op={small[:200]} impl={si[0][:200]} model={sm[0][:200]} spec={ss[0]}")

    # known findings: each listed finding is re-demonstrated on the implementation by the stream's judge
    seen_known = {}
    for kid, op, impl, cnt in known_lines:
        if kid not in seen_known:
            seen_known[kid] = (op, impl, cnt)
    for k in known:
        if k["id"] in seen_known:
            op, impl, cnt = seen_known[k["id"]]
            print(f"KNOWN-FINDING: property={pid} {k['id']} {k['what']} (e.g. `{op[:80]}` -> `{impl[:60]}`; {cnt} case(s) this run)")
        else:
            notes.append(f"known finding {k['id']} did not reproduce in this run")

    # ---- 4. theorem failures are violations without a failing input (unless one was found above)
    rcode = 0
    if failed or hits:
        payload = {"property": pid, "kind": "proof-obligation", "failed": failed, "details": {t: res[t][1] for t in failed if t in res},
                   "forbidden_tokens": hits, "note": "theorem / audit no longer checks; correspondence streams were still run"}
        p = write_replay(pid, "theorem", payload)
        if not any(not ni for _, ni in violations):
            print(f"VIOLATION property={pid} replay={p} no-failing-input-found")
        rcode = 1
    for p, no_input in violations:
        print(f"VIOLATION property={pid} replay={p}" + (" no-failing-input-found" if no_input else ""))
        rcode = 1
    if violations_pre:
        rcode = 1

    if rp is not None:
        if not found:
            print(f"replay: operation of stream {rp.get('stream')!r} was not regenerated for seed {seed} / tier {tier}; cannot replay")
            return 2
        log(f"[{pid}] replay of {replay}: {len(violations)} violation(s) reproduced")
        return rcode
    cov_extra = {"result_kinds": kinds, "streams": stream_stats, "disagreements_checked": disagreements,
                 "theorems": {t: res[t][1] for t in theorems}, "notes": notes, "leanchecker_ok": leanchecker,
                 "known_findings_reproduced": sorted(seen_known)}
    write_evidence(pid, tier, seed, mod, theorems, discharged, samples, cov_extra, t0, len(violations) + (1 if failed or hits else 0),
                   notes, leanchecker, total, len(nontriv))
    log(f"[{pid}] {tier}: {total} ops, {len(nontriv)} distinct non-trivial, {discharged}/{len(theorems)} theorems, "
        f"{len(violations)} violation(s), {time.time() - t0:.1f}s")
    return rcode


def write_evidence(pid, tier, seed, mod, theorems, discharged, samples, extra, t0, nviol, notes, leanchecker,
                   total=0, nontriv=0):
    cov = {
        "obligations": len(theorems),
        "discharged": discharged,
        "checker_cmd": f"cd lean && lake build {' '.join(mod.THM_MODULES)} && lake env lean ../work/Audit_{pid}.lean  (#print axioms of every listed theorem)"
                       + ("; lake env leanchecker " + " ".join(mod.THM_MODULES) if tier == "thorough" else ""),
        "trusted_base": TRUSTED_BASE + list(getattr(mod, "TRUSTED_EXTRA", [])),
        "evaluations": total,
        "distinct_nontrivial": nontriv,
        "rule": getattr(mod, "RULE", ""),
        "samples": samples[:12] if samples else [{"note": "no correspondence run"}],
        "exhaustive": False,
    }
    cov.update(extra)
    ev = {"property_id": pid, "tier": tier, "seed": seed, "level": "proof", "coverage": cov,
          "assumptions": list(getattr(mod, "ASSUMPTIONS", [])), "wall_s": round(time.time() - t0, 2), "violations": nviol}
    # experiments against another checkout (VERIF_REPO) must not overwrite the evidence of the real tree
    edir = os.path.join(WORK, "evidence-override") if REPO_OVERRIDE else os.path.join(ROOT, "evidence")
    os.makedirs(edir, exist_ok=True)
    json.dump(ev, open(os.path.join(edir, f"{pid}.json"), "w"), indent=1)


def main(argv):
    if len(argv) < 2:
        print("usage: check <Cxx> quick|thorough [--replay file]"); return 2
    pid = argv[1]
    tier = os.environ.get("VERIF_TIER") or "quick"
    replay = None
    i = 2
    while i < len(argv):
        if argv[i] in ("quick", "thorough"):
            tier = argv[i]
        elif argv[i] == "--replay":
            replay = argv[i + 1]; i += 1
        i += 1
    seed = int(os.environ.get("VERIF_SEED", "1"))
    sys.path.insert(0, ROOT)
    return check(pid, tier, seed, replay)
