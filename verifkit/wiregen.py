"""Wire trees (well-formed RFC 8949 items as parse trees), their bytes, their data-model value,
and what each Decoder accessor must return on them (the C04/C06/C11/C19 oracles)."""
import struct
from verifkit import gen

# tree nodes are tuples:
# ('uint', w, n) ('nint', w, n) ('bytes', w, b) ('bytesI', [(w,b),...]) ('text', w, b) ('textI', [(w,b),...])
# ('array', w, [items]) ('arrayI', [items]) ('map', w, [k,v,k,v...]) ('mapI', [k,v,...]) ('tag', w, n, item)
# ('simple', n) ('f16', bits) ('f32', bits) ('f64', bits)

def enc(t):
    k = t[0]
    if k == 'uint': return gen.head(0, t[2], t[1])
    if k == 'nint': return gen.head(1, t[2], t[1])
    if k == 'bytes': return gen.head(2, len(t[2]), t[1]) + t[2]
    if k == 'text': return gen.head(3, len(t[2]), t[1]) + t[2]
    if k == 'bytesI': return b'\x5f' + b''.join(gen.head(2, len(b), w) + b for w, b in t[1]) + b'\xff'
    if k == 'textI': return b'\x7f' + b''.join(gen.head(3, len(b), w) + b for w, b in t[1]) + b'\xff'
    if k == 'array': return gen.head(4, len(t[2]), t[1]) + b''.join(enc(x) for x in t[2])
    if k == 'arrayI': return b'\x9f' + b''.join(enc(x) for x in t[1]) + b'\xff'
    if k == 'map': return gen.head(5, len(t[2]) // 2, t[1]) + b''.join(enc(x) for x in t[2])
    if k == 'mapI': return b'\xbf' + b''.join(enc(x) for x in t[1]) + b'\xff'
    if k == 'tag': return gen.head(6, t[2], t[1]) + enc(t[3])
    if k == 'simple': return bytes([0xe0 + t[1]]) if t[1] < 24 else bytes([0xf8, t[1]])
    if k == 'f16': return b'\xf9' + t[1].to_bytes(2, 'big')
    if k == 'f32': return b'\xfa' + t[1].to_bytes(4, 'big')
    if k == 'f64': return b'\xfb' + t[1].to_bytes(8, 'big')
    raise ValueError(k)

def min_width(n):
    return 0 if n < 24 else 1 if n < 256 else 2 if n < 65536 else 4 if n < (1 << 32) else 8

def rand_width(rng, n, preferred=False):
    m = min_width(n)
    if preferred: return m
    ws = [w for w in gen.WIDTHS if w >= m]
    return rng.choice(ws) if rng.random() < 0.5 else m

def is_preferred(t):
    k = t[0]
    if k in ('uint', 'nint'): return t[1] == min_width(t[2])
    if k in ('bytes', 'text'): return t[1] == min_width(len(t[2]))
    if k in ('bytesI', 'textI'): return all(w == min_width(len(b)) for w, b in t[1])
    if k == 'array': return t[1] == min_width(len(t[2])) and all(is_preferred(x) for x in t[2])
    if k == 'map': return t[1] == min_width(len(t[2]) // 2) and all(is_preferred(x) for x in t[2])
    if k in ('arrayI', 'mapI'): return all(is_preferred(x) for x in t[1])
    if k == 'tag': return t[1] == min_width(t[2]) and is_preferred(t[3])
    return True

def nodes(t):
    k = t[0]
    if k in ('array', 'map'): return 1 + sum(nodes(x) for x in t[2])
    if k in ('arrayI', 'mapI'): return 1 + sum(nodes(x) for x in t[1])
    if k == 'tag': return 1 + nodes(t[3])
    return 1

def has_indef_inside_def(t, inside_def=False):
    k = t[0]
    if k in ('arrayI', 'mapI'):
        if inside_def: return True
        return any(has_indef_inside_def(x, inside_def) for x in t[1])
    if k in ('array', 'map'): return any(has_indef_inside_def(x, True) for x in t[2])
    if k == 'tag': return has_indef_inside_def(t[3], inside_def)
    return False

SIMPLE_VALID = list(range(0, 24)) + list(range(32, 256))

def rand_scalar(rng, preferred=False):
    r = rng.random()
    if r < 0.3:
        n = gen.rand_u(rng, 64); return ('uint', rand_width(rng, n, preferred), n)
    if r < 0.5:
        n = gen.rand_u(rng, 64); return ('nint', rand_width(rng, n, preferred), n)
    if r < 0.6:
        b = gen.rand_bytes(rng, rng.choice([24, 33, 70, 256]) if rng.random() < 0.08 else rng.randint(0, 6))
        return ('bytes', rand_width(rng, len(b), preferred), b)
    if r < 0.7:
        b = gen.rand_text(rng, 4).encode(); return ('text', rand_width(rng, len(b), preferred), b)
    if r < 0.8: return ('simple', rng.choice(SIMPLE_VALID))
    if r < 0.85: return ('f16', rng.getrandbits(16))
    if r < 0.9: return ('f32', rng.getrandbits(32))
    if r < 0.93: return ('f64', rng.getrandbits(64))
    if r < 0.97:
        cs = [gen.rand_bytes(rng, rng.randint(0, 3)) for _ in range(rng.randint(0, 3))]
        return ('bytesI', [(rand_width(rng, len(b), preferred), b) for b in cs])
    cs = [gen.rand_text(rng, 2).encode() for _ in range(rng.randint(0, 3))]
    return ('textI', [(rand_width(rng, len(b), preferred), b) for b in cs])

IANA_TAGS = [0, 1, 2, 3, 4, 5, 16, 17, 18, 21, 22, 23, 24, 25, 29, 30, 32, 33, 34, 35, 36, 37, 61, 96, 98, 100, 256, 258, 260, 261, 1001, 1004, 55799, 55800, 15309736]


def rand_tree(rng, depth, preferred=False, indef=True):
    if depth <= 0 or rng.random() < 0.35:
        return rand_scalar(rng, preferred)
    r = rng.random()
    n = rng.choice([0, 1, 1, 2, 2, 3, 4])
    if r < 0.3:
        items = [rand_tree(rng, depth - 1, preferred, indef) for _ in range(n)]
        if indef and rng.random() < 0.4: return ('arrayI', items)
        return ('array', rand_width(rng, n, preferred), items)
    if r < 0.55:
        items = [rand_tree(rng, depth - 1, preferred, indef) for _ in range(2 * n)]
        if indef and rng.random() < 0.4: return ('mapI', items)
        return ('map', rand_width(rng, n, preferred), items)
    if r < 0.7:
        # tag numbers: spread over the widths, and the registered ones a library might treat specially
        g = gen.rand_u(rng, 64) if rng.random() < 0.7 else rng.choice(IANA_TAGS)
        return ('tag', rand_width(rng, g, preferred), g, rand_tree(rng, depth - 1, preferred, indef))
    return rand_scalar(rng, preferred)

def small_scalars():
    out = []
    for w in gen.WIDTHS:
        for n in (0, 23, 24, 255, 256, 65535, 65536, (1 << 32) - 1, 1 << 32, (1 << 64) - 1):
            if gen.fits(w, n):
                out.append(('uint', w, n)); out.append(('nint', w, n))
    for w in gen.WIDTHS:
        for b in (b'', b'\x01', b'\xff\x00\x7f'):
            out.append(('bytes', w, b))
        for s in (b'', b'a', 'é€'.encode()):
            out.append(('text', w, s))
    for n in (24, 31, 32, 33, 64, 255, 256, 300):
        b = bytes((i * 37 + n) % 256 for i in range(n))
        out.append(('bytes', min_width(n), b))
        out.append(('text', min_width(n), bytes(0x61 + (i % 26) for i in range(n))))
    out.append(('bytesI', [(1, bytes(range(40))), (0, b'\x01')]))
    out += [('bytesI', []), ('bytesI', [(0, b'\x01')]), ('bytesI', [(1, b''), (0, b'\x02\x03')]),
            ('textI', []), ('textI', [(0, b'a')]), ('textI', [(2, b'ab'), (0, 'é'.encode())])]
    out += [('simple', n) for n in (0, 19, 20, 21, 22, 23, 32, 255)]
    out += [('f16', 0x3c00), ('f16', 0x7e00), ('f16', 0x0001), ('f16', 0xfc00), ('f32', 0x3f800000), ('f32', 0x7fc00000),
            ('f32', 0x00000001), ('f64', 0x3ff0000000000000), ('f64', 0x7ff8000000000001), ('f64', 1)]
    return out

def small_trees(rng, limit):
    """containers of 0..3 small children over all container kinds and head widths (sampled to `limit`)."""
    sc = small_scalars()
    leaves = [('uint', 0, 1), ('nint', 1, 200), ('text', 0, b'a'), ('bytesI', [(0, b'\x01')]), ('simple', 22), ('f16', 0x3c00)]
    out = list(sc)
    def conts(items):
        res = []
        n = len(items)
        for w in gen.WIDTHS:
            if gen.fits(w, n): res.append(('array', w, items))
            if n % 2 == 0 and gen.fits(w, n // 2): res.append(('map', w, items))
        res.append(('arrayI', items))
        if n % 2 == 0: res.append(('mapI', items))
        return res
    level1 = []
    for n in range(0, 4):
        for _ in range(6 if n else 1):
            items = [rng.choice(leaves) for _ in range(n)]
            level1 += conts(items)
    out += level1
    for w in gen.WIDTHS:
        for g in (0, 24, 256, 65536, 1 << 32):
            if gen.fits(w, g):
                out.append(('tag', w, g, rng.choice(leaves)))
                out.append(('tag', w, g, rng.choice(level1)))
    for g in IANA_TAGS:
        # every registered tag as the FIRST thing of an input (self-described CBOR 55799 is meant to be skipped by some tools)
        out.append(('tag', min_width(g), g, rng.choice(level1)))
        out.append(('array', 0, [('tag', min_width(g), g, rng.choice(leaves)), rng.choice(leaves)]))
    for _ in range(limit):
        items = [rng.choice(level1 + leaves) for _ in range(rng.randint(0, 3))]
        out += [rng.choice(conts(items))]
    return out

# ---------------------------------------------------------------------------------- oracles

INT_RANGE = {"u8": (0, 255), "u16": (0, 65535), "u32": (0, 2**32 - 1), "u64": (0, 2**64 - 1),
             "i8": (-128, 127), "i16": (-2**15, 2**15 - 1), "i32": (-2**31, 2**31 - 1), "i64": (-2**63, 2**63 - 1),
             "int": (-2**64, 2**64 - 1)}

ACCESSORS = ["bool", "u8", "u16", "u32", "u64", "i8", "i16", "i32", "i64", "int", "f16", "f32", "f64", "char",
             "bytes", "str", "bytes_iter", "str_iter", "array", "map", "tag", "null", "undefined", "simple", "skip"]

def hx(b):
    return b.hex() if b else "-"

def f16_to_f32_bits(h):
    x = struct.unpack('>e', h.to_bytes(2, 'big'))[0]
    if x != x:  # NaN: payload shifted, quiet bit set
        return ((h & 0x8000) << 16) | 0x7fc00000 | ((h & 0x3ff) << 13)
    return struct.unpack('>I', struct.pack('>f', x))[0]

def f32_to_f64_bits(b):
    x = struct.unpack('>f', b.to_bytes(4, 'big'))[0]
    if x != x:
        return ((b & 0x80000000) << 32) | 0x7ff8000000000000 | ((b & 0x7fffff) << 29)
    return struct.unpack('>Q', struct.pack('>d', x))[0]

def expect(acc, t):
    """expected result of accessor `acc` on tree t followed by anything: ('ok', text) with the position being
    the item length for whole-item accessors or the head length for array/map/tag; or ('err',)."""
    k = t[0]
    full = len(enc(t))
    if acc in INT_RANGE:
        if k in ('uint', 'nint'):
            v = t[2] if k == 'uint' else -1 - t[2]
            lo, hi = INT_RANGE[acc]
            return ('ok', str(v), full) if lo <= v <= hi else ('err',)
        return ('err',)
    if acc == 'char':
        if k == 'uint' and t[2] < 0x110000 and not (0xd800 <= t[2] <= 0xdfff): return ('ok', str(t[2]), full)
        return ('err',)
    if acc == 'bool':
        if k == 'simple' and t[1] in (20, 21): return ('ok', str(t[1] - 20), full)
        return ('err',)
    if acc == 'null': return ('ok', '()', full) if k == 'simple' and t[1] == 22 else ('err',)
    if acc == 'undefined': return ('ok', '()', full) if k == 'simple' and t[1] == 23 else ('err',)
    if acc == 'simple':
        if k == 'simple' and not (20 <= t[1] <= 23): return ('ok', str(t[1]), full)
        return ('err',)
    if acc == 'f16':
        return ('ok', '%08x' % f16_to_f32_bits(t[1]), full) if k == 'f16' else ('err',)
    if acc == 'f32':
        if k == 'f16': return ('ok', '%08x' % f16_to_f32_bits(t[1]), full)
        if k == 'f32': return ('ok', '%08x' % t[1], full)
        return ('err',)
    if acc == 'f64':
        if k == 'f16': return ('ok', '%016x' % f32_to_f64_bits(f16_to_f32_bits(t[1])), full)
        if k == 'f32': return ('ok', '%016x' % f32_to_f64_bits(t[1]), full)
        if k == 'f64': return ('ok', '%016x' % t[1], full)
        return ('err',)
    if acc == 'bytes': return ('ok', hx(t[2]), full) if k == 'bytes' else ('err',)
    if acc == 'str': return ('ok', hx(t[2]), full) if k == 'text' else ('err',)
    if acc == 'bytes_iter':
        if k == 'bytes': return ('ok', '[' + (hx(t[2]) if t[2] else '') + ']', full)
        if k == 'bytesI': return ('ok', '[' + ','.join(hx(b) for _, b in t[1]) + ']', full)
        return ('err',)
    if acc == 'str_iter':
        if k == 'text': return ('ok', '[' + (hx(t[2]) if t[2] else '') + ']', full)
        if k == 'textI': return ('ok', '[' + ','.join(hx(b) for _, b in t[1]) + ']', full)
        return ('err',)
    if acc == 'array':
        if k == 'array': return ('ok', 'some:%d' % len(t[2]), len(gen.head(4, len(t[2]), t[1])))
        if k == 'arrayI': return ('ok', 'none', 1)
        return ('err',)
    if acc == 'map':
        if k == 'map': return ('ok', 'some:%d' % (len(t[2]) // 2), len(gen.head(5, len(t[2]) // 2, t[1])))
        if k == 'mapI': return ('ok', 'none', 1)
        return ('err',)
    if acc == 'tag':
        if k == 'tag': return ('ok', str(t[2]), len(gen.head(6, t[2], t[1])))
        return ('err',)
    if acc == 'skip': return ('ok', '()', full)
    raise ValueError(acc)

def nan_insensitive(acc):
    return acc in ('f16', 'f32', 'f64')

def matches(acc, t):
    return expect(acc, t)[0] == 'ok'
