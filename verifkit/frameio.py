"""Shared helpers for the minicbor-io properties (C14, C15, C16): the frame grammar and the CBOR
payloads as the orchestrator's own, independent oracle; scenario syntax; small reference
simulators used only to *place* caller decisions (where a poll returns Pending) — the judges
evaluate the properties on the implementation's transcript, not on the simulators."""
import struct
from verifkit import gen

# ---------------------------------------------------------------- values and frames (oracle side)

def val_tok(v):
    k, x = v
    if k in ("u", "t"):
        return f"{k}{x}"
    if k == "e":
        return "e"
    return k + gen.hexb(x)


def vals_tok(vs):
    return ",".join(val_tok(v) for v in vs) if vs else "-"


def parse_val(t):
    if t[0] in ("u", "t"):
        return (t[0], int(t[1:]))
    return (t[0], b"" if t[1:] == "-" else bytes.fromhex(t[1:]))


def parse_vals(s):
    return [] if s == "-" else [parse_val(t) for t in s.split(",")]


def payload(v):
    """RFC 8949 preferred encoding of the value, None if the value does not encode."""
    k, x = v
    if k == "u":
        return gen.head(0, x)
    if k == "b":
        return gen.head(2, len(x)) + x
    if k == "t":
        return gen.head(0, x) + b"\x00"  # a value whose Encode impl writes one item more than its Decode impl reads (read back as the number alone)
    if k == "e":
        return b""                       # a value whose Encode impl writes nothing: an empty payload, still a frame
    return None


def frame(p):
    return struct.pack(">I", len(p)) + p


def frames(ps):
    return b"".join(frame(p) for p in ps)


def decode_payload(p):
    """what decoding a `V` from the start of `p` must give: ('some', token) or ('err',)."""
    if not p:
        return ("err",)
    b = p[0]
    maj, ai = b >> 5, b & 31
    if maj not in (0, 2) or ai > 27:
        return ("err",)
    w = {24: 1, 25: 2, 26: 4, 27: 8}.get(ai, 0)
    if len(p) < 1 + w:
        return ("err",)
    n = ai if w == 0 else int.from_bytes(p[1:1 + w], "big")
    if maj == 0:
        return ("some", f"u{n}")
    if len(p) < 1 + w + n:
        return ("err",)
    return ("some", "b" + gen.hexb(p[1 + w:1 + w + n]))


def script_tok(evs):
    return ",".join(str(e) for e in evs) if evs else "-"


def parse_script(s):
    return [] if s == "-" else [int(t) if t.isdigit() else t for t in s.split(",")]


def compositions(n):
    """all ordered ways to write n as a sum of positive parts (2^(n-1) of them)."""
    if n == 0:
        yield []
        return
    for mask in range(1 << (n - 1)):
        parts, cur = [], 1
        for i in range(n - 1):
            if mask >> i & 1:
                parts.append(cur); cur = 1
            else:
                cur += 1
        parts.append(cur)
        yield parts


def rand_composition(rng, n, maxpart=None):
    parts = []
    while n > 0:
        k = rng.randint(1, min(n, maxpart or n))
        parts.append(k); n -= k
    return parts


def rand_val(rng, maxbytes=40):
    r = rng.random()
    if r < 0.08:
        return ("t", gen.rand_u(rng, 64))
    if r < 0.5:
        return ("u", gen.rand_u(rng, 64))
    return ("b", gen.rand_bytes(rng, rng.choice([0, 1, 2, 3, 23, 24, 25, rng.randint(0, maxbytes)])))


def ann(op, key):
    """value of the `#key=...` annotation of an op line."""
    for w in op.split(" "):
        if w.startswith("#" + key + "="):
            return w[len(key) + 2:]
    return None


def fields(line):
    """split a result line `<transcript> k=v k=v ...` into (tokens, dict, positional words)."""
    w = line.split(" ")
    toks = [] if w[0] == "-" else w[0].split(",")
    kv, pos = {}, []
    for x in w[1:]:
        if "=" in x:
            k, v = x.split("=", 1); kv[k] = v
        else:
            pos.append(x)
    return toks, kv, pos


def strip_peak(line):
    return " ".join(x for x in line.split(" ") if not x.startswith(("peak=", "enc=", "dec=")))


def counts_ok(op, impl):
    """`enc=` / `dec=`: how often the value type's Encode / Decode impl ran during the op.  A writer encodes a value once per `write`
    call, a reader decodes a payload once per frame it delivers or rejects as undecodable (an impl with side effects — a counter in
    the context, interior mutability — or a merely expensive one must not run twice, nor for frames that are never delivered)."""
    w = op.split(" ")
    kv = {x.split("=", 1)[0]: x.split("=", 1)[1] for x in impl.split(" ")[1:] if "=" in x}
    name = w[0]
    if name == "awritef":
        w = [w[0]] + w[2:]
    if "enc" in kv:
        if name.startswith("fwrite"):
            calls = len(split_list(w[2])) if w[2] != "-" else 0
        else:
            toks = impl.split(" ")[0].split(",")
            acts = [] if w[4] == "-" else w[4].split(",")
            if len(toks) != len(acts):
                return True                      # malformed: the judge says so
            calls = sum(1 for a in acts if a.startswith("w"))
        return int(kv["enc"]) == calls
    if "dec" in kv:
        toks = impl.split(" ")[0].split(",")
        frames = sum(1 for t in toks if t.startswith("some:") or t.startswith("err:decode"))
        return int(kv["dec"]) == frames
    return True


def split_list(s):
    return [] if s == "-" else s.split(",")


def ml(tok):
    """the <maxlen> argument of an op: a number, or `d` = the constructors' documented default (512 KiB of payload)."""
    return 524288 if tok == "d" else int(tok)


def default_limit_vals():
    """byte strings whose frame payload is 524285 .. 524289 bytes long (the default limit is 524288)."""
    return [("b", bytes((i * 7 + k) % 251 for i in range(n))) for k, n in enumerate(range(524280, 524285))]


def peak_ok(kv, maxlen):
    """the reader never asks the allocator for more than its maximum for a frame (Vec growth is
    amortised: at most twice the largest length ever requested; small constants for errors)."""
    return int(kv.get("peak", "0")) <= max(64, 2 * maxlen)


# ---------------------------------------------------------------- placement simulators

class SimARead:
    """reference walk of an async frame reader over a script: `poll()` gives 'P' or 'R'; used to know
    after which polls a `d` is a real drop and how many bytes the script has delivered (`pos`)."""
    def __init__(self, stream, maxlen, script):
        self.stream, self.maxlen, self.script = stream, maxlen, script
        self.pos = self.si = self.pre = self.got = 0
        self.need = None
        self.stuck = False

    def poll(self):
        while True:
            if self.stuck:
                return "R"
            if self.need is None and self.pre == 4:
                ln = int.from_bytes(self.stream[self.pos - 4:self.pos], "big")
                if ln > self.maxlen:
                    self.stuck = True
                    return "R"
                self.need, self.got = ln, 0
            if self.need is not None and self.got >= self.need:
                self.need, self.pre = None, 0
                return "R"
            if self.si >= len(self.script):
                return "P"
            ev = self.script[self.si]; self.si += 1
            if ev == "p":
                return "P"
            if ev in ("e", "i", "z"):
                return "R"
            req = (4 - self.pre) if self.need is None else self.need - self.got
            n = min(ev, req, len(self.stream) - self.pos)
            if n == 0:
                return "R"
            self.pos += n
            if self.need is None:
                self.pre += n
            else:
                self.got += n


def sim_awrite_poll(state, script_iter):
    """state = [offset or None, frame_len]; one pass of the sync loop. Returns 'P', 'ok', 'err'."""
    while True:
        if state[0] is None:
            return "ok"
        if state[0] >= state[1]:
            state[0] = None
            return "ok"
        ev = next(script_iter, None)
        if ev is None or ev == "p":
            return "P"
        if ev in ("e", "i", "z"):
            return "err"
        n = min(ev, state[1] - state[0])
        if n == 0:
            return "err"
        state[0] += n


# ---------------------------------------------------------------- constructor variants
# `new(io)` is `with_buffer(io, Vec::new())`; a caller may hand any vector to `with_buffer`.  The harness ops
# `freadb` / `fwriteb` / `areadb` / `awriteb <ctor> …` construct with `with_buffer` and an empty (`e`), an empty
# pre-allocated (`c`) or a dirty (`d`: 37 bytes, `D`: 613 bytes) buffer.  The model and the oracles know one
# behaviour only: a variant must behave exactly like the plain op; the one visible difference allowed is that a
# dirty buffer nobody wrote to still has its initial length at the end.
import zlib
CTORS = "ecdD"
CTOR_DIRTY = {"d": 37, "D": 613}
CTOR_OPS = {"freadb": "fread", "fwriteb": "fwrite", "areadb": "aread", "awriteb": "awrite"}


def ctor_expand(ops, every=4):
    extra = []
    for op in ops:
        h = zlib.crc32(op.encode())
        if h % every == 0:
            name, rest = op.split(" ", 1)
            extra.append(f"{name}b {CTORS[(h // every) % 4]} {rest}")
    return ops + extra


def ctor_plain(op):
    w = op.split(" ", 2)
    if w[0] in CTOR_OPS and len(w) == 3:
        return f"{CTOR_OPS[w[0]]} {w[2]}", w[1]
    return op, None


def ctor_judge(judge):
    def j(op, impl, model, spec):
        plain, c = ctor_plain(op)
        if isinstance(impl, str) and ("enc=" in impl or "dec=" in impl):
            if not counts_ok(plain, impl):
                return "violation"
            impl = " ".join(x for x in impl.split(" ") if not x.startswith(("enc=", "dec=")))
        if c in CTOR_DIRTY and isinstance(impl, str) and isinstance(model, str):
            if " buf=0" in model + " " and f" buf={CTOR_DIRTY[c]}" in impl:
                impl = impl.replace(f" buf={CTOR_DIRTY[c]}", " buf=0")
        return judge(plain, impl, model, spec)
    return j
