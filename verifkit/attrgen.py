"""attrgen: correspondence for the attribute front end of the derive macros (model: lean/Minicbor/Attrs.lean).

Generates small type definitions whose attributes are drawn from a pool per level — valid and invalid combinations,
the same items in different orders and split over one or several `#[...]` attributes — writes them into the crate
harness/dattr (one definition per line), asks rustc which definitions the three derive macros accept
(`cargo check --message-format=json`, repeated on the survivors until the crate is clean, so that errors of later
compiler phases are seen too) and yields, per definition, the op for the model (`astruct …` / `aenum …`).

The real front end iterates a std HashMap (randomised per process) while merging attributes; the model takes the
iteration order as a parameter and Thm/Attrs.lean proves it irrelevant, so one compiler run is a fair sample."""
import itertools, json, os, random, subprocess, hashlib

HARNESS = os.path.join(os.path.dirname(os.path.dirname(os.path.abspath(__file__))), "harness")
CRATE = os.path.join(HARNESS, "dattr")

CLUSTER = ["encode_with=crate.ca.encode", "decode_with=crate.ca.decode", "is_nil=crate.ca.is_nil", "nil=crate.ca.nil",
           "cbor_len=crate.ca.cbor_len", "with=crate.ca", "has_nil"]
FIELD_POOL = CLUSTER + ["n=0", "b=1", "n=4294967295", "n=4294967296", "tag=5", "tag=18446744073709551615", "tag=18446744073709551616", "skip",
                        "encode_with=crate.cb.encode", "with=crate.cb", "map", "array", "transparent", "index_only", "unknown", "context_bound=Clone"]
STRUCT_POOL = ["map", "array", "transparent", "tag=7", "tag=18446744073709551616", "context_bound=Clone", "context_bound=Copy", "index_only", "n=0", "skip",
               "with=crate.ca", "unknown", "has_nil", "cbor_len=crate.ca.cbor_len"]
ENUM_POOL = ["map", "array", "index_only", "tag=7", "context_bound=Clone", "transparent", "n=0", "skip", "with=crate.ca", "unknown", "is_nil=crate.ca.is_nil"]
VARIANT_POOL = ["n=0", "b=2", "n=4294967296", "map", "array", "tag=3", "index_only", "transparent", "skip", "with=crate.ca", "context_bound=Clone", "unknown"]


def rust_item(it):
    k, _, arg = it.partition("=")
    if arg == "":
        return "frobnicate" if k == "unknown" else k
    if k in ("n", "b", "tag"):
        return f"{k}({arg})"
    if k == "context_bound":
        return f'context_bound = "{arg}"'
    return f'{k} = "{arg.replace(".", "::")}"'


def rust_attr(a):
    if a == "other": return "#[allow(dead_code)]"
    if a.startswith("cbor:"):
        body = a[5:]
        return "#[cbor(" + ", ".join(rust_item(x) for x in body.split("|") if x) + ")]"
    k, _, arg = a.partition("=")
    return f"#[{k}({arg})]"


def rust_attrs(al):
    return " ".join(rust_attr(a) for a in al)


def proto_attrs(al):
    return ";".join(al) if al else "-"


def arrange(items, rng, mode):
    """items -> list of attributes.  mode 0: all in one #[cbor(..)]; 1: one attribute each; 2: random split; bare n/b attributes where possible"""
    if not items: return []
    if mode == 0:
        return ["cbor:" + "|".join(items)]
    out = []
    if mode == 1:
        for it in items:
            out.append(it if it.split("=")[0] in ("n", "b") and rng.random() < 0.7 else "cbor:" + it)
        return out
    cur = []
    for it in items:
        if cur and rng.random() < 0.5:
            out.append("cbor:" + "|".join(cur)); cur = []
        if it.split("=")[0] in ("n", "b") and not cur and rng.random() < 0.4:
            out.append(it)
        else:
            cur.append(it)
    if cur: out.append("cbor:" + "|".join(cur))
    return out


class Case:
    """kind 'S' struct: sattrs, fields=[attr list]; kind 'E' enum: eattrs, variants=[(vattrs, unit, [field attr lists])]"""
    def __init__(self, kind, top, parts, note):
        self.kind, self.top, self.parts, self.note = kind, top, parts, note

    def op(self):
        if self.kind == "S":
            return " ".join(["astruct", proto_attrs(self.top), str(len(self.parts))] + [proto_attrs(f) for f in self.parts])
        w = ["aenum", proto_attrs(self.top), str(len(self.parts))]
        for va, unit, fs in self.parts:
            w += [proto_attrs(va), "u" if unit else "f", str(len(fs))] + [proto_attrs(f) for f in fs]
        return " ".join(w)

    def rust(self, name):
        d = "#[derive(minicbor::Encode, minicbor::Decode, minicbor::CborLen)]"
        if self.kind == "S":
            if not self.parts:
                return f"{d} {rust_attrs(self.top)} pub struct {name};"
            fs = ", ".join(f"{rust_attrs(f)} pub f{i}: u8" for i, f in enumerate(self.parts))
            return f"{d} {rust_attrs(self.top)} pub struct {name} {{ {fs} }}"
        vs = []
        for i, (va, unit, fs) in enumerate(self.parts):
            if unit: vs.append(f"{rust_attrs(va)} V{i}")
            else: vs.append(f"{rust_attrs(va)} V{i}(" + ", ".join(f"{rust_attrs(f)} u8" for f in fs) + ")")
        return f"{d} {rust_attrs(self.top)} pub enum {name} {{ {', '.join(vs)} }}"


def cases(seed, tier):
    rng = random.Random(seed * 7919 + 17)
    q = tier == "quick"
    out = []
    seen = set()
    def add(c):
        k = c.op()
        if k not in seen:
            seen.add(k); out.append(c)
    # --- field level: the codec cluster in every order, in one attribute / one each / random split
    for r in (1, 2, 3) if q else (1, 2, 3, 4):
        for sub in itertools.combinations(CLUSTER, r):
            perms = list(itertools.permutations(sub))
            if r == 4: perms = rng.sample(perms, 8)
            for p in perms:
                for mode in (0, 1, 2):
                    idx = rng.choice(["n=0", "b=1"])
                    items = list(p)
                    pos = rng.randrange(len(items) + 1)
                    al = arrange(items[:pos], rng, mode) + ([idx] if rng.random() < 0.6 else ["cbor:" + idx]) + arrange(items[pos:], rng, mode)
                    add(Case("S", [], [al], "cluster"))
    # --- field level: every ordered pair of the pool, with and without an index
    for a, b in itertools.product(FIELD_POOL, repeat=2):
        for mode in (0, 1):
            add(Case("S", [], [arrange([a, b], rng, mode)], "field-pair"))
            if not (a.split("=")[0] in ("n", "b") or b.split("=")[0] in ("n", "b")):
                add(Case("S", [], [["n=3"] + arrange([a, b], rng, mode)], "field-pair-indexed"))
    for a in FIELD_POOL:
        add(Case("S", [], [arrange([a], rng, 0)], "field-single"))
        add(Case("S", [], [["n=3"] + arrange([a], rng, 0)], "field-single-indexed"))
    add(Case("S", [], [[]], "no-attribute"))
    add(Case("S", [], [["other", "n=0"]], "foreign-attribute"))
    add(Case("S", [], [["cbor:"]], "empty-cbor"))
    # --- several fields: duplicate / distinct indices, skipped fields
    for fs in ([["n=0"], ["n=0"]], [["n=0"], ["b=0"]], [["n=0"], ["n=1"]], [["n=1"], ["n=0"]], [["n=0"], ["cbor:skip"]], [["cbor:skip"], ["cbor:skip"]],
               [["n=0"], ["cbor:skip"], ["n=0"]], [["n=5"], ["cbor:n=5|tag=1"]], [["n=4294967295"], ["cbor:skip"]], [["n=4294967295"], ["n=4294967295"]]):
        for top in ([], ["cbor:transparent"], ["cbor:map"], ["cbor:transparent|array"]):
            add(Case("S", top, fs, "multi-field"))
    # --- struct level
    for r in (1, 2) if q else (1, 2, 3):
        for p in itertools.permutations(STRUCT_POOL, r):
            if r == 3 and rng.random() < 0.9: continue
            for mode in (0, 1):
                for fields in ([["n=0"]], [["n=0"], ["n=1"]], []):
                    add(Case("S", arrange(list(p), rng, mode), fields, "struct-level"))
    for x in STRUCT_POOL:
        add(Case("S", arrange([x, x], rng, 0), [["n=0"]], "struct-dup")); add(Case("S", arrange([x, x], rng, 1), [["n=0"]], "struct-dup"))
    # --- enum level and variant level
    shapes = [[(["n=0"], True, []), (["n=1"], True, [])], [(["n=0"], True, []), (["n=1"], False, [["n=0"]])], [(["n=0"], False, [])],
              [(["n=0"], True, []), (["b=0"], True, [])], [(["n=0"], True, []), ([], True, [])], []]
    for r in (0, 1, 2):
        for p in itertools.permutations(ENUM_POOL, r):
            for mode in (0, 1):
                for sh in shapes:
                    add(Case("E", arrange(list(p), rng, mode), sh, "enum-level"))
    for r in (1, 2):
        for p in itertools.permutations(VARIANT_POOL, r):
            for mode in (0, 1):
                va = arrange(list(p), rng, mode)
                add(Case("E", [], [(va, True, [])], "variant-level"))
                add(Case("E", [], [(va, False, [["n=0"]]), (["n=7"], True, [])], "variant-level"))
                add(Case("E", ["cbor:index_only"], [(va, True, [])], "variant-level"))
    # --- random longer attribute lists on fields
    for _ in range(300 if q else 5000):
        items = [rng.choice(FIELD_POOL) for _ in range(rng.randint(3, 6))]
        add(Case("S", [], [arrange(items, rng, rng.randrange(3))], "field-random"))
    return out


LIB_HEAD = '''// generated by verifkit/attrgen.py -- do not edit
#![allow(dead_code, unused_variables, unused_imports, non_camel_case_types)]
// two codec modules with DISTINCTIVE behaviour, so that the bytes, the reported length and the decoded values show which
// functions a definition is bound to: ca adds 1000 / nil 77 / len 50, cb adds 2000 / nil 88 / len 60
pub mod ca {
    use minicbor::{Encoder, Decoder};
    pub fn encode<C, W: minicbor::encode::Write>(v: &u8, e: &mut Encoder<W>, _: &mut C) -> Result<(), minicbor::encode::Error<W::Error>> { e.u32(*v as u32 + 1000)?.ok() }
    pub fn decode<'b, C>(d: &mut Decoder<'b>, _: &mut C) -> Result<u8, minicbor::decode::Error> {
        let x = d.u32()?; if x < 1000 || x > 1255 { return Err(minicbor::decode::Error::message("not written by ca")) } Ok((x - 1000) as u8) }
    pub fn is_nil(v: &u8) -> bool { *v == 0 }
    pub fn nil() -> Option<u8> { Some(77) }
    pub fn cbor_len<C>(v: &u8, _: &mut C) -> usize { 50 }
}
pub mod cb {
    use minicbor::{Encoder, Decoder};
    pub fn encode<C, W: minicbor::encode::Write>(v: &u8, e: &mut Encoder<W>, _: &mut C) -> Result<(), minicbor::encode::Error<W::Error>> { e.u32(*v as u32 + 2000)?.ok() }
    pub fn decode<'b, C>(d: &mut Decoder<'b>, _: &mut C) -> Result<u8, minicbor::decode::Error> {
        let x = d.u32()?; if x < 2000 || x > 2255 { return Err(minicbor::decode::Error::message("not written by cb")) } Ok((x - 2000) as u8) }
    pub fn is_nil(v: &u8) -> bool { *v == 0 }
    pub fn nil() -> Option<u8> { Some(88) }
    pub fn cbor_len<C>(v: &u8, _: &mut C) -> usize { 60 }
}
'''

PROBE_HEAD = '''// generated by verifkit/attrgen.py -- do not edit
#![allow(unused)]
use dattr::*;
fn hex(b: &[u8]) -> String { if b.is_empty() { return "-".into() } b.iter().map(|x| format!("{:02x}", x)).collect() }
fn cls(e: &minicbor::decode::Error) -> &'static str {
    if e.is_end_of_input() { "eoi" } else if e.is_type_mismatch() { "type" } else if e.is_tag_mismatch() { "tag" } else if e.is_missing_value() { "missing" }
    else if e.is_unknown_variant() { "variant" } else if e.is_message() { "message" } else { "other" } }
fn main() {
'''

CARGO_TOML = '''[package]
name = "dattr"
version = "0.0.0"
edition = "2021"

[workspace]

[dependencies]
minicbor = { path = "/repo/minicbor", features = ["std", "derive"] }
'''


def _lines_of(span, acc):
    if not span: return
    if span.get("file_name", "").endswith("src/lib.rs"):
        acc.add(span["line_start"])
    exp = span.get("expansion")
    if exp: _lines_of(exp.get("span"), acc)


def compile_cases(cs, cargo_extra, env, log):
    """-> {case index: None (accepted) | first error message}"""
    os.makedirs(os.path.join(CRATE, "src"), exist_ok=True)
    open(os.path.join(CRATE, "Cargo.toml"), "w").write(CARGO_TOML)
    lock = os.path.join(CRATE, "Cargo.lock")
    if not os.path.exists(lock):
        import shutil; shutil.copy("/repo/Cargo.lock", lock)
    alive = list(range(len(cs)))
    verdict = {}
    stale = os.path.join(CRATE, "src", "bin", "probe.rs")          # the probe program of an earlier run names other definitions
    if os.path.exists(stale): os.remove(stale)
    for rnd in range(8):
        head = LIB_HEAD.count("\n")
        src = LIB_HEAD + "\n".join(cs[i].rust(f"T{i}") for i in alive) + "\n"
        open(os.path.join(CRATE, "src", "lib.rs"), "w").write(src)
        p = subprocess.run(["cargo", "check", "--offline", "--message-format=json"] + cargo_extra, cwd=CRATE, env=env, stdout=subprocess.PIPE, stderr=subprocess.PIPE, text=True)
        bad = {}
        other_errors = []
        for line in p.stdout.splitlines():
            try: m = json.loads(line)
            except ValueError: continue
            if m.get("reason") != "compiler-message": continue
            msg = m["message"]
            if msg.get("level") != "error": continue
            ls = set()
            for sp in msg.get("spans", []): _lines_of(sp, ls)
            hit = False
            for ln in ls:
                k = ln - head - 1
                if 0 <= k < len(alive):
                    bad.setdefault(alive[k], msg["message"]); hit = True
            if not hit and not msg["message"].startswith("aborting") and "could not compile" not in msg["message"]:
                other_errors.append(msg["message"])
        if not bad:
            if p.returncode != 0:
                raise SystemExit("dattr: cargo check failed without an error attributable to a definition:\n" + "\n".join(other_errors[:5]) + p.stderr[-2000:])
            break
        for i, m in bad.items(): verdict[i] = m
        alive = [i for i in alive if i not in bad]
        from collections import Counter
        log(f"[attrgen] round {rnd}: {len(bad)} definitions rejected, {len(alive)} left" + ("" if rnd == 0 else "; " + str(Counter(m[:50] for m in bad.values()).most_common(4))))
    for i in alive: verdict[i] = None
    probes = run_probes(cs, alive, cargo_extra, env, log)
    return verdict, probes


def probe_ok(c):
    """struct cases whose encoding stays small (array encoding with an index near 2^32 would write 2^32 nulls)"""
    return c.kind == "S"


def small_indices(meaning):
    st, fields = parse_meaning(meaning)
    live = [f for f in fields if not f["skip"]]
    return st["transparent"] or st["enc"] == "m" or all(f["idx"] <= 64 for f in live)


def run_probes(cs, alive, cargo_extra, env, log):
    """for every accepted struct definition: bytes and length for field value 0 and 5, decode of an empty array / empty map / its own bytes"""
    body = []
    for i in alive:
        c = cs[i]
        if c.kind != "S": continue
        n = len(c.parts)
        mk = (lambda v: f"T{i}") if n == 0 else (lambda v: f"T{i} {{ " + ", ".join(f"f{j}: {v}" for j in range(n)) + " }")
        show = '"".to_string()' if n == 0 else "[" + ", ".join(f"x.f{j}.to_string()" for j in range(n)) + "].join(\",\")"
        dec = f"|b: &[u8]| match minicbor::decode::<T{i}>(b) {{ Ok(x) => format!(\"ok:{{}}\", {show}), Err(e) => format!(\"err:{{}}\", cls(&e)) }}"
        body.append(f"  if big.contains(&{i}) {{ println!(\"T{i} skipped\"); }} else {{ let d = {dec}; let b0 = minicbor::to_vec(&{mk(0)}).unwrap(); let b5 = minicbor::to_vec(&{mk(5)}).unwrap(); "
                    f"println!(\"T{i} {{}} {{}} {{}} {{}} {{}} {{}} {{}}\", hex(&b0), hex(&b5), minicbor::len(&{mk(0)}), minicbor::len(&{mk(5)}), d(&[0x80]), d(&[0xa0]), d(&b5)); }}")
    big = [i for i in alive if cs[i].kind == "S" and any("4294967295" in a for f in cs[i].parts for a in f)]
    src = PROBE_HEAD + "  let big: Vec<usize> = vec![" + ", ".join(map(str, big)) + "];\n" + "\n".join(body) + "\n}\n"
    os.makedirs(os.path.join(CRATE, "src", "bin"), exist_ok=True)
    open(os.path.join(CRATE, "src", "bin", "probe.rs"), "w").write(src)
    p = subprocess.run(["cargo", "run", "--offline", "--quiet", "--bin", "probe"] + cargo_extra, cwd=CRATE, env=env, stdout=subprocess.PIPE, stderr=subprocess.PIPE, text=True)
    if p.returncode != 0:
        raise SystemExit("dattr: the probe program did not build / run:\n" + p.stderr[-3000:])
    out = {}
    for line in p.stdout.splitlines():
        w = line.split(" ")
        out[int(w[0][1:])] = " ".join(w[1:])
    return out


# ------------------------------------------------------------------------------------------ prediction from the model's meaning

def parse_meaning(m):
    """`ok S=<enc>,<tag>,<T|-> F=<field>;…` -> (struct dict, [field dict])"""
    w = m.split(" ")
    enc, tag, tr = w[1][2:].split(",")
    fields = []
    fs = w[2][2:] if len(w) > 2 else ""
    for f in (fs.split(";") if fs else []):
        k, idx, ftag, e, isn, d, nl, cl = f.split(",")
        o = lambda x: None if x == "-" else x
        fields.append(dict(skip=k == "s", isB=k == "b", idx=int(idx), tag=None if ftag == "-" else int(ftag), enc=o(e), isnil=o(isn), dec=o(d), nil=o(nl), clen=o(cl)))
    return dict(enc=enc, tag=None if tag == "-" else int(tag), transparent=tr == "T"), fields


def head(maj, n):
    if n < 24: return bytes([maj << 5 | n])
    if n < 256: return bytes([maj << 5 | 24, n])
    if n < 65536: return bytes([maj << 5 | 25]) + n.to_bytes(2, "big")
    if n < 2**32: return bytes([maj << 5 | 26]) + n.to_bytes(4, "big")
    return bytes([maj << 5 | 27]) + n.to_bytes(8, "big")


def _mod(path):
    return None if path is None else path.split(".")[1]


def predict(meaning):
    """what the probe must print for an accepted struct whose meaning is `meaning` (components the prediction leaves open are `*`)"""
    st, fields = parse_meaning(meaning)
    live = sorted([f for f in fields if not f["skip"]], key=lambda f: f["idx"])
    add = {"ca": 1000, "cb": 2000, None: 0}
    def encval(f, v): return head(0, v + add[_mod(f["enc"])])
    def lenval(f, v):
        m = _mod(f["clen"])
        return 50 if m == "ca" else 60 if m == "cb" else len(head(0, v))
    def isnil(f, v): return f["isnil"] is not None and v == 0
    def tagb(t): return b"" if t is None else head(6, t)
    def render(v, val, as_len):
        cat = (lambda xs: sum(xs)) if as_len else (lambda xs: b"".join(xs))
        L = (lambda b: len(b)) if as_len else (lambda b: b)
        if st["transparent"]:
            return val(live[0], v)
        parts = [L(tagb(st["tag"]))]
        present = [f for f in live if not isnil(f, v)]
        if st["enc"] == "m":
            parts.append(L(head(5, len(present))))
            for f in present:
                parts += [L(head(0, f["idx"])), L(tagb(f["tag"])), val(f, v)]
        else:
            if not present:
                parts.append(L(head(4, 0)))
            else:
                mx = max(f["idx"] for f in present)
                parts.append(L(head(4, mx + 1)))
                cur = 0
                for f in live:
                    if f["idx"] > mx: break
                    parts.append(L(b"\xf6" * (f["idx"] - cur)))
                    parts += [L(tagb(f["tag"])), val(f, v)]
                    cur = f["idx"] + 1
        return cat(parts)
    b0, b5 = render(0, encval, False), render(5, encval, False)
    l0, l5 = render(0, lenval, True), render(5, lenval, True)
    def absent():
        vals = []
        for f in fields:
            if f["skip"]: vals.append("0")
            elif f["nil"] is not None: vals.append("77" if _mod(f["nil"]) == "ca" else "88")
            else: return "err:missing"
        return "ok:" + ",".join(vals)
    if st["transparent"] or st["tag"] is not None:
        d80 = da0 = "err:*"
    else:
        d80 = absent() if st["enc"] != "m" else "err:*"
        da0 = absent() if st["enc"] == "m" else "err:*"
    matched = all(_mod(f["enc"]) == _mod(f["dec"]) for f in live)
    own = ("ok:" + ",".join("0" if f["skip"] else "5" for f in fields)) if matched else "*"
    hx = lambda b: b.hex() if b else "-"
    return [hx(b0), hx(b5), str(l0), str(l5), d80, da0, own]


PARTS = {"encode": (0, 1), "len": (2, 3), "decode": (4, 5, 6)}


def probe_matches(meaning, probe, part=None):
    """part: 'encode' (bytes for field value 0 and 5), 'len' (minicbor::len of both), 'decode' (empty array, empty map, own bytes), None = all"""
    if probe == "skipped": return True
    want, got = predict(meaning), probe.split(" ")
    if len(got) != len(want): return False
    idx = range(len(want)) if part is None else PARTS[part]
    for w, g in ((want[i], got[i]) for i in idx):
        if w == "*": continue
        if w == "err:*":
            if not g.startswith("err:"): return False
        elif w != g: return False
    return True
