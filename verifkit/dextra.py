"""`dextra`: hand-written derived types in harness/core (src/dextra.rs) whose field types the generated corpus does not use
(Box<Option<_>>, f32 / f64, Option<f64>, Cow<[u8]> behind the bytes codec).  No model op: the oracle is the property itself
(the value decoded from the type's own encoding is the value given, exactly the bytes are consumed, len() is their number)."""
from verifkit.runner import Stream
from verifkit import gen

F32 = ["00000000", "80000000", "3f800000", "7f800000", "ff800000", "7fc00000", "ffc00000", "7fc00001", "7f800001", "ff800001", "7fffffff",
       "00000001", "3f800001", "477fe000", "33800000"]
F64 = ["0000000000000000", "8000000000000000", "3ff0000000000000", "7ff0000000000000", "fff0000000000000", "7ff8000000000000", "fff8000000000000",
       "7ff8000000000001", "7ff0000000000001", "7ff4000000000000", "ffffffffffffffff", "0000000000000001", "3ff0000000000001", "7fefffffffffffff"]


def ops(rng, tier, floats_only=False):
    out = []
    n = 40 if tier == "quick" else 600
    if not floats_only:
        for t in ("BoxA", "BoxM", "BoxE"):
            for i in (0, 23, 24, 255):
                for p in ("N", "0", "23", "24", "255"):
                    out.append(f"dextra {t} {i} {p}")
        for p in ("N", "0", "24", "255"):
            for i in (0, 24):
                out.append(f"dextra BoxMid {p} {i}")
        # Cell / RefCell around an Option: mandatory fields, a None inside is written (as null) and read back
        for t, x in (("CellA", "8207f6"), ("CellM", "a2000701f6"), ("RefA", "8207f6"), ("RefM", "a200f60107")):
            out.append(f"dextra {t} 7 N #X={x}")
            for p in ("0", "24", "255"):
                out.append(f"dextra {t} 24 {p}")
        # a type alias of Option<u8> (nil-able by trait, not by spelling) behind decode_with only / encode_with only / no codec
        for t in ("DecOnlyA", "DecOnlyM", "EncOnlyA", "AliasA"):
            for i in (0, 24):
                for p in ("N", "0", "23", "24", "255"):
                    out.append(f"dextra {t} {i} {p}")
        for m in (0, 1, 23, 24, 255, 256):
            b = bytes((i * 7 + 0x18) & 0xff for i in range(m))
            out.append(f"dextra CowA {gen.hexb(b)} {m % 256}")
        for _ in range(n):
            out.append(f"dextra CowA {gen.hexb(gen.rand_bytes(rng, rng.randint(0, 40)))} {rng.randint(0, 255)}")
    if not floats_only:
        # fields of a one-valued type: the documented encoding is spelled out (#X=), they are ordinary mandatory fields
        for i in (0, 7, 23, 24, 255):
            hd = gen.head(0, i).hex()
            for t in ("UnitA", "UnitPA"):
                out.append(f"dextra {t} {i} #X=82{hd}80")
            for t in ("UnitM", "UnitPM"):
                out.append(f"dextra {t} {i} #X=a200{hd}0180")
            out.append(f"dextra UnitE {i} #X=82018280{hd}")
        out.append("dextra UnitE ping #X=82008180")
        # attributes that must not reach the wire: a variant tag on an index_only enum, a field tag on a transparent newtype
        out += ["dextra IoT A #X=00", "dextra IoT B #X=01", "dextra IoT C #X=19012c", "dextra TrT 500 #X=1901f4", "dextra TrT 0 #X=00",
                "dextra TrOuter 5 N B #X=8305f601", "dextra TrOuter 5 24 C #X=8305181819012c", "dextra TrOuter 0 N A #X=8300f600"]
        # a mandatory field of a one-valued type that is absent is missing; one decoder after hundreds of failed derived decodes
        out += ['dextra UnitMiss 7 #D=Err("missing")/Err("missing")', 'dextra UnitMiss 24 #D=Err("missing")/Err("missing")']
        for n_ in (0, 1, 127, 128, 129, 130, 255, 256, 257, 300, 1000):
            out.append(f"dextra Reuse {n_} #D=7,3fc00000,4004000000000000")
        # field names a macro may use for its own locals, in a struct, an array- and a map-encoded struct-like variant
        vals = [0, 1, 23, 24, 255, 256, 65535, 65536, 2**32 - 1, 2**32, 2**64 - 1]
        for k in range(len(vals) + 3):
            a = [str(vals[(k + 3 * j) % len(vals)]) for j in range(12)]
            if k % 3 == 0: a[2] = "N"
            for t in ("NamesE", "NamesM", "NamesS"):
                out.append(f"dextra {t} " + " ".join(a))
        for t in ("NamesE", "NamesM", "NamesS"):           # one field large, the others small: a length taken from the wrong variable shows
            for j in range(12):
                a = ["0"] * 12; a[j] = str(2**40 + j)
                out.append(f"dextra {t} " + " ".join(a))
        # structs without an encoded field: a struct-level tag is written and demanded; readers without fields skip what a writer with fields wrote
        out += ["dextra TagUnit #X=d903e980", "dextra TagEmptyM #X=c7a0", "dextra TagSkip #X=da0001117080",
                "dextra TagRead d903e980 #D=ok/err/err", "dextra TagRead c7a0 #D=err/ok/err", "dextra TagRead da0001117080 #D=err/err/ok"]
        for bad in ("80", "a0", "d903ea80", "d903e8a0", "c780", "c880", "c680", "da0001117180", "d9117080", "c1d903e980", "d903e9d903e980", "f6", "9fff", "bfff"):
            out.append(f"dextra TagRead {bad} #D=err/err/err")
        for doc, exp in (("80", "ok:1/err:type/ok:1"), ("a0", "err:type/ok:1/err:type"), ("8101", "ok:2/err:type/ok:2"), ("820102", "ok:3/err:type/ok:3"),
                         ("83f6f6f6", "ok:4/err:type/ok:4"), ("9fff", "ok:2/err:type/ok:2"), ("9f01ff", "ok:3/err:type/ok:3"), ("8182810203", "ok:5/err:type/ok:5"),
                         ("a10001", "err:type/ok:3/err:type"), ("a200010161" + "61", "err:type/ok:6/err:type"), ("bfff", "err:type/ok:2/err:type"),
                         ("bf0001ff", "err:type/ok:4/err:type"), ("a1008101", "err:type/ok:4/err:type")):
            out.append(f"dextra EmptyRead {doc} #D={exp}")
        # #[b(..)] and #[n(..)] on a borrowed slice: the same bytes (an array of numbers; bytes need the bytes codec)
        for data in (b"", b"\x01", b"\x01\x02\x03", bytes(range(24)), bytes([255]) * 30):
            for more in (None, b"", b"\x18\xff"):
                arr = lambda b: gen.head(4, len(b)) + b"".join(gen.head(0, x) for x in b)
                exp = (b"\x83\x07" if more is not None else b"\x82\x07") + arr(data) + (arr(more) if more is not None else b"")
                out.append(f"dextra BSlice 7 {gen.hexb(data)} {'N' if more is None else gen.hexb(more)} #X={exp.hex()} #D={exp.hex()}")
        # #[b] and #[n] indices mixed in one array-encoded type: the array is as long as the highest non-nil index says, whichever letter carries it
        for name, age, nick, karma in (("626f62", 42, "N", "7"), ("626f62", 42, "6e", "N"), ("626f62", 0, "N", "N"), ("-", 24, "6e6e", "70000"), ("c3a9", 255, "-", "0")):
            out.append(f"dextra MixBN {name} {age} {nick} {karma}")
        for name, age, flags in (("626f62", 42, "3"), ("626f62", 42, "N"), ("-", 0, "255")):
            out.append(f"dextra MixE {name} {age} {flags}")
        # items that are skipped (an unknown variant under an optional field, a bare null at a tagged optional field) in front of further fields,
        # in definite and indefinite framing: the fields behind them keep their places
        for doc, exp in (("84820981030962686982098" + "0", "N:9:6869:N@12"), ("9f8209810309626869820980ff", "N:9:6869:N@13"), ("838209810309626869", "N:9:6869:N@9"),
                         ("9f8209810309626869ff", "N:9:6869:N@10"), ("9f82008009626869ff", "P:9:6869:N@10"), ("9f820181070962686982098105ff", "F7:9:6869:N@15"),
                         ("9ff60962686982010" + "0ff", "err:type"), ("9f820980f609626869ff", "err:type")):
            out.append(f"dextra SkipRead A {doc} #D={exp.split('@')[0] + ('@%d' % (len(doc) // 2) if '@' in exp else '')}")      # a whole document is consumed to its end
        for doc, exp in (("9ff609ff", "N:9:N@4"), ("83f609f6", "N:9:N@4"), ("9ff609f6ff", "N:9:N@5"), ("9fc10509c206ff", "5:9:6@7"), ("83c10509c206", "5:9:6@6"),
                         ("9ff609c206ff", "N:9:6@6"), ("9fc105f609ff", "err:type"), ("82f609", "N:9:N@3"), ("9ff6f609ff", "err:type")):
            out.append(f"dextra SkipRead S {doc} #D={exp.split('@')[0] + ('@%d' % (len(doc) // 2) if '@' in exp else '')}")
        # a map-encoded reader of indices {0, 2} given a writer's {0, 1, 2, 3} (and other orders / framings), alone and in front of a sibling: its two
        # fields, everything else skipped pair by pair, the position at the end of the map
        for doc in ("a40001010202030304", "bf0001010202030304ff", "a40101000102030304", "a4030402030102000" + "1", "a3000101020203", "a200010203", "a5000101020203030404" + "05",
                    "a400010161610203" + "0304", "a40001018201020203038101"):
            out.append(f"dextra GapRead M {doc} #D=1,3@{len(doc) // 2}")
            o = "82" + doc + "07"
            out.append(f"dextra GapRead O {o} #D=1,3,7@{len(o) // 2}")
            o = "9f" + doc + "07ff"
            out.append(f"dextra GapRead O {o} #D=1,3,7@{len(o) // 2}")
        out += ["dextra GapRead M a2000101" + "02 #D=err:missing", "dextra GapRead M a10001 #D=err:missing", "dextra GapRead M a3000101020203 #D=1,3@7"]
        # transparent tuple structs whose one encoded field is not the first one: the bytes (and the length) of that field
        for num in (0, 23, 24, 300, 70000, 2**64 - 1):
            hd = gen.head(0, num).hex()
            txt = str(num).encode()
            out += [f"dextra TrSkip first {num} #X={hd} #D=-", f"dextra TrSkip last {num} #X={hd} #D=-", f"dextra TrSkip mid {num} #X={(gen.head(3, len(txt)) + txt).hex()} #D=-"]
        for t_ in ("-", "61", "616263", "c3a9e282ac", "78" * 24):
            out.append(f"dextra CowS {t_} 7")
        # a three-state type whose nil value (K) is not what its decoder makes of `null` (C): a written `null` belongs to the type's decoder
        for p_, q_ in (("C", "3"), ("C", "K"), ("3", "C"), ("C", "C"), ("K", "K"), ("5", "K"), ("24", "255")):
            out.append(f"dextra PatchA 7 {p_} {q_}")
            out.append(f"dextra PatchE {p_} {q_}")
        for p_ in ("K", "C", "0", "24"):
            for q_ in ("K", "C", "255"):
                out.append(f"dextra PatchM 24 {p_} {q_}")
    for a in F32:
        for b in rng.sample(F64, 4) + ["7ff8000000000001", "fff8000000000000", "3ff0000000000000"]:
            for t in ("FltA", "FltM", "FltE"):
                out.append(f"dextra {t} {rng.choice([0, 24])} {a} {b}")
    for b in F64:
        out.append(f"dextra FltW {b}")
        out.append(f"dextra OptF {b} N"); out.append(f"dextra OptF N {rng.choice(F32)}"); out.append(f"dextra OptF {b} {rng.choice(F32)}")
    out.append("dextra OptF N N")
    for _ in range(n):
        out.append(f"dextra {rng.choice(['FltA', 'FltM', 'FltE'])} {rng.randint(0, 255)} {rng.getrandbits(32):08x} {rng.getrandbits(64):016x}")
        out.append(f"dextra FltW {rng.getrandbits(64):016x}")
    # failed to_vec / to_vec_with calls in between (what they leave behind on the thread must not show in the bytes of the next value)
    mixed = []
    for i, o in enumerate(out):
        if i % 9 == 4:
            mixed.append(f"givesup {[0, 1, 22, 300][(i // 9) % 4]}")
        mixed.append(o)
    return mixed


def judge(op, impl, model, spec):
    if op.startswith("givesup"):
        return "ok" if impl == "err" else "violation"
    w = [x for x in op.split(" ") if not x.startswith("#")]
    iw = impl.split(" ")
    if len(iw) != 4 or not iw[1].startswith("len=") or not iw[2].startswith("dec=") or not iw[3].startswith("pos="):
        return "violation"
    x = [a[3:] for a in op.split(" ") if a.startswith("#X=")]
    if x and iw[0] != x[0]:
        return "violation"
    dd = [a[3:] for a in op.split(" ") if a.startswith("#D=")]
    if dd:
        if x and iw[1] != f"len={len(x[0]) // 2}":
            return "violation"              # where the bytes are spelled out, minicbor::len is their number
        return "ok" if iw[2][4:] == dd[0] else "violation"
    nbytes = 0 if iw[0] == "-" else len(iw[0]) // 2
    want = ",".join(w[2:]) if w[1] not in ("CowA", "CowS") else f"{w[2]},{w[3]}"
    if w[1] in ("MixBN", "MixE"):
        want = ",".join(w[2:])
    if iw[2][4:] != want or int(iw[3][4:]) != nbytes or int(iw[1][4:]) != nbytes:
        return "violation"
    return "ok"


def stream(rng, tier, floats_only=False):
    o = ops(rng, tier, floats_only)
    st = Stream("handwritten-derived-types", "hcore", o, model_ops=["nop"] * len(o), judge=judge,
                rule="dextra: #[derive(Encode, Decode, CborLen)] types with Box<Option<_>>, f32 / f64, Option<f64>, Cow<[u8]> (bytes codec) fields, array- and "
                     "map-encoded structs and enum variants: the value decoded from the type's own encoding is the value given bit for bit (NaN payloads, "
                     "signed zeros, None behind a Box), exactly its bytes are consumed and minicbor::len is their number (no model op)",
                nontrivial=lambda op, impl: "dec=" in impl or impl == "err")
    st.shrinkable = False
    return st


def replay(rp):
    return Stream("replay", "hcore", [rp["original_op"]], model_ops=["nop"], judge=judge)
