"""C18 — the serde bridge and the native Encode/Decode traits interoperate on the shared data model."""
from verifkit.runner import Stream
from verifkit import gen
from verifkit.props import serde_types as T

ID = "C18"
THM_MODULES = ["Minicbor.Thm.C18"]
P = "Minicbor.C18."
REQUIRED = [P + n for n in """interop_bytes natDec_eq_de interop_decode_agree interop_decode_canonical
native_roundtrip array_reframing_example""".split()]
PACKAGES = ["hserde"]
DEBUG_TWINS = True
RULE = ("iser <type> <value>: 43 shared types (ints, bool, char, floats, strings, unit, Option, Vec, fixed arrays, tuples, BTreeMap and "
        "compositions) x type-directed boundary values; oracle in the orchestrator: minicbor::to_vec bytes == minicbor_serde::to_vec bytes "
        "(== the orchestrator's own encoding).  ide <type> <hex>: the canonical bytes and re-framings (wider heads, indefinite containers, "
        "chunked strings, indefinite tuples/arrays), strict prefixes and byte mutations through minicbor::decode and minicbor_serde; oracle: "
        "whenever a side answers ok on a (re-framed) encoding of v its value is v and it consumed everything; on the canonical bytes both "
        "answer ok; on arbitrary bytes two ok answers carry the same value and position.  All compared with the model.")
ASSUMPTIONS = ["serde's std impls (Vec, arrays, tuples, BTreeMap, Option, primitives) are modelled, not verified",
               "Option directly inside Option is the properties' own documented exclusion (Some(None) is written as null)"]
TRUSTED_EXTRA = ["verifkit/props/serde_types.py: type table, spec encoder, reference parser"]

TREES = {n: T.parse_type(d, native=True) for n, d in T.SHARED.items()}
FRAMES = {"canon": {}, "wide": dict(wide=True), "flip": dict(flip=0.6), "fnarrow": dict(fnarrow=0.9), "chunk": dict(chunk=0.6), "fliptup": dict(fliptup=True, flip=0.4),
          "all": dict(wide=True, flip=0.4, fliptup=True, chunk=0.3)}


def model_op(op):
    w = op.split(" ")
    w[1] = T.SHARED[w[1]]
    return " ".join(x for x in w if not x.startswith("#"))


def serde_tree(name):
    return T.parse_type(T.native_to_serde(T.SHARED[name]))


def judge_iser(op, impl, model, spec):
    w = op.split(" ")
    v = T.parse_val(w[2])
    iw = impl.split(" ")
    if iw[0] in ("panic", "crash"):
        return "violation"
    if iw[0].startswith("bad-"):
        return "corr"
    want = T.spec_enc(v).hex()
    if len(iw) != 2 or iw[0] != iw[1] or iw[0] != want:
        return "violation"
    return "ok" if impl == model else "corr"


def split_sides(line):
    a, _, b = line.partition(" | ")
    return a.split(" "), b.split(" ")


def judge_ide(op, impl, model, spec):
    w = op.split(" ")
    ann = {x[1:].split("=", 1)[0]: x[1:].split("=", 1)[1] for x in w if x.startswith("#") and "=" in x}
    if impl.startswith("panic") or impl.startswith("crash") or "panic" in impl.split(" "):
        return "violation"
    if " | " not in impl:
        return "corr"
    nat, ser = split_sides(impl)
    n = 0 if w[2] == "-" else len(w[2]) // 2
    # two ok answers never disagree, whatever the bytes
    if nat[0] == "ok" and ser[0] == "ok" and nat != ser:
        return "violation"
    if "v" in ann:
        t = serde_tree(w[1])
        v = T.parse_val(ann["v"])
        excluded = "OO" in T.known_classes(t, v)
        for side in (nat, ser):
            if side[0] == "ok" and not (side[1] == ann["v"] and int(side[2]) == n) and not excluded:
                return "violation"
        if ann.get("m") in ("canon", "wide") and not (nat[0] == "ok" and ser[0] == "ok"):
            return "violation"
    return "ok" if impl == model else "corr"


def streams(rng, tier):
    per = 80 if tier == "quick" else 2000
    e_ops, d_ops, h_ops = [], [], []
    for name in sorted(T.SHARED):
        t = TREES[name]
        seen = set()
        for i in range(per * (2 if t[0] in ("int", "char", "f32", "f64") else 1)):
            v = T.gen_val(rng, t)
            s = T.show_val(v)
            if s in seen or len(s) > 6000:
                continue
            seen.add(s)
            e_ops.append(f"iser {name} {s}")
            if i % 2 == 0:
                for m, o in FRAMES.items():
                    h = T.spec_enc(v, dict(o, rng=rng)).hex()
                    d_ops.append(f"ide {name} {h} #m={m} #v={s}")
            if i % 5 == 0:
                b = T.spec_enc(v)
                cuts = range(len(b)) if len(b) <= 16 else sorted({0, 1, len(b) // 2, len(b) - 1})
                for c in cuts:
                    h_ops.append(f"ide {name} {T.hx(b[:c])} #m=trunc")
                for _ in range(4):
                    if not b: break
                    mb = bytearray(b)
                    mb[rng.randrange(len(mb))] = rng.choice([0x00, 0x18, 0x1b, 0x20, 0x3b, 0x40, 0x5f, 0x60, 0x7f, 0x80, 0x81, 0x9f, 0xa0, 0xbf,
                                                             0xc0, 0xf4, 0xf6, 0xf7, 0xf9, 0xfa, 0xfb, 0xff, rng.getrandbits(8)])
                    h_ops.append(f"ide {name} {T.hx(bytes(mb))} #m=mut")
    # bulk documents (hundreds of tuples / fixed arrays / options in one document), both directions
    for name in sorted(T.SHARED):
        t = TREES[name]
        if not T.has_container(t):
            continue
        for count in ((130, 300) if tier == "quick" else (127, 128, 129, 255, 256, 257, 300, 1000)):
            v = T.gen_bulk(rng, t, count)
            s = T.show_val(v)
            if len(s) > 40000 or len(T.spec_enc(v)) > 8192:        # the model driver is quadratic in the document size
                continue
            e_ops.append(f"iser {name} {s}")
            for m, o in FRAMES.items():
                h = T.spec_enc(v, dict(o, rng=rng)).hex()
                d_ops.append(f"ide {name} {h} #m={m} #v={s}")
    for kind, (lo, hi) in T.INT_KINDS.items():
        for k in range(0, 65):
            for d in (-1, 0, 1):
                for x in ((1 << k) + d, -(1 << k) + d):
                    if lo <= x <= hi:
                        e_ops.append(f"iser {kind} {kind}:{x}")
    e_ops = list(dict.fromkeys(e_ops))
    # failed to_vec calls (either codec) in between: what a failed call leaves behind on the thread must not show in the next value's bytes
    mixed, k = [], 0
    for i, o in enumerate(e_ops):
        if i % 23 == 5:
            mixed.append(f"serfail {[0, 1, 3, 24, 300][k % 5]} {['both', 'bridge', 'native'][k % 3]}"); k += 1
        mixed.append(o)
    e_ops = mixed
    def judge_iser2(op, impl, model, spec):
        if op.startswith("serfail"):
            return "ok" if all(x in ("err", "-") for x in impl.split(" | ")) else "violation"
        return judge_iser(op, impl, model, spec)
    s1 = Stream("interop-bytes", "hserde", e_ops, model_ops=["nop" if o.startswith("serfail") else model_op(o) for o in e_ops], judge=judge_iser2, rule=RULE)
    s2 = Stream("interop-decode", "hserde", d_ops, model_ops=[model_op(o) for o in d_ops], judge=judge_ide,
                rule="ide <type> <framing of an encoding> #m=<mode> #v=<value>", nontrivial=lambda op, impl: impl.startswith("ok") or " | ok" in impl)
    s3 = Stream("interop-hostile", "hserde", h_ops, model_ops=[model_op(o) for o in h_ops], judge=judge_ide,
                rule="ide <type> <strict prefix | one-byte mutation>", nontrivial=lambda op, impl: "err" in impl)
    s4 = extra_stream(rng, tier)
    kops = [f"ikey {k} {sd}" for k in ("tup", "unit", "vec", "opt", "arr", "map", "nested") for sd in range(60 if tier == "quick" else 2000)]
    s5 = Stream("maps-with-composite-keys", "hserde", kops, model_ops=["nop"] * len(kops),
                judge=lambda op, impl, model, spec: "ok" if impl.startswith("ok ") else "violation",
                rule="ikey: BTreeMaps keyed by tuples, (), vectors, options, fixed arrays and maps (the model's ordered maps have scalar keys only, so no model op): "
                     "native and bridge write the same bytes, and each decoder gives the map back from them")
    # ONE bridge Deserializer over the bytes, rewound through decoder_mut().set_position(0) and asked again (after successful and after failed passes):
    # every pass answers what a fresh deserializer answers (a deserializer is its decoder, no budget is used up by earlier passes)
    src = [o for o in d_ops + h_ops if o.startswith("ide ")]
    step = max(1, len(src) // (3000 if tier == "quick" else 40000))
    tw = list(dict.fromkeys("twice " + " ".join(o.split(" ")[1:3]) for o in src[::step]))
    s6 = Stream("one-deserializer-again", "hserde", tw, model_ops=["nop"] * len(tw),
                judge=lambda op, impl, model, spec: "ok" if impl.startswith("same | ") else "violation",
                rule="twice <type> <bytes>: one Deserializer, three passes over the same bytes with a rewind in between == a fresh Deserializer's answer each time",
                nontrivial=lambda op, impl: impl.startswith("same | ok"))
    for s in (s1, s2, s3, s4, s5, s6):
        s.shrinkable = False
    return [s1, s2, s3, s4, s5, s6]


def judge_extra(op, impl, model, spec):
    """`ideb`: borrowing targets (&str inside tuples / Vec / Option / BTreeMap) through both decoders: on the canonical bytes of
    a value both return it and consume everything; on a re-framing each returns that value or an error; never two different
    values.  `iserh`: a BinaryHeap written by both codecs: identical bytes, a definite array of the pushed multiset."""
    w = [x for x in op.split(" ") if not x.startswith("#")]
    ann = {x[1:].split("=", 1)[0]: x.split("=", 1)[1] for x in op.split(" ") if x.startswith("#") and "=" in x}
    if w[0] == "iserh":
        p = impl.split(" ")
        if len(p) != 2 or p[0] != p[1] or p[0] == "err":
            return "violation"
        return "ok" if "n" not in ann or _heap_ok(p[0], w[1], w[2]) else "violation"
    if " | " not in impl:
        return "violation"
    nat, bri = impl.split(" | ")
    if w[0] == "ides2":
        # the second read stands on a well-formed text item: each side returns its value and the end position, or an error (chunked
        # text is not accepted by either side today); what the first read left behind must not leak into it
        for side in (nat, bri):
            if side.startswith("ok ") and side != f"ok {ann['v']} {ann['n']}":
                return "violation"
            if not side.startswith(("ok ", "err ")):
                return "violation"
        if ann["m"] == "canon2" and not (nat.startswith("ok ") and bri.startswith("ok ")):
            return "violation"
        return "ok"
    n = len(w[2]) // 2 if w[2] != "-" else 0
    want = ann.get("v")
    for side in (nat, bri):
        if side.startswith("ok "):
            if want is not None and side != f"ok {want} {n}":
                return "violation"
        elif not side.startswith("err "):
            return "violation"
    if ann.get("m") == "canon" and not (nat.startswith("ok ") and bri.startswith("ok ")):
        return "violation"
    return "ok"


def _heap_ok(hx, kind, arg):
    from verifkit import typegen
    b = bytes.fromhex(hx)
    it = typegen.walk(b, 0)
    if it is None or it.end != len(b) or it.major != 4 or it.indef:
        return False
    vals = [] if arg == "-" else arg.split(",")
    if kind == "str":
        want = sorted(gen.head(3, len(bytes.fromhex(v))) + bytes.fromhex(v) for v in vals)
    else:
        want = sorted((gen.head(0, int(v)) if int(v) >= 0 else gen.head(1, -1 - int(v))) for v in vals)
    return sorted(b[k.start:k.end] for k in it.kids) == want


def extra_stream(rng, tier):
    ops = []
    texts = [b"", b"a", b"hello", "é€😀".encode(), b"x" * 23, b"y" * 24, b"z" * 255, b"w" * 256]
    def tstr(t, wide=0, chunk=False):
        if chunk:
            h = len(t) // 2
            return b"\x7f" + gen.head(3, h) + t[:h] + gen.head(3, len(t) - h) + t[h:] + b"\xff"
        return (gen.head(3, len(t), wide) if wide else gen.head(3, len(t))) + t
    hxs = lambda t: gen.hexb(t)
    for _ in range(300 if tier == "quick" else 5000):
        a, b2 = rng.choice(texts), rng.choice(texts)
        n = rng.randint(0, 255)
        mode = rng.choice(["canon", "canon", "wide", "chunk"])
        wide = rng.choice([1, 2, 4, 8]) if mode == "wide" else 0
        if mode == "wide" and max(len(a), len(b2)) >= 256 and wide == 1: wide = 2
        ch = mode == "chunk"
        S = lambda t: tstr(t, wide, ch)
        ops.append(f"ideb str {S(a).hex()} #m={mode} #v={hxs(a)}")
        ops.append(f"ideb tup {(bytes([0x82]) + S(a) + gen.head(0, n)).hex()} #m={mode} #v={hxs(a)},{n}")
        ops.append(f"ideb vec {(bytes([0x82]) + S(a) + S(b2)).hex()} #m={mode} #v={hxs(a)},{hxs(b2)}")
        ops.append(f"ideb vec 80 #m=canon #v=[]")
        ops.append(f"ideb opt {S(a).hex()} #m={mode} #v=S{hxs(a)}")
        ops.append(f"ideb opt f6 #m=canon #v=N")
        if a != b2:
            k1, k2 = sorted([a, b2])
            ops.append(f"ideb map {(bytes([0xa2]) + S(k1) + S(b2) + S(k2) + S(a)).hex()} #m={mode} #v={hxs(k1)}={hxs(b2)},{hxs(k2)}={hxs(a)}")
        e = S(a)
        if len(e) > 1:
            ops.append(f"ideb str {e[:rng.randrange(1, len(e))].hex()} #m=trunc")
    for _ in range(300 if tier == "quick" else 5000):
        k = rng.choice(["u8", "i64", "str"])
        m = rng.choice([0, 1, 2, 3, 3, 4, 5, 8, 24, 30])
        if k == "u8": vals = [str(rng.choice([0, 1, 23, 24, 255, rng.randint(0, 255)])) for _ in range(m)]
        elif k == "i64": vals = [str(rng.choice([0, -1, 23, 24, -25, 2**63 - 1, -2**63, rng.randint(-1000, 1000)])) for _ in range(m)]
        else: vals = [rng.choice([b"a", b"bb", b"ccc", b"", b"zz"]).hex() or "" for _ in range(m)]; vals = [v for v in vals if v]
        ops.append(f"iserh {k} {','.join(vals) or '-'} #n=1")
    # ONE decoder / Deserializer: a String read that may fail part-way, a re-positioning, a second String read
    firsts = ["7f626869", "7f626869ff", "7f6268697f", "7f62c328ff", "7f62686941", "626869", "7f", "7fff", "7f6268", "f6", "7f6161616262ff"]
    for a in firsts:
        for t in (b"abc", b"", b"a", "é€".encode(), b"x" * 24):
            for m in ("canon", "chunk"):
                b2 = tstr(t, 0, m == "chunk")
                ops.append(f"ides2 {a} {b2.hex()} #m={'canon2' if m == 'canon' else 'chunk2'} #v={hxs(t)} #n={len(bytes.fromhex(a)) + len(b2)}")
    ops = list(dict.fromkeys(ops))
    return Stream("interop-borrowed-and-heaps", "hserde", ops, model_ops=["nop"] * len(ops), judge=judge_extra,
                  rule="ideb: &str-borrowing targets ((&str, u8), Vec<&str>, Option<&str>, BTreeMap<&str, &str>) through minicbor::decode and the bridge on canonical, "
                       "wide-head and chunked encodings; iserh: BinaryHeap<u8 | i64 | String> written by both codecs (identical bytes, the pushed multiset); no model op",
                  nontrivial=lambda op, impl: "ok" in impl or len(impl.split(" ")) == 2)


def replay_streams(rp):
    if (rp.get("original_op") or rp.get("op", "")).startswith("twice"):
        return [Stream("replay", "hserde", [rp.get("original_op") or rp["op"]], model_ops=["nop"], judge=lambda op, impl, model, spec: "ok" if impl.startswith("same | ") else "violation")]
    if (rp.get("original_op") or rp.get("op", "")).startswith("ikey"):
        return [Stream("replay", "hserde", [rp.get("original_op") or rp["op"]], model_ops=["nop"], judge=lambda op, impl, model, spec: "ok" if impl.startswith("ok ") else "violation")]
    op = rp.get("original_op") or rp["op"]
    if op.startswith(("ideb", "iserh", "ides2")):
        s = Stream("replay", "hserde", [op], model_ops=["nop"], judge=judge_extra)
        s.shrinkable = False
        return [s]
    j = judge_iser if op.startswith("iser ") else judge_ide
    s = Stream("replay", "hserde", [op], model_ops=[model_op(op)], judge=j)
    s.shrinkable = False
    return [s]
