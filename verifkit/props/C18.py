"""C18 — the serde bridge and the native Encode/Decode traits interoperate on the shared data model."""
from verifkit.runner import Stream
from verifkit.props import serde_types as T

ID = "C18"
THM_MODULES = ["Minicbor.Thm.C18"]
P = "Minicbor.C18."
REQUIRED = [P + n for n in """interop_bytes natDec_eq_de interop_decode_agree interop_decode_canonical
native_roundtrip array_reframing_example""".split()]
PACKAGES = ["hserde"]
RULE = ("iser <type> <value>: 43 shared types (ints, bool, char, floats, strings, unit, Option, Vec, fixed arrays, tuples, BTreeMap and "
        "compositions) x type-directed boundary values; oracle in the orchestrator: minicbor::to_vec bytes == minicbor_serde::to_vec bytes "
        "(== the orchestrator's own encoding).  ide <type> <hex>: the canonical bytes and re-framings (wider heads, indefinite containers, "
        "chunked strings, indefinite tuples/arrays), strict prefixes and byte mutations through minicbor::decode and minicbor_serde; oracle: "
        "whenever a side answers ok on a (re-framed) encoding of v its value is v and it consumed everything; on the canonical bytes both "
        "answer ok; on arbitrary bytes two ok answers carry the same value and position.  All compared with the model.")
ASSUMPTIONS = ["serde's std impls (Vec, arrays, tuples, BTreeMap, Option, primitives) are modelled, not verified",
               "Option directly inside Option is the properties' own documented exclusion (Some(None) is written as null)"]
TRUSTED_EXTRA = ["verifkit/props/serde_types.py: type table, spec encoder, reference parser"]

TREES = {n: T.parse_type(d, native=True) for n, d in T.SHARED.items()}
FRAMES = {"canon": {}, "wide": dict(wide=True), "flip": dict(flip=0.6), "fnarrow": dict(fnarrow=0.9), "chunk": dict(chunk=0.6), "fliptup": dict(fliptup=True, flip=0.4),
          "all": dict(wide=True, flip=0.4, fliptup=True, chunk=0.3)}


def model_op(op):
    w = op.split(" ")
    w[1] = T.SHARED[w[1]]
    return " ".join(x for x in w if not x.startswith("#"))


def serde_tree(name):
    return T.parse_type(T.native_to_serde(T.SHARED[name]))


def judge_iser(op, impl, model, spec):
    w = op.split(" ")
    v = T.parse_val(w[2])
    iw = impl.split(" ")
    if iw[0] in ("panic", "crash"):
        return "violation"
    if iw[0].startswith("bad-"):
        return "corr"
    want = T.spec_enc(v).hex()
    if len(iw) != 2 or iw[0] != iw[1] or iw[0] != want:
        return "violation"
    return "ok" if impl == model else "corr"


def split_sides(line):
    a, _, b = line.partition(" | ")
    return a.split(" "), b.split(" ")


def judge_ide(op, impl, model, spec):
    w = op.split(" ")
    ann = {x[1:].split("=", 1)[0]: x[1:].split("=", 1)[1] for x in w if x.startswith("#") and "=" in x}
    if impl.startswith("panic") or impl.startswith("crash") or "panic" in impl.split(" "):
        return "violation"
    if " | " not in impl:
        return "corr"
    nat, ser = split_sides(impl)
    n = 0 if w[2] == "-" else len(w[2]) // 2
    # two ok answers never disagree, whatever the bytes
    if nat[0] == "ok" and ser[0] == "ok" and nat != ser:
        return "violation"
    if "v" in ann:
        t = serde_tree(w[1])
        v = T.parse_val(ann["v"])
        excluded = "OO" in T.known_classes(t, v)
        for side in (nat, ser):
            if side[0] == "ok" and not (side[1] == ann["v"] and int(side[2]) == n) and not excluded:
                return "violation"
        if ann.get("m") in ("canon", "wide") and not (nat[0] == "ok" and ser[0] == "ok"):
            return "violation"
    return "ok" if impl == model else "corr"


def streams(rng, tier):
    per = 80 if tier == "quick" else 2000
    e_ops, d_ops, h_ops = [], [], []
    for name in sorted(T.SHARED):
        t = TREES[name]
        seen = set()
        for i in range(per * (2 if t[0] in ("int", "char", "f32", "f64") else 1)):
            v = T.gen_val(rng, t)
            s = T.show_val(v)
            if s in seen or len(s) > 6000:
                continue
            seen.add(s)
            e_ops.append(f"iser {name} {s}")
            if i % 2 == 0:
                for m, o in FRAMES.items():
                    h = T.spec_enc(v, dict(o, rng=rng)).hex()
                    d_ops.append(f"ide {name} {h} #m={m} #v={s}")
            if i % 5 == 0:
                b = T.spec_enc(v)
                cuts = range(len(b)) if len(b) <= 16 else sorted({0, 1, len(b) // 2, len(b) - 1})
                for c in cuts:
                    h_ops.append(f"ide {name} {T.hx(b[:c])} #m=trunc")
                for _ in range(4):
                    if not b: break
                    mb = bytearray(b)
                    mb[rng.randrange(len(mb))] = rng.choice([0x00, 0x18, 0x1b, 0x20, 0x3b, 0x40, 0x5f, 0x60, 0x7f, 0x80, 0x81, 0x9f, 0xa0, 0xbf,
                                                             0xc0, 0xf4, 0xf6, 0xf7, 0xf9, 0xfa, 0xfb, 0xff, rng.getrandbits(8)])
                    h_ops.append(f"ide {name} {T.hx(bytes(mb))} #m=mut")
    # bulk documents (hundreds of tuples / fixed arrays / options in one document), both directions
    for name in sorted(T.SHARED):
        t = TREES[name]
        if not T.has_container(t):
            continue
        for count in ((130, 300) if tier == "quick" else (127, 128, 129, 255, 256, 257, 300, 1000)):
            v = T.gen_bulk(rng, t, count)
            s = T.show_val(v)
            if len(s) > 40000 or len(T.spec_enc(v)) > 8192:        # the model driver is quadratic in the document size
                continue
            e_ops.append(f"iser {name} {s}")
            for m, o in FRAMES.items():
                h = T.spec_enc(v, dict(o, rng=rng)).hex()
                d_ops.append(f"ide {name} {h} #m={m} #v={s}")
    for kind, (lo, hi) in T.INT_KINDS.items():
        for k in range(0, 65):
            for d in (-1, 0, 1):
                for x in ((1 << k) + d, -(1 << k) + d):
                    if lo <= x <= hi:
                        e_ops.append(f"iser {kind} {kind}:{x}")
    e_ops = list(dict.fromkeys(e_ops))
    s1 = Stream("interop-bytes", "hserde", e_ops, model_ops=[model_op(o) for o in e_ops], judge=judge_iser, rule=RULE)
    s2 = Stream("interop-decode", "hserde", d_ops, model_ops=[model_op(o) for o in d_ops], judge=judge_ide,
                rule="ide <type> <framing of an encoding> #m=<mode> #v=<value>", nontrivial=lambda op, impl: impl.startswith("ok") or " | ok" in impl)
    s3 = Stream("interop-hostile", "hserde", h_ops, model_ops=[model_op(o) for o in h_ops], judge=judge_ide,
                rule="ide <type> <strict prefix | one-byte mutation>", nontrivial=lambda op, impl: "err" in impl)
    for s in (s1, s2, s3):
        s.shrinkable = False
    return [s1, s2, s3]


def replay_streams(rp):
    op = rp.get("original_op") or rp["op"]
    j = judge_iser if op.startswith("iser ") else judge_ide
    s = Stream("replay", "hserde", [op], model_ops=[model_op(op)], judge=j)
    s.shrinkable = False
    return [s]
