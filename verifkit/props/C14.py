"""C14 — Framed blocking I/O round-trips under any fragmentation and detects truncation."""
import itertools
from verifkit.runner import Stream
from verifkit import runner
from verifkit import gen
from verifkit import frameio as F

ID = "C14"
THM_MODULES = ["Minicbor.Thm.C14"]
P = "Minicbor.C14."
REQUIRED = [P + n for n in """fill_benign drain_benign
writer_frames writer_rejects_nothing_written writer_frame_size
read_frame reader_any_fragmentation reader_roundtrip reader_clean_end reader_truncation reader_resync
reader_alloc reader_oversize_rejected
valCodec_roundtrip valCodec_padded decVal_noPanic""".split()]
PACKAGES = ["hio"]
DEBUG_TWINS = True
RULE = ("fread/fwrite scenarios on the real Reader/Writer over scripted std::io::Read/Write: value sequences whose stream is <=12 bytes "
        "(thorough <=15) x ALL compositions of the stream into read sizes x every placement of <=1 Interrupted (thorough <=2); every "
        "truncation point of longer streams x {whole, byte-wise, random} deliveries and all compositions of the short ones; frames with "
        "undecodable / empty / over-long payloads between good ones; max_len in {len-1,len,len+1} and hostile prefixes with the reader's "
        "largest allocation request measured by a counting allocator; writer: all compositions of short writes, encode failures, max_len; "
        "seeded random longer scenarios incl. error / WouldBlock / Ok(0) events (model comparison). The judge evaluates the property on the "
        "implementation transcript (values returned == values written then none; eof error on a cut; exact frame bytes) and compares with the model.")
ASSUMPTIONS = ["payload type of the scenarios is hio::V (u64 | byte string | failing encoder); other payload types go through the same "
               "decode_with/encode_with calls (C01/C04)",
               "the debug-profile overflow panic of `buffer.len() as u32 - 4` for payloads of 2^32-4..2^32-1 bytes is out of reach of the streams"]

SMALL = ["-", "t5", "t24,u6", "u5,t300", "u5", "u24", "u300", "b-", "b01", "b0102", "u5,u6", "u5,b-", "b-,u24", "u24,u24", "b01,b02", "u65536",
         "b01020304050607", "u5,u23", "b0102,u24", "u300,u300", "u5,u6,u7"]
MEDIUM = ["u5,b0102,u300", "b000102030405060708090a0b0c0d0e0f1011121314151617,u1", "u18446744073709551615,b-,u0",
          "b" + "ab" * 30 + ",u70000,b" + "cd" * 24]


def stream_of(vs):
    return F.frames([F.payload(v) for v in vs])


def with_intr(parts, slots):
    evs, s = [], sorted(slots)
    for i, k in enumerate(parts):
        evs += ["i"] * s.count(i)
        evs.append(k)
    evs += ["i"] * s.count(len(parts))
    return evs


def expect_read_tokens(payloads):
    out = []
    for p in payloads:
        d = F.decode_payload(p)
        out.append("some:" + d[1] if d[0] == "some" else "err:decode")
    return out


def tok_matches(tok, exp):
    return tok.startswith("err:decode:") if exp == "err:decode" else tok == exp


def judge(op, impl, model, spec):
    w = op.split(" ")
    kind = F.ann(op, "k")
    if impl in ("panic", "bad-op") or impl.startswith("crash"):
        return "violation"
    toks, kv, pos = F.fields(impl)
    good = True
    if w[0] == "fread":
        maxlen = F.ml(w[1])
        if not F.peak_ok(kv, maxlen):
            return "violation"
        if kind in ("frag", "resync", "rand"):
            ps = [b"" if x == "-" else bytes.fromhex(x) for x in F.ann(op, "p").split("/")] if F.ann(op, "p") != "" else []
            exp = expect_read_tokens(ps)
            n = len(exp)
            good = (len(toks) >= n + 1 and all(tok_matches(t, e) for t, e in zip(toks, exp))
                    and all(t == "none" for t in toks[n:]) and kv["rem"] == "0")
        elif kind == "trunc":
            ps = [bytes.fromhex(x) for x in F.ann(op, "p").split("/")]
            cut = int(F.ann(op, "cut"))
            exp, acc = [], 0
            for p in ps:
                if acc + 4 + len(p) <= cut:
                    exp.append(p); acc += 4 + len(p)
                else:
                    break
            et = expect_read_tokens(exp)
            n = len(et)
            nxt = "none" if acc == cut else "err:io:eof"
            good = (len(toks) >= n + 1 and all(tok_matches(t, e) for t, e in zip(toks, et)) and toks[n] == nxt
                    and not any(t.startswith("some:") for t in toks[n:]))
        elif kind == "pause":
            good = toks == F.ann(op, "exp").split("/") and kv["rem"] == "0"
        elif kind == "maxlen":
            # first frame's payload length vs max_len
            ln = int(F.ann(op, "len"))
            if ln > maxlen:
                good = toks[0] == "err:len" and (kv["buf"] == "0" or F.ann(op, "again") == "1")
                if F.ann(op, "again") == "1" and any(t.startswith("some:b") and (len(t) - 6) // 2 > maxlen for t in toks):
                    good = False            # a value longer than the limit was delivered
            else:
                exp = F.ann(op, "exp").split("/")
                good = toks[:len(exp)] == exp
    elif w[0] == "fwrite":
        maxlen = F.ml(w[1])
        if kind == "wr":
            vs = F.parse_vals(w[2])
            exp, sink = [], b""
            for v in vs:
                p = F.payload(v)
                if p is None:
                    exp.append("err:encode")
                elif len(p) > maxlen:
                    exp.append("err:len")
                else:
                    exp.append(f"ok:{len(p)}"); sink += F.frame(p)
            good = toks == exp and pos[0] == gen.hexb(sink)
    if not good:
        return "violation"
    return "ok" if F.strip_peak(impl) == model else "corr"


def frag_ops(tier):
    ops = []
    limit = 12 if tier == "quick" else 15
    for s in SMALL:
        vs = F.parse_vals(s)
        st = stream_of(vs)
        if len(st) > limit:
            continue
        ptag = "/".join(gen.hexb(F.payload(v)) for v in vs)
        mls = {100, max([len(F.payload(v)) for v in vs] or [0])}
        for parts in F.compositions(len(st)):
            slots = range(len(parts) + 1)
            placements = [()] + [(a,) for a in slots]
            if tier == "thorough" and len(st) <= 12:
                placements += list(itertools.combinations_with_replacement(slots, 2))
            for pl in placements:
                ml = 100 if (len(parts) + len(pl)) % 2 else max(mls - {100} or {100})
                ops.append(f"fread {ml} {len(vs) + 2} {gen.hexb(st)} {F.script_tok(with_intr(parts, pl))} #k=frag #p={ptag}")
        # runs of Interrupted at one place (before the first frame, between frames, inside a prefix / payload, before the end-of-stream read):
        # retrying is unbounded, however long the run
        parts = [1] * len(st)
        for at in sorted({0, 1, 3, 4, 5, len(st) - 1, len(st)} & set(range(len(st) + 1))) + ([4 + len(F.payload(vs[0]))] if len(vs) > 1 else []):
            for n in (2, 7, 8, 9, 10, 17, 64, 300):
                ops.append(f"fread 100 {len(vs) + 2} {gen.hexb(st)} {F.script_tok(with_intr(parts, (at,) * n))} #k=frag #p={ptag}")
    return ops


def pause_ops(rng, tier):
    """a source that answers 0 bytes exactly on frame boundaries (a pipe whose writer pauses, a file that grows) and goes on afterwards: every 0 at a
    boundary is one clean end, and the SAME reader delivers the frames that arrive later"""
    ops = []
    for s in [x for x in SMALL + MEDIUM if x != "-"]:
        vs = F.parse_vals(s)
        ps = [F.payload(v) for v in vs]
        for pattern in range(1, 2 ** min(len(vs) + 1, 4)):
            evs, exp = [], []
            for i, p in enumerate(ps):
                for _ in range((pattern >> i) & 1):
                    evs.append("z"); exp.append("none")
                    if (pattern * 7 + i) % 3 == 0:
                        evs.append("z"); exp.append("none")
                evs += [4, len(p)] if len(p) else [4]
                d = F.decode_payload(p)
                exp.append("some:" + d[1] if d[0] == "some" else "err:decode")
            exp += ["none", "none"]
            ops.append(f"fread 100000 {len(exp)} {gen.hexb(stream_of(vs))} {F.script_tok(evs + [9, 9])} #k=pause #exp={'/'.join(exp)}")
    return ops


def trunc_ops(rng, tier):
    ops = []
    for s in SMALL + MEDIUM:
        vs = F.parse_vals(s)
        if not vs:
            continue
        st = stream_of(vs)
        ptag = "/".join(gen.hexb(F.payload(v)) for v in vs)
        for cut in range(0, len(st) + 1):
            t = st[:cut]
            scripts = [[], [1] * cut]
            if cut <= (9 if tier == "quick" else 12):
                scripts += list(F.compositions(cut))
            for _ in range(2):
                parts = F.rand_composition(rng, cut, 5)
                scripts.append(with_intr(parts, [rng.randint(0, len(parts)) for _ in range(rng.randint(0, 3))]))
            for sc in scripts:
                ops.append(f"fread 100 {len(vs) + 2} {gen.hexb(t)} {F.script_tok(sc)} #k=trunc #p={ptag} #cut={cut}")
    return ops


BAD = ["ff", "", "1901", "05ff", "a0", "4201", "f6", "1b00", "5f41ff", "3903e7", "9f", "1c", "5c", "40", "18"]


def resync_ops(rng, tier):
    ops = []
    good = ["05", "420102", "19012c"]
    for b in BAD:
        for pre in (0, 1):
            ps = [bytes.fromhex(x) for x in (good[:pre] + [b] + good[pre:pre + 2])]
            st = F.frames(ps)
            ptag = "/".join(gen.hexb(p) for p in ps)
            scripts = [[], [1] * len(st)] + [F.rand_composition(rng, len(st), 4) for _ in range(6)]
            if len(st) <= 11:
                scripts += list(F.compositions(len(st)))
            for sc in scripts:
                if sc and rng.random() < 0.5:
                    sc = with_intr(sc, [rng.randint(0, len(sc))])
                ops.append(f"fread 100 {len(ps) + 1} {gen.hexb(st)} {F.script_tok(sc)} #k=resync #p={ptag}")
    # two bad frames in a row, bad last
    for a, b in itertools.product(BAD[:6], repeat=2):
        ps = [bytes.fromhex(a), bytes.fromhex(b), bytes.fromhex("05")]
        st = F.frames(ps)
        ops.append(f"fread 100 4 {gen.hexb(st)} {F.script_tok(F.rand_composition(rng, len(st), 3))} #k=resync #p={'/'.join(gen.hexb(p) for p in ps)}")
    return ops


def maxlen_ops(rng, tier):
    ops = []
    sizes = [0, 1, 22, 23, 24, 25, 100, 254, 255, 256, 257, 300, 1000] + ([65535, 65536, 70000] if tier == "thorough" else [65536])
    for n in sizes:
        v = ("b", gen.rand_bytes(rng, n))
        p = F.payload(v)
        st = F.frames([p, b"\x05"])
        exp = f"some:{F.val_tok(v)}/some:u5/none"
        for ml in sorted({max(len(p) - 1, 0), len(p), len(p) + 1, 0, 4}):
            for sc in ([], F.rand_composition(rng, len(st), max(1, len(st) // 3))):
                # a rejected length leaves the stream mid-frame: only the rejecting call is constrained
                nr = 3 if len(p) <= ml else 1
                ops.append(f"fread {ml} {nr} {gen.hexb(st)} {F.script_tok(sc)} #k=maxlen #len={len(p)} #exp={exp}")
                if len(p) > ml:
                    # … and asked again with the limit unchanged: whatever the following bytes are taken for, the refused length is not
                    # admitted after all (the allocation bound still holds, the answers are the model's)
                    ops.append(f"fread {ml} 3 {gen.hexb(st)} {F.script_tok(sc)} #k=maxlen #len={len(p)} #exp={exp} #again=1")
    # hostile prefixes: the length is only a claim
    for pre in ["ffffffff", "7fffffff", "80000000", "00100000", "00010000", "00000100", "00000011"]:
        ln = int(pre, 16)
        for tail in ["", "00", "0505050505050505"]:
            for ml in [0, 1, 16, 255, 65535, 524288]:
                if ln > ml:
                    for sc in ([], [1, "i", 1, 1, "i", 1]):
                        ops.append(f"fread {ml} 1 {pre}{tail} {F.script_tok(sc)} #k=maxlen #len={ln} #exp=-")
    return ops


def writer_ops(rng, tier):
    ops = []
    seqs = ["u5", "b0102", "u5,u6", "u5,x-,u6", "x0102,u5", "b-,u24", "u300,x05", "-", "e", "u5,e,u6", "e,e,b01", "x01,e"]
    for s in seqs:
        vs = F.parse_vals(s)
        total = sum(4 + len(F.payload(v)) for v in vs if F.payload(v) is not None)
        for ml in sorted({0, 1, 2, 3, 100}):
            acc = sum(4 + len(F.payload(v)) for v in vs if F.payload(v) is not None and len(F.payload(v)) <= ml)
            comps = list(F.compositions(acc)) if acc <= 11 else [F.rand_composition(rng, acc, 4) for _ in range(50)]
            for parts in comps:
                # a part may straddle a frame boundary: write_all offers one frame at a time, so it is clipped there
                for pl in [()] + [(a,) for a in range(len(parts) + 1)]:
                    ops.append(f"fwrite {ml} {s} {F.script_tok(with_intr(parts + [7] * (len(vs) + 1), pl))} #k=wr")
    for _ in range(3000 if tier == "quick" else 30000):
        vs = [F.rand_val(rng, 30) if rng.random() < 0.85 else ("x", gen.rand_bytes(rng, rng.randint(0, 5))) for _ in range(rng.randint(0, 5))]
        ml = rng.choice([0, 1, 2, 5, 9, 10, 24, 26, 100, 1000])
        n = rng.randint(0, 40)
        benign = rng.random() < 0.6
        evs = [rng.choice([1, 1, 2, 3, 5, 8, 40, "i"]) if benign else rng.choice([1, 2, 3, 9, 40, "i", "e", "p", "z", 0]) for _ in range(n)]
        ops.append(f"fwrite {ml} {F.vals_tok(vs)} {F.script_tok(evs)} #k={'wr' if benign else 'free'}")
    return ops


def random_ops(rng, tier):
    ops = []
    for _ in range(6000 if tier == "quick" else 60000):
        vs = [F.rand_val(rng, rng.choice([5, 40, 300])) for _ in range(rng.randint(0, 6))]
        ps = [F.payload(v) for v in vs]
        if rng.random() < 0.15 and ps:
            ps[rng.randrange(len(ps))] = bytes.fromhex(rng.choice(BAD))
        st = F.frames(ps)
        ptag = "/".join(gen.hexb(p) for p in ps)
        ml = max([len(p) for p in ps] + [0]) + rng.choice([0, 0, 1, 50])
        benign = rng.random() < 0.7
        if benign:
            parts = F.rand_composition(rng, len(st), rng.choice([1, 2, 3, 7, 64, 1000]))
            sc = with_intr(parts, [rng.randint(0, len(parts)) for _ in range(rng.randint(0, 3))])
            if rng.random() < 0.5:
                sc = sc[:rng.randint(0, len(sc))]     # exhausted script: everything requested is delivered
            ops.append(f"fread {ml} {len(ps) + 2} {gen.hexb(st)} {F.script_tok(sc)} #k=rand #p={ptag}")
        else:
            sc = [rng.choice([1, 2, 3, 4, 9, 100, "i", "e", "p", "z", 0]) for _ in range(rng.randint(0, 30))]
            ops.append(f"fread {rng.choice([ml, 3, 0, 100])} {len(ps) + 3} {gen.hexb(st)} {F.script_tok(sc)} #k=free")
    return ops


def long_ops(rng, tier):
    """many frames through one reader / writer: counters that only matter after dozens or hundreds of frames"""
    ops = []
    for n in (31, 32, 33, 64, 65, 100, 128, 129, 255, 256, 257, 300) * (2 if tier == "quick" else 10):
        vs = [F.rand_val(rng, rng.choice([5, 5, 40])) for _ in range(n)]
        ps = [F.payload(v) for v in vs]
        st = F.frames(ps)
        ptag = "/".join(gen.hexb(p) for p in ps)
        ml = max(len(p) for p in ps)
        parts = F.rand_composition(rng, len(st), rng.choice([1, 3, 7, 64, 100000]))
        sc = with_intr(parts, [rng.randint(0, len(parts)) for _ in range(rng.randint(0, 8))])
        ops.append(f"fread {ml} {len(ps) + 2} {gen.hexb(st)} {F.script_tok(sc)} #k=rand #p={ptag}")
        ws = [v if rng.random() < 0.95 else rng.choice([("x", gen.rand_bytes(rng, 2)), ("e", b"")]) for v in vs]
        evs = [rng.choice([1, 1, 2, 3, 5, 8, 40, 1000, "i"]) for _ in range(rng.randint(0, 6 * n))]
        ops.append(f"fwrite {ml} {F.vals_tok(ws)} {F.script_tok(evs)} #k=wr")
    return ops


def big_ops(rng, tier):
    """frames of several KiB up to beyond 64 KiB (a reader or writer may treat large frames specially: staged growth, chunked transfer)
    with Interrupted calls and short transfers inside the payload"""
    ops = []
    for k in range(24 if tier == "quick" else 200):
        sizes = rng.choice([[4095], [4096], [4097], [5000], [8192, 3], [3, 8193, 5], [12000], [4097, 4097], [70000], [5, 65537]])
        vs = [("b", gen.rand_bytes(rng, n)) for n in sizes]
        ps = [F.payload(v) for v in vs]
        st = F.frames(ps)
        ptag = "/".join(gen.hexb(p) for p in ps)
        ml = max(len(p) for p in ps)
        parts = F.rand_composition(rng, len(st), rng.choice([700, 1999, 4096, 5000, 100000]))
        sc = with_intr(parts, [rng.randint(0, len(parts)) for _ in range(rng.randint(1, 6))])
        ops.append(f"fread {ml} {len(ps) + 2} {gen.hexb(st)} {F.script_tok(sc)} #k=rand #p={ptag}")
        evs = []
        for _ in range(rng.randint(0, 40)):
            evs.append(rng.choice([1, 2, 3, 4, 5, 700, 4096, 4097, 10000, "i", "i"]))
        ops.append(f"fwrite {ml} {F.vals_tok(vs)} {F.script_tok(evs)} #k=wr")
    return ops


def default_limit_ops(rng, tier):
    """readers / writers that were never given a limit: the documented default is 512 KiB of payload, exactly"""
    ops = []
    for v in F.default_limit_vals():
        p = F.payload(v)
        st = F.frames([p, b"\x05"])
        exp = f"some:{F.val_tok(v)}/some:u5/none"
        ops.append(f"fread d {3 if len(p) <= 524288 else 1} {gen.hexb(st)} - #k=maxlen #len={len(p)} #exp={exp}")
        ops.append(f"fwrite d {F.vals_tok([v, ('u', 5)])} - #k=wr")
    return ops


def mk(name, ops, rule):
    if name != "replay":
        ops = F.ctor_expand(ops)      # every 4th scenario once more through with_buffer(..) with some buffer
    s = Stream(name, "hio", ops, model_ops=[F.ctor_plain(o)[0] for o in ops], judge=F.ctor_judge(judge), rule=rule,
               nontrivial=lambda op, impl: "some:" in impl or "ok:" in impl or "err:" in impl)
    s.shrinkable = False
    return s


def streams(rng, tier):
    return [
        mk("reader-fragmentation", frag_ops(tier), "all compositions x Interrupted placements; oracle: values then none, rem=0"),
        mk("reader-paused-source", pause_ops(rng, tier), "a source that answers 0 bytes on frame boundaries and goes on afterwards: one clean end per 0, then the frames that follow, from the same reader"),
        mk("reader-truncation", trunc_ops(rng, tier), "every cut; oracle: complete frames' values, then none on a boundary / unexpected-eof inside a frame, never a value after"),
        mk("reader-resync", resync_ops(rng, tier), "bad payloads between good frames; oracle: per-frame decode result by the orchestrator's own decoder"),
        mk("reader-maxlen", maxlen_ops(rng, tier), "max_len around the frame size, hostile prefixes; oracle: err:len with buffer untouched, peak allocation request bounded"),
        mk("writer", writer_ops(rng, tier), "short writes + Interrupted, encode failures, max_len; oracle: exact frame bytes and return values"),
        mk("random", random_ops(rng, tier), "seeded random longer scenarios; benign ones judged by the oracle, the rest against the model"),
        mk("default-limit", default_limit_ops(rng, tier), "payloads of 524285..524289 bytes through a reader and a writer whose limit was never set: 524288 is the last one accepted"),
        mk("big-frames", big_ops(rng, tier), "frames of 4095..70000 bytes read in 700..5000-byte pieces with Interrupted calls inside the payload, and written through short / 1..5-byte / Interrupted writes; oracle: every value once, in order / exact frame bytes"),
        mk("long-streams", long_ops(rng, tier), "31..300 frames through one reader and one writer under chunking and Interrupted; oracle: every value once, in order / exact frame bytes"),
    ]


def replay_streams(rp):
    return [mk("replay", [rp["original_op"]], "replay")]
