"""C10 — Derived codecs are forward and backward compatible as documented."""
from verifkit.runner import Stream
from verifkit import derivegen as dg
from verifkit.props import C08 as base

ID = "C10"
THM_MODULES = ["Minicbor.Thm.C10"]
P = "Minicbor.C10."
REQUIRED = [P + n for n in """compat_K5_repaired bare_null_needs_nil compat_decode_full compat_decode_full_exists compat_F5_repaired
compat_not_transitive compat_missing_mandatory compat_missing_mandatory_example compat_decode_fields compat_decode_struct_partial
compat_add_optional_field compat_drop_field compat_unknown_variant_swallowed compat_unknown_variant_keeps_siblings
compat_unknown_variant_error compat_refl compatFields_refl compatVars_refl compatible_refl step_compatible_field
step_compatible_variant
compat_ty compat_one compat_fields compat_vars proj_ty proj_one proj_fields proj_vars project_defined
compat_decode_partial compat_decode compat_decode_lenient compat_decode_self compat_example_hyps
compat_anon step_compatible_rename step_compatible_unit step_compatible_inField step_compatible compat_decode_step""".split()]
REQUIRED += ["Minicbor.Derive." + n for n in """fieldsDec_compat fieldsDec_same runAtR_hit arrLoopN_cellsR mapLoopN_stmtsR resolveR
stepH_piece stepH_gap dec_null_nil
body_compat row_compat row_proj tyC_struct tyC_enum tyC_vec tyC_option_some tyC_transparent tyC_fieldBlob itemC_of_tyC
spec_valid specFields_valid specVars_valid skip_encTy skip_frame skip_piece assemble_total fieldsFit_of_frame
stepC_piece stepC_gap reader_val_eq projFields_find assemble_ok
benign_always benignP_always action_bare_null action_of_not_bare bareNull_tagBytes""".split()]
PACKAGES = ["dgen", "hcore"]
on_build_failure = base.on_build_failure
def prepare(seed, tier):
    base.ID_FOR_ATTRS[0] = False          # the attribute front-end stream belongs to C08
    base.prepare(seed, tier)


RULE = ("dcompat <writer type> <value> <reader type>: chains of type versions produced by sequences of the documented compatible edits (add an optional "
        "field at a new index / at a gap index, drop an optional field (its index is retired), add a variant to an enum that occurs as an Option field, "
        "turn a unit variant into a tuple / struct variant with optional fields; edits are applied at any nesting depth: struct bodies, variant bodies, "
        "nested structs under Option / Vec; new variants (regular and index_only) and new optional fields of map-encoded bodies also at the indices 255, 256, 65535, "
        "65536 and 2^32-1 while the older version's indices stay small, with writer values that use every variant / set every new field) on random base structs (array and map encoding, regular and index_only enums, tagged fields, nil-aware codec, "
        "nested structs / enums / collections); every ordered pair of versions of a chain (both directions) x every generated value of the writer "
        "version.  Oracle: the documented projection computed by the Lean `project` (shared fields equal, reader-only optionals nil, writer-only fields "
        "ignored, unknown variant in an optional field None), position = length of the writer's encoding.  Both recorded defects were repaired in /repo and are violations again if they "
        "reappear: F5 (unknown index_only variant swallowing the sibling; 34b49ef) and K5 (a tagged reader-only optional field at a gap of the writer's array rejected the bare null there).")
ASSUMPTIONS = list(base.ASSUMPTIONS) + [
    "compatibility is checked for version pairs reachable by edit sequences that never re-use a retired index with another type; the documentation "
    "does not state that restriction, without it the promise is false (machine-checked: C10.compat_not_transitive)"]


def judge(op, impl, model, spec):
    sw = spec.split(" ")
    if sw[0] != "ok" and "nested_inside_an_optional_field" in op:
        # an unknown variant deeper inside the value of an optional field: the documented projection makes no promise for the
        # nested enum itself, but the clause "without disturbing any sibling field" is decided by the model of the current code
        # (the optional field as a whole becomes None, everything after it is read normally): a different answer is a failing input
        return "ok" if impl == model else "violation"
    if sw[0] != "ok":
        # no promise (the generator should not produce such pairs): model/code agreement only
        return "ok" if impl == model and spec != "incompatible" else "corr"
    want = " ".join(sw[:4])
    if impl == want:
        return "ok" if impl == model else "corr"
    # the implementation breaks the documented promise on this input (K5 was such an input until its repair; no exception is left)
    return "violation"


def streams(rng, tier):
    c = base.corpus(tier)
    a = base.ann()
    rows = []
    for ch, names, vals in c.chains:
        protos = [dg.proto(v) for v in ch.versions]
        n = len(names)
        for i in range(n):
            for j in range(n):
                if i == j: continue
                for v in vals[i]:
                    sv = dg.show_val(v)
                    rows.append((f"dcompat {names[i]} {sv} {names[j]} {a} #edit:{'|'.join(x.replace(' ', '_') for x in ch.notes[min(i, j) + 1:max(i, j) + 1])}",
                                 f"dcompat {protos[i]} {sv} {protos[j]}", f"dproject {protos[i]} {sv} {protos[j]}"))

    st = Stream("derive-compat", "dgen", [r[0] for r in rows], model_ops=[r[1] for r in rows], spec_ops=[r[2] for r in rows], judge=base.guard_pruned(judge, tier), rule=RULE)
    st.shrinkable = False
    from verifkit import dextra
    return [st, unknown_fields_stream(rng, tier, c, a), dextra.stream(rng, tier)]


RAW_UNKNOWN = ["00", "f6", "6161", "8201f6", "a10102", "c11a65a4f2c0", "9fff", "bfff", "9f01ff", "5f4101ff", "7f6161ff",
               "829f01ff8102", "839f01ff00818102", "83bf0102ff9f00ff8201a0", "82009f8202039fffff", "9f829f00ff8101ff", "a1019f8200bf0102ffff",
               "d9d9f79f9fffff", "8382009fff8281009f8100ff00", "84000102bf009f01ff0280ff", "f97e00", "fb7ff8000000000001", "3bffffffffffffffff"]


def unknown_fields_stream(rng, tier, c, a):
    """"fields unknown to the reader are ignored whatever their content": the encoding of a value with extra fields appended by hand —
    array encoding: null up to the highest declared index, then raw items; map encoding: entries under unused keys — holding ANY
    well-formed item (indefinite containers inside definite ones, chunked strings, tags, floats), with bytes following"""
    from verifkit import typegen
    rows = []
    n_per = 3 if tier == "quick" else 12
    for name, ty, vals in c.cases:
        if ty.kind != "st" or ty.transparent or not vals:
            continue
        live = [f for f in ty.fields if not f.skip]
        maxidx = max([f.idx for f in live], default=-1)
        enc = dg.eff_enc(ty.enc)
        if enc == "a" and maxidx > 40:
            continue
        for v in vals[:n_per]:
            if dg.null_clash(ty, v):
                continue
            b = dg.py_encode(ty, v)
            it = typegen.walk(b, 0)
            pre = 0
            while it is not None and it.major == 6:
                it = it.kids[0]
            if it is None or it.indef or it.major != (4 if enc == "a" else 5):
                continue
            raws = [bytes.fromhex(rng.choice(RAW_UNKNOWN)) for _ in range(rng.randint(1, 3))]
            if enc == "a":
                pad = max(it.arg, maxidx + 1) - it.arg
                body = b[it.hend:it.end] + b"\xf6" * pad + b"".join(raws)
                nb = b[:it.start] + dg.head(4, it.arg + pad + len(raws)) + body + b[it.end:]
            else:
                used = {f.idx for f in live}
                keys = [k for k in (4000000000, 77, 300, 70000, 23, 24) if k not in used][:len(raws)]
                raws = raws[:len(keys)]
                body = b[it.hend:it.end] + b"".join(dg.head(0, k) + r for k, r in zip(keys, raws))
                nb = b[:it.start] + dg.head(5, it.arg + len(raws)) + body + b[it.end:]
            tail = rng.choice([b"", b"\x07", b"\xff"])
            rows.append((f"ddec {name} {(nb + tail).hex()} {a} #n={len(nb)} #plain={b.hex() or '-'}", f"ddec {dg.proto(ty)} {(nb + tail).hex()}"))
    def judge_unknown(op, impl, model, spec):
        n = int([x for x in op.split(" ") if x.startswith("#n=")][0][3:])
        iw = impl.split(" ")
        # the reader returns a value and stands exactly behind the item; which value: the model's (the proved decoder), which ignores the extras
        if len(iw) < 3 or iw[0] != "ok" or iw[2] != str(n):
            return "violation"
        return "ok" if impl == model else "violation"
    st = Stream("unknown-fields-any-content", "dgen", [r[0] for r in rows], model_ops=[r[1] for r in rows], judge=base.guard_pruned(judge_unknown, tier),
                rule="ddec <struct> <its encoding with extra fields holding arbitrary well-formed items appended by hand> followed by other bytes: the value is read as if "
                     "the extras were not there and the decoder stops exactly behind the item (== the model, whose skip is C06's)")
    st.shrinkable = False
    return st


def replay_streams(rp):
    op = rp["original_op"] if "original_op" in rp else rp["op"]
    if op.startswith("dextra"):
        from verifkit import dextra
        return [dextra.replay(rp)]
    if op.startswith("ddec "):
        return [Stream("replay", "dgen", [op], model_ops=[rp["model_op"]], judge=lambda o, i, m, s: "ok" if i == m and i.startswith("ok") else "violation")]
    return [Stream("replay", "dgen", [op], model_ops=[rp["model_op"]], spec_ops=[rp["spec_op"]] if rp.get("spec_op") else None, judge=judge)]
