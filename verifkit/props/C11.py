"""C11 — Token streams are faithful: tokenise and re-encode is the identity."""
from verifkit.runner import Stream
from verifkit import runner
from verifkit import gen, wiregen as W

ID = "C11"
THM_MODULES = ["Minicbor.Thm.C11"]
P = "Minicbor.C11."
REQUIRED = [P + n for n in """token_progress tokenizer_bounded tokenizer_bounded' tokenize_item tokenize_encW
    tokenize_encW_single token_value token_value_canon token_int_kinds tokens_canonicalise canon_spec tokens_of_preferred
    tokens_roundtrip valueEq_loose half_roundtrip""".split()]
PACKAGES = ["hcore"]
DEBUG_TWINS = True
RULE = ("tokdec <hex> / tokenc <tokens>: (a) well-formed item sequences from wire trees (preferred and non-preferred heads, indefinite containers, chunked strings): "
        "the token list must carry the data-model value of every head (oracle from the tree) and re-encoding the implementation's own tokens must give the preferred "
        "form of the same sequence (indefinite kept); (b) all 65536 half patterns except signalling NaNs round-trip through F16 tokens; all simple values; "
        "(c) random token lists (<= 200 tokens): tokenise(encode(ts)) is value-equal to ts; (d) arbitrary bytes: at most one token per byte, then end.  "
        "Non-trivial: at least one token produced.")
ASSUMPTIONS = ["Token::F16 payloads are half-representable in stream (c) (the encoder documents the conversion as lossy otherwise)"]

INTK = ("u8", "u16", "u32", "u64", "i8", "i16", "i32", "i64", "int")


def norm_tok(t):
    k, _, a = t.partition(":")
    if k in INTK: return "int:" + a
    return t


def toks_of_tree(t):
    """expected tokens (ints normalised) of a valid tree."""
    k = t[0]
    hx = lambda b: b.hex() if b else "-"
    if k == "uint": return ["int:%d" % t[2]]
    if k == "nint": return ["int:%d" % (-1 - t[2])]
    if k == "bytes": return ["bytes:h" + hx(t[2])]
    if k == "text": return ["string:s" + hx(t[2])]
    if k == "bytesI": return ["beginbytes"] + ["bytes:h" + hx(b) for _, b in t[1]] + ["break"]
    if k == "textI": return ["beginstring"] + ["string:s" + hx(b) for _, b in t[1]] + ["break"]
    if k == "array": return ["array:%d" % len(t[2])] + [x for c in t[2] for x in toks_of_tree(c)]
    if k == "arrayI": return ["beginarray"] + [x for c in t[1] for x in toks_of_tree(c)] + ["break"]
    if k == "map": return ["map:%d" % (len(t[2]) // 2)] + [x for c in t[2] for x in toks_of_tree(c)]
    if k == "mapI": return ["beginmap"] + [x for c in t[1] for x in toks_of_tree(c)] + ["break"]
    if k == "tag": return ["tag:%d" % t[2]] + toks_of_tree(t[3])
    if k == "simple":
        return [{20: "bool:F", 21: "bool:T", 22: "null", 23: "undefined"}.get(t[1], "simple:%d" % t[1])]
    if k == "f16": return ["f16:x%08x" % W.f16_to_f32_bits(t[1])]
    if k == "f32": return ["f32:x%08x" % t[1]]
    if k == "f64": return ["f64:x%016x" % t[1]]


def pref(t):
    """preferred heads, indefiniteness kept."""
    k = t[0]
    mw = W.min_width
    if k in ("uint", "nint"): return (k, mw(t[2]), t[2])
    if k in ("bytes", "text"): return (k, mw(len(t[2])), t[2])
    if k in ("bytesI", "textI"): return (k, [(mw(len(b)), b) for _, b in t[1]])
    if k == "array": return (k, mw(len(t[2])), [pref(x) for x in t[2]])
    if k == "map": return (k, mw(len(t[2]) // 2), [pref(x) for x in t[2]])
    if k in ("arrayI", "mapI"): return (k, [pref(x) for x in t[1]])
    if k == "tag": return (k, mw(t[2]), t[2], pref(t[3]))
    if k == "f16" and (t[1] >> 10) & 31 == 31 and t[1] & 0x3ff:
        return (k, t[1] | 0x200)       # a signalling NaN is quieted by the f16 -> f32 -> f16 trip (excluded by the property)
    return t


def is_nan_tok(t):
    k, _, a = t.partition(":")
    if k in ("f16", "f32"): n = int(a[1:], 16); return (n >> 23) & 0xff == 0xff and n & 0x7fffff != 0
    if k == "f64": n = int(a[1:], 16); return (n >> 52) & 0x7ff == 0x7ff and n & ((1 << 52) - 1) != 0
    return False


def judge_tokdec_tree(op, impl, model, spec):
    w = op.split(" ")
    n = len(w[1]) // 2
    exp = w[2][3:].split(",")
    iw = impl.split(" ")
    if len(iw) != 3 or iw[1] != "end" or iw[2] != f"pos={n}":
        return "violation"
    got = [norm_tok(t) for t in iw[0].split(",")]
    if len(got) != len(exp) or any(g != e and not (is_nan_tok(g) and is_nan_tok(e) and g.split(":")[0] == e.split(":")[0]) for g, e in zip(got, exp)):
        return "violation"
    return "ok" if impl == model else "corr"


def ctor_model_op(op):
    w = op.split(" ")
    return "tokdec " + (w[2][2 * int(w[1]):] or "-")


def judge_ctor(op, impl, model, spec):
    parts = impl.split(" | ")
    if not (len(parts) == 3 and parts[0] == parts[1] == parts[2]):
        return "violation"
    return "ok" if " ".join(model.split(" ")[:2]) == parts[0] else "corr"


def judge_reenc(op, impl, model, spec):
    w = op.split(" ")
    exp = w[2][3:]
    iw = impl.split(" ")
    if iw[0] != exp:
        return "violation"
    return "ok" if impl == model else "corr"


def judge_bytes(op, impl, model, spec):
    w = op.split(" ")
    n = 0 if w[1] == "-" else len(w[1]) // 2
    iw = impl.split(" ")
    if len(iw) != 3 or iw[2] != f"pos={n}":
        return "violation"
    cnt = 0 if iw[0] == "-" else len(iw[0].split(","))
    if cnt > n:
        return "violation"
    return "ok" if impl == model else "corr"


def rand_token(rng):
    r = rng.randrange(26)
    B = gen.boundaries(64)
    u = lambda bits: rng.choice([b for b in B if b < (1 << bits)]) if rng.random() < 0.5 else gen.rand_u(rng, bits)
    def s(bits):
        v = u(bits - 1)
        return v if rng.random() < 0.5 else -1 - v
    if r == 0: return "bool:" + rng.choice("TF")
    if r == 1: return f"u8:{u(8)}"
    if r == 2: return f"u16:{u(16)}"
    if r == 3: return f"u32:{u(32)}"
    if r == 4: return f"u64:{u(64)}"
    if r == 5: return f"i8:{s(8)}"
    if r == 6: return f"i16:{s(16)}"
    if r == 7: return f"i32:{s(32)}"
    if r == 8: return f"i64:{s(64)}"
    if r == 9:
        v = u(64); return f"int:{v if rng.random() < 0.5 else -1 - v}"
    if r == 10:
        h = rng.getrandbits(16)
        while (h >> 10) & 31 == 31 and h & 0x3ff: h = rng.getrandbits(16)
        return "f16:x%08x" % W.f16_to_f32_bits(h)
    if r == 11: return "f32:x%08x" % rng.getrandbits(32)
    if r == 12: return "f64:x%016x" % rng.getrandbits(64)
    if r == 13: return "bytes:h" + gen.hexb(gen.rand_bytes(rng, rng.choice([0, 1, 23, 24, 30, 255, 256]) if rng.random() < 0.2 else rng.randint(0, 8)))
    if r == 14: return "string:s" + gen.hexb(gen.rand_text(rng, 6).encode())
    if r == 15: return f"array:{u(64)}"
    if r == 16: return f"map:{u(64)}"
    if r == 17: return f"tag:{u(64)}"
    if r == 18: return f"simple:{rng.randrange(256)}"
    return ["break", "null", "undefined", "beginbytes", "beginstring", "beginarray", "beginmap"][r - 19]


def value_equal(a, b):
    """token texts value-equal: ints numerically; simple 20..23 are the dedicated tokens."""
    a, b = norm_tok(a), norm_tok(b)
    alias = {"simple:20": "bool:F", "simple:21": "bool:T", "simple:22": "null", "simple:23": "undefined"}
    a, b = alias.get(a, a), alias.get(b, b)
    if a == b: return True
    return is_nan_tok(a) and is_nan_tok(b) and a.split(":")[0] == b.split(":")[0]


def streams(rng, tier):
    q = tier == "quick"
    trees = W.small_trees(rng, 200 if q else 2000)
    for _ in range(1500 if q else 30000):
        trees.append(W.rand_tree(rng, rng.randint(1, 6), preferred=rng.random() < 0.5))
    for h in range(65536):
        if (h >> 10) & 31 == 31 and h & 0x3ff and not (h & 0x200):
            continue        # signalling NaN: excluded by the property
        trees.append(("f16", h))
    for n in W.SIMPLE_VALID:
        trees.append(("simple", n))
    # single- and double-precision items of every class, NaNs with every kind of payload (quiet, signalling, payload in the low bits only): a
    # float token carries the item's bits, re-encoding gives them back
    for b in (0x7fa00000, 0xffa00001, 0x7f800001, 0x7fc00000, 0x7fc00001, 0xffffffff, 0x7f801fff, 0x00000001, 0x80000000, 0x7f800000, 0xff800000, 0x3f800001, 0x7f7fffff):
        trees.append(("f32", b))
    for b in (0x7ff4000000000000, 0xfff0000000000001, 0x7ff8000000000000, 0x7ff8000000000001, 0xffffffffffffffff, 0x7ff0000020000000, 0x7ff0000000000000,
              0x8000000000000000, 0x0000000000000001, 0x3ff0000000000001, 0x36a0000000000000):
        trees.append(("f64", b))
    # sequences of items
    seqs = [[t] for t in trees]
    for _ in range(300 if q else 5000):
        seqs.append([W.rand_tree(rng, rng.randint(0, 3)) for _ in range(rng.randint(2, 5))])
    ops, prefs = [], []
    for sq in seqs:
        e = b"".join(W.enc(t) for t in sq)
        exp = [x for t in sq for x in toks_of_tree(t)]
        ops.append(f"tokdec {e.hex()} #T={','.join(exp)}")
        prefs.append(b"".join(W.enc(pref(t)) for t in sq).hex())
    a = Stream("tokenise-wellformed", "hcore", ops, judge=judge_tokdec_tree, rule=RULE)
    a.shrinkable = False
    yield a
    # indefinite containers nested beyond any round limit (a tokenizer has no business counting what is open)
    dops = []
    for d in (127, 128, 129, 130, 255, 256, 257, 300, 1025) + (() if q else (4097, 20000)):
        dops.append(f"tokdec {'9f' * d}00{'ff' * d} #T={','.join(['beginarray'] * d + ['int:0'] + ['break'] * d)}")
        dops.append(f"tokdec {'bf00' * d}00{'ff' * d} #T={','.join(['beginmap', 'int:0'] * d + ['int:0'] + ['break'] * d)}")
        dops.append(f"tokdec {'9fbf00' * d}5f4101ff{'ffff' * d} #T={','.join(['beginarray', 'beginmap', 'int:0'] * d + ['beginbytes', 'bytes:h01', 'break'] + ['break'] * (2 * d))}")
        dops.append(f"tokdec {'9f9fff' * d}{'ff' * d} #T={','.join(['beginarray', 'beginarray', 'break'] * d + ['break'] * d)}")       # many siblings AND depth
    a3 = Stream("deep-indefinite-nests", "hcore", dops, judge=judge_tokdec_tree,
                rule="tokdec of indefinite arrays / maps nested 127..1025 (thorough: 20000) deep, alone, alternating, with a chunked string at the bottom: every token, then the end")
    a3.shrinkable = False
    yield a3
    # the three ways to obtain a tokenizer must agree (the stream above judges Decoder::tokens() against the tree)
    c_ops = []
    for sq in seqs[:4000 if q else 40000]:
        e = b"".join(W.enc(t) for t in sq)
        if len(e) > 600: continue
        pre = rng.choice([b"", b"", b"\x18\x2a", b"\xff", b"\x9f\x00"])
        c_ops.append(f"tokdec2 {len(pre)} {(pre + e).hex()}")
        if len(e) > 1 and rng.random() < 0.2:
            c_ops.append(f"tokdec2 0 {e[:rng.randrange(1, len(e))].hex()}")
        if rng.random() < 0.1:
            c_ops.append(f"tokdec2 {len(e) + rng.choice([0, 1, 2, 50])} {e.hex()}")      # at and beyond the end: nothing, no panic
    a2 = Stream("tokenizer-constructors", "hcore", c_ops, model_ops=[ctor_model_op(o) for o in c_ops], judge=judge_ctor,
                rule="tokdec2: Decoder::tokens() at a position, Tokenizer::new(&bytes[pos..]) and Tokenizer::from(decoder) yield the same tokens and the same end / error "
                     "(registered tags such as 55799 first in the input included), and the model's tokenizer on that suffix agrees with them",
                nontrivial=lambda op, impl: " | " in impl)
    a2.shrinkable = False
    yield a2
    # re-encode the implementation's own tokens: must be the preferred form (identity on preferred input)
    re_ops = []
    for op, res, p in zip(ops, a.impl_results, prefs):
        rw = res.split(" ")
        if len(rw) == 3 and rw[1] == "end":
            re_ops.append(f"tokenc {rw[0]} #P={p}")
    b = Stream("reencode-own-tokens", "hcore", re_ops, judge=judge_reenc,
               rule="tokenc of the tokens the implementation produced in the previous stream == preferred serialisation of the same item sequence")
    b.shrinkable = False
    yield b
    # random token lists: encode, then tokenise the implementation's bytes
    lists = []
    for _ in range(3000 if q else 60000):
        lists.append([rand_token(rng) for _ in range(rng.choice([1, 1, 2, 3, 5, 8, 20, 200]) if rng.random() < 0.3 else rng.randint(1, 6))])
    c = Stream("encode-token-lists", "hcore", ["tokenc " + ",".join(l) for l in lists],
               rule="tokenc of random token lists (all 26 variants, boundary payloads); compared with the model")
    c.shrinkable = False
    yield c
    d_ops, d_lists = [], []
    for l, res in zip(lists, c.impl_results):
        hx = res.split(" ")[0]
        if res.startswith("err") or res in ("panic", "bad-op"): continue
        d_ops.append(f"tokdec {hx}"); d_lists.append(l)
    table = dict(zip(d_ops, d_lists))
    def judge_back(op, impl, model, spec):
        l = table[op]
        iw = impl.split(" ")
        if len(iw) != 3 or iw[1] != "end": return "violation"
        got = iw[0].split(",")
        if len(got) != len(l) or not all(value_equal(g, e) for g, e in zip(got, l)): return "violation"
        return "ok" if impl == model else "corr"
    d = Stream("tokenise-encoded-lists", "hcore", d_ops, judge=judge_back, rule="tokdec(tokenc(ts)) value-equal to ts")
    d.shrinkable = False
    yield d
    # arbitrary bytes
    arb = ["tokdec -"] + ["tokdec %02x" % x for x in range(256)] + ["tokdec %02x%02x" % (x, y) for x in range(256) for y in range(0, 256, 3 if q else 1)]
    for _ in range(5000 if q else 200000):
        arb.append("tokdec " + gen.rand_bytes(rng, rng.randint(1, 12)).hex())
    e = Stream("arbitrary-bytes", "hcore", arb, judge=judge_bytes, rule="at most one token per input byte, then end; position = length")
    e.shrinkable = False
    yield e
    # F16 tokens built by hand around values no half float has: the token is written as ONE half-precision item (f9 + the nearest-even half of the
    # value, the model's bytes), whatever the value; and re-reading those bytes gives an F16 token again
    hops = []
    for b in [0x3dcccccd, 0x3f801001, 0x3f801000, 0x3f800fff, 0x40490fdb, 0x477fe001, 0x477ff000, 0x7f7fffff, 0x00000001, 0x33800001, 0x337fffff, 0x38800001, 0xbdcccccd, 0x4b800001]:
        hops.append("tokenc f16:x%08x" % b); hops.append("tokenc array:2,f16:x%08x,u8:1" % b)
    for _ in range(400 if q else 20000):
        hops.append("tokenc f16:x%08x" % rng.getrandbits(32))
    def judge_f16(op, impl, model, spec):
        if impl in ("panic", "bad-op") or impl.startswith("crash") or impl.startswith("err"):
            return "violation"
        hx = impl.split(" ")[0]
        body = hx[2:] if op.startswith("tokenc array") else hx
        if not body.startswith("f9") or len(body) < 6:
            return "violation"                  # an F16 token written as something other than a half-precision item
        return "ok" if impl == model else "corr"
    f = Stream("f16-tokens-built-by-hand", "hcore", hops, judge=judge_f16,
               rule="tokenc f16:<any f32 value>: one half-precision item (initial byte f9) holding the nearest-even half of the value: the model's bytes")
    f.shrinkable = False
    yield f


def replay_streams(rp):
    op = rp["original_op"]
    if op.startswith("tokdec2"):
        return [Stream("replay", "hcore", [op], model_ops=[ctor_model_op(op)], judge=judge_ctor)]
    j = judge_tokdec_tree if "#T=" in op else judge_reenc if "#P=" in op else judge_bytes if op.startswith("tokdec") else None
    return [Stream("replay", "hcore", [op], judge=j)]
