"""C08 — Derived Encode emits exactly the documented wire format.

Also home of the helpers shared by the derive properties (C07 derived part, C09, C10):
`prepare` (regenerates harness/dgen from the seed), `corpus`, `derived_len_streams`."""
import json, os, sys
from verifkit.runner import Stream
from verifkit import derivegen as dg

ID = "C08"
THM_MODULES = ["Minicbor.Thm.C08"]
P = "Minicbor.C08."
REQUIRED = [P + n for n in """sortP_perm sortP_sorted sortP_perm_eq frameArray_spec frameMap_spec
enc_spec fields_spec vars_spec derive_encode_spec enc_anon derive_encode_names_irrelevant derive_encode_reorder_irrelevant
derive_encode_reorder_variants spec_array_shape spec_map_shape derive_encode_deterministic int_spec blob_spec with_spec isNil_spec""".split()]
PACKAGES = ["dgen"]
RULE = ("denc <type> <value>: every type definition drawn by verifkit/derivegen.py for the seed (a fixed core family covering every "
        "value-affecting attribute: index gaps / permutations, array|map at struct, enum and variant level, index_only, transparent, skip, tags at "
        "all four levels, with=minicbor::bytes, a nil-aware custom codec, unit/tuple/named shapes, >=24 fields, nesting; nil-capable field types that are NOT "
        "spelled Option<..> - a type parameter of a generic struct / enum instantiated at Option<..>, a `type` alias of Option<..>, a hand-written newtype "
        "overriding Encode::is_nil / Decode::nil - and path-qualified core::option::Option<..> / std::option::Option<..> (alone, under with=minicbor::bytes and under a "
        "custom codec module without nil functions), in array and map encoding with the nil value in trailing and non-trailing position; plus random "
        "schemas from the grammar) x presence combinations of the optional fields (all 2^k for k<=5 within the cap, else none/all/each-one/all-but-one/"
        "prefixes/random) x boundary field values.  Oracle: bytes == documented format, computed twice independently (Lean specEncode = encPref(specTy) "
        "and the Python reference encoder).  Twin stream: every schema is declared a second time with other names, shuffled declaration order of fields "
        "and variants, n<->b swapped and attributes spelled differently; its bytes must equal the spec bytes of the *original* schema.  "
        "Non-trivial: the implementation produced bytes.")
ASSUMPTIONS = ["the proc-macro front end (syn parsing, attribute validation, bound and lifetime generation) is outside the model: the model starts from the "
               "abstract schema; a generated definition the macro rejects shows up as a harness build failure",
               "schemas outside the grammar of derivegen.py are covered by the theorems about the model but not by the correspondence"]


def seed_now():
    if "--replay" in sys.argv:
        try:
            rp = json.load(open(sys.argv[sys.argv.index("--replay") + 1]))
            for w in (rp.get("original_op") or rp.get("op") or "").split(" "):
                if w.startswith("#seed:"):
                    return int(w[6:])
        except Exception:
            pass
    return int(os.environ.get("VERIF_SEED", "1"))


def prepare(seed, tier):
    dg.write_crate(seed_now(), tier)


def corpus(tier):
    return dg.build(seed_now(), tier)


def ann():
    return f"#seed:{seed_now()}"


# ------------------------------------------------------------------------------------------ C08 streams

def enc_cases(c):
    """(harness op, model op, spec op, python reference hex)"""
    rows = []
    for name, ty, vals in c.cases:
        p = dg.proto(ty)
        for v in vals:
            sv = dg.show_val(v)
            rows.append((f"denc {name} {sv} {ann()}", f"denc {p} {sv}", f"dspec {p} {sv}", dg.py_encode(ty, v).hex(), ty, v))
    return rows


def twin_cases(c):
    rows = []
    for name, t2, vals in c.twins:
        p2 = dg.proto(t2)
        for v2, ty, v in vals:
            rows.append((f"denc {name} {dg.show_val(v2)} {ann()}", f"denc {p2} {dg.show_val(v2)}", f"dspec {dg.proto(ty)} {dg.show_val(v)}",
                         dg.py_encode(ty, v).hex(), ty, v))
    return rows


def make_judge(rows):
    ref = {r[0]: r[3] for r in rows}

    def judge(op, impl, model, spec):
        iw = impl.split(" ")
        if len(iw) != 2:
            return "corr"
        hexs = iw[0]
        want = ref.get(op)
        # the property's oracle: documented bytes, by two independent reference encoders
        if spec in ("rejected", "illtyped", "bad-op") or model in ("rejected", "illtyped", "bad-op"):
            return "corr"       # the model's `accepted` / `hasTy` disagrees with what rustc and the macro accepted
        if spec not in ("toolarge", None) and hexs != spec:
            return "violation"
        if want is not None and hexs != (want or "-"):
            return "violation"
        mw = model.split(" ")
        if mw[0] != hexs:
            return "corr"
        return "ok"
    return judge


def streams(rng, tier):
    c = corpus(tier)
    rows = enc_cases(c)
    s1 = Stream("derive-encode", "dgen", [r[0] for r in rows], model_ops=[r[1] for r in rows], spec_ops=[r[2] for r in rows],
                judge=make_judge(rows), rule=RULE)
    s1.shrinkable = False
    trows = twin_cases(c)
    s2 = Stream("derive-encode-twins", "dgen", [r[0] for r in trows], model_ops=[r[1] for r in trows], spec_ops=[r[2] for r in trows],
                judge=make_judge(trows),
                rule="the twin declaration (renamed, reordered, n<->b) of every schema: bytes must equal the spec bytes of the original schema and value")
    s2.shrinkable = False
    return [s1, s2]


def replay_streams(rp):
    op = rp["original_op"] if "original_op" in rp else rp["op"]
    return [Stream("replay", "dgen", [op], model_ops=[rp["model_op"]], spec_ops=[rp["spec_op"]] if rp.get("spec_op") else None,
                   judge=make_judge([]))]


# ------------------------------------------------------------------------------------------ derived CborLen (C07)

C07_DERIVED_MODULES = ["Minicbor.Thm.C07Derive"]
C07_DERIVED_REQUIRED = ["Minicbor.C07Derive." + n for n in """len_exact fields_len vars_len len_exact_derived len_exact_derived_statement_holds lenFrame_exact
lenArray_exact lenMap_exact len_derived_K3_repaired len_derived_K3_repaired2 len_derived_K2_repaired
len_derived_KD1_repaired""".split()]


def bodies(ty, v):
    """every (encoding, fields, values) body of a value, and every (enum, variant) met."""
    k = ty.kind
    if k == "opt":
        if v is not None: yield from bodies(ty.e, v[1])
    elif k == "vec":
        for x in v[1]: yield from bodies(ty.e, x)
    elif k == "st":
        if not ty.transparent: yield ("body", dg.eff_enc(ty.enc), ty.fields, v[1])
        for f, x in zip(ty.fields, v[1]):
            if not f.skip: yield from bodies(f.ty, x)
    elif k == "en":
        var = ty.variants[v[1]]
        yield ("variant", ty, var)
        if var.shape != "u": yield ("body", dg.eff_enc(var.enc, ty.enc), var.fields, v[2])
        for f, x in zip(var.fields, v[2]):
            if not f.skip: yield from bodies(f.ty, x)


def u64len(x): return 1 if x <= 0x17 else 2 if x <= 0xff else 3 if x <= 0xffff else 5 if x <= 0xffffffff else 9
def u32len(x): return 1 if x <= 0x17 else 2 if x <= 0xff else 3 if x <= 0xffff else 5


def idxlen_i32(i):
    x = i if i < 2**31 else i - 2**32
    return u32len(x if x >= 0 else -1 - x)


def len_classes(ty, v):
    """which recorded CborLen defects this value can trigger: none any more (K2, KD1 and K3 were repaired in /repo:
    d85a3d2, 36d21e9, 0196d88); kept as the coverage classifier of the former K3 shape (a tagged nil field below the
    highest present index in an array-encoded body)."""
    cls = set()
    for b in bodies(ty, v):
        if b[0] == "variant":
            continue
        _, enc, fields, vals = b
        live = [(f, x) for f, x in zip(fields, vals) if not f.skip]
        present = [(f, x) for f, x in live if not dg.absent(f, x)]
        if enc == "a" and present:
            m = max(f.idx for f, _ in present)
            if any(f.tag is not None and dg.absent(f, x) and f.idx < m for f, x in live): cls.add("k3shape")
    return cls


def make_len_judge(rows):
    def judge(op, impl, model, spec):
        iw = impl.split(" ")
        if len(iw) != 2:
            return "corr"
        hexs, ln = iw
        nbytes = 0 if hexs == "-" else len(hexs) // 2
        if int(ln) == nbytes:
            return "ok" if impl == model else "corr"
        # the derived length differs from the number of bytes written: a failing input, whatever the model says
        return "violation"
    return judge


def derived_len_streams(rng, tier):
    """for C07: len(v) of every derived case next to the bytes the derived encoder writes."""
    c = corpus(tier)
    rows = enc_cases(c)
    st = Stream("derive-len", "dgen", [r[0] for r in rows], model_ops=[r[1] for r in rows], judge=make_len_judge(rows),
                rule="denc <type> <value> -> bytes and minicbor::len: len == number of bytes, for the same corpus as C08 (all presence combinations)")
    st.shrinkable = False
    return [st]
