"""C20 — Same behaviour in every feature configuration, up to documented differences."""
import os, subprocess
from verifkit.runner import Stream, HARNESS, ENV, Lock, log, cargo_extra_args, target_dir, cargo_lock
from verifkit import gen, wiregen as W

ID = "C20"
THM_MODULES = ["Minicbor.Thm.C20", "Minicbor.Thm.C06"]
P = "Minicbor.C20."
REQUIRED = [P + n for n in "f32_nohalf_f16_is_type_error f64_nohalf_f16_is_type_error f32_half_irrelevant f64_half_irrelevant".split()] + \
           ["Minicbor.C06." + n for n in "noalloc_lockstep noalloc_refines noalloc_exact_or_unsupported".split()] + ["Minicbor.C12.no_half_feature", "Minicbor.C13.call_script"]
THM_MODULES = THM_MODULES + ["Minicbor.Thm.C12", "Minicbor.Thm.C13"]
PACKAGES = ["hcore"]
CFGDIR = os.path.join(HARNESS, "cfg")
CONFIGS = [("none", ""), ("half", "half"), ("alloc", "alloc"), ("alloc_half", "alloc,half"), ("std", "std"), ("std_half", "std,half")]
RULE = ("the crate harness/cfg is built six times ({none, alloc, std} x {half, no half}; separate cargo invocations and target dirs, minicbor and minicbor-serde with "
        "default-features = false) and each binary is fed the same deterministic corpus: every accessor on well-formed wire trees, on their truncations and single-byte "
        "mutations and on random bytes; typed decodes that exist without alloc; every Encoder method on boundary arguments.  Each transcript is compared line by line with "
        "the model instantiated at that configuration (skip alloc/no-alloc, f32/f64 with/without half); ops that do not exist in a configuration (f16) are left out there.  "
        "Non-trivial: ok or a non-eoi error.")
ASSUMPTIONS = ["only the x86-64 target is built (32-bit and atomic cfgs are not compiled here)",
               "serde-bridge configurations are exercised by C17/C18 in the std+half configuration only"]
TYPED = ["opt(u8)", "tup(u8,i16,bool)", "arr(3,u16)", "fields(u32,u32)", "duration", "str", "bound(u8)", "opt(fields(u32,u32))",
         "tagged(0,str)", "tagged(32,u8)", "tup(u8,tagged(1000,i16))", "opt(tagged(4294967296,bool))", "nz(u8)", "nz(i64)", "int", "tag", "bool", "char",
         "unit", "u64", "i8", "barr(4)", "bytes", "arr(2,opt(tup(u8,bool)))", "enum(u8,str)", "cstr"]


def cfg_bin(name):
    return os.path.join(target_dir(os.path.join(CFGDIR, "target", "cfg_" + name)), "release", "hcfg")


def prepare(seed, tier):
    with cargo_lock("cargo-cfg.lock"):
        lock = os.path.join(CFGDIR, "Cargo.lock")
        if not os.path.exists(lock):
            import shutil; shutil.copy("/repo/Cargo.lock", lock)
        for name, feats in CONFIGS:
            cmd = ["cargo", "build", "--release", "--offline", "--no-default-features", "--features", feats] + \
                  cargo_extra_args(os.path.join(CFGDIR, "target", "cfg_" + name))
            p = subprocess.run(cmd, cwd=CFGDIR, env=ENV, stdout=subprocess.PIPE, stderr=subprocess.STDOUT, text=True)
            if p.returncode != 0:
                log(p.stdout[-3000:])
                raise SystemExit(f"hcfg build failed for configuration {name}")


TENCC = {"f32": ("f32", "x{0}"), "f64": ("f64", "x{0}"), "opt_f32": ("opt(f32)", "S(x{0})"), "tagged_f32": ("tagged(5,f32)", "x{0}"),
         "tup_f32_f64": ("tup(f32,f64)", "[x{0},x{1}]"), "arr2_f64": ("arr(2,f64)", "[x{0},x{1}]"), "range_f64": ("fields(f64,f64)", "[x{0},x{1}]"),
         "u64": ("u64", "{0}"), "i64": ("i64", "{0}"), "opt_u8": ("opt(u8)", "S({0})"), "char": ("char", "{0}"), "bool": ("bool", "{0}"),
         "unit": ("unit", "U"), "str": ("str", "s{0}"), "duration": ("duration", "[{0},{1}]")}


def model_op(op, alloc, half):
    w = op.split(" ")
    if w[0] in ("reuse", "ishow", "tokshow"):
        return "nop"
    if w[0] == "tencc":
        d, f = TENCC[w[1]]
        if w[2] == "N":
            return f"tenc {d} N"
        a = w[2].split(",")
        if w[1] == "bool":
            a = ["T" if a[0] == "1" else "F"]
        return f"tenc {d} {f.format(*a)}"
    if w[0] == "dec":
        a = w[1]
        if a.startswith("t:"):
            return " ".join(["tdec", a[2:]] + w[2:])
        if a == "skip" and not alloc: w[1] = "skip_noalloc"
        if a in ("f32", "f64") and not half: w[1] = a + "_nohalf"
    return " ".join(w)


def exists(op, half, alloc=True):
    w = op.split(" ")
    if w[0] == "tovecs":
        return alloc                      # minicbor::to_vec needs alloc
    if w[0] == "tokshow":
        return half                       # Token / Tokenizer need half
    if w[0] == "ishow":
        return True
    return not (w[1] == "f16" and not half)


def typed_inputs(rng, n):
    out = []
    samples = {
        "opt(u8)": [b"\xf6", b"\x05", b"\x18\xff", b"\x19\x01\x00", b"\xf7", b"\x38"],
        "tup(u8,i16,bool)": [b"\x83\x01\x21\xf5", b"\x9f\x01\x21\xf5\xff", b"\x82\x01\x21", b"\x83\x01\x39\x80\x00\xf4"],
        "arr(3,u16)": [b"\x83\x01\x02\x03", b"\x9f\x01\x02\x03\xff", b"\x84\x01\x02\x03\x04", b"\x82\x01\x02", b"\x9f\x01\x02\x03\x04\xff",
                       # longer than the array by two and more, a non-element / a truncated tail / a missing break behind it
                       b"\x85\x01\x02\x03\x04\x05", b"\x86\x01\x02\x03\x04\x05\x06", b"\x84\x01\x02\x03\x61\x61", b"\x85\x01\x02\x03\x04\x61\x61",
                       b"\x84\x01\x02\x03", b"\x85\x01\x02\x03\x04", b"\x9f\x01\x02\x03\x04", b"\x9f\x01\x02\x03\x04\x05\xff", b"\x9f\x01\x02\x03\x04\x61\x61\xff",
                       b"\x98\xff\x01\x02\x03\x04", b"\x9b\xff\xff\xff\xff\xff\xff\xff\xff\x01\x02\x03\x04\x05", b"\x84\x01\x02\x03\x9f\xff", b"\x84\x01\x02\x03\xff"],
        "fields(u32,u32)": [b"\x82\x01\x02", b"\x83\x01\x02\x03", b"\x9f\x01\x02\xff", b"\x81\x01", b"\x84\x01\x02\x82\x01\x02\x03", b"\x9f\x01\x02\x03\x04\xff"],
        "duration": [b"\x82\x05\x06", b"\x82\x1b" + b"\xff" * 8 + b"\x1a\x3b\x9a\xca\x00", b"\x82\x05\x1a\x3b\x9a\xc9\xff", b"\x9f\x05\x06\xff"],
        "str": [b"\x61a", b"\x62\xc3\xa9", b"\x61\xff", b"\x7f\x61a\xff", b"\x78\x01a"],
        "cstr": [b"\x43ab\x00", b"\x42ab", b"\x43a\x00b", b"\x41\x00", b"\x40", b"\x44a\x00\x00\x00", b"\x63ab\x00", b"\x5f\x43ab\x00\xff", b"\x58\x03ab\x00"],
        "bound(u8)": [b"\x82\x00\x05", b"\x82\x01\x05", b"\x82\x02\x80", b"\x82\x02\x82\x01\x02", b"\x82\x03\x05", b"\x82\x02\x9f\x01\xff"],
        "opt(fields(u32,u32))": [b"\xf6", b"\x82\x01\x02", b"\x83\x01\x02\x9f\xff"],
        # every other Decode impl that exists without alloc, incl. the wrong-tag / wrong-length / out-of-range error paths
        "tagged(0,str)": [b"\xc0\x61a", b"\xc1\x61a", b"\xd8\x00\x61a", b"\x61a", b"\xc0\x01", b"\xd8\x18\x61a"],
        "tagged(32,u8)": [b"\xd8\x20\x05", b"\xd8\x21\x05", b"\xd9\x00\x20\x18\xff", b"\xc0\x05", b"\xd8\x20\x19\x01\x00"],
        "tup(u8,tagged(1000,i16))": [b"\x82\x00\xd9\x03\xe8\x21", b"\x82\x00\xd8\x18\x21", b"\x82\x00\x21", b"\x9f\x00\xd9\x03\xe8\x21\xff"],
        "opt(tagged(4294967296,bool))": [b"\xf6", b"\xdb\x00\x00\x00\x01\x00\x00\x00\x00\xf5", b"\xda\xff\xff\xff\xff\xf5", b"\xdb\x00\x00\x00\x01\x00\x00\x00\x01\xf4"],
        "nz(u8)": [b"\x01", b"\x00", b"\x18\xff", b"\x19\x01\x00", b"\x20"],
        "nz(i64)": [b"\x00", b"\x3b\x7f" + b"\xff" * 7, b"\x3b\x80" + b"\x00" * 7, b"\x1b\x80" + b"\x00" * 7, b"\x20"],
        "int": [b"\x3b" + b"\xff" * 8, b"\x1b" + b"\xff" * 8, b"\x00", b"\x38\x17", b"\xc2\x41\x01"],
        "tag": [b"\xc1", b"\xd8\x18", b"\xdb" + b"\xff" * 8, b"\x01", b"\xdc"],
        "bool": [b"\xf4", b"\xf5", b"\xf6", b"\x01", b"\xf8\x14"],
        "char": [b"\x18\x78", b"\x19\xd8\x00", b"\x1a\x00\x11\x00\x00", b"\x1a\x00\x10\xff\xff", b"\x61\x78"],
        "unit": [b"\x80", b"\x9f\xff", b"\x81\x00", b"\xf6", b"\x98\x00"],
        "u64": [b"\x1b" + b"\xff" * 8, b"\x00", b"\x20", b"\x1c"],
        "i8": [b"\x38\x7f", b"\x38\x80", b"\x18\x7f", b"\x18\x80", b"\x39\x00\x01"],
        "barr(4)": [b"\x44\x01\x02\x03\x04", b"\x43\x01\x02\x03", b"\x45\x01\x02\x03\x04\x05", b"\x5f\x44\x01\x02\x03\x04\xff", b"\x64abcd"],
        "bytes": [b"\x42\x01\x02", b"\x40", b"\x5f\x41\x01\xff", b"\x61a", b"\x58\x02\x01\x02"],
        "arr(2,opt(tup(u8,bool)))": [b"\x82\xf6\x82\x01\xf5", b"\x9f\x82\x01\xf4\xf6\xff", b"\x82\xf6\x83\x01\xf5\x00", b"\x81\xf6", b"\x83\xf6\xf6\xf6",
                                     b"\x84\xf6\xf6\xf6\xf6", b"\x84\xf6\xf6\xf6\x05", b"\x84\xf6\xf6\xf6", b"\x9f\xf6\xf6\xf6\xf6\xff", b"\x9f\xf6\xf6\xf6\x82\x01\xff", b"\x9f\xf6\xf6\xf6"],
        "enum(u8,str)": [b"\x82\x00\x05", b"\x82\x01\x61a", b"\x82\x02\x05", b"\x9f\x00\x05\xff", b"\x81\x00", b"\x82\x00\x61a"],
    }
    for d, xs in samples.items():
        for x in xs:
            out.append(f"dec t:{d} {x.hex()}")
            for c in range(len(x)):
                out.append(f"dec t:{d} {gen.hexb(x[:c])}")
    for _ in range(n):
        d = rng.choice(TYPED)
        base = rng.choice(samples[d])
        m = bytearray(base)
        if m and rng.random() < 0.7:
            m[rng.randrange(len(m))] = rng.getrandbits(8)
        out.append(f"dec t:{d} {gen.hexb(bytes(m))}")
    return out


def corpus(rng, tier):
    q = tier == "quick"
    ops = []
    trees = W.small_trees(rng, 100 if q else 1000) + [W.rand_tree(rng, rng.randint(1, 6)) for _ in range(500 if q else 10000)]
    accs = W.ACCESSORS + ["datatype"]
    for i, t in enumerate(trees):
        e = W.enc(t)
        for acc in (accs if i < 300 else rng.sample(accs, 5)):
            ops.append(f"dec {acc} {e.hex()}")
        ops.append(f"dec skip {e.hex()}")
        if len(e) > 1:
            c = rng.randrange(1, len(e))
            ops.append(f"dec skip {e[:c].hex()}")
            m = bytearray(e); m[rng.randrange(len(m))] = rng.getrandbits(8)
            ops.append(f"dec skip {bytes(m).hex()}")
            ops.append(f"dec {rng.choice(accs)} {bytes(m).hex()}")
    for b0 in range(256):
        for acc in accs:
            ops.append("dec %s %02x" % (acc, b0))
            ops.append("dec %s %02x%s" % (acc, b0, gen.rand_bytes(rng, rng.randint(1, 9)).hex()))
    ops += typed_inputs(rng, 2000 if q else 40000)
    B = gen.boundaries(64)
    for v in B:
        ops.append(f"enc u64 {v}"); ops.append(f"enc tag {v}"); ops.append(f"enc int {-1 - v}")
        if v < 2**63: ops.append(f"enc i64 {-1 - v}")
        if v < 2**32: ops.append(f"enc u32 {v}")
    for x in range(256):
        ops.append(f"enc simple {x}"); ops.append(f"enc u8 {x}"); ops.append(f"enc i8 {x - 128}")
    for b in (0, 0x3f800000, 0x7fc00000, 0x33800000, 0x477fe000, 0xff800000, 1):
        ops.append(f"enc f32 {b:08x}"); ops.append(f"enc f16 {b:08x}")
    # half-precision items read through the wider accessors in every configuration (a type error without `half`, whatever the value: zero, minus zero,
    # infinities and NaNs included)
    for h in (0x0000, 0x8000, 0x7c00, 0xfc00, 0x7e00, 0xfe00, 0x7e01, 0x7d00, 0x3c00, 0x0001, 0x8001, 0x7bff):
        ops += [f"dec f32 f9{h:04x}", f"dec f64 f9{h:04x}", f"dec f32 82f9{h:04x}01", f"dec t:u64 f9{h:04x}"]
    # explicit half-precision encoding just below / at / just above a rounding tie (13 bits are dropped: a tie is 0x1000 in them), sticky bits in
    # the lowest positions only, in the normal, subnormal and overflow ranges, both signs, and NaNs whose payload lies in the dropped bits
    for e_ in (0x38800000, 0x3f800000, 0x3c000000, 0x477fe000, 0x47000000, 0x33800000, 0x36a00000, 0x38000000, 0x387fc000):
        for m in (0, 1, 0x3ff):
            for low in (0x0fff, 0x1000, 0x1001, 0x1002, 0x1004, 0x1007, 0x1800, 0x0001, 0x1fff):
                for sg in (0, 0x80000000):
                    ops.append(f"enc f16 {(sg | (e_ + (m << 13)) | low) & 0xffffffff:08x}")
    for b in (0x7f800001, 0x7f801fff, 0xff800001, 0x7f802000, 0x7fa00000, 0x7fffffff):
        ops.append(f"enc f16 {b:08x}")
    for _ in range(300 if q else 20000):
        ops.append(f"enc f16 {rng.getrandbits(32):08x}")
    for n in (0, 1, 23, 24, 60):
        ops.append(f"enc bytes {gen.hexb(gen.rand_bytes(rng, n))}")
        ops.append(f"enc str {gen.hexb(bytes(rng.randint(0x20, 0x7e) for _ in range(n)))}")
    ops += encseq_ops(rng, 1500 if q else 30000)
    # the built-in Encode / CborLen impls (not the Encoder methods): same bytes and same length whatever the features
    F32 = [0, 0x80000000, 0x3f800000, 0x7f800000, 0xff800000, 0x7fc00000, 0xffc00000, 0x7fc00001, 0x7f800001, 0x7fe00000, 0x7f802000, 0x38800000, 0x33800000,
           0x477fe000, 0x00000001, 0x3c000000, 0x7f7fffff] + [rng.getrandbits(32) for _ in range(40 if q else 2000)]
    F64 = [0, 1 << 63, 0x3ff0000000000000, 0x7ff0000000000000, 0xfff0000000000000, 0x7ff8000000000000, 0xfff8000000000000, 0x7ff8000000000001,
           0x7ffc000000000000, 0x7ff0040000000000, 0x3f10000000000000, 0x40effc0000000000, 0x36a0000000000000, 1] + [rng.getrandbits(64) for _ in range(40 if q else 2000)]
    for b in F32:
        ops += [f"tencc f32 {b:08x}", f"tencc opt_f32 {b:08x}", f"tencc tagged_f32 {b:08x}", f"tencc tup_f32_f64 {b:08x},{rng.choice(F64):016x}"]
    for b in F64:
        ops += [f"tencc f64 {b:016x}", f"tencc arr2_f64 {b:016x},{rng.choice(F64):016x}", f"tencc range_f64 {rng.choice(F64):016x},{b:016x}"]
    ops.append("tencc opt_f32 N")
    for v in B:
        ops.append(f"tencc u64 {v}")
        if v < 2**63: ops += [f"tencc i64 {-1 - v}", f"tencc i64 {v}"]
        if v < 256: ops.append(f"tencc opt_u8 {v}")
    ops += ["tencc opt_u8 N", "tencc bool 0", "tencc bool 1", "tencc unit -", "tencc char 65", "tencc char 233", "tencc char 8364", "tencc char 1114111",
            "tencc str -", "tencc str 68656c6c6f", "tencc str " + "61" * 24, "tencc duration 0,0", "tencc duration 5,999999999", f"tencc duration {2**64 - 1},1"]
    # ONE decoder through a script of skips / accessors / typed decodes at chosen positions, many of them failing inside nested containers
    # (whatever a call leaves behind on the object, in whichever configuration, must not show in the next one)
    nests = ["829f01ff02", "829f011cff02", "82bf0102ff03", "82bf01ff", "839f9f01ffff0203", "829f6161", "82a19f01ff02", "8301020304", "9f820102ff05",
             "829f01ff1c", "829f7f6161ffff02", "829f5f4101ffff", "a29f01ff0203bf0405ff", "83010203", "0102", "6161", "f6", "18"]
    tsteps = ["skip", "skip", "skip", "u8", "array", "map", "str", "datatype", "t:arr(3,u16)", "t:tup(u8,i16,bool)", "t:opt(u8)", "t:str", "t:unit"]
    for _ in range(150 if q else 4000):
        buf, starts = b"", []
        for _ in range(rng.randint(2, 6)):
            starts.append(len(buf)); buf += bytes.fromhex(rng.choice(nests))
        steps = [f"{rng.choice(starts) if rng.random() < 0.9 else rng.randint(0, len(buf))}:{rng.choice(tsteps)}" for _ in range(rng.choice([5, 20, 60]))]
        ops.append(f"reuse {buf.hex()} {';'.join(steps)}")
    # successive to_vec calls on one thread (alloc and std builds): a result must not depend on the calls before it
    for _ in range(200 if q else 3000):
        calls = [rng.choice(["f", "f", f"u8:{rng.choice([0, 5, 24, 255])}", "str:" + gen.hexb(bytes(rng.randint(0x61, 0x7a) for _ in range(rng.choice([0, 1, 5, 24, 300]))))])
                 for _ in range(rng.randint(1, 6))]
        ops.append("tovecs " + " ".join(calls))
    # the text form of integers and tokens (core::fmt only: it exists without alloc and without std, and must read the same there)
    B = sorted({s_ for v in gen.boundaries(64) for s_ in (v, -v, -1 - v, -2 - v) if -2**64 <= s_ <= 2**64 - 1})
    for v in B:
        ops.append(f"ishow {v}")
    for v in B:
        h = gen.head(0, v) if v >= 0 else gen.head(1, -1 - v)
        ops.append(f"tokshow {h.hex()}"); ops.append(f"tokshow 82{h.hex()}{h.hex()}")
    for t in trees[:300 if q else 5000]:
        ops.append(f"tokshow {W.enc(t).hex()}")
    return ops


def encseq_ops(rng, n):
    """call scripts on ONE encoder over a small bounded sink, carrying on after a call that did not fit: what a failed
    write leaves behind (bytes, room) is state the next call sees"""
    def call():
        k = rng.choice(["u8", "u16", "u32", "u64", "i64", "int", "bytes", "bytes", "str", "array", "map", "tag", "bool", "null",
                        "f32", "f64", "char", "simple", "begin_array", "begin_bytes", "end", "undefined"])
        if k in ("u8",): return f"u8:{rng.choice([0, 23, 24, 255])}"
        if k == "u16": return f"u16:{rng.choice([0, 24, 255, 256, 1000, 65535])}"
        if k == "u32": return f"u32:{rng.choice([5, 255, 65536, 4294967295])}"
        if k in ("u64", "array", "map", "tag"): return f"{k}:{rng.choice([0, 23, 24, 256, 65536, 4294967296, 2**64 - 1])}"
        if k == "i64": return f"i64:{rng.choice([-1, -25, -257, -65537, -2**63, 7])}"
        if k == "int": return f"int:{rng.choice([-2**64, -1, 2**64 - 1, -4294967297])}"
        if k == "bytes": return f"bytes:{gen.hexb(gen.rand_bytes(rng, rng.choice([0, 1, 2, 3, 5, 8, 13, 24, 30])))}"
        if k == "str": return f"str:{gen.hexb(bytes(rng.randint(0x61, 0x7a) for _ in range(rng.choice([0, 1, 2, 4, 7, 11, 24]))))}"
        if k == "bool": return f"bool:{rng.randint(0, 1)}"
        if k == "f32": return f"f32:{rng.getrandbits(32):08x}"
        if k == "f64": return f"f64:{rng.getrandbits(64):016x}"
        if k == "char": return f"char:{rng.choice([0x41, 0xe9, 0x20ac, 0x1f600])}"
        if k == "simple": return f"simple:{rng.choice([0, 19, 32, 255])}"
        return k
    out = ["encseq slice 6 u8:1 bytes:1111111111111111 u16:1000", "encseq cslice 6 u8:1 bytes:1111111111111111 u16:1000",
           "encseq carr 12 u8:1 bytes:11111111111111111111111111 u16:1000 u64:5000000000 u8:3 u8:4"]
    for _ in range(n):
        kind = rng.choice(["slice", "cslice", "carr"])
        cap = 12 if kind == "carr" else rng.choice([0, 1, 2, 3, 5, 6, 8, 9, 12, 16, 24, 40])
        out.append(f"encseq {kind} {cap} " + " ".join(call() for _ in range(rng.randint(1, 8))))
    return out


T_IGNORED = ["c11a65a4f2c0", "d9d9f700", "f7", "e0", "f820", "3bffffffffffffffff", "82c100f7", "a1f7c200", "c6c6c6c600", "a201c10002f7", "d8184401020304",
             "c2490100000000000000" "00", "f93c00", "9fc100ff", "c1", "c11a00", "82c1", "ff"]


def serde_corpus(rng, tier):
    """serde-bridge operations that exist without alloc (no model here: the six builds are compared with each other)."""
    q = tier == "quick"
    ops = []
    T = {"u8": [b"\x05", b"\x18\xff", b"\x19\x01\x00", b"\x20", b"\xf6"], "u64": [b"\x1b" + b"\xff" * 8, b"\x00", b"\x3b" + b"\x00" * 8],
         "i8": [b"\x38\x7f", b"\x38\x80", b"\x18\x80"], "i64": [b"\x3b\x7f" + b"\xff" * 7, b"\x3b\x80" + b"\x00" * 7, b"\x1b\x80" + b"\x00" * 7],
         "bool": [b"\xf4", b"\xf5", b"\xf6", b"\x01"], "char": [b"\x18\x78", b"\x19\xd8\x00", b"\x1a\x00\x11\x00\x00", b"\x61\x78"],
         "f32": [b"\xfa\x3f\x80\x00\x00", b"\xf9\x3c\x00", b"\xfb" + b"\x00" * 8], "f64": [b"\xfb\x3f\xf0" + b"\x00" * 6, b"\xfa\x7f\xc0\x00\x01", b"\xf9\x7e\x01"],
         "unit": [b"\x80", b"\x9f\xff", b"\x81\x00", b"\xf6"], "opt_u8": [b"\xf6", b"\x07", b"\xf7"],
         "str": [b"\x61a", b"\x7f\x61a\xff", b"\x62\xc3\x28", b"\x41a"], "bytes": [b"\x42\x01\x02", b"\x5f\x41\x01\xff", b"\x61a"],
         "tup2": [b"\x82\x01\x02", b"\x9f\x01\x02\xff", b"\x9f\x01\x02\x03\xff", b"\x9f\x01\xff", b"\x83\x01\x02\x03", b"\x81\x01", b"\x98\x02\x01\x02"],
         "tup3n": [b"\x83\x01\x82\x20\xf5\x19\x01\x00", b"\x83\x01\x9f\x20\xf5\xff\x07", b"\x9f\x01\x82\x20\xf5\x07\xff"],
         "arr2": [b"\x82\x01\x02", b"\x9f\x01\x02\xff", b"\x82\x01", b"\x83\x01\x02\x03"],
         "arr2tup": [b"\x82\x82\x01\x02\x82\x03\x04", b"\x82\x9f\x01\x02\xff\x82\x03\x04", b"\x9f\x9f\x01\x02\xff\x9f\x03\x04\xff\xff"],
         "opt_tup": [b"\xf6", b"\x82\x01\x02", b"\x9f\x01\x02\xff"]}
    for t, xs in T.items():
        for x in xs:
            ops.append(f"sde {t} {x.hex()}")
            for c in range(len(x)):
                ops.append(f"sde {t} {gen.hexb(x[:c])}")
            ext = x + bytes([7])
            ops.append(f"sde {t} {ext.hex()}")
        for _ in range(150 if q else 5000):
            m = bytearray(rng.choice(xs))
            m[rng.randrange(len(m))] = rng.getrandbits(8)
            ops.append(f"sde {t} {bytes(m).hex()}")
    for v in gen.boundaries(64):
        ops.append(f"sser u64 {v}")
        if v < 2**63: ops.append(f"sser i64 {-1 - v}")
    for x in range(256):
        ops.append(f"sser u8 {x}"); ops.append(f"sser i8 {x - 128}")
    # deserialize_any (the bridge's only alloc-dependent decoding path: indefinite strings are collected or refused) and
    # collect_str (needs alloc): the two documented bridge differences, and everything around them
    trees = W.small_trees(rng, 60 if q else 600) + [W.rand_tree(rng, rng.randint(1, 5)) for _ in range(300 if q else 6000)]
    for t in trees:
        e = W.enc(t)
        ops.append(f"sde any {e.hex()}")
        if len(e) > 1 and rng.random() < 0.5:
            ops.append(f"sde any {e[:rng.randrange(1, len(e))].hex()}")
    for x in ["7f6161616262ff", "5f4101420203ff", "7fff", "5fff", "83017f6161ff02", "a17f6161ff05", "a1057f6161ff", "7f61", "7f6161", "5f41ff",
              "827f6161ff5f4101ff", "9f7f6161ffff", "c17f6161ff", "7f4101ff", "5f6161ff", "7f62c328ff", "7f61c361a9ff"]:
        ops.append(f"sde any {x}")
    # maps with a repeated key (what a bridge does about them — nothing, here — must not depend on whether it could allocate a key set)
    for x in ["a201020103", "a2616101616102", "bf01020103ff", "a3010201030104", "a2410101410102", "a201a201020103010a", "a2f601f602", "a28001800" + "2",
              "a2616101616102", "82a201020103a2616101616102", "a4616101616201616103616204", "bf616101616102ff", "a2f97e0001f97e0002", "a2fa7fc0000001fa7fc0000002"]:
        ops.append(f"sde any {x}")
        ops.append(f"sde ignored {x}")
    # a selective visitor behind deserialize_any: what it refuses is refused with the same error class everywhere
    for t in trees[:150 if q else 3000]:
        ops.append(f"sde picky {W.enc(t).hex()}")
    for x in ["05", "f5", "f4", "f6", "f7", "6161", "20", "3903e7", "80", "a0", "4101", "fa3f800000", "fb3ff0000000000000", "c105", "1bffffffffffffffff", "9fff", "8205f6", "82f505"]:
        ops.append(f"sde picky {x}"); ops.append(f"sde picky2 {x}")
    # visitors that return before their array / map is exhausted, then one more value from the same Deserializer: where the decoder stands afterwards
    # does not depend on the configuration
    for x in ["83010203", "9f010203ff05", "8005", "9fff05", "8101", "810105", "8161", "840102030405", "9f01ff", "98030102030" + "4", "83010203" * 1 + "07",
              "a201020304", "bf01020304ff", "a005", "bfff05", "a1010205", "a201020304" + "06", "a10161"]:
        ops.append(f"sde first {x}"); ops.append(f"sde firstm {x}")
    # a visitor that takes strings only as borrows from the input: a definite-length string is handed over borrowed everywhere
    for t in trees[:150 if q else 3000]:
        ops.append(f"sde borrowed {W.enc(t).hex()}")
    for x in ["6161", "4101", "60", "40", "8261614101", "826161" + "6162", "7f6161ff", "5f4101ff", "82616105", "8205" + "4101", "78186161616161616161616161616161616161616161616161616161", "05", "f5", "62c3a9"]:
        ops.append(f"sde borrowed {x}"); ops.append(f"sde borrowed2 {x}")
    # collect_seq / collect_map over iterators whose size hint is not tight: the same framing whether or not the bridge could buffer
    for n in (0, 1, 2, 3, 8, 24, 47):
        ops += [f"sser cseq {n}", f"sser cmap {min(n, 15)}", f"sser tup_cseq {n}"]
    # containers nested past any round limit, and ONE deserializer asked again after failed attempts (a guard that counts must count back)
    for dpt in (31, 32, 33, 34, 64, 65, 129, 300):
        ops.append(f"sde any {'81' * dpt}05"); ops.append(f"sde ignored {'81' * dpt}05"); ops.append(f"sde any {'a100' * dpt}05")
        ops.append(f"sde any {'9f' * dpt}05{'ff' * dpt}"); ops.append(f"sde picky {'81' * dpt}05")
    for n in (1, 31, 32, 33, 40, 70, 300):
        for bad in ("82058161", "820581", "8205", "82f5", "8205820101", "82058118ff"):
            ops.append(f"sdereuse {n} {bad} 82058107")
    for v in (0, 9, 10, 255, 65536, 2**64 - 1):
        ops.append(f"sser shown {v}")
    # IgnoredAny (what a derived struct uses for unknown fields): skips one item whatever it is, in every configuration
    for t in trees[:200 if q else 3000]:
        ops.append(f"sde ignored {W.enc(t).hex()}")
    for x in T_IGNORED:
        ops.append(f"sde ignored {x}")
    ops += ["sser bool 0", "sser bool 1", "sser unit -", "sser opt_u8 N", "sser opt_u8 200", "sser char 120", "sser char 1114111",
            "sser str 68656c6c6f", "sser str -", "sser tup2 258", "sser arr2 65535", "sser f32 3f800000", "sser f32 7fc00001"]
    return ops


def streams(rng, tier):
    ops = corpus(rng, tier)
    sops = serde_corpus(rng, tier)
    ref = {}
    # the std+half build is the reference for the serde-bridge operations; every other build must answer identically
    def judge_ref(op, impl, model, spec):
        ref[op] = impl
        return "violation" if impl in ("panic",) else "ok"
    def judge_same(op, impl, model, spec):
        want = ref.get(op)
        if want is None or impl == want:
            return "ok"
        # documented difference: without half, a half-precision item is a type error
        if "half" not in CUR[0] and " f9" in " " + op.split(" ")[2][:2] and impl.startswith("err type"):
            return "ok"
        w = op.split(" ")
        noalloc = "alloc" not in CUR[0] and "std" not in CUR[0]
        hx = w[2] if len(w) > 2 else ""
        has = lambda *bs: any(hx[i:i + 2] in bs for i in range(0, len(hx), 2))
        if w[1] in ("any", "picky", "picky2", "borrowed", "borrowed2"):
            # documented: without alloc the bridge refuses indefinite-length strings (type error at that item)
            if noalloc and has("5f", "7f") and impl.startswith("err type"):
                return "ok"
            # documented: without half a half-precision item is a type error, wherever deserialize_any meets it
            if "half" not in CUR[0] and has("f9") and impl.startswith("err type"):
                return "ok"
        if w[1] == "ignored" and noalloc and has("9f", "bf") and impl.startswith("err message"):
            return "ok"                     # documented: without alloc skip() may refuse an indefinite array / map nested in a definite one
        if w[1] == "shown" and noalloc and impl == "err":
            return "ok"                     # documented: collect_str needs alloc
        return "violation"
    CUR = [""]
    out = []
    order = [c for c in CONFIGS if c[0] == "std_half"] + [c for c in CONFIGS if c[0] != "std_half"]
    for name, feats in order:
        def mk(name=name, feats=feats):
            def j(op, impl, model, spec):
                CUR[0] = feats
                return (judge_ref if name == "std_half" else judge_same)(op, impl, model, spec)
            return j
        st = Stream("serde-" + name, cfg_bin(name), sops, model_ops=["nop"] * len(sops), judge=mk(),
                    rule=f"serde-bridge Deserializer/Serializer on types available without alloc, configuration {name}: identical to the std+half build (documented: f9 is a type error without half)")
        st.shrinkable = False
        out.append(st)
    seen = {}         # op -> [(configuration, alloc, half, answer)]: the property itself, decided across the six builds

    def comparable(op, a1, h1, a2, h2):
        """may the two configurations differ on this op by a *documented* difference?  (then they are not compared)"""
        w = op.split(" ")
        hx = w[2] if len(w) > 2 else ""
        if h1 != h2 and w[0] == "dec" and w[1] in ("f32", "f64") and hx[:2] == "f9":
            return False          # without `half` a half-precision item is a type error
        if a1 != a2 and w[0] == "dec" and (w[1] == "skip" or w[1].startswith("t:")) and any(hx[i:i + 2] in ("9f", "bf") for i in range(0, len(hx), 2)):
            return False          # without `alloc` skip() may refuse an indefinite array/map nested in a definite one
        return True

    def cross(op, name, alloc, half, impl):
        bad = None
        for (n2, a2, h2, r2) in seen.get(op, []):
            if r2 != impl and comparable(op, alloc, half, a2, h2):
                bad = (n2, r2)
                break
        seen.setdefault(op, []).append((name, alloc, half, impl))
        return bad

    for name, feats in CONFIGS:
        alloc = "alloc" in feats or "std" in feats
        half = "half" in feats
        o = [op for op in ops if exists(op, half, alloc)]
        def judge_cfg(op, impl, model, spec, alloc=alloc, half=half, name=name):
            if cross(op, name, alloc, half, impl) is not None:
                return "violation"          # two feature configurations answer differently on the same input: a failing input of C20
            w = op.split(" ")
            if w[0] == "ishow":
                # the number itself, from Int and from Token::Int alike (the rest of the line, the same under format flags, is compared across configurations)
                return "ok" if impl.split(" ")[0] == w[1] and "token:" not in impl else "violation"
            if w[0] == "tokshow":
                return "violation" if impl in ("panic", "bad-op") or impl.startswith("crash") else "ok"
            if impl == model:
                return "ok"
            if w[0] == "reuse":
                # every step answered as on a fresh decoder (what a fresh decoder answers is what the `dec` ops compare with the model)
                return "ok" if impl == f"{len(w[2].split(';'))} -" else "violation"
            # documented difference: without alloc, skip() may refuse an indefinite array/map nested in a definite one
            # (C06.noalloc_lockstep: the no-alloc skip equals the alloc skip or answers `err message`).  Typed decodes use
            # skip() for ignored items; the model of typed decoding is the alloc one, so this answer is accepted there
            # when the input does contain an indefinite array/map head.
            if not alloc and w[1].startswith("t:") and impl.startswith("err message"):
                hx = w[2]
                if any(hx[i:i + 2] in ("9f", "bf") for i in range(0, len(hx), 2)):
                    return "ok"
            return "corr"
        st = Stream("cfg-" + name, cfg_bin(name), o, model_ops=[model_op(op, alloc, half) for op in o], judge=judge_cfg,
                    rule=f"configuration {name} (alloc={alloc}, half={half}) against the model at that configuration, and against the answers of the configurations run before it (same value / class / position unless the difference is one of the two documented ones)")
        st.shrinkable = False
        out.append(st)
    return out


def replay_streams(rp):
    op = rp["original_op"]
    if op.startswith("sde") or op.startswith("sser"):
        a = Stream("replay-ref", cfg_bin("std_half"), [op], model_ops=["nop"], judge=lambda *x: "ok")
        def j(o, impl, model, spec):
            return "ok" if impl == a.impl_results[0] else "violation"
        return [a, Stream("replay", rp["binary"], [op], model_ops=["nop"], judge=j)]
    return [Stream("replay", rp["binary"], [op], model_ops=[rp["model_op"]])]
