"""Shared by C17 / C18: the table harness type name -> model type descriptor, parsers for the
descriptor and value syntaxes, a type-directed value generator, an independent encoder of the
*documented* representation (with re-framing options) and a reference well-formedness parser.
Python stdlib only."""
import re
from verifkit import gen

POINT = "st{x:i32,y:i32}"
COLOR = "en{Red,Green,Blue}"
EXT = "en{A,B(u32),C(u8,str),D{x:i16,y:opt(bool)},E(%s),F(seq(u8)),G(unit),H(opt(u8))}" % POINT
ITAG = "it(t){A,B{x:u8,s:str},C(%s),D{v:seq(i32),o:opt(u16)}}" % POINT
UNTAGGED = "un{Num(u32),Text(str),Pair(u8,u8),Rec{x:u8,y:str},Pt(%s),Big(i64),Fl(f64),Flag(bool)}" % POINT

_V4 = "tup(u8,u8,u8,u8)"
_V6 = "tup(" + ",".join(["u8"] * 16) + ")"
IPADDR = "en{V4(%s),V6(%s)}" % (_V4, _V6)
SOCKADDR = "en{V4(tup(%s,u16)),V6(tup(%s,u16))}" % (_V4, _V6)

RECORD = "st{id:u32,note?:opt(str),tags*:seq(u8),last:bool}"
ALLSKIP = "st{a?:opt(u8),b*:seq(opt(i16))}"
EVENT = "en{Ping,Update{seq:u64,comment?:opt(str),path*:seq(u16)},Note{text?:opt(%s)}}" % POINT

# name -> (serde descriptor, native descriptor or None)
SHARED = {
    "bool": "bool", "u8": "u8", "u16": "u16", "u32": "u32", "u64": "u64", "i8": "i8", "i16": "i16", "i32": "i32", "i64": "i64",
    "f32": "f32", "f64": "f64", "char": "char", "string": "str", "unit": "unit",
    "opt_u32": "opt(u32)", "opt_string": "opt(str)", "opt_unit": "opt(unit)", "opt_i64": "opt(i64)", "opt_opt_u8": "opt(opt(u8))",
    "vec_u8": "vec(u8)", "vec_i64": "vec(i64)", "vec_string": "vec(str)", "vec_vec_u16": "vec(vec(u16))", "vec_opt_i8": "vec(opt(i8))",
    "vec_unit": "vec(unit)", "vec_char": "vec(char)", "vec_bool": "vec(bool)",
    "arr3_u16": "arr(3,u16)", "arr0_u8": "arr(0,u8)", "arr2_opt_bool": "arr(2,opt(bool))",
    "tup1_u32": "tup(u32)", "tup2_u8_string": "tup(u8,str)", "tup3_i64_bool_char": "tup(i64,bool,char)",
    "tup_nested": "tup(tup(u8,i8),vec(u8))", "tup_f32_f64": "tup(f32,f64)",
    "map_u8_string": "map(u8,str)", "map_string_vec_i32": "map(str,vec(i32))", "map_i32_map_char_bool": "map(i32,map(char,bool))",
    "map_bool_unit": "map(bool,unit)", "map_u64_i64": "map(u64,i64)",
    "opt_vec_tup": "opt(vec(tup(u8,char)))", "vec_map": "vec(map(u16,opt(str)))", "tup_opt_arr": "tup(opt(u16),arr(2,i8),unit)",
    # a None inside the payload of a Some, at a distance (directly inside it is the documented lossy shape)
    "opt_vec_opt": "opt(vec(opt(u8)))", "opt_tup_opt": "opt(tup(opt(u8),u8))", "opt_map_opt": "opt(map(u8,opt(str)))",
    "vec_opt_vec_opt": "vec(opt(vec(opt(bool))))",
    "tup_u8_opt": "tup(u8,opt(u8))", "tup_opt_opt": "tup(opt(u8),opt(str))", "tup1_opt": "tup(opt(i64))", "vec_tup_opt": "vec(tup(u8,opt(i8)))",
    "wdeque_u16": "vec(u16)", "wdeque_str": "vec(str)", "tup_wdeque": "tup(vec(u8),u8)",
    "tup_unit_last": "tup(u8,unit)", "tup_nested_opt": "tup(u8,tup(u8,opt(bool)))", "map_tup_opt": "map(u8,tup(bool,opt(u16)))",
}


def native_to_serde(d):
    """vec(T) -> seq(T); arr(n,T) -> tup(T,…,T)"""
    t = parse_type(d, native=True)

    def conv(t):
        k = t[0]
        if k == "vec":
            return ("seq", True, conv(t[1]))
        if k == "arr":
            return ("tup", [conv(t[2])] * t[1])
        if k == "opt":
            return ("opt", conv(t[1]))
        if k == "tup":
            return ("tup", [conv(x) for x in t[1]])
        if k == "map":
            return ("map", True, conv(t[2]), conv(t[3]))
        return t
    return show_type(conv(t))


SERDE_ONLY = {
    "bytes": "bytes", "bytes2": "bytes", "str2": "str",
    "cseq_u16": "useq(u16)", "cseq_str": "useq(str)", "cmap_u8_str": "umap(u8,str)", "vec_cseq": "seq(useq(u8))", "tup_cseq_u8": "tup(useq(u8),u8)",
    "kvmap_u8_str": "map(u8,str)", "kvmap_str_seq": "map(str,seq(i32))", "vec_kvmap": "seq(map(u8,bool))",
    "useq_u16": "useq(u16)", "useq_point": "useq(%s)" % POINT, "umap_string_i32": "umap(str,i32)", "umap_u8_useq": "umap(u8,useq(bool))",
    "UnitS": "ustruct", "NewU64": "nt(u64)", "NewOpt": "nt(opt(u8))", "NewVec": "nt(seq(i16))", "TupS": "ts(u8,str,i16)",
    "Point": POINT, "Empty": "st{}",
    "Prims": "st{a:bool,b:u8,c:u16,d:u32,e:u64,f:i8,g:i16,h:i32,i:i64,j:f32,k:f64,l:char,m:str,n:bytes,o:unit,p:opt(u32)}",
    "Nested": "st{p:%s,v:seq(%s),o:opt(%s),m:map(str,%s),t:tup(u8,%s),n:nt(u64),u:ustruct,ts:ts(u8,str,i16)}" % ((POINT,) * 5),
    "OptFields": "st{a:opt(u8),b:opt(str),c:u8}",
    "Ext": EXT, "Color": COLOR,
    "WithEnum": "st{e:%s,c:%s,l:seq(%s),o:opt(%s),m:map(u8,%s)}" % (EXT, COLOR, EXT, COLOR, EXT),
    "vec_ext": "seq(%s)" % EXT, "opt_point": "opt(%s)" % POINT,
    "FlatOuter": "fl{a:u8|b:u16,c:str,o:opt(i8)|d:bool}",
    "FlatDeep": "fl{|p:%s,v:seq(u32),f:f32,g:f64,e:%s,m:map(str,u8),t:tup(u8,i8),y:bytes,us:ustruct,nn:nt(u64),x:%s,w:i64,q:u64|z:i64}" % (POINT, COLOR, EXT),
    "FlatChar": "fl{a:u8|c:char|}", "FlatUnit": "fl{a:u8|u:unit|}",
    "ITag": ITAG, "ITagChar": "it(t){V{c:char},W{n:u8}}",
    "ATag": "at(t,c){A,B(u32),C(u8,i8),D{x:str},E(char),F(%s)}" % POINT,
    "Untagged": UNTAGGED, "UntaggedUnit": "un{Nil,Num(u8)}", "UntaggedChar": "un{Ch(char),Pair(u8,u8)}",
    "Record": RECORD, "AllSkip": ALLSKIP, "Event": EVENT, "Holder": "st{r:%s,e:%s,z:u8}" % (RECORD, EVENT),
    "vec_record": "seq(%s)" % RECORD, "tup_record_u8": "tup(%s,u8)" % RECORD, "vec_event": "seq(%s)" % EVENT,
    "tup_allskip_event_u8": "tup(%s,%s,u8)" % (ALLSKIP, EVENT), "opt_record": "opt(%s)" % RECORD,
    "OptOpt": "st{a:opt(opt(u8))}", "vec_itag": "seq(%s)" % ITAG, "vec_untagged": "seq(%s)" % UNTAGGED,
    # an enum value directly followed by an optional one in the same array (a unit variant is a bare string: nothing closes it)
    "tup_color_opt": "tup(%s,opt(u8))" % COLOR, "vec_opt_color": "seq(opt(%s))" % COLOR,
    "tup_ext_opt": "tup(%s,opt(%s),%s)" % (EXT, EXT, EXT), "vec_opt_ext": "seq(opt(%s))" % EXT,
    "TsColorOpt": "ts(%s,opt(str),%s,opt(unit))" % (COLOR, COLOR),
    # std's network addresses: their serde impls ask is_human_readable() on both sides of the bridge (compact form: octet tuples)
    "ipaddr": IPADDR, "sockaddr": SOCKADDR, "vec_ipaddr": "seq(%s)" % IPADDR, "NetS": "st{ip:%s,peer:opt(%s),n:u8}" % (IPADDR, SOCKADDR),
}

INT_KINDS = {"u8": (0, 2**8 - 1), "u16": (0, 2**16 - 1), "u32": (0, 2**32 - 1), "u64": (0, 2**64 - 1),
             "i8": (-2**7, 2**7 - 1), "i16": (-2**15, 2**15 - 1), "i32": (-2**31, 2**31 - 1), "i64": (-2**63, 2**63 - 1)}
WORD = re.compile(r"[A-Za-z0-9_\-]*")

# ------------------------------------------------------------------ type descriptors


class P:
    def __init__(self, s):
        self.s, self.i = s, 0

    def peek(self):
        return self.s[self.i] if self.i < len(self.s) else ""

    def eat(self, c):
        if self.peek() != c:
            raise ValueError(f"expected {c!r} at {self.i} in {self.s!r}")
        self.i += 1

    def word(self):
        m = WORD.match(self.s, self.i)
        self.i = m.end()
        return m.group(0)


def parse_type(s, native=False):
    p = P(s)
    t = _ptype(p, native)
    if p.i != len(s):
        raise ValueError("trailing input in type " + s)
    return t


def _plist(p, close, native):
    out = []
    if p.peek() == close:
        p.i += 1
        return out
    while True:
        out.append(_ptype(p, native))
        if p.peek() == ",":
            p.i += 1
        else:
            p.eat(close)
            return out


def _pfields(p, close, native=False):
    out = []
    if p.peek() == close:
        p.i += 1
        return out
    while True:
        n = p.word()
        mark = None
        if p.peek() in ("?", "*"):          # #[serde(default, skip_serializing_if = "Option::is_none" / "Vec::is_empty")]
            mark = "none" if p.peek() == "?" else "empty"
            p.i += 1
        p.eat(":")
        ft = _ptype(p, native)
        out.append((n, ("skip", mark, ft) if mark else ft))
        if p.peek() == ",":
            p.i += 1
        else:
            p.eat(close)
            return out


def _pvariants(p):
    out = []
    if p.peek() == "}":
        p.i += 1
        return out
    while True:
        n = p.word()
        if p.peek() == "(":
            p.i += 1
            ts = _plist(p, ")", False)
            out.append((n, ("newtype", ts[0]) if len(ts) == 1 else ("tuple", ts)))
        elif p.peek() == "{":
            p.i += 1
            out.append((n, ("struct", _pfields(p, "}"))))
        else:
            out.append((n, ("unit",)))
        if p.peek() == ",":
            p.i += 1
        else:
            p.eat("}")
            return out


def _ptype(p, native):
    w = p.word()
    if w in INT_KINDS:
        return ("int", w)
    if w in ("bool", "f32", "f64", "char", "str", "bytes", "unit", "ustruct"):
        return (w,)
    if w in ("opt", "nt"):
        p.eat("("); t = _ptype(p, native); p.eat(")")
        return (w, t)
    if w in ("seq", "useq"):
        p.eat("("); t = _ptype(p, native); p.eat(")")
        return ("seq", w == "seq", t)
    if w == "vec":
        p.eat("("); t = _ptype(p, native); p.eat(")")
        return ("vec", t)
    if w == "arr":
        p.eat("("); n = int(p.word()); p.eat(","); t = _ptype(p, native); p.eat(")")
        return ("arr", n, t)
    if w in ("tup", "ts"):
        p.eat("(")
        return (w, _plist(p, ")", native))
    if w in ("map", "umap"):
        p.eat("("); k = _ptype(p, native); p.eat(","); v = _ptype(p, native); p.eat(")")
        return ("map", w == "map", k, v)
    if w == "st":
        p.eat("{")
        return ("st", _pfields(p, "}"))
    if w == "en":
        p.eat("{")
        return ("en", _pvariants(p))
    if w == "un":
        p.eat("{")
        return ("un", _pvariants(p))
    if w == "fl":
        p.eat("{")
        a = _pfields(p, "|"); b = _pfields(p, "|"); c = _pfields(p, "}")
        return ("fl", a, b, c)
    if w == "it":
        p.eat("("); tag = p.word(); p.eat(")"); p.eat("{")
        return ("it", tag, _pvariants(p))
    if w == "at":
        p.eat("("); tag = p.word(); p.eat(","); ct = p.word(); p.eat(")"); p.eat("{")
        return ("at", tag, ct, _pvariants(p))
    raise ValueError(f"bad type word {w!r} in {p.s!r}")


def show_type(t):
    k = t[0]
    if k == "int":
        return t[1]
    if k in ("bool", "f32", "f64", "char", "str", "bytes", "unit", "ustruct"):
        return k
    if k in ("opt", "nt"):
        return f"{k}({show_type(t[1])})"
    if k == "seq":
        return ("seq" if t[1] else "useq") + f"({show_type(t[2])})"
    if k in ("tup", "ts"):
        return k + "(" + ",".join(show_type(x) for x in t[1]) + ")"
    if k == "map":
        return ("map" if t[1] else "umap") + f"({show_type(t[2])},{show_type(t[3])})"
    raise ValueError(k)


# ------------------------------------------------------------------ values (trees and text)
# value tree: ("bool",b) ("int",kind,n) ("f32",bits) ("f64",bits) ("char",n) ("str",bytes) ("bytes",bytes) ("none",)
# ("some",v) ("unit",) ("ustruct",) ("uv",name) ("ns",v) ("nv",name,v) ("seq",known,[..]) ("tup",[..]) ("ts",[..])
# ("tv",name,[..]) ("map",known,[(k,v)..]) ("st",[(k,v)..]) ("rv",name,[(k,v)..])


def hx(b):
    return b.hex() if b else "-"


def show_val(v):
    k = v[0]
    if k == "bool": return "b1" if v[1] else "b0"
    if k == "int": return f"{v[1]}:{v[2]}"
    if k == "f32": return f"f32:{v[1]:08x}"
    if k == "f64": return f"f64:{v[1]:016x}"
    if k == "char": return f"c:{v[1]}"
    if k == "str": return "s:" + hx(v[1])
    if k == "bytes": return "y:" + hx(v[1])
    if k == "none": return "n"
    if k == "some": return "S(" + show_val(v[1]) + ")"
    if k == "unit": return "u"
    if k == "ustruct": return "US"
    if k == "uv": return "UV:" + v[1]
    if k == "ns": return "NS(" + show_val(v[1]) + ")"
    if k == "nv": return f"NV:{v[1]}(" + show_val(v[2]) + ")"
    if k == "seq": return ("[" if v[1] else "[?") + ",".join(show_val(x) for x in v[2]) + "]"
    if k == "tup": return "T(" + ",".join(show_val(x) for x in v[1]) + ")"
    if k == "ts": return "TS(" + ",".join(show_val(x) for x in v[1]) + ")"
    if k == "tv": return f"TV:{v[1]}(" + ",".join(show_val(x) for x in v[2]) + ")"
    kv = lambda kvs: ",".join(show_val(a) + "=" + show_val(b) for a, b in kvs)
    if k == "map": return ("M{" if v[1] else "M?{") + kv(v[2]) + "}"
    if k == "st": return "R{" + kv(v[1]) + "}"
    if k == "rv": return f"RV:{v[1]}{{" + kv(v[2]) + "}"
    raise ValueError(k)


def S(name):
    return ("str", name.encode())


def unskip(ft):
    return ft[2] if ft[0] == "skip" else ft


def skipped(ft, v):
    """the field's skip_serializing_if predicate holds for value v: the entry is not written"""
    if ft[0] != "skip": return False
    return v[0] == "none" if ft[1] == "none" else (v[0] == "seq" and not v[2])


def gen_fields(rng, fields, depth):
    """entries of a derived struct / struct variant: run-time skipped fields are left out"""
    out = []
    for n, ft in fields:
        if ft[0] == "skip" and rng.random() < 0.45:
            continue                                    # predicate true: None / empty Vec
        v = gen_val(rng, unskip(ft), depth + 1)
        if not skipped(ft, v):
            out.append((S(n), v))
    return out


def unhx(a):
    return b"" if a == "-" else bytes.fromhex(a)


def parse_val(text):
    p = P(text)
    v = _pval(p)
    if p.i != len(text):
        raise ValueError("trailing input in value")
    return v


def _pvlist(p, close):
    out = []
    if p.peek() == close:
        p.i += 1
        return out
    while True:
        out.append(_pval(p))
        if p.peek() == ",":
            p.i += 1
        else:
            p.eat(close)
            return out


def _pkvs(p):
    out = []
    if p.peek() == "}":
        p.i += 1
        return out
    while True:
        k = _pval(p); p.eat("="); v = _pval(p)
        out.append((k, v))
        if p.peek() == ",":
            p.i += 1
        else:
            p.eat("}")
            return out


def _pval(p):
    if p.peek() == "[":
        p.i += 1
        known = True
        if p.peek() == "?":
            p.i += 1; known = False
        return ("seq", known, _pvlist(p, "]"))
    w = p.word()
    if w in ("b0", "b1"): return ("bool", w == "b1")
    if w == "n": return ("none",)
    if w == "u": return ("unit",)
    if w == "US": return ("ustruct",)
    if w in ("S", "NS"):
        p.eat("("); v = _pval(p); p.eat(")")
        return ("some" if w == "S" else "ns", v)
    if w == "T": p.eat("("); return ("tup", _pvlist(p, ")"))
    if w == "TS": p.eat("("); return ("ts", _pvlist(p, ")"))
    if w == "R": p.eat("{"); return ("st", _pkvs(p))
    if w == "M":
        known = True
        if p.peek() == "?":
            p.i += 1; known = False
        p.eat("{")
        return ("map", known, _pkvs(p))
    p.eat(":")
    a = p.word()
    if w in INT_KINDS: return ("int", w, int(a))
    if w == "f32": return ("f32", int(a, 16))
    if w == "f64": return ("f64", int(a, 16))
    if w == "c": return ("char", int(a))
    if w == "s": return ("str", unhx(a))
    if w == "y": return ("bytes", unhx(a))
    if w == "UV": return ("uv", a)
    if w == "NV":
        p.eat("("); v = _pval(p); p.eat(")")
        return ("nv", a, v)
    if w == "TV": p.eat("("); return ("tv", a, _pvlist(p, ")"))
    if w == "RV": p.eat("{"); return ("rv", a, _pkvs(p))
    raise ValueError(f"bad value word {w!r}")


# ------------------------------------------------------------------ generator

INTERESTING_F32 = [0, 0x80000000, 1, 0x3f800000, 0x7f7fffff, 0x7f800000, 0xff800000, 0x7fc00000, 0x7f800001, 0xffc12345, 0x477fe000]
INTERESTING_F64 = [0, 1 << 63, 1, 0x3ff0000000000000, 0x7ff0000000000000, 0xfff0000000000000, 0x7ff8000000000000, 0x7ff0000000000001,
                   0xfff8000000012345, 0x7fefffffffffffff]
CHARS = [0, 0x17, 0x18, 0x41, 0x7f, 0x80, 0xff, 0x100, 0x7ff, 0x800, 0xd7ff, 0xe000, 0xffff, 0x10000, 0x10ffff]
LENS = [0, 1, 2, 3, 23, 24, 25]


_B64 = [b for b in gen.boundaries(64)]


def gen_int(rng, kind):
    lo, hi = INT_KINDS[kind]
    r = rng.random()
    if r < 0.45:
        x = rng.choice(_B64)
        x = rng.choice([x, -x, -1 - x])
    elif r < 0.6:
        x = rng.choice([lo, hi, lo + 1, hi - 1, 0, -1, 23, 24, -24, -25, 255, 256, -256, -257])
    else:
        x = gen.rand_u(rng, 64)
        if rng.random() < 0.5:
            x = -1 - x
    if x < lo or x > hi:
        x = lo + (x - lo) % (hi - lo + 1)
    return ("int", kind, x)


def small(t):
    """cheap element types for long containers"""
    return t[0] in ("int", "bool", "unit", "char")


def key_sort(k):
    if k[0] == "int": return k[2]
    if k[0] == "str": return k[1]
    if k[0] == "char": return k[1]
    if k[0] == "bool": return int(k[1])
    if k[0] == "tup": return tuple(key_sort(x) for x in k[1])
    if k[0] == "seq": return tuple(key_sort(x) for x in k[2])
    if k[0] == "unit": return 0
    raise ValueError("key type")


BULK = None      # (count, max depth): while set, every seq / map down to that depth gets `count` elements whatever the element type


def has_container(t, depth=0, limit=2):
    """is there a seq / map within `limit` levels of the top of t?"""
    if depth > limit or not isinstance(t, tuple): return False
    if t[0] in ("seq", "vec", "map"): return True
    return any(has_container(x, depth + 1, limit) for x in _children(t))


def _children(t):
    k = t[0]
    if k in ("opt", "nt", "vec"): return [t[1]]
    if k == "seq": return [t[2]]
    if k == "arr": return [t[2]]
    if k in ("tup", "ts"): return list(t[1])
    if k == "map": return [t[2], t[3]]
    if k == "st": return [unskip(ft) if isinstance(ft, tuple) else ft for _, ft in t[1]]
    return []


def gen_bulk(rng, t, count, maxdepth=2):
    """a value of t in which the outermost containers hold `count` elements: documents with hundreds of tuples, fixed
    arrays, options, structs and enum values, so that per-document state in the (de)serialiser is exercised"""
    global BULK
    BULK = (count, maxdepth)
    try:
        return gen_val(rng, t)
    finally:
        BULK = None


def gen_val(rng, t, depth=0, size=None):
    k = t[0]
    if size is None and BULK is not None and k in ("seq", "vec", "map") and depth <= BULK[1]:
        # the outermost container on this path gets `count` elements; what is inside is generated as usual
        global _BULK_SAVED
        saved, count = BULK, BULK[0]
        globals()["BULK"] = None
        try:
            return gen_val(rng, t, depth, count)
        finally:
            globals()["BULK"] = saved
    if k == "bool": return ("bool", rng.random() < 0.5)
    if k == "int": return gen_int(rng, t[1])
    if k == "f32": return ("f32", rng.choice(INTERESTING_F32) if rng.random() < 0.5 else rng.getrandbits(32))
    if k == "f64": return ("f64", rng.choice(INTERESTING_F64) if rng.random() < 0.5 else rng.getrandbits(64))
    if k == "char":
        if rng.random() < 0.5: return ("char", rng.choice(CHARS))
        c = rng.randint(0, 0x10ffff)
        return ("char", 0x20ac if 0xd800 <= c <= 0xdfff else c)
    if k == "str":
        r = rng.random()
        if r < 0.15: return ("str", bytes(rng.randint(0x61, 0x7a) for _ in range(rng.choice([23, 24, 25, 255, 256]))))
        return ("str", gen.rand_text(rng, 6).encode())
    if k == "bytes":
        r = rng.random()
        n = rng.choice([23, 24, 255, 256]) if r < 0.15 else rng.randint(0, 6)
        return ("bytes", gen.rand_bytes(rng, n))
    if k == "unit": return ("unit",)
    if k == "ustruct": return ("ustruct",)
    if k == "opt":
        if rng.random() < 0.35: return ("none",)
        return ("some", gen_val(rng, t[1], depth + 1))
    if k == "nt": return ("ns", gen_val(rng, t[1], depth + 1))
    if k in ("seq", "vec"):
        et = t[2] if k == "seq" else t[1]
        known = t[1] if k == "seq" else True
        if size is not None: n = size
        elif small(et) and depth < 2: n = rng.choice(LENS + [0, 1, 2, 255, 256] if rng.random() < 0.3 else LENS)
        else: n = rng.choice([0, 1, 2, 3]) if depth < 3 else rng.choice([0, 1])
        return ("seq", known, [gen_val(rng, et, depth + 1) for _ in range(n)])
    if k == "arr": return ("tup", [gen_val(rng, t[2], depth + 1) for _ in range(t[1])])
    if k == "tup": return ("tup", [gen_val(rng, x, depth + 1) for x in t[1]])
    if k == "ts": return ("ts", [gen_val(rng, x, depth + 1) for x in t[1]])
    if k == "map":
        kt, vt = t[2], t[3]
        if size is not None: n = size
        elif small(vt) and depth < 2 and kt[0] != "bool": n = rng.choice(LENS)
        else: n = rng.choice([0, 1, 2, 3]) if depth < 3 else rng.choice([0, 1])
        keys = {}
        for _ in range(n * 3):
            kv = gen_val(rng, kt, depth + 1)
            keys.setdefault(key_sort(kv), kv)
            if len(keys) >= n: break
        ks = [keys[x] for x in sorted(keys)]
        return ("map", t[1], [(kk, gen_val(rng, vt, depth + 1)) for kk in ks])
    if k == "st": return ("st", gen_fields(rng, t[1], depth))
    if k == "en":
        n, sh = rng.choice(t[1])
        if sh[0] == "unit": return ("uv", n)
        if sh[0] == "newtype": return ("nv", n, gen_val(rng, sh[1], depth + 1))
        if sh[0] == "tuple": return ("tv", n, [gen_val(rng, x, depth + 1) for x in sh[1]])
        return ("rv", n, gen_fields(rng, sh[1], depth))
    if k == "fl":
        fs = t[1] + t[2] + t[3]
        return ("map", False, [(S(n), gen_val(rng, ft, depth + 1)) for n, ft in fs])
    if k == "it":
        n, sh = rng.choice(t[2])
        tagkv = (S(t[1]), S(n))
        if sh[0] == "unit": return ("st", [tagkv])
        if sh[0] == "struct": return ("st", [tagkv] + [(S(f), gen_val(rng, ft, depth + 1)) for f, ft in sh[1]])
        inner = gen_val(rng, sh[1], depth + 1)       # newtype of a struct
        assert inner[0] == "st"
        return ("st", [tagkv] + inner[1])
    if k == "at":
        n, sh = rng.choice(t[3])
        tagkv = (S(t[1]), ("uv", n))
        if sh[0] == "unit": return ("st", [tagkv])
        if sh[0] == "newtype": c = gen_val(rng, sh[1], depth + 1)
        elif sh[0] == "tuple": c = ("tup", [gen_val(rng, x, depth + 1) for x in sh[1]])
        else: c = ("st", [(S(f), gen_val(rng, ft, depth + 1)) for f, ft in sh[1]])
        return ("st", [tagkv, (S(t[2]), c)])
    if k == "un":
        # untagged enums are first-match: values an earlier variant would also accept are avoided on purpose
        for _ in range(100):
            i = rng.randrange(len(t[1]))
            n, sh = t[1][i]
            if sh[0] == "unit": v = ("unit",)
            elif sh[0] == "newtype": v = gen_val(rng, sh[1], depth + 1)
            elif sh[0] == "tuple": v = ("tup", [gen_val(rng, x, depth + 1) for x in sh[1]])
            else: v = ("st", [(S(f), gen_val(rng, ft, depth + 1)) for f, ft in sh[1]])
            if not any(un_accepts(s2, v) for _, s2 in t[1][:i]):
                return v
        raise ValueError("cannot generate an unambiguous untagged value")
    raise ValueError(k)


def accepts(t, v):
    """over-approximation of `a value with trace v, once serialised, also deserialises as type t`"""
    k = t[0]
    if k == "int": return v[0] == "int" and INT_KINDS[t[1]][0] <= v[2] <= INT_KINDS[t[1]][1]
    if k in ("f32", "f64"): return v[0] in ("int", "f32", "f64", "char")
    if k == "char": return v[0] in ("str", "char")
    if k == "str": return v[0] in ("str", "bytes", "uv")
    if k == "bytes": return v[0] == "bytes"
    if k == "bool": return v[0] == "bool"
    if k == "opt": return True
    if k == "skip": return accepts(t[2], v)
    if k == "nt": return accepts(t[1], v[1] if v[0] == "ns" else v)
    if k in ("unit", "ustruct"): return v[0] in ("unit", "ustruct", "tup", "seq", "map", "st")
    if k in ("seq", "tup", "ts"): return v[0] in ("seq", "tup", "ts", "unit", "ustruct")
    if k in ("map", "st", "fl", "it", "at"): return v[0] in ("map", "st", "seq", "tup", "nv", "tv", "rv")
    return True


def un_accepts(sh, v):
    if sh[0] == "unit": return v[0] == "none"
    if sh[0] == "newtype": return accepts(sh[1], v)
    if sh[0] == "tuple":
        return v[0] in ("tup", "ts", "seq") and len(v[-1]) == len(sh[1]) and all(accepts(x, y) for x, y in zip(sh[1], v[-1]))
    if v[0] not in ("st", "map"): return False
    kv = {a[1]: b for a, b in v[-1] if a[0] == "str"}
    for f, ft in sh[1]:
        if f.encode() in kv:
            if not accepts(ft, kv[f.encode()]): return False
        elif ft[0] != "opt": return False
    return True


# ------------------------------------------------------------------ the documented representation (independent encoder)

def head(maj, n, wide=None):
    return gen.head(maj, n, wide)


def pick_width(n, opts):
    """None = preferred; with opts['wide'] a random admissible wider width"""
    if not opts.get("wide"):
        return None
    rng = opts["rng"]
    ws = [w for w in gen.WIDTHS if gen.fits(w, n)]
    return rng.choice(ws)


def enc_int(n, opts):
    if n >= 0:
        return head(0, n, pick_width(n, opts))
    return head(1, -1 - n, pick_width(-1 - n, opts))


def enc_string(maj, b, opts, chunkable=True):
    """a text / byte string; with opts['chunk'] sometimes as an indefinite-length string"""
    if chunkable and opts.get("chunk") and opts["rng"].random() < opts["chunk"]:
        rng = opts["rng"]
        out = bytes([maj * 32 + 31])
        if maj == 3:
            chars = b.decode("utf-8")
            cut = rng.randint(0, len(chars))
            parts = [chars[:cut].encode(), chars[cut:].encode()]
        else:
            cut = rng.randint(0, len(b))
            parts = [b[:cut], b[cut:]]
        for q in parts:
            if q or rng.random() < 0.3:
                out += head(maj, len(q), pick_width(len(q), opts)) + q
        return out + b"\xff"
    return head(maj, len(b), pick_width(len(b), opts)) + b


def enc_text(b, opts):
    return enc_string(3, b, opts)


def _arr(items, opts, may_indef, was_indef):
    body = b"".join(items)
    indef = was_indef
    if may_indef and opts.get("flip") and opts["rng"].random() < opts["flip"]:
        indef = not indef
    if indef:
        return b"\x9f" + body + b"\xff"
    return head(4, len(items), pick_width(len(items), opts)) + body


def _map(pairs, opts, may_indef, was_indef):
    body = b"".join(k + v for k, v in pairs)
    indef = was_indef
    if may_indef and opts.get("flip") and opts["rng"].random() < opts["flip"]:
        indef = not indef
    if indef:
        return b"\xbf" + body + b"\xff"
    return head(5, len(pairs), pick_width(len(pairs), opts)) + body


def _struct_pairs(kvs, opts):
    """entries of a struct node, possibly with unknown extra fields and shuffled"""
    pairs = [(spec_enc(k, opts), spec_enc(v, opts)) for k, v in kvs]
    rng = opts.get("rng")
    if opts.get("extra") and rng.random() < opts["extra"]:
        for _ in range(rng.randint(1, 2)):
            name = ("zz%d" % rng.randint(0, 99)).encode()
            if opts.get("raw_extras") and rng.random() < 0.35:
                # an unknown field is SKIPPED, whatever well-formed item it holds: also items no Rust type of the bridge's data model reads
                val = bytes.fromhex(rng.choice(RAW_EXTRAS))
            else:
                val = spec_enc(gen_val(rng, rng.choice(EXTRA_TYPES), 2), dict(opts, extra=0, shuffle=0))
            pairs.insert(rng.randint(0, len(pairs)), (enc_text(name, opts), val))
    if opts.get("shuffle") and rng.random() < opts["shuffle"]:
        rng.shuffle(pairs)
    return pairs


def spec_enc(v, opts=None):
    """The representation the property documents: structs are maps keyed by field name, unit
    variants the variant name as text, other variants a one-entry map name -> content, None
    null, unit the empty array; preferred heads, definite lengths unless the value says
    `unknown length`.  `opts` re-frame: wide heads, definite<->indefinite flips of sequences /
    maps / struct maps, unknown extra struct fields, shuffled struct fields."""
    o = opts or {}
    k = v[0]
    if k == "bool": return b"\xf5" if v[1] else b"\xf4"
    if k == "int": return enc_int(v[2], o)
    if k == "f32":
        if o.get("fnarrow") and o["rng"].random() < o["fnarrow"]:
            h = narrow(v[1], 32)
            if h is not None: return b"\xf9" + h
        return b"\xfa" + v[1].to_bytes(4, "big")
    if k == "f64":
        if o.get("fnarrow") and o["rng"].random() < o["fnarrow"]:
            h = narrow(v[1], 64)
            if h is not None: return (b"\xfa" if len(h) == 4 else b"\xf9") + h
        return b"\xfb" + v[1].to_bytes(8, "big")
    if k == "char": return enc_int(v[1], o)
    if k == "str": return enc_text(v[1], o)
    if k == "bytes": return enc_string(2, v[1], o)
    if k == "none": return b"\xf6"
    if k == "some": return spec_enc(v[1], o)
    if k in ("unit", "ustruct"): return _arr([], o, bool(o.get("fliptup")), False)
    if k == "uv": return enc_text(v[1].encode(), o)
    if k == "ns": return spec_enc(v[1], o)
    if k == "nv": return head(5, 1, pick_width(1, o)) + enc_text(v[1].encode(), o) + spec_enc(v[2], o)
    if k == "seq": return _arr([spec_enc(x, o) for x in v[2]], o, True, not v[1])
    if k in ("tup", "ts"): return _arr([spec_enc(x, o) for x in v[1]], o, bool(o.get("fliptup")), False)
    if k == "tv":
        return head(5, 1, pick_width(1, o)) + enc_text(v[1].encode(), o) + _arr([spec_enc(x, o) for x in v[2]], o, False, False)
    if k == "map": return _map([(spec_enc(a, o), spec_enc(b, o)) for a, b in v[2]], o, True, not v[1])
    if k == "st": return _map(_struct_pairs(v[1], o), o, True, False)
    if k == "rv":
        return head(5, 1, pick_width(1, o)) + enc_text(v[1].encode(), o) + _map(_struct_pairs(v[2], o), o, True, False)
    raise ValueError(k)


def narrow(bits, width):
    """a narrower IEEE encoding of exactly the same (non-NaN) value, if there is one"""
    import struct
    try:
        if width == 64:
            x = struct.unpack(">d", bits.to_bytes(8, "big"))[0]
            if x != x: return None
            for fmt in (">e", ">f"):
                try:
                    b = struct.pack(fmt, x)
                except (OverflowError, struct.error):
                    continue
                if struct.unpack(fmt, b)[0] == x and struct.pack(">d", struct.unpack(fmt, b)[0]) == bits.to_bytes(8, "big"):
                    return b
            return None
        x = struct.unpack(">f", bits.to_bytes(4, "big"))[0]
        if x != x: return None
        b = struct.pack(">e", x)
        if struct.pack(">f", struct.unpack(">e", b)[0]) == bits.to_bytes(4, "big"):
            return b
    except (OverflowError, struct.error):
        return None
    return None


RAW_EXTRAS = ["c11a65a4f2c0", "c074323031332d30332d32315432303a30343a30305a", "d9d9f700", "c2490100000000000000 00".replace(" ", ""), "f7", "e0", "f3", "f820", "f8ff",
              "3bffffffffffffffff", "3b8000000000000000", "f93c00", "f97e00", "fa7fc00000", "5f4101420203ff", "7f6161ff", "7fff", "9fc1009fff5f40ffff",
              "82c100f7", "a1f7c200", "bf61619ff7ffff", "d8184401020304", "c6c6c6c600", "9f9f9f9fffffffff", "a201c10002f7"]
EXTRA_TYPES = [parse_type(x) for x in
               ["u8", "i64", "str", "bytes", "bool", "f64", "opt(u8)", "seq(u16)", "useq(u8)", "map(u8,str)", "umap(str,seq(u8))",
                POINT, EXT, "tup(u8,seq(useq(i8)))", "unit", "seq(umap(u8,useq(bool)))"]]


# ------------------------------------------------------------------ reference well-formedness parser (RFC 8949)

def _utf8_ok(b):
    try:
        b.decode("utf-8")
        return True
    except UnicodeDecodeError:
        return False


def parse_item(b, i=0, depth=0):
    """returns the index after one well-formed item starting at i, or raises ValueError"""
    if i >= len(b): raise ValueError("eoi")
    ib = b[i]; maj, ai = ib >> 5, ib & 31
    i += 1

    def arg():
        nonlocal i
        if ai < 24: return ai
        if ai > 27: raise ValueError("reserved ai")
        n = 1 << (ai - 24)
        if i + n > len(b): raise ValueError("eoi")
        v = int.from_bytes(b[i:i + n], "big"); i += n
        return v
    if maj in (0, 1):
        arg(); return i
    if maj in (2, 3):
        if ai == 31:
            while True:
                if i >= len(b): raise ValueError("eoi")
                if b[i] == 0xff: return i + 1
                if b[i] >> 5 != maj or (b[i] & 31) == 31: raise ValueError("bad chunk")
                i = parse_item(b, i, depth + 1)
        n = arg()
        if i + n > len(b): raise ValueError("eoi")
        if maj == 3 and not _utf8_ok(b[i:i + n]): raise ValueError("utf8")
        return i + n
    if maj in (4, 5):
        if ai == 31:
            cnt = 0
            while True:
                if i >= len(b): raise ValueError("eoi")
                if b[i] == 0xff:
                    if maj == 5 and cnt % 2: raise ValueError("odd map")
                    return i + 1
                i = parse_item(b, i, depth + 1); cnt += 1
        n = arg() * (2 if maj == 5 else 1)
        for _ in range(n):
            i = parse_item(b, i, depth + 1)
        return i
    if maj == 6:
        arg(); return parse_item(b, i, depth + 1)
    if ai < 24: return i
    if ai == 24:
        if i >= len(b): raise ValueError("eoi")
        if b[i] < 32: raise ValueError("simple")
        return i + 1
    if ai in (25, 26, 27):
        arg(); return i
    raise ValueError("break or reserved")


def wellformed_one(b):
    try:
        return parse_item(b) == len(b)
    except ValueError:
        return False


# ------------------------------------------------------------------ known classes (K6 / K7 / Option in Option)

def known_classes(t, v, content_first=False):
    """walks type and value together; returns the set of exclusion / known-finding classes the
    value falls into:  'K6' char behind serde's Content buffer, 'K7' unit (empty array) behind
    it, 'OO' Some(None) of an Option directly inside an Option (the property's own exclusion)."""
    out = set()

    def variant_walk(sh, payload, behind, ref):
        if sh[0] == "newtype": walk(sh[1], payload, behind, ref)
        elif sh[0] == "tuple":
            for x, y in zip(sh[1], payload): walk(x, y, behind, ref)
        elif sh[0] == "struct":
            walk_fields(sh[1], payload, behind, ref)

    def walk_fields(fields, kvs, behind, ref):
        ft_of = {n.encode(): unskip(ft) for n, ft in fields}
        for fk, fv in kvs:
            if fk[0] == "str" and fk[1] in ft_of: walk(ft_of[fk[1]], fv, behind, ref)

    def walk(t, v, behind, ref):
        k = t[0]
        if k == "char" and behind: out.add("K6")
        if k == "unit" and behind: out.add("K7")
        if k == "ustruct" and behind and ref: out.add("K7")
        if k == "opt":
            if v[0] == "some":
                if t[1][0] == "opt" and v[1][0] == "none": out.add("OO")
                walk(t[1], v[1], behind, ref)
        elif k == "nt": walk(t[1], v[1], behind, ref)
        elif k == "seq":
            for x in v[2]: walk(t[2], x, behind, ref)
        elif k in ("tup", "ts"):
            for x, y in zip(t[1], v[1]): walk(x, y, behind, ref)
        elif k == "map":
            for a, b in v[2]:
                walk(t[2], a, behind, ref); walk(t[3], b, behind, ref)
        elif k == "st":
            walk_fields(t[1], v[1], behind, ref)
        elif k == "en":
            name = v[1]
            sh = dict(t[1])[name]
            if sh[0] != "unit":
                variant_walk(sh, v[2], behind, ref)
        elif k == "fl":
            kvs = v[2]
            npre, nin = len(t[1]), len(t[2])
            for (_, ft), (_, fv) in zip(t[1], kvs[:npre]): walk(ft, fv, behind, ref)
            for (_, ft), (_, fv) in zip(t[2], kvs[npre:npre + nin]): walk(ft, fv, True, False)
            for (_, ft), (_, fv) in zip(t[3], kvs[npre + nin:]): walk(ft, fv, behind, ref)
        elif k == "it":
            name = v[1][0][1][1].decode()
            sh = dict(t[2])[name]
            rest = v[1][1:]
            if sh[0] == "struct":
                for (_, ft), (_, fv) in zip(sh[1], rest): walk(ft, fv, True, False)
            elif sh[0] == "newtype":
                walk(sh[1], ("st", rest), True, False)
        elif k == "at":
            name = v[1][0][1][1]
            sh = dict(t[3])[name]
            if len(v[1]) > 1:
                c = v[1][1][1]
                pl = c if sh[0] == "newtype" else c[1]
                variant_walk(sh, pl, behind or content_first, ref)
        elif k == "un":
            # which variant produced the value is not recorded in the trace: any variant of that shape
            for _, sh in t[1]:
                if sh[0] == "unit" and v[0] == "unit": out.add("K7")
                elif sh[0] == "newtype" and shape_matches(sh[1], v): walk(sh[1], v, True, True)
                elif sh[0] == "tuple" and v[0] == "tup" and len(v[1]) == len(sh[1]):
                    if all(shape_matches(x, y) for x, y in zip(sh[1], v[1])):
                        for x, y in zip(sh[1], v[1]): walk(x, y, True, True)
                elif sh[0] == "struct" and v[0] == "st" and [a[1] for a, _ in v[1]] == [f.encode() for f, _ in sh[1]]:
                    if all(shape_matches(ft, fv) for (_, ft), (_, fv) in zip(sh[1], v[1])):
                        for (_, ft), (_, fv) in zip(sh[1], v[1]): walk(ft, fv, True, True)
    walk(t, v, False, False)
    return out


def shape_matches(t, v):
    """coarse: does value v have the trace shape of type t (enough to tell untagged variants apart)"""
    k = t[0]
    if k == "int": return v[0] == "int" and v[1] == t[1]
    if k in ("bool", "f32", "f64", "char", "str", "bytes", "unit", "ustruct"): return v[0] == k
    if k == "opt": return v[0] in ("none", "some")
    if k == "st": return v[0] == "st" and [a[1] for a, _ in v[1]] == [f.encode() for f, _ in t[1]]
    if k == "seq": return v[0] == "seq"
    if k in ("tup", "ts"): return v[0] == k
    if k == "map": return v[0] == "map"
    return True
