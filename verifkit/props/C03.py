import sys
sys.setrecursionlimit(20000)
"""C03 — Encoder output is well-formed, deterministic, shortest-form CBOR."""
import struct
from verifkit.runner import Stream
from verifkit import gen, wiregen as W

ID = "C03"
THM_MODULES = ["Minicbor.Thm.C03", "Minicbor.Thm.C03Builtin", "Minicbor.Thm.C03Ops"]
P = "Minicbor.C03."
REQUIRED = [P + n for n in """u8_pref u16_pref u32_pref u64_pref negArms_pref i8_pref i16_pref i32_pref i64_pref int_pref
typeLen_pref tag_pref array_pref map_pref bytes_pref str_pref char_pref bool_pref null_pref undefined_pref
f32_pref f64_pref f16_pref simple_pref_partial simple_counterexample simple_reserved_invalid
array_denote map_denote tag_denote deterministic
builtin_pref builtin_wellformed builtin_deterministic bare_tag_not_an_item value_prefTree
balanced_spec ops_denote ops_denote_rel ops_denote_counterexample ops_denote_wf ops_denote_single ops_value
ops_shortest ops_preferred ops_reference ops_complete ops_complete_preferred ops_append ops_unique""".split()]
PACKAGES = ["hcore"]
DEBUG_TWINS = True
RULE = ("enc <method> <arg>: every Encoder method; all u8/i8/u16/i16 values and all 256 simple values exhaustively, "
        "boundary-dense (2^k±3, width edges) and seeded random 32/64-bit arguments, strings around the length-width edges; "
        "each op is executed twice by the implementation (determinism). A case is non-trivial if the implementation produced bytes; "
        "distinct = distinct op lines.")
ASSUMPTIONS = ["model Enc.* = code is established only on the sampled arguments of 32/64-bit methods (exhaustive for 8/16-bit)"]


# ----------------------------------------------------------------------------- balanced call sequences
# A sequence of Encoder calls is written as a token list (`tokenc`): Encoder::tokens calls, for every token, the Encoder
# method it stands for.  `denote` is the orchestrator's own reading of a call sequence (independent of the Lean model's
# `balanced`): the list of complete items it writes, every head at the shortest width, or None if it is not balanced.

INTK = ("u8", "u16", "u32", "u64", "i8", "i16", "i32", "i64", "int")


class Unbalanced(Exception):
    pass


def f32_to_f16_bits(x):
    """half::f16::from_f32 on bit patterns: round to nearest even, overflow to infinity, NaN keeps sign + top payload bits, quiet bit set."""
    s, e, m = x >> 31, (x >> 23) & 0xff, x & 0x7fffff
    if e == 0xff and m:
        return (s << 15) | 0x7c00 | 0x200 | (m >> 13)
    try:
        return struct.unpack(">H", struct.pack(">e", struct.unpack(">f", x.to_bytes(4, "big"))[0]))[0]
    except OverflowError:
        return (s << 15) | 0x7c00


def denote(toks):
    pos = 0
    mw = W.min_width
    unhex = lambda a: b"" if a == "-" else bytes.fromhex(a)

    def item():
        nonlocal pos
        if pos >= len(toks):
            raise Unbalanced
        k, _, a = toks[pos].partition(":")
        pos += 1
        if k in INTK:
            v = int(a)
            return ("uint", mw(v), v) if v >= 0 else ("nint", mw(-1 - v), -1 - v)
        if k == "bool": return ("simple", 21 if a == "T" else 20)
        if k == "null": return ("simple", 22)
        if k == "undefined": return ("simple", 23)
        if k == "simple": return ("simple", int(a))
        if k == "f16": return ("f16", f32_to_f16_bits(int(a[1:], 16)))
        if k == "f32": return ("f32", int(a[1:], 16))
        if k == "f64": return ("f64", int(a[1:], 16))
        if k == "bytes":
            b = unhex(a[1:]); return ("bytes", mw(len(b)), b)
        if k == "string":
            b = unhex(a[1:]); return ("text", mw(len(b)), b)
        if k == "tag":
            n = int(a); return ("tag", mw(n), n, item())
        if k in ("array", "map"):
            n = int(a)
            cnt = n if k == "array" else 2 * n
            if cnt > len(toks) - pos:
                raise Unbalanced
            return (k, mw(n), [item() for _ in range(cnt)])
        if k in ("beginarray", "beginmap"):
            xs = []
            while True:
                if pos >= len(toks): raise Unbalanced
                if toks[pos] == "break":
                    pos += 1; break
                xs.append(item())
            if k == "beginmap" and len(xs) % 2: raise Unbalanced
            return ("arrayI" if k == "beginarray" else "mapI", xs)
        if k in ("beginbytes", "beginstring"):
            want = "bytes" if k == "beginbytes" else "string"
            cs = []
            while True:
                if pos >= len(toks): raise Unbalanced
                if toks[pos] == "break":
                    pos += 1; break
                kk, _, aa = toks[pos].partition(":")
                if kk != want: raise Unbalanced
                b = unhex(aa[1:]); cs.append((mw(len(b)), b)); pos += 1
            return ("bytesI" if k == "beginbytes" else "textI", cs)
        raise Unbalanced           # a stray `break`

    out = []
    try:
        while pos < len(toks):
            out.append(item())
    except Unbalanced:
        return None
    return out


def int_call(rng, v):
    """a random Encoder integer method whose argument type holds v."""
    ks = [k for k in INTK if W.INT_RANGE[k][0] <= v <= W.INT_RANGE[k][1]]
    return f"{rng.choice(ks)}:{v}"


def calls_of_tree(rng, t, k1=False):
    """the Encoder calls that write tree t (concrete token syntax; integer methods chosen at random among those that fit)."""
    k = t[0]
    hx = gen.hexb
    sub = lambda xs: [c for x in xs for c in calls_of_tree(rng, x, k1)]
    if k == "uint": return [int_call(rng, t[2])]
    if k == "nint": return [int_call(rng, -1 - t[2])]
    if k == "bytes": return ["bytes:h" + hx(t[2])]
    if k == "text": return ["string:s" + hx(t[2])]
    if k == "bytesI": return ["beginbytes"] + ["bytes:h" + hx(b) for _, b in t[1]] + ["break"]
    if k == "textI": return ["beginstring"] + ["string:s" + hx(b) for _, b in t[1]] + ["break"]
    if k == "array": return ["array:%d" % len(t[2])] + sub(t[2])
    if k == "arrayI": return ["beginarray"] + sub(t[1]) + ["break"]
    if k == "map": return ["map:%d" % (len(t[2]) // 2)] + sub(t[2])
    if k == "mapI": return ["beginmap"] + sub(t[1]) + ["break"]
    if k == "tag": return ["tag:%d" % t[2]] + calls_of_tree(rng, t[3], k1)
    if k == "simple":
        if 20 <= t[1] <= 23 and not k1:
            return [{20: "bool:F", 21: "bool:T", 22: "null", 23: "undefined"}[t[1]]]
        return ["simple:%d" % t[1]]
    if k == "f16":
        x = W.f16_to_f32_bits(t[1])
        if rng.random() < 0.3 and (t[1] >> 10) & 31 not in (0, 31):
            x |= rng.getrandbits(3)          # a non-half-representable f32 a little above: rounds back to the same half
        return ["f16:x%08x" % x]
    if k == "f32": return ["f32:x%08x" % t[1]]
    if k == "f64": return ["f64:x%016x" % t[1]]
    raise ValueError(k)


def pref_tree(t):
    """shortest heads, indefiniteness and chunking kept (what the encoder is claimed to write)."""
    k = t[0]
    mw = W.min_width
    if k in ("uint", "nint"): return (k, mw(t[2]), t[2])
    if k in ("bytes", "text"): return (k, mw(len(t[2])), t[2])
    if k in ("bytesI", "textI"): return (k, [(mw(len(b)), b) for _, b in t[1]])
    if k == "array": return (k, mw(len(t[2])), [pref_tree(x) for x in t[2]])
    if k == "map": return (k, mw(len(t[2]) // 2), [pref_tree(x) for x in t[2]])
    if k in ("arrayI", "mapI"): return (k, [pref_tree(x) for x in t[1]])
    if k == "tag": return (k, mw(t[2]), t[2], pref_tree(t[3]))
    return t


def is_k1(toks):
    return any(t.startswith("simple:") and 20 <= int(t[7:]) <= 31 for t in toks)


def judge_balanced(op, impl, model, spec):
    toks = op.split(" ")[1].split(",")
    den = denote(toks)
    if den is None:
        # not balanced: nothing is claimed about the bytes; the model must still agree with the code and with this reading
        return "ok" if impl == model and spec == "unbalanced" else "corr"
    exp = gen.hexb(b"".join(W.enc(t) for t in den))
    ihex = impl.split(" ")[0]
    if is_k1(toks):
        # simple(20..=23) writes f8 xx instead of the one-byte form; simple(24..=31) denotes no well-formed item at all
        bad = ihex != exp or spec.endswith("valid=F")
        return ("known", "K1") if bad and impl == model else "violation" if bad else "corr"
    if ihex != exp:
        # (i) the bytes are not exactly the expected sequence of well-formed items in preferred serialisation
        return "violation"
    from verifkit import typegen
    b = b"" if ihex == "-" else bytes.fromhex(ihex)
    pos, n = 0, 0
    while pos < len(b):
        it = typegen.walk(b, pos)
        if it is None:
            return "violation"
        pos, n = it.end, n + 1
    if n != len(den):
        return "violation"
    if spec != f"{exp} items={len(den)} valid=T":
        return "corr"                       # the Lean denotation (`balanced`) differs from the orchestrator's reading
    return "ok" if impl == model else "corr"   # (ii) the model's line


def balanced_ops(rng, tier):
    q = tier == "quick"
    lists = []
    def quiet(t):
        # a signalling half NaN in a generated tree reaches the encoder quieted (the F16 call carries the widened f32)
        k = t[0]
        if k == "f16" and (t[1] >> 10) & 31 == 31 and t[1] & 0x3ff: return (k, t[1] | 0x200)
        if k in ("array", "map"): return (k, t[1], [quiet(x) for x in t[2]])
        if k in ("arrayI", "mapI"): return (k, [quiet(x) for x in t[1]])
        if k == "tag": return (k, t[1], t[2], quiet(t[3]))
        return t
    def add_tree_seq(trees, k1=False):
        toks = [c for t in trees for c in calls_of_tree(rng, t, k1)]
        # generator sanity: the orchestrator's reading of the calls is the preferred form of the trees they were made from
        den = denote(toks)
        if den is None or [W.enc(a) for a in den] != [W.enc(quiet(pref_tree(t))) for t in trees]:
            raise RuntimeError("balanced-call generator inconsistent: " + ",".join(toks))
        lists.append(toks)
    # boundary shapes: counts and lengths at the head-width edges, every container kind, empty containers
    small = [("uint", 0, 1), ("nint", 0, 0), ("text", 0, b"a"), ("simple", 21), ("f16", 0x3c00), ("bytesI", [(0, b"\x01")])]
    for n in (0, 1, 2, 23, 24, 25, 255, 256, 257):
        add_tree_seq([("array", W.min_width(n), [rng.choice(small) for _ in range(n)])])
        add_tree_seq([("map", W.min_width(n), [rng.choice(small) for _ in range(2 * n)])])
        add_tree_seq([("arrayI", [rng.choice(small) for _ in range(n)])])
        add_tree_seq([("mapI", [rng.choice(small) for _ in range(2 * n)])])
    for n in (0, 1, 23, 24, 255, 256, 65535, 65536):
        b = gen.rand_bytes(rng, n); s = bytes(0x61 + i % 26 for i in range(n))
        add_tree_seq([("bytes", W.min_width(n), b)]); add_tree_seq([("text", W.min_width(n), s)])
        add_tree_seq([("bytesI", [(0, b"\x00"), (W.min_width(n), b), (0, b"")])])
        add_tree_seq([("textI", [(W.min_width(n), s), (0, b"z")])])
        add_tree_seq([("array", 0, [("bytes", W.min_width(n), b), ("tag", 0, 2, ("text", W.min_width(n), s))])])
    for g in gen.boundaries(64):
        add_tree_seq([("tag", W.min_width(g), g, rng.choice(small))])
        add_tree_seq([("array", 0, [("uint", W.min_width(g), g), ("nint", W.min_width(g), g)])])
    for t in W.small_trees(rng, 100 if q else 1000):
        add_tree_seq([t])
    # many indefinite items open at once on ONE encoder (whatever the encoder might count per begin_* must not run out)
    for d in (100, 254, 255, 256, 257, 300):
        t = ("uint", 0, 7)
        for i in range(d):
            t = ("arrayI", [t])
        add_tree_seq([t])
        t = ("bytesI", [(0, b"\x01")])
        for i in range(d):
            t = ("arrayI", [("uint", 0, 1), t]) if i % 3 == 0 else ("mapI", [("uint", 0, i % 24), t]) if i % 3 == 1 else ("tag", 0, 2, ("arrayI", [t]))
        add_tree_seq([t])
    # random trees: depth <= 6, both definite and indefinite containers, chunked strings; <= 40 calls per sequence
    want_n = 4000 if q else 80000
    made = 0
    while made < want_n:
        trees = [W.rand_tree(rng, rng.randint(0, 6), preferred=True) for _ in range(rng.choice([1, 1, 1, 2, 3]))]
        toks = [c for t in trees for c in calls_of_tree(rng, t)]
        if len(toks) > 40:
            continue
        add_tree_seq(trees); made += 1
    n_bal = len(lists)
    # known finding K1 inside call sequences: simple(20..=23) written with Encoder::simple instead of bool/null/undefined
    for n in range(20, 24):
        add_tree_seq([("simple", n)], k1=True)
        add_tree_seq([("array", 0, [("uint", 0, 1), ("simple", n)])], k1=True)
        add_tree_seq([("mapI", [("simple", n), ("arrayI", [("simple", n)])])], k1=True)
    for n in range(24, 32):
        lists.append([f"simple:{n}"]); lists.append(["array:2", "u8:1", f"simple:{n}"])
    # negative controls: mutations of balanced sequences; `denote` decides whether the result is still balanced
    muts = []
    for toks in rng.sample(lists[:n_bal], min(n_bal, 1500 if q else 20000)):
        toks = list(toks)
        if len(toks) > 60:
            continue
        r = rng.randrange(7)
        i = rng.randrange(len(toks))
        if r == 0: toks.pop()
        elif r == 1: toks.pop(i)
        elif r == 2: toks.insert(i, "break")
        elif r == 3: toks.insert(i, rng.choice(["u8:1", "null", "bytes:h01", "string:s61", "beginarray", "beginbytes", "tag:1", "array:1", "map:1"]))
        elif r == 4:
            js = [j for j, t in enumerate(toks) if t.startswith(("array:", "map:"))]
            if js:
                j = rng.choice(js); k, _, a = toks[j].partition(":"); toks[j] = f"{k}:{max(0, int(a) + rng.choice([-1, 1]))}"
        elif r == 5:
            js = [j for j, t in enumerate(toks) if t == "break"]
            if js: toks.pop(rng.choice(js))
        else:
            j = rng.randrange(len(toks)); toks[i], toks[j] = toks[j], toks[i]
        if toks:
            muts.append(toks)
    muts += [["array:2", "u8:1"], ["tag:1"], ["break"], ["beginbytes", "u8:1", "break"], ["beginstring", "bytes:h01", "break"],
             ["beginmap", "u8:1", "break"], ["beginarray", "u8:1"], ["map:1", "u8:1"], ["array:18446744073709551615", "u8:1"],
             ["map:18446744073709551615"], ["beginbytes", "beginbytes", "break", "break"], ["array:0", "break"]]
    return lists + muts


def balanced_stream(rng, tier):
    lists = balanced_ops(rng, tier)
    ops = ["tokenc " + ",".join(l) for l in lists]
    st = Stream("balanced-call-sequences", "hcore", ops, spec_ops=["balanced " + o[7:] for o in ops], judge=judge_balanced,
                rule=("tokenc <calls>: Encoder call sequences (Encoder::tokens = one Encoder method per token) made from random wire trees "
                      "(<= 40 calls, depth <= 6, definite and indefinite containers, chunked strings, integer methods of every fitting type, "
                      "counts/lengths at the width edges) plus mutated, mostly unbalanced sequences as negative controls. For a balanced "
                      "sequence (decided by the orchestrator's own reader) the implementation's bytes must be exactly the encodings of the "
                      "denoted items with shortest heads (re-encoded from the tree), must parse as exactly that many well-formed items, must "
                      "equal the model's bytes, and the model's denotation (`balanced`) must be those items; for an unbalanced sequence nothing "
                      "is claimed but model = code and `balanced` must say unbalanced.  simple(20..=31) inside a sequence reproduces K1."))
    st.shrinkable = False
    return st


def balanced_split_stream(rng, tier):
    lists = balanced_ops(rng, tier)
    ops = ["tokencs " + ",".join(l) for l in lists]
    st = Stream("balanced-call-sequences-split", "hcore", ops, model_ops=["tokenc " + o[8:] for o in ops], spec_ops=["balanced " + o[8:] for o in ops],
                judge=judge_balanced,
                rule="tokencs <calls>: the same call sequences issued as SEVERAL calls on one Encoder (fragments of 2, 1, 3, … calls through Encoder::tokens, "
                     "single calls through Encoder::encode): a balanced sequence denotes the same items however it is split over calls (same oracle as above)")
    st.shrinkable = False
    return st


def judge(op, impl, model, spec):
    w = op.split(" ")
    if impl == spec:
        return "ok" if impl == model or (w[1] == "simple" and 20 <= int(w[2]) <= 31) else "corr"
    # implementation differs from the RFC 8949 preferred serialisation
    if w[1] == "simple" and 20 <= int(w[2]) <= 31 and impl == model:
        return ("known", "K1")
    return "violation"


def streams(rng, tier):
    ops = []
    for x in range(256):
        ops.append(f"enc u8 {x}"); ops.append(f"enc simple {x}"); ops.append(f"enc i8 {x - 128}")
    for x in range(65536):
        ops.append(f"enc u16 {x}"); ops.append(f"enc i16 {x - 32768}")
    B = gen.boundaries(64)
    n_rand = 20000 if tier == "quick" else 400000
    for bits, u, i in ((32, "u32", "i32"), (64, "u64", "i64")):
        lo, hi = gen.signed_range(bits)
        for v in B:
            if v < (1 << bits):
                ops.append(f"enc {u} {v}")
            for s in (v, -v, -1 - v):
                if lo <= s <= hi:
                    ops.append(f"enc {i} {s}")
        for _ in range(n_rand):
            v = gen.rand_u(rng, bits)
            ops.append(f"enc {u} {v}")
            s = gen.rand_u(rng, bits - 1)
            ops.append(f"enc {i} {s if rng.random() < 0.5 else -1 - s}")
    for v in B:
        for m in ("tag", "array", "map"):
            ops.append(f"enc {m} {v}")
        ops.append(f"enc int {v}"); ops.append(f"enc int {-1 - v}")
    for _ in range(n_rand // 4):
        v = gen.rand_u(rng, 64)
        ops.append(f"enc {rng.choice(['tag', 'array', 'map'])} {v}")
        ops.append(f"enc int {v if rng.random() < 0.5 else -1 - v}")
    for c in [0, 0x17, 0x18, 0x7f, 0x80, 0xff, 0x100, 0x7ff, 0x800, 0xd7ff, 0xe000, 0xffff, 0x10000, 0x10ffff]:
        ops.append(f"enc char {c}")
    for _ in range(2000):
        c = rng.randint(0, 0x10ffff)
        if not (0xd800 <= c <= 0xdfff):
            ops.append(f"enc char {c}")
    ops += ["enc bool 0", "enc bool 1", "enc null", "enc undefined", "enc begin_array", "enc begin_bytes",
            "enc begin_map", "enc begin_str", "enc end"]
    fb32 = [0, 0x80000000, 1, 0x007fffff, 0x00800000, 0x3f800000, 0x7f7fffff, 0x7f800000, 0xff800000, 0x7fc00000, 0x7f800001, 0xffffffff,
            0x477fe000, 0x477ff000, 0x33000000, 0x33000001, 0x33800000, 0x38800000, 0x387fc000]
    for b in fb32:
        ops.append(f"enc f32 {b:08x}"); ops.append(f"enc f16 {b:08x}")
    for _ in range(5000):
        ops.append(f"enc f32 {rng.getrandbits(32):08x}")
        ops.append(f"enc f16 {rng.getrandbits(32):08x}")
        ops.append(f"enc f64 {rng.getrandbits(64):016x}")
    for b in (0, 1 << 63, 0x3ff0000000000000, 0x7ff0000000000000, 0x7ff8000000000000, 0xffffffffffffffff, 1):
        ops.append(f"enc f64 {b:016x}")
    for n in (0, 1, 23, 24, 25, 255, 256, 257, 65535, 65536, 65537):
        ops.append(f"enc bytes {gen.hexb(gen.rand_bytes(rng, n))}")
        ops.append(f"enc str {gen.hexb(bytes(rng.randint(0x20, 0x7e) for _ in range(n)))}")
    for s in gen.UTF8_SAMPLES:
        ops.append(f"enc str {gen.hexb(s.encode())}")
    for _ in range(2000):
        ops.append(f"enc bytes {gen.hexb(gen.rand_bytes(rng, rng.randint(0, 40)))}")
        ops.append(f"enc str {gen.hexb(gen.rand_text(rng).encode())}")
    spec = ["encspec " + o[4:] for o in ops]
    st = Stream("encoder-methods", "hcore", ops, spec_ops=spec, judge=judge, rule=RULE)
    st.shrinkable = False
    # ArrayIter / MapIter with exact, loose, over-estimating and open-ended size hints: oracle = one well-formed item holding exactly the items written
    it_ops = []
    for kind in ("array", "map"):
        for hint in ("exact", "loose", "even", "open"):
            for n in (0, 1, 2, 5, 23, 24, 25, 255, 256, 300):
                vals = [rng.choice([0, 1, 23, 24, 255, 256, 65535, 65536, 2**32 - 1, rng.getrandbits(32)]) for _ in range(n)]
                it_ops.append(f"enciter {kind} {hint} {','.join(map(str, vals)) if vals else '-'}")
            for _ in range(60):
                vals = [rng.getrandbits(rng.randint(1, 32)) for _ in range(rng.randint(0, 40))]
                it_ops.append(f"enciter {kind} {hint} {','.join(map(str, vals)) if vals else '-'}")
    def judge_iter(op, impl, model, spec):
        from verifkit import typegen
        w = op.split(" ")
        vals = [] if w[3] == "-" else [int(x) for x in w[3].split(",")]
        idx = list(range(len(vals)))
        if w[2] == "even":
            idx = [i for i in idx if vals[i] % 2 == 0]
        items = [gen.head(0, vals[i]) for i in idx] if w[1] == "array" else [gen.head(0, i) + gen.head(0, vals[i]) for i in idx]
        body = b"".join(items)
        maj = 4 if w[1] == "array" else 5
        ok = {(gen.head(maj, len(items)) + body).hex(), (bytes([maj * 32 + 31]) + body + b"\xff").hex()}
        if impl not in ok:
            return "violation"
        return "ok" if impl == model else "corr"
    sti = Stream("array-map-iter", "hcore", it_ops, judge=judge_iter,
                 rule="encode::ArrayIter / MapIter over iterators with exact / loose / over-estimating / open-ended size hints: one well-formed array or map holding exactly the items written")
    sti.shrinkable = False
    # built-in Encode impls: one well-formed item (bare Tag is the recorded exception K9)
    from verifkit import typegen
    tag_ops = [f"tenc Tag {n}" for n in (0, 1, 23, 24, 255, 256, 65536, 2**32, 2**64 - 1)]
    def judge_tag(op, impl, model, spec):
        hx = impl.split(" ")[0]
        try:
            b = bytes.fromhex(hx)
        except ValueError:
            return "violation"
        root = typegen.walk(b)
        wellformed = root is not None and root.end == len(b)
        if not wellformed and impl == model:
            return ("known", "K9")
        return "ok" if wellformed and impl == model else "violation"
    stt = Stream("bare-tag", "hcore", tag_ops, model_ops=[o.replace("tenc Tag", "tenc tag") for o in tag_ops], judge=judge_tag, rule="to_vec(Tag::new(n)): a tag head alone is not a data item (known finding K9)")
    stt.shrinkable = False
    # every built-in Encode impl on the C01 corpus: the bytes must be the model's, which C03.builtin_pref proves to be the
    # preferred serialisation of the value's data-model item (unordered collections are canonicalised on both sides)
    from verifkit.props import C01
    bops, bmops = C01.enc_ops(C01.corpus(rng, tier))
    stb = Stream("builtin-encode-impls", "hcore", bops, model_ops=bmops, judge=lambda op, impl, model, spec: "ok" if impl == model else "violation",
                 rule="tenc <type> <value> for every registered built-in type (C01 corpus): implementation bytes == model bytes (= encPref of the data-model value by builtin_pref)")
    stb.shrinkable = False
    # the same OBJECT encoded again after failed attempts: same bytes (values with interior mutability could keep a trace of an attempt)
    rops = ["tretry" + o[4:] for o in bops]
    def judge_retry(op, impl, model, spec):
        if not impl.startswith("same "):
            return "ok" if impl.startswith("err ") and model.startswith("err ") else "violation"
        return "ok" if impl[5:] == model.split(" ")[0] else "violation"
    str_ = Stream("same-object-again", "hcore", rops, model_ops=bmops, judge=judge_retry,
                  rule="tretry <type> <value>: to_vec of one object, then encode into slices ending after 0..23 and len-1 bytes (each refused), to_vec and "
                       "minicbor::len again after each: always the first bytes (= the model's), always the same length")
    str_.shrinkable = False
    # the IANA tag names: an independent table (RFC 8949 section 3.4, RFC 8746) against the numbers the library writes and recognises
    IANA = {"DateTime": 0, "Timestamp": 1, "PosBignum": 2, "NegBignum": 3, "Decimal": 4, "Bigfloat": 5, "ToBase64Url": 21, "ToBase64": 22, "ToBase16": 23,
            "Cbor": 24, "Uri": 32, "Base64Url": 33, "Base64": 34, "Regex": 35, "Mime": 36, "MultiDimArrayR": 40, "HomogenousArray": 41, "TypedArrayU8": 64,
            "TypedArrayU16B": 65, "TypedArrayU32B": 66, "TypedArrayU64B": 67, "TypedArrayU8Clamped": 68, "TypedArrayU16L": 69, "TypedArrayU32L": 70,
            "TypedArrayU64L": 71, "TypedArrayI8": 72, "TypedArrayI16B": 73, "TypedArrayI32B": 74, "TypedArrayI64B": 75, "TypedArrayI16L": 77,
            "TypedArrayI32L": 78, "TypedArrayI64L": 79, "TypedArrayF16B": 80, "TypedArrayF32B": 81, "TypedArrayF64B": 82, "TypedArrayF128B": 83,
            "TypedArrayF16L": 84, "TypedArrayF32L": 85, "TypedArrayF64L": 86, "TypedArrayF128L": 87, "MultiDimArrayC": 1040}
    def judge_iana(op, impl, model, spec):
        rows = dict(x.split("=", 1) for x in impl.split(",") if "=" in x)
        if set(rows) != set(IANA):
            return "violation"
        for n, v in IANA.items():
            if rows[n] != f"{v}/{gen.head(6, v).hex()}/{n}":
                return "violation"
        return "ok"
    sia = Stream("iana-tags", "hcore", ["iana all"], model_ops=["nop"], judge=judge_iana, nontrivial=lambda op, impl: "=" in impl,
                 rule="iana all: every IanaTag variant: the number it stands for (independent table: RFC 8949 3.4, RFC 8746; 76 is reserved), the shortest head "
                      "Encoder::tag writes for it, and the variant TryFrom<Tag> gives back for that number")
    sia.shrinkable = False
    # determinism: the same ops a second time must give the same bytes
    from verifkit.props import C13
    return [st, sti, stt, stb, str_, sia, balanced_stream(rng, tier), balanced_split_stream(rng, tier), C13.tovec_stream(rng, tier), Stream("encoder-methods-again", "hcore", ops[::7], rule="every 7th op of the first stream, run again in a fresh process")]


def replay_streams(rp):
    if rp["original_op"].startswith("iana"):
        return [s for s in streams(__import__("random").Random(1), "quick") if s.name == "iana-tags"]
    if rp["original_op"].startswith("tretry"):
        return [Stream("replay", "hcore", [rp["original_op"]], model_ops=[rp.get("model_op") or "nop"],
                       judge=lambda op, impl, model, spec: "ok" if impl.startswith("same ") and impl[5:] == model.split(" ")[0] else "violation")]
    op = rp.get("original_op") or rp["op"]
    if op.startswith("tokenc "):
        return [Stream("replay", "hcore", [op], spec_ops=["balanced " + op[7:]], judge=judge_balanced)]
    if op.startswith("sinkval "):
        from verifkit.props import C13
        return C13.replay_streams(rp)
    if op.startswith("tokencs "):
        return [Stream("replay", "hcore", [op], model_ops=["tokenc " + op[8:]], spec_ops=["balanced " + op[8:]], judge=judge_balanced)]
    return [Stream("replay", rp.get("binary", "hcore"), [op], spec_ops=["encspec " + op[4:]], judge=judge)]
