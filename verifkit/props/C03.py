"""C03 — Encoder output is well-formed, deterministic, shortest-form CBOR."""
from verifkit.runner import Stream
from verifkit import gen

ID = "C03"
THM_MODULES = ["Minicbor.Thm.C03", "Minicbor.Thm.C03Builtin"]
P = "Minicbor.C03."
REQUIRED = [P + n for n in """u8_pref u16_pref u32_pref u64_pref negArms_pref i8_pref i16_pref i32_pref i64_pref int_pref
typeLen_pref tag_pref array_pref map_pref bytes_pref str_pref char_pref bool_pref null_pref undefined_pref
f32_pref f64_pref f16_pref simple_pref_partial simple_counterexample simple_reserved_invalid
array_denote map_denote tag_denote deterministic
builtin_pref builtin_wellformed builtin_deterministic bare_tag_not_an_item value_prefTree""".split()]
PACKAGES = ["hcore"]
RULE = ("enc <method> <arg>: every Encoder method; all u8/i8/u16/i16 values and all 256 simple values exhaustively, "
        "boundary-dense (2^k±3, width edges) and seeded random 32/64-bit arguments, strings around the length-width edges; "
        "each op is executed twice by the implementation (determinism). A case is non-trivial if the implementation produced bytes; "
        "distinct = distinct op lines.")
ASSUMPTIONS = ["model Enc.* = code is established only on the sampled arguments of 32/64-bit methods (exhaustive for 8/16-bit)"]


def judge(op, impl, model, spec):
    w = op.split(" ")
    if impl == spec:
        return "ok" if impl == model or (w[1] == "simple" and 20 <= int(w[2]) <= 31) else "corr"
    # implementation differs from the RFC 8949 preferred serialisation
    if w[1] == "simple" and 20 <= int(w[2]) <= 31 and impl == model:
        return ("known", "K1")
    return "violation"


def streams(rng, tier):
    ops = []
    for x in range(256):
        ops.append(f"enc u8 {x}"); ops.append(f"enc simple {x}"); ops.append(f"enc i8 {x - 128}")
    for x in range(65536):
        ops.append(f"enc u16 {x}"); ops.append(f"enc i16 {x - 32768}")
    B = gen.boundaries(64)
    n_rand = 20000 if tier == "quick" else 400000
    for bits, u, i in ((32, "u32", "i32"), (64, "u64", "i64")):
        lo, hi = gen.signed_range(bits)
        for v in B:
            if v < (1 << bits):
                ops.append(f"enc {u} {v}")
            for s in (v, -v, -1 - v):
                if lo <= s <= hi:
                    ops.append(f"enc {i} {s}")
        for _ in range(n_rand):
            v = gen.rand_u(rng, bits)
            ops.append(f"enc {u} {v}")
            s = gen.rand_u(rng, bits - 1)
            ops.append(f"enc {i} {s if rng.random() < 0.5 else -1 - s}")
    for v in B:
        for m in ("tag", "array", "map"):
            ops.append(f"enc {m} {v}")
        ops.append(f"enc int {v}"); ops.append(f"enc int {-1 - v}")
    for _ in range(n_rand // 4):
        v = gen.rand_u(rng, 64)
        ops.append(f"enc {rng.choice(['tag', 'array', 'map'])} {v}")
        ops.append(f"enc int {v if rng.random() < 0.5 else -1 - v}")
    for c in [0, 0x17, 0x18, 0x7f, 0x80, 0xff, 0x100, 0x7ff, 0x800, 0xd7ff, 0xe000, 0xffff, 0x10000, 0x10ffff]:
        ops.append(f"enc char {c}")
    for _ in range(2000):
        c = rng.randint(0, 0x10ffff)
        if not (0xd800 <= c <= 0xdfff):
            ops.append(f"enc char {c}")
    ops += ["enc bool 0", "enc bool 1", "enc null", "enc undefined", "enc begin_array", "enc begin_bytes",
            "enc begin_map", "enc begin_str", "enc end"]
    fb32 = [0, 0x80000000, 1, 0x007fffff, 0x00800000, 0x3f800000, 0x7f7fffff, 0x7f800000, 0xff800000, 0x7fc00000, 0x7f800001, 0xffffffff,
            0x477fe000, 0x477ff000, 0x33000000, 0x33000001, 0x33800000, 0x38800000, 0x387fc000]
    for b in fb32:
        ops.append(f"enc f32 {b:08x}"); ops.append(f"enc f16 {b:08x}")
    for _ in range(5000):
        ops.append(f"enc f32 {rng.getrandbits(32):08x}")
        ops.append(f"enc f16 {rng.getrandbits(32):08x}")
        ops.append(f"enc f64 {rng.getrandbits(64):016x}")
    for b in (0, 1 << 63, 0x3ff0000000000000, 0x7ff0000000000000, 0x7ff8000000000000, 0xffffffffffffffff, 1):
        ops.append(f"enc f64 {b:016x}")
    for n in (0, 1, 23, 24, 25, 255, 256, 257, 65535, 65536, 65537):
        ops.append(f"enc bytes {gen.hexb(gen.rand_bytes(rng, n))}")
        ops.append(f"enc str {gen.hexb(bytes(rng.randint(0x20, 0x7e) for _ in range(n)))}")
    for s in gen.UTF8_SAMPLES:
        ops.append(f"enc str {gen.hexb(s.encode())}")
    for _ in range(2000):
        ops.append(f"enc bytes {gen.hexb(gen.rand_bytes(rng, rng.randint(0, 40)))}")
        ops.append(f"enc str {gen.hexb(gen.rand_text(rng).encode())}")
    spec = ["encspec " + o[4:] for o in ops]
    st = Stream("encoder-methods", "hcore", ops, spec_ops=spec, judge=judge, rule=RULE)
    st.shrinkable = False
    # ArrayIter / MapIter with exact, loose, over-estimating and open-ended size hints: oracle = one well-formed item holding exactly the items written
    it_ops = []
    for kind in ("array", "map"):
        for hint in ("exact", "loose", "even", "open"):
            for n in (0, 1, 2, 5, 23, 24, 25, 255, 256, 300):
                vals = [rng.choice([0, 1, 23, 24, 255, 256, 65535, 65536, 2**32 - 1, rng.getrandbits(32)]) for _ in range(n)]
                it_ops.append(f"enciter {kind} {hint} {','.join(map(str, vals)) if vals else '-'}")
            for _ in range(60):
                vals = [rng.getrandbits(rng.randint(1, 32)) for _ in range(rng.randint(0, 40))]
                it_ops.append(f"enciter {kind} {hint} {','.join(map(str, vals)) if vals else '-'}")
    def judge_iter(op, impl, model, spec):
        from verifkit import typegen
        w = op.split(" ")
        vals = [] if w[3] == "-" else [int(x) for x in w[3].split(",")]
        idx = list(range(len(vals)))
        if w[2] == "even":
            idx = [i for i in idx if vals[i] % 2 == 0]
        items = [gen.head(0, vals[i]) for i in idx] if w[1] == "array" else [gen.head(0, i) + gen.head(0, vals[i]) for i in idx]
        body = b"".join(items)
        maj = 4 if w[1] == "array" else 5
        ok = {(gen.head(maj, len(items)) + body).hex(), (bytes([maj * 32 + 31]) + body + b"\xff").hex()}
        if impl not in ok:
            return "violation"
        return "ok" if impl == model else "corr"
    sti = Stream("array-map-iter", "hcore", it_ops, judge=judge_iter,
                 rule="encode::ArrayIter / MapIter over iterators with exact / loose / over-estimating / open-ended size hints: one well-formed array or map holding exactly the items written")
    sti.shrinkable = False
    # built-in Encode impls: one well-formed item (bare Tag is the recorded exception K9)
    from verifkit import typegen
    tag_ops = [f"tenc Tag {n}" for n in (0, 1, 23, 24, 255, 256, 65536, 2**32, 2**64 - 1)]
    def judge_tag(op, impl, model, spec):
        hx = impl.split(" ")[0]
        try:
            b = bytes.fromhex(hx)
        except ValueError:
            return "violation"
        root = typegen.walk(b)
        wellformed = root is not None and root.end == len(b)
        if not wellformed and impl == model:
            return ("known", "K9")
        return "ok" if wellformed and impl == model else "violation"
    stt = Stream("bare-tag", "hcore", tag_ops, model_ops=[o.replace("tenc Tag", "tenc tag") for o in tag_ops], judge=judge_tag, rule="to_vec(Tag::new(n)): a tag head alone is not a data item (known finding K9)")
    stt.shrinkable = False
    # determinism: the same ops a second time must give the same bytes
    return [st, sti, stt, Stream("encoder-methods-again", "hcore", ops[::7], rule="every 7th op of the first stream, run again in a fresh process")]


def replay_streams(rp):
    op = rp["op"]
    return [Stream("replay", rp.get("binary", "hcore"), [op], spec_ops=["encspec " + op[4:]], judge=judge)]
