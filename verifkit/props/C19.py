"""C19 — Diagnostic display is total, size-bounded and follows the documented notation."""
import itertools
from verifkit.runner import Stream
from verifkit import gen, wiregen as W, disp

ID = "C19"
THM_MODULES = ["Minicbor.Thm.C19"]
P = "Minicbor.C19."
REQUIRED = [P + n for n in """display_total display_ne_none display_bounded display_bounded_exists display_error_inline
    display_documented_seq display_documented display_examples""".split()]
PACKAGES = ["hcore"]
DEBUG_TWINS = True
K, K0 = 16, 256
TREES = {}
RULE = ("display <hex>: (a) all byte strings of length <= 2 (quick; <= 3 thorough), all 256 initial bytes x 5 argument widths x extreme declared lengths, "
        "truncated / mutated valid items: the implementation must terminate inside a length-limited sink with |output| <= 16*|input| + 256 and agree with the model; "
        "(b) well-formed wire trees (C04's generators): output must equal the documented notation rendered independently from the tree.  "
        "Non-trivial: non-empty output. Error-message texts are canonicalised to their class; float text is Rust's {:e} (re-implemented in the orchestrator).")
ASSUMPTIONS = ["Rust's `{:e}` float formatting is a parameter of the model (re-implemented in verifkit/disp.py and validated by this stream)",
               "text strings containing the literal ' !!! decoding error: ' are not generated"]


def prepare(seed, tier):
    """builds the repository's own `cbor-display` bin target (into a target dir of ours) and tells the harness where it is."""
    import os, subprocess
    from verifkit.runner import HARNESS, ENV, REPO_OVERRIDE, target_dir, Lock, log, cargo_lock
    repo = REPO_OVERRIDE or "/repo"
    tdir = target_dir(os.path.join(HARNESS, "target-cli"))
    with cargo_lock("cargo-cli.lock"):
        p = subprocess.run(["cargo", "build", "--release", "--offline", "--manifest-path", os.path.join(repo, "minicbor", "Cargo.toml"), "--bin", "cbor-display",
                            "--features", "std,half", "--target-dir", tdir], env=ENV, stdout=subprocess.PIPE, stderr=subprocess.STDOUT, text=True)
    if p.returncode != 0:
        log(p.stdout[-3000:])
        raise SystemExit("cbor-display does not build")
    ENV["VERIF_CLI_BIN"] = os.path.join(tdir, "release", "cbor-display")


def judge_cli(op, impl, model, spec):
    parts = impl.split(" | ")
    if len(parts) != 3 or not (parts[0] == parts[1] == parts[2]):
        return "violation"                  # the front end shows something else than minicbor::display of the bytes it was given
    ib, mp = disp.canon_impl(parts[2][:-2]), disp.model_pieces(model)
    if ib is None:
        return "violation"
    return "ok" if mp is not None and disp.match(mp, ib) else "corr"


def judge_total(op, impl, model, spec):
    w = op.split(" ")
    n = 0 if w[1] == "-" else len(w[1]) // 2
    if impl.startswith("overflow") or impl in ("panic", "fmt-error") or impl.startswith("crash"):
        return "violation"
    ib = disp.canon_impl(impl)
    if ib is None:
        return "violation"
    if len(ib) > K * n + K0:
        return "violation"
    mp = disp.model_pieces(model)
    return "ok" if mp is not None and disp.match(mp, ib) else "corr"


def judge_tree(op, impl, model, spec):
    w = op.split(" ")
    exp = TREES[w[2]]
    ib = disp.canon_impl(impl)
    if ib is None or not disp.match(disp.render_pieces(exp), ib):
        return "violation"
    mp = disp.model_pieces(model)
    return "ok" if mp is not None and disp.match(mp, ib) else "corr"


def at_model_op(op):
    w = op.split(" ")
    return "display " + (w[2][2 * int(w[1]):] or "-")


def judge_at(op, impl, model, spec):
    if " | " not in impl:
        return "violation"
    a, b = impl.split(" | ")
    if a != b:
        return "violation"
    ib, mp = disp.canon_impl(a), disp.model_pieces(model)
    if ib is None:
        return "violation"
    return "ok" if mp is not None and disp.match(mp, ib) else "corr"


# deep nests: (unit prefix, unit suffix, opening text, closing text); hex = prefix*d + 00 + suffix*d
DEEP_KINDS = {"arr": ("81", "", "[", "]"), "iarr": ("9f", "ff", "[_ ", "]"), "tag": ("c1", "", "1(", ")"), "map": ("a100", "", "{0: ", "}"),
              "imap": ("bf00", "ff", "{_ 0: ", "}"), "arr2": ("8201", "", "[1, ", "]"), "mix": ("81c19f", "ff", "[1([_ ", "])]")}
DEEP_MODEL_MAX = 4000        # the Lean display model is quadratic in the depth; beyond, the documented notation alone judges


def deep_expected(kind, d):
    pre, suf, o, c = DEEP_KINDS[kind]
    return (o * d + "0" + c * d).encode()


def judge_deep(op, impl, model, spec):
    w = op.split(" ")
    ann = [x for x in w if x.startswith("#D=")][0][3:].split(":")
    kind, d, cut = ann[0], int(ann[1]), ann[2] == "cut"
    n = len(w[1]) // 2
    if impl.startswith("overflow") or impl in ("panic", "fmt-error") or impl.startswith("crash"):
        return "violation"
    ib = disp.canon_impl(impl)
    if ib is None or len(ib) > K * n + K0:
        return "violation"
    if not cut and bytes.fromhex(impl) != deep_expected(kind, d):
        return "violation"
    if d > DEEP_MODEL_MAX:
        return "ok"
    mp = disp.model_pieces(model)
    return "ok" if mp is not None and disp.match(mp, ib) else "corr"


def deep_ops(tier):
    ops, mops = [], []
    for kind, (pre, suf, _, _) in DEEP_KINDS.items():
        for d in ((1000, 4000, 20000) if tier == "quick" else (1000, 4000, 20000, 100000, 400000)):
            for cut in (False, True):
                h = pre * d + ("" if cut else "00" + suf * d)
                ops.append(f"display {h} #D={kind}:{d}:{'cut' if cut else 'full'}")
                mops.append(f"display {h}" if d <= DEEP_MODEL_MAX else "display 00")
    return ops, mops


def streams(rng, tier):
    q = tier == "quick"
    ops = ["display -"]
    for L in (1, 2) if q else (1, 2, 3):
        if L == 3:
            # thorough: all 3-byte strings is 16.7M; take all (b0,b1) x 64 spread third bytes
            thirds = sorted(set(list(range(0, 256, 5)) + [0x17, 0x18, 0x1f, 0x5f, 0x7f, 0x9f, 0xbf, 0xf6, 0xff]))
            for a in range(256):
                for b in range(256):
                    for c in thirds:
                        ops.append("display %02x%02x%02x" % (a, b, c))
        else:
            for t in itertools.product(range(256), repeat=L):
                ops.append("display " + bytes(t).hex())
    big = [0, 1, 23, 24, 255, 256, 65535, 65536, 100000, 2**32 - 1, 2**32, 2**63, 2**64 - 1]
    for b0 in range(256):
        maj, ai = b0 >> 5, b0 & 31
        for width in gen.WIDTHS:
            for n in big:
                if gen.fits(width, n):
                    hd = gen.head(maj, n, width)
                    for tail in (b"", b"\x01", b"\x01\x02\x61\x61", b"\xff"):
                        ops.append("display " + (hd + tail).hex())
    trees = W.small_trees(rng, 200 if q else 2000) + [W.rand_tree(rng, rng.randint(1, 6)) for _ in range(1500 if q else 30000)]
    tops = []
    for t in trees:
        e = W.enc(t)
        if disp.MARK in e: continue
        key = f"#R={len(TREES)}"
        TREES[key] = t
        tops.append(f"display {e.hex()} {key}")
        # truncations and single-byte mutations of valid items (totality / bound / model agreement)
        if len(e) > 1:
            for c in sorted({1, len(e) // 2, len(e) - 1}):
                ops.append("display " + e[:c].hex())
            i = rng.randrange(len(e))
            m = bytearray(e); m[i] = rng.getrandbits(8)
            ops.append("display " + bytes(m).hex())
    # several containers open at once with extreme announced counts, then the input ends
    ext = [gen.head(m, n, 8) for m in (4, 5) for n in (2**64 - 1, 2**63, 2**63 - 1, 2**32)] + [gen.head(4, 3), gen.head(5, 2), b"\x9f", b"\xbf"]
    for a in ext:
        for b in ext:
            for tl in (b"", b"\x01", b"\x83\x01"):
                ops.append("display " + (a + b + tl).hex())
            ops.append("display " + (a + b + ext[0] + b"\x01").hex())
    s1 = Stream("arbitrary-bytes", "hcore", ops, judge=judge_total, rule=RULE, nontrivial=lambda op, impl: impl not in ("-", "bad-op"))
    s2 = Stream("wellformed-notation", "hcore", tops, judge=judge_tree, rule="display of encW(tree) == notation rendered from the tree")
    dops, dmops = deep_ops(tier)
    s3 = Stream("deep-nests", "hcore", dops, model_ops=dmops, judge=judge_deep,
                rule="display of arrays / maps / tags (definite, indefinite, mixed) nested 10^3 .. 2*10^4 (thorough: 4*10^5) deep, complete and cut "
                     "after the last head, run on a thread with a 192 KiB stack: output == the documented notation (complete items), within the "
                     "size bound, no crash (pending work must not live on the call stack); compared with the model up to depth 4000")
    s1.shrinkable = s2.shrinkable = s3.shrinkable = False
    # the second way to obtain a Tokenizer: Decoder::tokens() of a decoder that has already been advanced
    pops = []
    for t in trees[:1200 if q else 12000]:
        e = W.enc(t)
        if disp.MARK in e: continue
        pre = rng.choice([b"\x18\x2a", b"\x00", b"\x82\x01\x02", b"\xff\xff\x1c", b"\x9f", gen.rand_bytes(rng, rng.randint(1, 5))])
        pops.append(f"displayat {len(pre)} {(pre + e).hex()}")
        pops.append(f"displayat 0 {e.hex()}")
        if rng.random() < 0.05:
            pops.append(f"displayat {len(e) + rng.choice([0, 1, 2, 50])} {e.hex()}")      # at and beyond the end: nothing to show, no panic
    s4 = Stream("display-from-position", "hcore", pops, model_ops=[at_model_op(o) for o in pops], judge=judge_at,
                rule="displayat: Display of Decoder::tokens() taken at position p of a buffer == display(&buffer[p..]) == the model's display of "
                     "that suffix, for well-formed items behind arbitrary leading bytes",
                nontrivial=lambda op, impl: " | " in impl)
    s4.shrinkable = False
    # many items of one kind in ONE input (whatever the renderer counts per tag / container / string must not add up)
    mops = []
    for n in (100, 126, 127, 128, 129, 300, 1000):
        for mk, key in ((lambda i: ("tag", 0, 1, ("uint", 0, i % 24)), "tags"), (lambda i: ("arrayI", []), "iarr"), (lambda i: ("array", 0, []), "arr"),
                        (lambda i: ("mapI", []), "imap"), (lambda i: ("bytesI", []), "ibytes"), (lambda i: ("textI", [(0, b"a")]), "itext"),
                        (lambda i: ("tag", 0, 2, ("arrayI", [("tag", 0, 3, ("uint", 0, 0))])), "tag-nests")):
            t = ("array", W.min_width(n), [mk(i) for i in range(n)])
            key2 = f"#R={len(TREES)}"
            TREES[key2] = t
            mops.append(f"display {W.enc(t).hex()} {key2}")
    # long strings (whatever is buffered on the way out must come out in order), tags 2 / 3 around byte strings (a tag is a tag)
    for n in (1000, 1023, 1024, 1025, 2000, 5000):
        txt = bytes(0x61 + (i % 26) for i in range(n))
        for t in (("text", W.min_width(n), txt), ("map", 0, [("text", 0, b"k"), ("tag", W.min_width(32), 32, ("text", W.min_width(n), txt))]),
                  ("array", 0, [("uint", 0, 1), ("textI", [(W.min_width(n), txt), (0, b"z")]), ("bytes", W.min_width(n), txt)])):
            key2 = f"#R={len(TREES)}"; TREES[key2] = t
            mops.append(f"display {W.enc(t).hex()} {key2}")
    for n in list(range(0, 70)) + [95, 96, 97, 127, 128, 129, 255, 256, 257, 511, 512, 1024, 4096]:       # every length around any block size
        for t in (("bytes", W.min_width(n), bytes((i * 13 + 7) % 256 for i in range(n))), ("text", W.min_width(n), bytes(0x30 + (i % 10) for i in range(n)))):
            key2 = f"#R={len(TREES)}"; TREES[key2] = t
            mops.append(f"display {W.enc(t).hex()} {key2}")
    for tg in (2, 3):
        for bs in (b"", b"\x00", b"\x01" + b"\x00" * 8, b"\xff" * 16, b"\xff" * 17, b"\x01\x02"):
            t = ("tag", 0, tg, ("bytes", W.min_width(len(bs)), bs))
            key2 = f"#R={len(TREES)}"; TREES[key2] = t
            mops.append(f"display {W.enc(t).hex()} {key2}")
    # tags (one, two nested, a self-described-CBOR tag) directly in front of every kind of empty / one-chunk / indefinite item, alone and followed by a sibling
    inner = [("bytesI", []), ("textI", []), ("bytesI", [(0, b"")]), ("textI", [(0, b"")]), ("bytesI", [(0, b"\x01")]), ("arrayI", []), ("mapI", []), ("array", 0, []),
             ("map", 0, []), ("bytes", 0, b""), ("text", 0, b""), ("simple", 22), ("simple", 23), ("f16", 0x7e00), ("uint", 0, 0)]
    for it in inner:
        for wrap in (lambda x: ("tag", 0, 2, x), lambda x: ("tag", 0, 2, ("tag", 0, 3, x)), lambda x: ("tag", 2, 55799, x), lambda x: ("tag", 8, 2**64 - 1, x)):
            for t in (wrap(it), ("array", 0, [wrap(it), ("uint", 0, 5)]), ("arrayI", [wrap(it), wrap(it)]), ("map", 0, [wrap(it), wrap(it)]), ("mapI", [("uint", 0, 1), wrap(it), ("uint", 0, 2), ("uint", 0, 3)])):
                key2 = f"#R={len(TREES)}"; TREES[key2] = t
                mops.append(f"display {W.enc(t).hex()} {key2}")
    s5 = Stream("many-items", "hcore", mops, judge=judge_tree,
                rule="display of arrays of 100..1000 tags / empty containers / chunked strings / tag nests == the notation rendered from the tree")
    s5.shrinkable = False
    # the command line front end: whatever bytes it is given, on stdin or as a file, it shows minicbor::display of exactly those bytes
    cl = ["cli -", "cli 6161", "cli 3031", "cli 4130", "cli 0a", "cli 20", "cli 30313233", "cli 6130", "cli 626162", "cli 4430313233", "cli 303a", "cli 0d0a",
          "cli 66616263646566", "cli 39393939", "cli 2d", "cli 2d66", "cli 1a00000000", "cli ff", "cli 9f01ff", "cli d9d9f700"]
    for _ in range(60 if q else 1500):
        n = rng.randint(1, 12)
        cl.append("cli " + bytes(rng.choice(b"0123456789abcdefABCDEF \n\t") for _ in range(n)).hex())       # binary CBOR that happens to look like text / hex
    for t in trees[:120 if q else 3000]:
        e = W.enc(t)
        if len(e) <= 200: cl.append("cli " + e.hex())
    s6 = Stream("command-line-front-end", "hcore", cl, model_ops=["display " + o[4:] for o in cl], judge=judge_cli,
                rule="cli <bytes>: the repository's cbor-display binary given the bytes on stdin and as a file prints minicbor::display of exactly those bytes "
                     "(inputs that look like ASCII text / hex digits included), which is compared with the model's display",
                nontrivial=lambda op, impl: " | " in impl)
    s6.shrinkable = False
    # format specifications other than `{}`: the notation is one text, no flag of the caller's Formatter reaches the items inside it
    fo = []
    for t in trees[:400 if q else 8000]:
        e = W.enc(t)
        if len(e) <= 300: fo.append("displayf " + e.hex())
    fo += ["displayf 8301f5fb3ff4000000000000", "displayf a2f4f5203903e7", "displayf 9f01fa3fa00000f97e00ff", "displayf c11a514b67b0", "displayf 8201", "displayf -", "displayf fb3ff8000000000000"]
    def judge_f(op, impl, model, spec):
        if not impl.startswith("same "):
            return "violation"
        ib, mp = disp.canon_impl(impl[5:]), disp.model_pieces(model)
        if ib is None:
            return "violation"
        return "ok" if mp is not None and disp.match(mp, ib) else "corr"
    s7 = Stream("format-specifications", "hcore", fo, model_ops=["display " + o[9:] for o in fo], judge=judge_f, nontrivial=lambda op, impl: impl.startswith("same"),
                rule="displayf: minicbor::display and Decoder::tokens() written with width / alignment / fill / precision / sign / zero-padding / alternate "
                     "specifications: the same text as with `{}` (and within the size bound), which is compared with the model's")
    s7.shrinkable = False
    return [s1, s2, s3, s4, s5, s6, s7]


def replay_streams(rp):
    full = rp["original_op"]
    if "#D=" in full:
        d = int(full.split("#D=")[1].split(":")[1])
        return [Stream("replay", "hcore", [full], model_ops=[" ".join(full.split(" ")[:2]) if d <= DEEP_MODEL_MAX else "display 00"], judge=judge_deep)]
    if full.startswith("displayf"):
        def jf(o, impl, model, spec):
            return "ok" if impl.startswith("same ") else "violation"
        return [Stream("replay", "hcore", [full], model_ops=["display " + full[9:]], judge=jf)]
    if full.startswith("cli"):
        return [Stream("replay", "hcore", [full], model_ops=["display " + full[4:]], judge=judge_cli)]
    if full.startswith("displayat"):
        return [Stream("replay", "hcore", [full], model_ops=[at_model_op(full)], judge=judge_at)]
    op = " ".join(full.split(" ")[:2])
    return [Stream("replay", "hcore", [op], judge=judge_total)]
