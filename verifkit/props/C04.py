"""C04 — Typed decoding agrees with the RFC 8949 data model on every well-formed encoding."""
from verifkit.runner import Stream
from verifkit import gen, wiregen as W

ID = "C04"
THM_MODULES = ["Minicbor.Thm.C04", "Minicbor.Thm.C04Acc", "Minicbor.Thm.C04Typed", "Minicbor.Thm.C04Sound", "Minicbor.Thm.C05", "Minicbor.Thm.Iter"]
P = "Minicbor.C04."
REQUIRED = [P + n for n in """bytes_sound str_sound str_invalid_utf8 array_sound map_sound tag_sound array_indef map_indef
bool_sound null_sound undefined_sound simple_sound chunkLoop_bytes chunkLoop_text bytes_iter_indef str_iter_indef
size_head_sound size_tail_sound
accessor_sound accessor_rejects accessor_ok_iff accessor_mismatch_err accessor_no_value view_value consumed_after
prefix_eoi prefix_eoi' prefix_eoi_item prefix_eoi_any
typed_stable typed_prefix_eoi typed_prefix_eoi' typed_prefix_eoi_any
typed_sound typed_rejects typed_ok_iff typed_mismatch_err typed_prefix_eoi_reframed
typed_bare_tag typed_sound_partial typed_sound_statement_needs_exclusion interp_of_encode""".split()] + \
           ["Minicbor.C05.int_accessor_exact"] + \
           ["Minicbor.IterThm." + n for n in "drain_definite drain_indefinite arrayIter_is_next_loop mapIter_is_next_loop definite_fused indefinite_not_fused all_is_drain allx_definite_length iterNext_suffix iterNext_suffix_builtin".split()]
PACKAGES = ["hcore"]
DEBUG_TWINS = True
RULE = ("dec <accessor> <encW(tree) ++ suffix>: wire trees = all scalar shapes at every head width and boundary argument, containers of 0..3 "
        "children over {definite at every width, indefinite} x {array, map}, tags, chunked strings, plus seeded random trees to depth 6; "
        "each decoded through every accessor (matching and non-matching).  Oracle (orchestrator, from the tree): matching accessor -> exact "
        "data-model value and position; non-matching -> an error; every strict prefix through a matching accessor -> err eoi.  "
        "Non-trivial: the implementation returned ok or a non-eoi error.")
ASSUMPTIONS = ["bare minicbor::data::Tag (a head reader, K9) is excluded from typed_sound by NoBareTag",
               "FitsSlice: the encoding is shorter than 2^64 bytes (true of every Rust slice)"]


def ann(exp):
    return "#E=" + "~".join(str(x) for x in exp)


def is_nan_hex(s):
    n = int(s, 16)
    if len(s) == 8: return (n >> 23) & 0xff == 0xff and n & 0x7fffff != 0
    return (n >> 52) & 0x7ff == 0x7ff and n & ((1 << 52) - 1) != 0


def judge(op, impl, model, spec):
    w = op.split(" ")
    acc = w[1]
    exp = w[3][3:].split("~")
    iw = impl.split(" ")
    if exp[0] == "ok":
        good = impl == f"ok {exp[1]} {exp[2]}"
        if not good and acc in ("f16", "f32", "f64") and iw[0] == "ok" and is_nan_hex(exp[1]):
            good = is_nan_hex(iw[1]) and iw[2] == exp[2]
    elif exp[0] == "eoi":
        good = iw[0] == "err" and iw[1] == "eoi"
    else:
        good = iw[0] == "err"
    if not good:
        return "violation"
    if impl != model:
        if acc in ("f16", "f32", "f64") and iw[0] == "ok" and is_nan_hex(iw[1]):
            mw = model.split(" ")
            if mw[0] == "ok" and is_nan_hex(mw[1]) and mw[2] == iw[2]:
                return "ok"
        return "corr"
    return "ok"


def streams(rng, tier):
    q = tier == "quick"
    trees = W.small_trees(rng, 300 if q else 3000)
    for _ in range(1500 if q else 30000):
        trees.append(W.rand_tree(rng, rng.randint(1, 6)))
    ops, pre = [], []
    for i, t in enumerate(trees):
        e = W.enc(t)
        suffix = b"" if i % 3 == 0 else gen.rand_bytes(rng, rng.randint(1, 3))
        accs = W.ACCESSORS if (i < 700 or not q) else rng.sample(W.ACCESSORS, 6)
        for acc in accs:
            exp = W.expect(acc, t)
            # a mismatching accessor on a negative-int head with nothing behind it peeks past the end: still an error
            ops.append(f"dec {acc} {(e + suffix).hex()} {ann(exp)}")
        # strict prefixes through the matching whole-item accessors
        m = [a for a in W.ACCESSORS if W.matches(a, t) and a not in ("array", "map", "tag")]
        cuts = range(len(e)) if len(e) <= 12 else sorted(set(rng.sample(range(len(e)), 10)) | {0, len(e) - 1})
        for a in m:
            for c in cuts:
                pre.append(f"dec {a} {gen.hexb(e[:c])} {ann(('eoi',))}")
        for a in ("array", "map", "tag"):
            if W.matches(a, t):
                hl = W.expect(a, t)[2]
                for c in range(hl):
                    pre.append(f"dec {a} {gen.hexb(e[:c])} {ann(('eoi',))}")
    s1 = Stream("accessors-on-trees", "hcore", ops, judge=judge, rule=RULE)
    s2 = Stream("strict-prefixes", "hcore", pre, judge=judge, rule="every strict prefix of encW(tree) through every matching accessor must be err eoi")
    s1.shrinkable = s2.shrinkable = False
    # size introspection on the heads of the trees: oracle from the tree
    sz = []
    def size_exp(t):
        k = t[0]
        e = W.enc(t)
        if k in ("bytes", "text"): hl = len(gen.head(2, len(t[2]), t[1])); return hl, f"ok bytes:{len(t[2])}"
        if k == "array": hl = len(gen.head(4, len(t[2]), t[1])); return hl, f"ok items:{len(t[2])}"
        if k == "map": hl = len(gen.head(5, len(t[2]) // 2, t[1])); return hl, f"ok items:{len(t[2]) // 2}"
        if k in ("bytesI", "textI", "arrayI", "mapI"): return 1, "ok indef"
        if k in ("uint", "nint"): return len(gen.head(0, t[2], t[1])), "ok head"
        if k == "tag": return len(gen.head(6, t[2], t[1])), "ok head"
        if k == "simple": return (1 if t[1] < 24 else 2), "ok head"
        return {"f16": 3, "f32": 5, "f64": 9}[k], "ok head"
    for t in trees[:3000]:
        e = W.enc(t)
        hl, tl = size_exp(t)
        sz.append(f"size head {e[:1].hex()} #E=ok~{hl}")
        sz.append(f"size tail {e[:hl].hex()} #E={tl.replace(' ', '~')}")
    def judge_size(op, impl, model, spec):
        exp = op.split(" ")[3][3:].replace("~", " ")
        if impl != exp: return "violation"
        return "ok" if impl == model else "corr"
    s3 = Stream("size-introspection", "hcore", sz, judge=judge_size, rule="Size::head on the first byte and Size::tail on the head of every tree")
    s3.shrinkable = False
    # typed decoding through the ~190 registered Rust types: strict prefixes of valid encodings must be `err eoi`;
    # re-framings (wider heads, indefinite containers / chunked strings) must give the value the model assigns and stop
    # exactly at the end (a disagreement with the model on a successful decode is a failing input)
    from verifkit.props import C01
    typed = C01.typed_mutation_streams(rng, tier)
    return [s1, s2, s3, iter_stream(rng, tier), reuse_stream(rng, tier)] + typed


def judge_iter(op, impl, model, spec):
    """`aiter`: the typed array / map iterators behind an Iterator adaptor (nth, skip, step_by, take, last, count) against the
    same script written with plain `next()` calls on a second decoder over the same bytes: items, errors and the final
    position must be identical (that is what the adaptors are defined to mean); for a well-formed array of u8 read with
    `all` the items are also the data model's."""
    if " | " not in impl:
        return "violation"
    a, b = impl.split(" | ")
    if a != b:
        return "violation"
    e = [x for x in op.split(" ") if x.startswith("#E=")]
    if e and a != e[0][3:].replace("~", " "):
        return "violation"
    return "ok" if model == a else "corr"


def iter_stream(rng, tier):
    ops = []
    def arr(vals, indef, wide=0):
        body = b"".join(gen.head(0, v) for v in vals)
        return (b"\x9f" + body + b"\xff") if indef else (gen.head(4, len(vals), wide) if wide else gen.head(4, len(vals))) + body
    def mp(pairs, indef):
        body = b"".join(gen.head(0, k) + gen.head(0, v) for k, v in pairs)
        return (b"\xbf" + body + b"\xff") if indef else gen.head(5, len(pairs)) + body
    for _ in range(1500 if tier == "quick" else 30000):
        n = rng.choice([0, 0, 1, 2, 3, 5, 8, 24, 30])
        vals = [rng.choice([0, 1, 23, 24, 255]) for _ in range(n)]
        indef = rng.random() < 0.5
        tail = rng.choice([b"", b"\x07\x08", b"\xff", b"\x9f\x01\xff", b"\x18"])
        kind = rng.choice(["array", "array", "arrayc", "map"])
        if kind == "map":
            e = mp([(v, (v * 7) % 256) for v in vals], indef)
        else:
            e = arr(vals, indef, rng.choice([0, 0, 1, 2, 4, 8]) if not indef else 0)
        r = rng.random()
        if r < 0.12:
            e = e[:rng.randint(0, len(e))]                                  # truncated
        elif r < 0.2 and len(e) > 1:
            m = bytearray(e); m[rng.randrange(1, len(m))] = rng.choice([0x61, 0xf6, 0x19, 0xff, 0x38]); e = bytes(m)   # a non-u8 / break inside
        k = rng.choice([0, 1, 2, n - 1, n, n + 1, n + 2, 40]) if n else rng.choice([0, 1, 3])
        k = max(k, 0)
        ad = rng.choice(["all", f"nth:{k}", f"nth:{k}", f"skip:{k}", f"skip:{k}", f"step:{max(k, 1)}", f"take:{k}", f"fuse:{rng.choice([1, 2, 5])}"] +
                        (["last", "count"] if r >= 0.2 else []))
        exp = ""
        if ad == "all" and r >= 0.2 and kind != "map":
            exp = " #E=" + (",".join(str(v) for v in vals) or "-").replace(" ", "~") + f"~@{len(e)}"
        ops.append(f"aiter {kind} {ad} {gen.hexb(e + tail)}{exp}")
    st = Stream("iterator-adaptors", "hcore", ops, judge=judge_iter,
                rule="aiter: Decoder::array_iter / array_iter_with / map_iter behind nth, skip, step_by, take, fuse, last, count vs plain next() calls "
                     "(definite and indefinite containers, data behind them, truncations, foreign items inside), and vs the model's iterator "
                     "(Iter.lean: state + next; the adaptors spelled out through next as core defines them; Thm/Iter: next-until-None = the drained loops)",
                nontrivial=lambda op, impl: " | " in impl)
    st.shrinkable = False
    return st


REUSE_WHAT = ["vu8", "vvs", "dq", "bh", "mu", "hm", "a3", "t2", "ou", "s", "int", "tok", "ai1", "mi1", "bi1", "toks3", "probe", "skip", "dt",
              "x-f64", "x-f32", "x-f16", "x-u64", "x-u8", "x-i32", "x-str", "x-bytes", "x-array", "x-map", "x-tag", "x-bool", "x-char", "x-bytes_iter", "x-str_iter",
              "bi0", "si0", "si1", "ai0", "mi0", "bit0"]


def judge_reuse(op, impl, model, spec):
    n = len(op.split(" ")[2].split(","))
    return "ok" if impl == f"{n} -" else "violation"


def reuse_stream(rng, tier):
    """one Decoder object through a long script of decodes at chosen positions vs a fresh decoder per step."""
    def arr(vals, indef=False):
        body = b"".join(vals)
        return (b"\x9f" + body + b"\xff") if indef else gen.head(4, len(vals)) + body
    u = lambda v: gen.head(0, v)
    t = lambda b: gen.head(3, len(b)) + b
    pool = [arr([u(1), u(2), u(3)]), arr([u(1), u(200), u(3)], True), arr([u(1), t(b"x"), u(3)]), arr([u(1), u(300), u(3)]),          # the 3rd and 4th fail as Vec<u8> half way
            arr([arr([t(b"a"), t(b"bc")]), arr([])]), arr([arr([t(b"a"), u(5)])]), arr([gen.head(7, 22), u(9)]), arr([u(7), gen.head(7, 22)]),
            gen.head(5, 2) + u(1) + u(2) + u(3) + u(4), gen.head(5, 2) + u(1) + u(2) + u(3) + t(b"no"), b"\xbf" + u(1) + arr([u(1)]) + b"\xff",
            gen.head(5, 1) + u(1) + arr([u(1), t(b"z")]), arr([u(5), arr([u(1), u(2)])]), arr([u(5), arr([u(1), t(b"q")])]),
            b"\xfb" + bytes.fromhex("3ff8000000000000"), b"\xfb" + bytes.fromhex("c004000000000001"), b"\xfa" + bytes.fromhex("3fc00000"), b"\xf9\x3e\x00",
            gen.head(0, 2**32, 8), gen.head(1, 70000, 4), gen.head(1, 5), u(23), u(24), t(b"hello"), t("é€".encode()), gen.head(2, 3) + b"\x01\x02\x03",
            b"\x5f\x41\x01\x42\x02\x03\xff", b"\x7f\x61a\x61b\xff", gen.head(6, 55799) + u(1), b"\xf6", b"\xf5", gen.head(4, 3) + u(1),
            gen.head(4, 2**40, 8) + u(1), b"\x9f" + u(1), gen.head(5, 2**33, 8), b"\x18",
            # strings that declare more than there is (the last items of an input): 300, 65536, 2^64-1 bytes
            gen.head(2, 300) + b"\x01\x02", gen.head(3, 65536, 4) + b"ab", gen.head(2, 2**64 - 1, 8) + b"\x01", gen.head(3, 2**63, 8)]
    ops = []
    for _ in range(60 if tier == "quick" else 1500):
        buf, starts = b"", []
        if rng.random() < 0.5:
            buf = b"\xfb" + bytes.fromhex("3ff8000000000000"); starts.append(0)        # an input that BEGINS with a full double / long head
        for _ in range(rng.randint(4, 14)):
            starts.append(len(buf)); buf += rng.choice(pool[:-4])
        if rng.random() < 0.5:
            starts.append(len(buf)); buf += rng.choice(pool[-4:])             # a truncated string can only be the last item
        steps = []
        for _ in range(rng.choice([40, 150, 300, 400])):
            pos = rng.choice(starts) if rng.random() < 0.9 else rng.randint(0, len(buf))
            steps.append(f"{pos}:{rng.choice(REUSE_WHAT[:19]) if rng.random() < 0.7 else rng.choice(REUSE_WHAT)}")
        ops.append(f"reuse {buf.hex()} {','.join(steps)}")
    # the same failing container decode over and over on one object, then well-formed ones
    for bad, good, what in ((pool[2], pool[0], "vu8"), (pool[5], pool[4], "vvs"), (pool[9], pool[8], "mu"), (pool[13], pool[0], "t2"), (pool[31], pool[0], "a3")):
        for k in (100, 127, 128, 129, 200, 300, 1000):
            buf = bad + good
            ops.append(f"reuse {buf.hex()} " + ",".join([f"0:{what}"] * k + [f"{len(bad)}:{what}", f"{len(bad)}:vu8", f"{len(bad)}:ai1", "0:skip"]))
            ops.append(f"reuse {buf.hex()} " + ",".join([f"0:ai1", f"0:mi1"] * k + [f"{len(bad)}:{what}", f"{len(bad)}:vu8"]))
    st = Stream("decoder-reuse", "hcore", ops, model_ops=["nop"] * len(ops), judge=judge_reuse,
                rule="reuse: ONE Decoder through scripts of 40..1000 steps (set_position, then a typed decode / accessor / abandoned iterator / probe / tokens; "
                     "many of them failing half way through a container) vs a fresh decoder per step: a decoder is its input and a position, nothing that "
                     "happened earlier on the object may change an answer (no model op: what a fresh decoder answers is what every other stream judges)",
                nontrivial=lambda op, impl: impl.endswith(" -"))
    st.shrinkable = False
    return st


def replay_streams(rp):
    if rp["original_op"].startswith("reuse"):
        return [Stream("replay", "hcore", [rp["original_op"]], model_ops=["nop"], judge=judge_reuse)]
    if rp["original_op"].startswith("aiter"):
        return [Stream("replay", "hcore", [rp["original_op"]], judge=judge_iter)]
    return [Stream("replay", "hcore", [rp["original_op"]], judge=judge)]
