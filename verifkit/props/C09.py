"""C09 — Derived Encode/Decode round-trip for every type definition."""
from verifkit.runner import Stream
from verifkit import derivegen as dg
from verifkit.props import C08 as base

ID = "C09"
THM_MODULES = ["Minicbor.Thm.Attrs", "Minicbor.Thm.C09"]
P = "Minicbor.C09."
REQUIRED = [P + n for n in """dec_roundtrip fields_roundtrip vars_roundtrip derive_roundtrip derive_roundtrip_exact_length
encVars_eq blob_rt derive_wrong_tag derive_wrong_tag_enum derive_missing_tag resolve_missing derive_missing_mandatory
derive_unknown_variant derive_enum_wrong_wrapper_length borrowed_leaf_is_input_slice null_clash_counterexample
derive_decode_reframed_partial derive_decode_reframed_K8_repaired rf_sim sim_fields sim_vars reframes_complete derive_decode_reframed_full
fieldsDec_indef derive_decode_indefinite_struct
rf_dec rf_fields rf_vars derive_decode_reframed reframed_examples
pref_rf pref_fields pref_vars reframes_preferred derive_roundtrip_from_reframed val_rf val_fields val_vars reframes_sound
derive_decode_reframed_partial2""".split()]
REQUIRED += ["Minicbor.Derive." + n for n in """fieldsDec_rt runAt_hit runAt_miss arrLoopN_cells mapLoopN_stmts resolve_inv nilu_rt
optionDec_some optionDec_none vecDec_rt arrLoopI_cells mapLoopI_stmts datatype_startNB
body_reframed enum_reframed rf_vec_dec rf_int_dec rf_text_dec rf_bytes_dec rf_some_dec nilu_rf blob_rf tag_rf
fieldsDec_arrN fieldsDec_arrI fieldsDec_mapN fieldsDec_mapI arrLoopN_X arrLoopI_X mapLoopN_E mapLoopI_E
startNB_encW startOk_encW skip_emptyW readerVals_self
body_pref rfVars_pref snd_body snd_vars spec_valid""".split()]
PACKAGES = ["dgen", "hcore"]
on_build_failure = base.on_build_failure
def prepare(seed, tier):
    base.prepare(seed, tier)


RULE = ("ddec <type> <hex>: for every type definition and value of the C08 corpus (same grammar, same presence combinations and boundary values): "
        "(o) the bytes the implementation's own derived Encode wrote for the value (stream derive-own-encoding -> derive-roundtrip-own-bytes), "
        "(i) the documented encoding (Python reference encoder = implementation's encoding by C08), (ii) re-framings of it: every struct / variant / Vec "
        "container indefinite, every head (integers, lengths, tags, map keys, the enum wrapper) widened by one step / to 8 bytes / mixed, and both, "
        "(iii) top-level mutations: wrong tag and missing tag at struct, enum, variant and field level, a mandatory field left out, an unknown variant index, "
        "(iv) strict prefixes (all of them up to 48 bytes, sampled beyond).  Oracle in the orchestrator: (i),(ii) ok <value with skipped fields defaulted> "
        "<pos = input length> <borrow flags expected from the declared types: &str / &ByteSlice / &[u8] and #[b] Cow borrow, everything else owns>; "
        "(iii) the documented error class; (iv) an error.  Borrowing is observed by pointer range in the harness.  Values whose Some(x) encodes as null "
        "(Option in Option, Option of a transparent nil) are compared with the model only (documented exclusion).")
ASSUMPTIONS = list(base.ASSUMPTIONS) + [
    "the enum wrapper `array(2)` is kept definite in the stream derive-reframed; the separate stream derive-reframed-enum-wrapper makes it indefinite "
    "(rejected by the generated decoder until the repair of K8; theorem derive_decode_reframed_K8_repaired)",
    "chunked (indefinite-length) strings are not part of the re-framing: String/&str/byte-string decoders reject them by design"]


def ok_line(ty, v, nbytes):
    w = dg.with_defaults(ty, v)
    fl = dg.flags(ty, w)
    return f"ok {dg.show_val(w)} {nbytes} {fl or '-'}"


def mutations(ty, v):
    """top-level mutations with the error class the property demands (None = any error)."""
    out = []
    if ty.kind == "st":
        if ty.transparent: return out
        if ty.tag is not None: out += [(("tag", "wrong"), "tag"), (("tag", "missing"), None)]
        fields, vals, enc = ty.fields, v[1], dg.eff_enc(ty.enc)
    else:
        var = ty.variants[v[1]]
        if ty.tag is not None: out += [(("tag", "wrong"), "tag"), (("tag", "missing"), None)]
        used = {x.idx for x in ty.variants}
        out.append((("variant", min(i for i in range(len(used) + 1) if i not in used)), "variant"))
        if ty.index_only or var.shape == "u":
            if not ty.index_only and var.tag is not None: out += [(("vtag", "wrong"), "tag"), (("vtag", "missing"), None)]
            return out
        if var.tag is not None: out += [(("vtag", "wrong"), "tag"), (("vtag", "missing"), None)]
        fields, vals, enc = var.fields, v[2], dg.eff_enc(var.enc, ty.enc)
    present = [(f, x) for f, x in zip(fields, vals) if not f.skip and not dg.absent(f, x)]
    for pos, (f, x) in enumerate(zip(fields, vals)):
        if f.skip: continue
        if f.tag is not None and not dg.absent(f, x) or (f.tag is not None and enc == "a" and any(g.idx > f.idx for g, _ in present)):
            # the field is on the wire (present, or a tagged null below the highest present index)
            if not (enc == "m" and dg.absent(f, x)):
                out.append((("ftag", pos, "wrong"), "tag"))
                # without its tag a value is an error; a nil field's `null` is not: a tagged field whose type has a nil value
                # accepts the bare `null` an encoder that does not know the field leaves there (the K5 repair)
                # (a present value whose own encoding is `null` — Some(newtype(nil)), the Some(x)=null exclusion — is that same bare null)
                if not dg.absent(f, x) and dg.enc_field_value(f, x, None) != b"\xf6":
                    out.append((("ftag", pos, "missing"), None))
        # one level down: a mandatory field missing in the value of THIS field (a struct or a variant body, directly or behind an Option
        # that is present) is an error of the whole, whether this field is optional or not
        it, ix = (f.ty.e, x[1]) if f.ty.kind == "opt" and x is not None and f.codec != "x" else (f.ty, x)
        if f.codec != "x" and it.kind in ("st", "en") and not dg.absent(f, x) and not (it.kind == "st" and it.transparent):
            for m2, cls2 in mutations(it, ix):
                if m2[0] == "drop" and cls2 == "missing":
                    out.append((("inner", pos, m2), "missing"))
        if not dg.is_optional(f):
            rest = [g.idx for g, _ in present if g is not f]
            cls = "missing" if enc == "m" or not rest or max(rest) < f.idx else None
            # below the highest present index the writer leaves a `null`: an error for every type that cannot be null
            if cls is not None or (f.ty.kind in ("int", "bool", "text", "blob", "vec") and f.codec != "x"):
                out.append((("drop", pos), cls))
    return out


def streams(rng, tier):
    c = base.corpus(tier)
    a = base.ann()
    exp = {}
    rt, rf, er, pf, rw = [], [], [], [], []      # (impl op, model op)
    for name, ty, vals in c.cases:
        p = dg.proto(ty)
        for n, v in enumerate(vals):
            clash = dg.null_clash(ty, v)
            b = dg.py_encode(ty, v)
            op = f"ddec {name} {b.hex() or '-'} {a} #rt"
            rt.append((op, f"ddec {p} {b.hex() or '-'}"))
            exp[op] = None if clash else ("line", ok_line(ty, v, len(b)))
            variants = [dg.Opts(indef=True), dg.Opts(wide=1), dg.Opts(wide=2, indef=(n % 2 == 0)), dg.Opts(wide=3, salt=n, indef=(n % 3 == 0))]
            for o in (variants if n % 2 == 0 or tier == "thorough" else variants[n % 4:n % 4 + 1]):
                b2 = dg.py_encode(ty, v, o)
                if b2 == b: continue
                op = f"ddec {name} {b2.hex()} {a} #rf"
                rf.append((op, f"ddec {p} {b2.hex()}"))
                exp[op] = None if clash else ("line", ok_line(ty, v, len(b2)))
            if n % 2 == 0:
                b4 = dg.py_encode(ty, v, dg.Opts(wrap_indef=True, indef=(n % 4 == 0)))
                if b"\x9f" in b4 and b4 != dg.py_encode(ty, v, dg.Opts(indef=(n % 4 == 0))):
                    op = f"ddec {name} {b4.hex()} {a} #rfw"
                    rw.append((op, f"ddec {p} {b4.hex()}"))
                    exp[op] = None if clash else ("k8", ok_line(ty, v, len(b4)))
            if n < (4 if tier == "quick" else 12):
                for mut, cls in mutations(ty, v):
                    b3 = dg.py_encode(ty, v, None, mut)
                    op = f"ddec {name} {b3.hex() or '-'} {a} #mut:{mut[0]}"
                    er.append((op, f"ddec {p} {b3.hex() or '-'}"))
                    exp[op] = ("err", cls)
            if n < (3 if tier == "quick" else 8) and b:
                cuts = range(len(b)) if len(b) <= 48 else sorted({rng.randrange(len(b)) for _ in range(24)} | {0, 1, len(b) - 1})
                for k in cuts:
                    op = f"ddec {name} {b[:k].hex() or '-'} {a} #prefix"
                    pf.append((op, f"ddec {p} {b[:k].hex() or '-'}"))
                    exp[op] = ("err", None)

    def judge(op, impl, model, spec):
        e = exp.get(op)
        if e is not None:
            if e[0] == "line":
                if impl != e[1]: return "violation"
            elif e[0] == "k8":
                # the property wants the value back (the generated decoder rejected an indefinite enum wrapper until the
                # repair of K8, 67612a2; a recurrence is a violation like any other)
                if impl != e[1]:
                    return "violation"
            else:
                iw = impl.split(" ")
                if iw[0] != "err": return "violation"
                if e[1] is not None and iw[1] != e[1]: return "violation"
        return "ok" if impl == model else "corr"

    def mk(name, rows, rule):
        st = Stream(name, "dgen", [r[0] for r in rows], model_ops=[r[1] for r in rows], judge=base.guard_pruned(judge, tier), rule=rule)
        st.shrinkable = False
        return st

    # --- the implementation's OWN bytes: first `denc` on the implementation, then `ddec` exactly those bytes
    own_rows = base.enc_cases(c)

    def enc_judge(op, impl, model, spec):
        return "ok" if impl.split(" ")[0] == model.split(" ")[0] else "corr"      # the bytes themselves are C08's business
    own_enc = Stream("derive-own-encoding", "dgen", [r[0] for r in own_rows], model_ops=[r[1] for r in own_rows], judge=base.guard_pruned(enc_judge, tier),
                     rule="denc <type> <value> on the implementation: produces the bytes the next stream decodes")
    own_enc.shrinkable = False
    yield own_enc
    res = getattr(own_enc, "impl_results", None)
    if res is not None:
        own = []
        for (eop, mop, _sop, _ref, ty, v), line in zip(own_rows, res):
            hx = line.split(" ")[0]
            if hx in ("bad-op", "panic", "crash") or line.startswith("crash"):
                continue
            name = eop.split(" ")[1]
            nbytes = 0 if hx == "-" else len(hx) // 2
            op = f"ddec {name} {hx} {a} #own"
            own.append((op, f"ddec {dg.proto(ty)} {hx}"))
            exp[op] = None if dg.null_clash(ty, v) else ("line", ok_line(ty, v, nbytes))
        yield mk("derive-roundtrip-own-bytes", own,
                 "ddec <type> <the bytes the implementation's derived Encode just wrote for that value>: the derived decoder must return the value "
                 "(skipped fields defaulted), consume exactly those bytes, and borrow / own as declared")
    yield from [mk("derive-roundtrip", rt, RULE),
            mk("derive-reframed", rf, "re-framed encodings (indefinite containers, widened heads) decode to the same value and are consumed exactly"),
            mk("derive-errors", er, "wrong / missing tag, missing mandatory field, unknown top-level variant are errors of the documented class"),
            mk("derive-prefixes", pf, "strict prefixes of an encoding never decode"),
            mk("derive-reframed-enum-wrapper", rw, "re-framings in which the two-element wrapper [variant index, body] of every (non index_only) enum is an "
               "indefinite-length array: the value must come back (former finding K8, repaired in /repo)")]
    yield base.attr_stream(tier, "decode")
    from verifkit import dextra
    yield dextra.stream(rng, tier)


def replay_streams(rp):
    """re-create the stream the op came from (the oracle lives in the stream's closure) and keep only that op."""
    import random
    op = rp["original_op"] if "original_op" in rp else rp["op"]
    if op.startswith("dextra"):
        from verifkit import dextra
        return [dextra.replay(rp)]
    tier = "thorough" if rp.get("tier") == "thorough" else "quick"
    for t in (tier, "thorough" if tier == "quick" else "quick"):
        for st in streams(random.Random(base.seed_now()), t):
            if st.name == "derive-own-encoding" and "#own" in op:
                from verifkit.runner import eval_stream
                st.impl_results, st.model_results, _ = eval_stream(st)     # the next stream is derived from these bytes
            if op in st.ops:
                i = st.ops.index(op)
                r = Stream("replay", "dgen", [op], model_ops=[st.model_ops[i]], judge=st.judge)
                r.shrinkable = False
                return [r]
    return [Stream("replay", "dgen", [op], model_ops=[rp["model_op"]])]
