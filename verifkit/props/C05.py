"""C05 — Integer decoding is value-preserving across widths; it never wraps or truncates."""
from verifkit.runner import Stream
from verifkit import gen

ID = "C05"
THM_MODULES = ["Minicbor.Thm.C05"]
P = "Minicbor.C05."
REQUIRED = [P + n for n in """representable_iff int_accessor_ok int_accessor_overflow typeMismatch_err
int_accessor_neg_rejected int_accessor_exact ranges int_range int_of_i128_exact int_of_u128_exact int_of_i64_exact int_of_u64_exact
int_to_unsigned_exact int_to_u64_exact int_to_u128_exact int_to_i64_exact int_to_signed_exact int_to_i128_exact""".split()]
PACKAGES = ["hcore"]
DEBUG_TWINS = True
ACCS = ["u8", "u16", "u32", "u64", "i8", "i16", "i32", "i64", "int", "char"]
RANGE = {"u8": (0, 255), "u16": (0, 65535), "u32": (0, 2**32 - 1), "u64": (0, 2**64 - 1),
         "i8": (-128, 127), "i16": (-2**15, 2**15 - 1), "i32": (-2**31, 2**31 - 1), "i64": (-2**63, 2**63 - 1),
         "int": (-2**64, 2**64 - 1)}
RULE = ("dec <accessor> <head ++ suffix>: (sign, width, argument) triples: every argument < 2^16 that fits at each of the five widths "
        "(quick: stride-sampled above 2^10 plus all boundaries), every 2^k±3, seeded random 64-bit arguments; x the 8 integer accessors, int, char, "
        "datatype; suffixes: none, one byte <0x80, one byte >=0x80 (the type_of peek), and 9..12 byte continuations.  Oracle evaluated in the orchestrator: ok iff the mathematical "
        "value is in the Rust type's range, value equal, position = head length.  Non-trivial: implementation returned ok or an overflow error.")
ASSUMPTIONS = ["usize/isize/NonZero impls are covered by C01/C04 streams (they delegate to these accessors)"]


def expected(acc, neg, n):
    v = -1 - n if neg else n
    if acc == "char":
        if neg: return None
        if n > 2**32 - 1: return None
        if 0xd800 <= n <= 0xdfff or n > 0x10ffff: return None
        return n
    lo, hi = RANGE[acc]
    return v if lo <= v <= hi else None


def judge(op, impl, model, spec):
    # spec is computed here from the op itself: the property's own oracle
    w = op.split(" ")
    acc, meta = w[1], w[3]
    if acc == "datatype":
        return "ok" if impl == model else "violation"
    neg, width, n = meta.split(":")[1].split(",")
    neg, width, n = neg == "1", int(width), int(n)
    exp = expected(acc, neg, n)
    iw = impl.split(" ")
    if exp is None:
        good = iw[0] == "err"
    else:
        good = iw[0] == "ok" and int(iw[1]) == exp and int(iw[2]) == 1 + width
    if not good:
        return "violation"
    return "ok" if impl == model else "corr"


def canon(op, line):
    return line


BOUND = set(gen.boundaries(64))


def streams(rng, tier):
    triples = []
    small = range(0, 65536) if tier == "thorough" else list(range(0, 1024)) + list(range(1024, 65536, 37))
    for neg in (0, 1):
        for width in gen.WIDTHS:
            for n in small:
                if gen.fits(width, n):
                    triples.append((neg, width, n))
            for n in gen.boundaries(64):
                if gen.fits(width, n):
                    triples.append((neg, width, n))
            for _ in range(3000 if tier == "quick" else 60000):
                n = gen.rand_u(rng, 8 * width if width else 4)
                if gen.fits(width, n):
                    triples.append((neg, width, n))
    ops = []
    sufs = ["", "05", "80"]
    # long continuations: whatever an accessor does when plenty of input follows (a wide load, a look-ahead) must not show in value or position
    longs = ["0102030405060708090a0b0c", "ff" * 9, "1b" + "ff" * 8 + "00", "3a000100000102030405"]
    for (neg, width, n) in triples:
        hd = gen.head(neg, n, width).hex()
        accs = ACCS if (n < 70000 or rng.random() < 0.5) else rng.sample(ACCS, 4)
        for acc in accs:
            suf = sufs[(n + len(acc)) % 3]
            ops.append(f"dec {acc} {hd}{suf} #:{neg},{width},{n}")
        if n < 300 or n in BOUND or rng.random() < 0.1:
            for acc in accs:
                ops.append(f"dec {acc} {hd}{longs[(n + len(acc)) % 4]} #:{neg},{width},{n}")
    # datatype: reported type must name an accessor that accepts the item
    dt_ops = []
    for (neg, width, n) in triples[::5]:
        hd = gen.head(neg, n, width).hex()
        dt_ops.append(f"dec datatype {hd}{sufs[n % 3]} #:{neg},{width},{n}")
    s1 = Stream("int-accessors", "hcore", ops, judge=judge, rule=RULE)
    s1.shrinkable = False
    s2 = Stream("datatype-accepts", "hcore", dt_ops, judge=judge_dt, rule="dec datatype <head>: the reported Type names an accessor; that accessor is then run on the same bytes")
    s2.shrinkable = False
    # the token API reads integers too (Decode for Token: what Tokenizer, Decoder::tokens() and display use)
    tk_ops = []
    for (neg, width, n) in triples[::3]:
        tk_ops.append(f"tokdec {gen.head(neg, n, width).hex()} #:{neg},{width},{n}")
    def judge_tok(op, impl, model, spec):
        neg, width, n = (int(x) for x in op.split("#:")[1].split(","))
        v = -1 - n if neg else n
        iw = impl.split(" ")
        if len(iw) != 3 or iw[1] != "end" or "," in iw[0] or ":" not in iw[0]:
            return "violation"
        kind, val = iw[0].split(":", 1)
        if kind not in RANGE or int(val) != v or not (RANGE[kind][0] <= v <= RANGE[kind][1]):
            return "violation"              # a wrapped / truncated / mis-typed integer token
        return "ok" if impl == model else "corr"
    s2t = Stream("int-tokens", "hcore", tk_ops, judge=judge_tok,
                 rule="tokdec <integer head>: the token carries exactly the integer denoted (kind's range contains it), for every width and boundary")
    s2t.shrinkable = False
    # integers reached through the typed iterators, elements that do not fit in between: every element is answered on its own
    it_ops = []
    pool = [0, 1, 23, 24, 255, 256, 300, 65535, 65536, 2**32, 2**64 - 1, -1, -24, -25, -256, -257, -2**63, -2**64]
    def ihead(v, w=None): return gen.head(0, v, w) if v >= 0 else gen.head(1, -1 - v, w)
    def ishow(v): return str(v) if 0 <= v <= 255 else ("E:overflow" if v > 255 else "E:type")
    for _ in range(2500 if tier == "quick" else 50000):
        n = rng.choice([1, 2, 3, 3, 4, 6, 10])
        # (an element of the wrong major type is refused after its head byte alone, what follows is then not an element boundary:
        # negative integers only in the last place; too large unsigned ones are read whole and refused, anywhere)
        vs = [rng.choice([v for v in pool if v >= 0]) if rng.random() < 0.6 else rng.choice([5, 7, 200]) for _ in range(n)]
        if rng.random() < 0.3: vs[-1] = rng.choice([v for v in pool if v < 0])
        neg_last = vs[-1] < 0
        ws = [rng.choice([None, None, 8]) for _ in vs]
        kind = rng.choice(["array", "arrayc", "map"])
        if kind == "map":
            if n % 2: vs, ws = vs + [9], ws + [None]
            body = b"".join(ihead(v, w) for v, w in zip(vs, ws))
            indef = rng.random() < 0.5
            e = (b"\xbf" + body + b"\xff") if indef else gen.head(5, len(vs) // 2) + body
            # a pair stops at its first failing half (the value is then not read: what follows is taken for the next key)
            if any(not 0 <= v <= 255 for v in vs): continue
            exp = ",".join(f"{vs[i]}={vs[i + 1]}" for i in range(0, len(vs), 2))
        else:
            body = b"".join(ihead(v, w) for v, w in zip(vs, ws))
            indef = rng.random() < 0.5
            e = (b"\x9f" + body + b"\xff") if indef else gen.head(4, len(vs)) + body
            exp = ",".join(ishow(v) for v in vs)
        tail = rng.choice([b"", b"\x07", b"\x19\x01\x2c"])
        if neg_last:
            # where a refused element of the wrong major type leaves the decoder is the accessor's business (C04 / the model): only the
            # answers before it are this stream's
            it_ops.append(f"aiter {kind} allx {(e + tail).hex()} #P={','.join(exp.split(',')[:-1])}")
        else:
            it_ops.append(f"aiter {kind} allx {(e + tail).hex()} #E={exp}~@{len(e)}")
    def judge_it(op, impl, model, spec):
        if " | " not in impl:
            return "violation"
        a, b = impl.split(" | ")
        pre = [x for x in op.split(" ") if x.startswith("#P=")]
        if pre:
            if a != b or not (a.startswith(pre[0][3:] + ",") or pre[0][3:] == ""):
                return "violation"
            return "ok" if model == a else "corr"
        exp = [x for x in op.split(" ") if x.startswith("#E=")][0][3:].replace("~", " ")
        if a != exp or b != exp:
            return "violation"              # an element that fits came back as an error / not at all / with another value, or the iterator stopped elsewhere
        return "ok" if model == a else "corr"
    s2i = Stream("ints-through-iterators", "hcore", it_ops, judge=judge_it, nontrivial=lambda op, impl: " | " in impl,
                 rule="aiter allx: array_iter / array_iter_with / map_iter over integers of every width and sign as u8, unrepresentable ones in between: each element is "
                      "its value or its own error, the next element is the next element, the end is the end of the container")
    s2i.shrinkable = False
    # an integer item whose head byte also is the byte just before it (whatever looks around the head must look at the head)
    pr_ops = []
    for (neg, width, n) in triples[::7]:
        if width == 0: continue
        hb = gen.head(neg, n, width)[0]
        v = -1 - n if neg else n
        for pre, ptoks in ((gen.head(0, hb, 1), [hb]), (gen.head(1, hb, 1), [-1 - hb]), (gen.head(0, hb, 1) + gen.head(0, hb, 1), [hb, hb])):
            pr_ops.append(f"tokdec {(pre + gen.head(neg, n, width)).hex()} #V={','.join(map(str, ptoks + [v]))}")
    def judge_pairs(op, impl, model, spec):
        want = [int(x) for x in op.split("#V=")[1].split(",")]
        iw = impl.split(" ")
        if len(iw) != 3 or iw[1] != "end":
            return "violation"
        got = iw[0].split(",")
        if len(got) != len(want) or any(":" not in g or g.split(":")[0] not in RANGE or int(g.split(":")[1]) != w_ or
                                        not (RANGE[g.split(":")[0]][0] <= w_ <= RANGE[g.split(":")[0]][1]) for g, w_ in zip(got, want)):
            return "violation"
        return "ok" if impl == model else "corr"
    s2p = Stream("int-after-its-own-head-byte", "hcore", pr_ops, judge=judge_pairs,
                 rule="tokdec of an integer item preceded by items whose last byte equals its head byte (18 38 | 38 c7 ..): every token carries exactly its integer")
    s2p.shrinkable = False
    # Int rendered as text (Display of Int and of Token::Int: what the diagnostic notation prints): the decimal number, both ends of the range included
    sh_ops = [f"intshow {v}" for v in sorted({x for b in gen.boundaries(64) for x in (b, -b, -1 - b, b - 1)} | {-2**64, -2**64 + 1, 2**64 - 1, 0, -1}) if -2**64 <= v <= 2**64 - 1]
    s2s = Stream("int-as-text", "hcore", sh_ops, model_ops=["nop"] * len(sh_ops),
                 judge=lambda op, impl, model, spec: "ok" if impl == f"{op.split(' ')[1]} | {op.split(' ')[1]}" else "violation",
                 rule="intshow: Int::try_from(v) through Display and through Token::Int's Display == the decimal text of v, for every boundary incl. -2^64 and 2^64-1")
    s2s.shrinkable = False
    # Int compared with Int (what `assert_eq!(decoded, expected)`, a HashSet of Ints go through): equal exactly when the numbers are
    near = sorted({x for b in gen.boundaries(64) for x in (b, -b, -1 - b, b - 1, -b - 2)} | {0, -1, 1, -2, 2**64 - 1, -2**64})
    near = [v for v in near if -2**64 <= v <= 2**64 - 1]
    eq_ops = []
    for i, a in enumerate(near):
        for b in (a, -1 - a, -a, a + 1, a - 1, near[(i * 7 + 3) % len(near)]):
            if -2**64 <= b <= 2**64 - 1:
                eq_ops.append(f"inteq {a} {b}")
    eq_ops = list(dict.fromkeys(eq_ops))
    def judge_eq(op, impl, model, spec):
        w = op.split(" ")
        same = int(w[1]) == int(w[2])
        return "ok" if (impl == "eq sameHash" if same else impl.startswith("ne ")) else "violation"
    s2e = Stream("int-equality", "hcore", eq_ops, model_ops=["nop"] * len(eq_ops), judge=judge_eq,
                 rule="inteq a b: Int == Int (both directions, on values made by TryFrom and on values decoded from their encodings, and as HashSet membership) "
                      "exactly when a == b; equal values hash alike")
    s2e.shrinkable = False
    # Int <-> primitive conversions: oracle = plain integer arithmetic
    TR = dict({k: v for k, v in RANGE.items() if k != "int"}, u128=(0, 2**128 - 1), i128=(-2**127, 2**127 - 1))
    conv = []
    vals = set()
    for b in gen.boundaries(64) + [2**64, 2**64 + 1, 2**100]:
        vals |= {b, -b, -1 - b, b - 1}
    for _ in range(3000 if tier == "quick" else 100000):
        v = gen.rand_u(rng, 66); vals |= {v, -1 - v}
    for v in sorted(vals):
        for t in TR:
            if -2**127 <= v < 2**127:
                conv.append(f"intconv to:{t} {v}")
            lo, hi = TR[t]
            if lo <= v <= hi:
                conv.append(f"intconv from:{t} {v}")
    def judge_conv(op, impl, model, spec):
        w = op.split(" ")
        d, t = w[1].split(":")
        v = int(w[2])
        lo, hi = TR[t]
        inint = -2**64 <= v <= 2**64 - 1
        if d == "to":
            exp = "norep" if not inint else (f"ok {v}" if lo <= v <= hi else "err")
        else:
            exp = f"ok {v}" if inint else "err"
        if impl != exp:
            return "violation"
        return "ok" if impl == model else "corr"
    s3 = Stream("int-conversions", "hcore", conv, judge=judge_conv,
                rule="Int::try_from(i128) then T::try_from(Int), and Int::from/try_from(T), for every boundary 2^k±3, ±2^64 edges and random values x all ten primitive types")
    s3.shrinkable = False
    # the Decode impls built on the accessors: usize/isize, NonZero*, atomics, Int, char (typed decode of the same heads)
    R = RANGE
    TY = {"usize": ("u64", R["u64"], False), "isize": ("i64", R["i64"], False), "Int": ("int", R["int"], False),
          "u8": ("u8", R["u8"], False), "i8": ("i8", R["i8"], False), "u16": ("u16", R["u16"], False), "i16": ("i16", R["i16"], False),
          "u32": ("u32", R["u32"], False), "i32": ("i32", R["i32"], False), "u64": ("u64", R["u64"], False), "i64": ("i64", R["i64"], False)}
    for b in ("U8", "U16", "U32", "U64", "I8", "I16", "I32", "I64"):
        TY["NonZero" + b] = (f"nz({b.lower()})", R[b.lower()], True)
        TY["Atomic" + b] = (b.lower(), R[b.lower()], False)
    TY["NonZeroUsize"] = ("nz(u64)", R["u64"], True); TY["NonZeroIsize"] = ("nz(i64)", R["i64"], True)
    TY["AtomicUsize"] = ("u64", R["u64"], False); TY["AtomicIsize"] = ("i64", R["i64"], False)
    # transparent std wrappers around an integer: the integer's own rules (a `Wrapping<T>` wraps in arithmetic, not when it is read)
    for b in ("u8", "i8", "u16", "i16", "u32", "i32", "u64", "i64"):
        TY[f"Wrapping<{b}>"] = (b, R[b], False)
    TY["Wrapping<usize>"] = ("u64", R["u64"], False); TY["Wrapping<isize>"] = ("i64", R["i64"], False)
    TY["Cell<u32>"] = ("u32", R["u32"], False); TY["Box<u64>"] = ("u64", R["u64"], False); TY["Box<Cell<Wrapping<i16>>>"] = ("i16", R["i16"], False)
    TY["char"] = ("char", (0, 0x10ffff), False)       # Decode for char: every head width; surrogates are not scalar values
    tops, tmops, texp = [], [], {}
    sel = [t for t in triples if t[2] < 300 or t[2] in set(gen.boundaries(64))] + rng.sample(triples, min(len(triples), 4000))
    for (neg, width, n) in sel:
        hd = gen.head(neg, n, width).hex()
        v = -1 - n if neg else n
        for name in (TY if n < 70000 else rng.sample(sorted(TY), 12)):
            desc, (lo, hi), nz = TY[name]
            op = f"tdec {name} {hd}05 #:{neg},{width},{n}"
            tops.append(op); tmops.append(f"tdec {desc} {hd}05")
            texp[op] = (f"ok {v} {1 + width}" if lo <= v <= hi and not (nz and v == 0) and not (name == "char" and 0xd800 <= v <= 0xdfff) else None)
    def judge_typed(op, impl, model, spec):
        e = texp[op]
        if e is None:
            if not impl.startswith("err"): return "violation"
        elif impl != e:
            return "violation"
        return "ok" if impl == model else "corr"
    s4 = Stream("typed-int-impls", "hcore", tops, model_ops=tmops, judge=judge_typed,
                rule="tdec of usize/isize/NonZero*/Atomic*/Int/the eight fixed types on every (sign,width,argument) head: value iff representable (and non-zero for NonZero), position = head length")
    s4.shrinkable = False
    return [s1, s2, s2t, s2p, s2i, s2s, s2e, s3, s4]


DT_ACC = {"u8": "u8", "u16": "u16", "u32": "u32", "u64": "u64", "i8": "i8", "i16": "i16", "i32": "i32", "i64": "i64", "int": "int"}


def judge_dt(op, impl, model, spec):
    w = op.split(" ")
    neg, width, n = w[3].split(":")[1].split(",")
    neg, width, n = neg == "1", int(width), int(n)
    iw = impl.split(" ")
    if iw[0] == "err":
        # a negative head at width>0 peeks one byte past the head: eoi is what the code does on a bare head
        return "ok" if impl == model else "corr"
    t = iw[1]
    if t not in DT_ACC:
        return "violation"
    if expected(t, neg, n) is None:
        return "violation"
    return "ok" if impl == model else "corr"


def replay_streams(rp):
    op = rp["original_op"]
    if not op.startswith("dec "):
        # the oracle of the other streams lives in their closures: re-create the streams and keep only that op
        import random
        for tier in ("quick", "thorough"):
            for st in streams(random.Random(int(rp.get("seed", 1))), tier):
                if op in st.ops:
                    i = st.ops.index(op)
                    r = Stream("replay", "hcore", [op], model_ops=[(st.model_ops or st.ops)[i]], judge=st.judge)
                    r.shrinkable = False
                    return [r]
    s = Stream("replay", "hcore", [op], judge=judge if "datatype" not in rp["op"] else judge_dt)
    return [s]
