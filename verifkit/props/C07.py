"""C07 — CborLen is exact: len(v) equals the number of bytes encode(v) writes (built-in impls and Token part).

Rust/Python half; the Lean half (`Minicbor.Thm.C07`, driver ops `tenc` / `tokenc`) is filled in by the lead.
The derived-impl part of C07 is covered by the derive streams (not here).
"""
from verifkit import gen
from verifkit.runner import Stream
from verifkit import typegen
from verifkit.props import C01

ID = "C07"
THM_MODULES = ["Minicbor.Thm.C07"]
P = "Minicbor.C07."
REQUIRED = [P + n for n in "len_exact_builtin len_exact_list len_exact_token len_exact_tokens exact_buffer arity_needed".split()]
PACKAGES = ["hcore", "dgen"]
RULE = ("`tenc <type> <value>` over the C01 corpus (every registered built-in instantiation, boundary + seeded random values) and "
        "`tokenc <token list>`: every Token variant alone at every boundary payload (all 2^k±3 integers per width, all 256 simple "
        "values, byte strings of every length 0..300 and 65535/65536, strings at the length-width edges, half-representable and "
        "non-representable F16 payloads, float specials) plus seeded random lists of 1..6 tokens.  The harness prints the bytes of "
        "`minicbor::to_vec` / `Encoder::tokens` and `minicbor::len` (summed per token); the oracle `len == number of bytes` is "
        "evaluated here whenever encoding succeeded.  Non-trivial = implementation produced bytes; distinct = distinct op lines.")
ASSUMPTIONS = ["derived CborLen impls are checked by the derive streams, not by these ops"]


def judge_len(op, impl, model, spec):
    if impl == "panic" or impl.startswith("crash"):
        return "violation"
    if impl == "bad-op":
        return "corr"
    e = C01.split_enc(impl)
    if e is None:
        # encoding failed: the property only speaks about successful encodings
        return C01.vs_model(impl, model) if impl.startswith("err ") else "violation"
    if e[1] != len(e[0]):
        return "violation"
    return C01.vs_model(impl, model)


def token_ops(rng, tier):
    ops = [f"tokenc {t}" for t in typegen.boundary_tokens()]
    n = 15000 if tier == "quick" else 300000
    for _ in range(n):
        ops.append("tokenc " + ",".join(typegen.rand_token(rng) for _ in range(rng.randint(1, 6))))
    ops.append("tokenc -")
    return ops


from verifkit.props import C08 as _C08
THM_MODULES = THM_MODULES + [m for m in _C08.C07_DERIVED_MODULES if m not in THM_MODULES]
REQUIRED = REQUIRED + [t for t in _C08.C07_DERIVED_REQUIRED if t not in REQUIRED]


def on_build_failure(output):
    from verifkit.props import C08
    return C08.on_build_failure(output)


def prepare(seed, tier):
    from verifkit.props import C08
    C08.prepare(seed, tier)          # regenerates the crate of derived types (harness/dgen) from the seed


def streams(rng, tier):
    from verifkit.props import C08
    derived = C08.derived_len_streams(rng, tier)
    cps = C01.corpus(rng, tier)
    ops, mops = C01.enc_ops(cps)
    nt = lambda op, impl: C01.split_enc(impl) is not None
    s1 = Stream("len-builtin", "hcore", ops, model_ops=mops, judge=judge_len, nontrivial=nt, rule=RULE)
    s2 = Stream("len-token", "hcore", token_ops(rng, tier), judge=judge_len, nontrivial=nt,
                rule="tokenc <tokens>: bytes of Encoder::tokens and the sum of minicbor::len over the tokens")
    s1.shrinkable = s2.shrinkable = False
    # the consequence stated by the property: a buffer of exactly len bytes suffices, one byte less does not
    def enc_calls(calls):
        out = b""
        for c in calls:
            m, _, a = c.partition(":")
            if m in ("u8", "u16", "u32", "u64"): out += gen.head(0, int(a))
            elif m in ("i8", "i16", "i32", "i64"):
                v = int(a); out += gen.head(0, v) if v >= 0 else gen.head(1, -1 - v)
            elif m == "str": b = b"" if a == "-" else bytes.fromhex(a); out += gen.head(3, len(b)) + b
            elif m == "bytes": b = b"" if a == "-" else bytes.fromhex(a); out += gen.head(2, len(b)) + b
            elif m == "array": out += gen.head(4, int(a))
            elif m == "map": out += gen.head(5, int(a))
            elif m == "tag": out += gen.head(6, int(a))
            elif m == "null": out += b"\xf6"
            elif m == "bool": out += b"\xf5" if a == "1" else b"\xf4"
        return out
    chains = [["str:-"], ["bytes:-"], ["u8:7", "str:616263", "str:-"], ["array:2", "u64:4294967296", "bytes:-"], ["array:3", "u8:1", "str:-", "str:-"],
              ["i32:-100000"], ["map:1", "str:61", "bytes:-"], ["tag:1000", "str:-"], ["array:2", "str:-", "u8:23"], ["u8:24"], ["null"],
              ["array:1", "bytes:" + "ab" * 30], ["str:" + "61" * 24], ["bool:1"], ["u64:18446744073709551615"]]
    for _ in range(60):
        n = rng.randint(1, 4)
        ch = [f"array:{n}"]
        for i in range(n):
            ch.append(rng.choice(["str:-", "bytes:-", f"u32:{gen.rand_u(rng, 32)}", "str:" + gen.rand_text(rng, 5).encode().hex() if rng.random() < 0.9 else "str:-",
                                  f"i64:{-1 - gen.rand_u(rng, 63)}", "null"]))
        ch = [c if c != "str:" else "str:-" for c in ch]
        chains.append(ch)
    xb = []
    for ch in chains:
        n = len(enc_calls(ch))
        for kind in ("slice", "cslice", "carray", "cbox"):
            if kind == "carray" and n > 40: continue
            xb.append(f"sinkenc {kind} {n} {' '.join(ch)} #fits")
            if n > 0:
                xb.append(f"sinkenc {kind} {n - 1} {' '.join(ch)} #short")
    def judge_xb(op, impl, model, spec):
        fits = op.endswith("#fits")
        ok = impl.startswith("ok ")
        if ok != fits:
            return "violation"
        return "ok" if impl == model else "corr"
    s3 = Stream("exact-buffer", "hcore", xb, judge=judge_xb,
                rule="Encoder call chains (many ending in an empty string / byte string) into slice and cursor sinks of exactly len bytes (must succeed) and len-1 bytes (must fail)")
    s3.shrinkable = False
    # paths that are not UTF-8: the encoder refuses them (the property's exclusion) and `len` is whatever; but IF an encoding
    # is produced, `len` must be its length
    pops = []
    raws = [b"\x80", b"/tmp/\x80log\xe2\x82", b"\xff\xfe", b"a\xc3", b"\xed\xa0\x80", b"/ok/\xf0\x9f\x98", b"\xc0\xaf", b"plain", b"/etc/hosts", b""] + \
           [gen.rand_bytes(rng, rng.randint(1, 40)) for _ in range(60 if tier == "quick" else 2000)]
    for raw in raws:
        for kind in ("PathBuf", "BoxPath", "RefPath", "VecPathBuf", "OptPathBuf"):
            pops.append(f"tencpath {kind} {gen.hexb(raw)}")
    def judge_path(op, impl, model, spec):
        if impl.startswith("err "): return "ok"
        sp = C01.split_enc(impl)
        if sp is None: return "violation"
        return "ok" if sp[1] == len(sp[0]) else "violation"
    s4 = Stream("len-nonutf8-path", "hcore", pops, model_ops=["nop"] * len(pops), judge=judge_path,
                rule="tencpath <path type> <raw bytes>: PathBuf / Box<Path> / &Path / Vec<PathBuf> / Option<PathBuf> built from arbitrary bytes: either the "
                     "encoder refuses (non-UTF-8, the property's exclusion) or the reported len equals the bytes written")
    s4.shrinkable = False
    from verifkit import dextra
    return [s1, s2, s3, s4] + derived + [C08.attr_stream(tier, "len"), dextra.stream(rng, tier)]


def _judge_derived(op, impl, model, spec):
    w = impl.split(" ")
    try:
        ok = len(w) == 2 and len(w[0].replace("-", "")) // 2 == int(w[1])
    except ValueError:
        ok = False
    if not ok:
        return "violation"
    return "ok" if impl == model else "corr"


def replay_streams(rp):
    if rp.get("original_op", rp["op"]).startswith("dextra"):
        from verifkit import dextra
        return [dextra.replay(rp)]
    if rp["op"].startswith("denc"):
        st = Stream("replay", "dgen", [rp["op"]], model_ops=[rp.get("model_op") or rp["op"]], judge=_judge_derived)
        st.shrinkable = False
        return [st]
    st = Stream("replay", rp.get("binary", "hcore"), [rp["op"]], model_ops=[rp.get("model_op") or rp["op"]], judge=judge_len)
    st.shrinkable = False
    return [st]
