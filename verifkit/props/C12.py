"""C12 — Floating-point values survive bit-exactly; half precision converts per IEEE 754."""
import math, struct
from verifkit.runner import Stream

ID = "C12"
THM_MODULES = ["Minicbor.Thm.C12"]
P = "Minicbor.C12."
REQUIRED = [P + n for n in """f32_bits_roundtrip f64_bits_roundtrip f16_decode_exact widen_exact accessor_widening
accessor_widening_value no_narrowing no_half_feature f16_encode_exact f16_encode_nan_payload f16_wire_roundtrip
f16_encode_nan_inf f16_encode_rne""".split()]
PACKAGES = ["hcore", "hserde"]
DEBUG_TWINS = True
RULE = ("Per-op streams (dec f16|f32|f64 <item>, enc f16|f32|f64 <bits>), judged by an oracle computed in the orchestrator "
        "(CPython struct 'e'/'f'/'d' codecs: exact half decode, exact widening, round-to-nearest-even half packing) and compared with the model: "
        "all 65 536 half patterns through the three accessors (items f9xxxx) and back through enc f16 of their f32 image; f32 patterns stratified over "
        "every (sign, exponent) with structured mantissas (2^k, 2^k±1, the three patterns around every half-ulp tie, ties of every subnormal shift, "
        "NaN payloads incl. signalling) plus seeded random mantissas, each through dec f32 / dec f64 of the fa item, enc f32 and enc f16; "
        "f64: every f32-representable boundary, exponent boundaries, NaN payloads, random 64-bit patterns through enc f64 / dec f64; "
        "narrowing attempts (dec f32 on fb, dec f16 on fa/fb — payloads chosen exactly representable in the narrower type) must be errors. "
        "Block streams (fblk): the real Encoder::f16 / Decoder::f64 / Decoder::f32 run over blocks of consecutive or strided binary32 patterns, "
        "checked inside the harness against an independent value-based reference (bad=0 required) and hash-compared with the model. "
        "quick: ~2^20 patterns per-op, 2^25 (enc f16) / 2^22 (widening) by blocks; thorough: all 2^32 patterns for enc f16, dec f64, dec f32 against the "
        "reference (model hash on a 2^28 / 2^25 subset).  Non-trivial = the implementation returned a value or a type error.")
ASSUMPTIONS = [
    "NaN payloads: IEEE 754 leaves the payload of a converted NaN open, so for NaN inputs of widening / half conversion the oracle demands a NaN of the "
    "same sign only; the exact payload (quiet bit forced, payload truncated/extended) is compared with the model (verdict 'corr' if they differ)",
    "the half crate is built without its std feature, so on x86_64 it takes its portable software path; the hardware F16C path is not exercised",
    "f64::from(f32) is the hardware conversion (cvtss2sd), which quiets signalling NaNs; the model does the same",
]
TRUSTED_EXTRA = ["CPython's struct half/float/double codecs as the orchestrator-side oracle; the value-based reference in harness/core/src/floatop.rs"]


# ----------------------------------------------------------------------------- oracle helpers

def f32_val(bits):
    return struct.unpack(">f", struct.pack(">I", bits))[0]

def f64_val(bits):
    return struct.unpack(">d", struct.pack(">Q", bits))[0]

def f16_val(bits):
    return struct.unpack(">e", struct.pack(">H", bits))[0]

def isnan32(b): return (b >> 23) & 0xff == 0xff and b & 0x7fffff != 0
def isnan64(b): return (b >> 52) & 0x7ff == 0x7ff and b & ((1 << 52) - 1) != 0
def isnan16(b): return (b >> 10) & 0x1f == 0x1f and b & 0x3ff != 0

def same_value(a, b):
    """equal as extended reals, distinguishing the sign of zero."""
    return a == b and math.copysign(1.0, a) == math.copysign(1.0, b)

def half_rne(bits32):
    """expected binary16 pattern for Encoder::f16 of this f32 (None: any NaN of the same sign)."""
    if isnan32(bits32):
        return None
    v = f32_val(bits32)
    try:
        return struct.unpack(">H", struct.pack(">e", v))[0]
    except OverflowError:
        return 0x7c00 | ((bits32 >> 31) << 15)


def judge(op, impl, model, spec):
    w = op.split(" ")
    iw = impl.split(" ")
    good = False
    if w[0] == "dec":
        acc, item = w[1], w[2]
        ib = int(item[:2], 16)
        payload = int(item[2:], 16) if len(item) > 2 else 0
        n = len(item) // 2
        width = {"f16": 16, "f32": 32, "f64": 64}[acc]
        iwidth = {0xf9: 16, 0xfa: 32, 0xfb: 64}[ib]
        if iwidth > width:
            # a wider float is never accepted by a narrower accessor
            good = iw[0] == "err"
        elif iw[0] == "ok" and int(iw[2]) == n:
            r = int(iw[1], 16)
            if acc == "f16":
                width = 32      # Decoder::f16 returns an f32
            src_nan = {16: isnan16, 32: isnan32, 64: isnan64}[iwidth](payload)
            if iwidth == width:
                good = r == payload                         # bit-exact, NaN payloads included
            elif src_nan:
                res_nan = isnan32(r) if width == 32 else isnan64(r)
                good = res_nan and (r >> (width - 1)) == (payload >> (iwidth - 1))
            else:
                sv = f16_val(payload) if iwidth == 16 else f32_val(payload)
                rv = f32_val(r) if width == 32 else f64_val(r)
                good = same_value(sv, rv)
    elif w[0] == "enc":
        m, bits = w[1], int(w[2], 16)
        if m == "f32":
            good = impl == "fa%08x" % bits
        elif m == "f64":
            good = impl == "fb%016x" % bits
        else:
            exp = half_rne(bits)
            if len(impl) == 6 and impl.startswith("f9"):
                r = int(impl[2:], 16)
                good = (r == exp) if exp is not None else (isnan16(r) and (r >> 15) == (bits >> 31))
    if not good:
        return "violation"
    return "ok" if impl == model else "corr"


def item_value(h):
    """(width, bits) of a single float item given as hex, else None."""
    if len(h) == 6 and h.startswith("f9"):
        return 16, int(h[2:], 16)
    if len(h) == 10 and h.startswith("fa"):
        return 32, int(h[2:], 16)
    if len(h) == 18 and h.startswith("fb"):
        return 64, int(h[2:], 16)
    return None


def judge_trait(op, impl, model, spec):
    """`tenc f32|f64 x<bits>`: the Encode impls of the float types (what to_vec, derived types and containers use).
    Whatever width the implementation chooses, the item must denote the identical value; a NaN keeps its width and bits."""
    w = op.split(" ")
    width = 32 if w[1] == "f32" else 64
    bits = int(w[2][1:], 16)
    iv = item_value(impl.split(" ")[0])
    if iv is None:
        return "violation"
    iw_, ib = iv
    if iw_ > width:
        return "violation"
    if iw_ == width:
        good = ib == bits
    elif (isnan32 if width == 32 else isnan64)(bits):
        good = False
    else:
        src = f32_val(bits) if width == 32 else f64_val(bits)
        if {16: isnan16, 32: isnan32}[iw_](ib):
            good = False
        else:
            good = same_value(src, f16_val(ib) if iw_ == 16 else f32_val(ib))
    if not good:
        return "violation"
    return "ok" if impl == model else "corr"


def judge_retry(op, impl, model, spec):
    """`seq <item> <accessor>…`: accessors narrower than the item, repeated, then the right one, on ONE decoder.
    The property speaks about an accessor applied to an item: the first call, at the start of the item, is judged
    by the oracle.  Where a rejected call leaves the decoder is not part of C12 (Decoder::f16 and the integer
    accessors have consumed the initial byte by then, Decoder::f32 / f64 have not): the later calls are compared
    with the model, which fixes the pinned behaviour."""
    w = [x for x in op.split(" ") if not x.startswith("#")]
    iv = item_value(w[1])
    rs = impl.split(";")
    if iv is None or len(rs) != len(w) - 2:
        return "violation"
    if {"f16": 16, "f32": 32, "f64": 64}[w[2]] < iv[0] and not rs[0].startswith("err"):
        return "violation"
    return "ok" if impl == model else "corr"


def judge_blk(op, impl, model, spec):
    iw = impl.split(" ")
    if len(iw) != 4 or iw[0] != "blk" or iw[2] != "bad=0":
        return "violation"          # the harness' reference arithmetic disagrees with the code (first=… names a pattern)
    if "#nomodel" in op:
        return "ok"
    return "ok" if impl == model else "corr"


# ----------------------------------------------------------------------------- generators

def structured_mantissas(rng, n_rand):
    """23-bit mantissas: powers of two ±1, the three patterns around each half-ulp tie (bit 12) for
    even and odd kept mantissas, all-ones tails, and seeded random ones."""
    s = {0, 1, 2, 0x7fffff, 0x7ffffe, 0x400000, 0x400001, 0x3fffff, 0x200000, 0x600000}
    for k in range(23):
        for d in (-1, 0, 1):
            v = (1 << k) + d
            if 0 <= v < (1 << 23):
                s.add(v)
    for q in (0, 1, 2, 3, 0x155, 0x2aa, 0x3fe, 0x3ff, rng.getrandbits(10), rng.getrandbits(10)):
        for t in (0x0000, 0x0001, 0x0fff, 0x1000, 0x1001, 0x1fff):
            s.add((q << 13) | t)
    for _ in range(n_rand):
        s.add(rng.getrandbits(23))
    return sorted(s)


def subnormal_ties(rng, e, n_rand):
    """mantissas of binary32 numbers with biased exponent e (102..112) lying at / next to a rounding
    midpoint of the binary16 subnormal grid."""
    sh = 126 - e
    out = set()
    lo_hm = (1 << 23) >> sh
    hms = {lo_hm, lo_hm + 1, (lo_hm * 2 - 1) if lo_hm else 0, max(lo_hm * 2 - 2, 0)}
    for _ in range(n_rand):
        hms.add(rng.randint(lo_hm, max(lo_hm * 2 - 1, lo_hm)))
    for hm in hms:
        man = (hm << sh) | (1 << (sh - 1))
        for d in (-1, 0, 1):
            m = man + d - (1 << 23)
            if 0 <= m < (1 << 23):
                out.add(m)
    return out


def f32_patterns(rng, tier):
    n_rand_hot = 4000 if tier == "quick" else 10000
    n_rand_cold = 1400 if tier == "quick" else 3000
    pats = []
    for e in range(256):
        hot = 100 <= e <= 145 or e in (0, 1, 254, 255)
        ms = set(structured_mantissas(rng, n_rand_hot if hot else n_rand_cold))
        if 102 <= e <= 112:
            ms |= subnormal_ties(rng, e, 200 if tier == "quick" else 2000)
        for m in sorted(ms):
            for s in (0, 1):
                pats.append((s << 31) | (e << 23) | m)
    # the named boundaries
    for b in (0x33000000, 0x33000001, 0x32ffffff, 0x33800000, 0x337fffff, 0x33800001, 0x33c00000, 0x477fe000, 0x477fefff, 0x477ff000,
              0x477ff001, 0x477fffff, 0x47800000, 0x387fffff, 0x38800000, 0x387fe000, 0x387ff000, 0x00000001, 0x007fffff, 0x00800000,
              0x7f7fffff, 0x7f800000, 0x7f800001, 0x7fc00000, 0x7fbfffff, 0x7fffffff):
        pats.append(b); pats.append(b | 0x80000000)
    return pats


def f64_patterns(rng, tier):
    pats = set()
    # every f32-representable boundary: widen structurally chosen f32 patterns exactly
    for e in range(256):
        for m in (0, 1, 0x400000, 0x7fffff, 0x7ffffe, rng.getrandbits(23)):
            for s in (0, 1):
                b32 = (s << 31) | (e << 23) | m
                if not isnan32(b32):
                    pats.add(struct.unpack(">Q", struct.pack(">d", f32_val(b32)))[0])
    # neighbours of f32-representable values (not representable in f32), exponent boundaries, NaN payloads
    for p in list(pats)[::7]:
        pats.add((p + 1) & (2**64 - 1)); pats.add((p - 1) & (2**64 - 1)); pats.add(p ^ (1 << 28))
    for e in list(range(0, 8)) + list(range(890, 905)) + list(range(1020, 1030)) + list(range(1145, 1155)) + list(range(2040, 2048)):
        for m in (0, 1, (1 << 52) - 1, 1 << 51, (1 << 51) - 1, (1 << 51) + 1, 1 << 29, (1 << 29) - 1, rng.getrandbits(52)):
            for s in (0, 1):
                pats.add((s << 63) | (e << 52) | m)
    for _ in range(20000 if tier == "quick" else 400000):
        pats.add(rng.getrandbits(64))
    return sorted(pats)


def blocks(rng, tier):
    """fblk ops: (impl_op, model_op)."""
    ops = []
    def add(kind, start, count, stride, model=True):
        op = f"fblk {kind} {start & 0xffffffffffffffff:x} {count} {stride}"
        ops.append((op if model else op + " #nomodel", op if model else f"fblk {kind} 0 0 1"))
    hot = [0x33000000, 0x33800000, 0x38800000, 0x477fe000, 0x47800000, 0x00800000, 0x7f800000, 0x00000000]
    if tier == "quick":
        # one sweep of the whole pattern space with an odd stride (2^25 patterns), dense blocks at the boundaries
        for k in range(32):
            add("enc16", rng.getrandbits(32), 1 << 20, 127)
        for b in hot:
            for s in (0, 0x80000000):
                add("enc16", (b | s) - (1 << 15), 1 << 16, 1)
                add("dec64", (b | s) - (1 << 12), 1 << 13, 1)
        for k in range(8):
            add("dec64", rng.getrandbits(32), 1 << 19, 1021)
            add("dec32", rng.getrandbits(32), 1 << 18, 4093)
            add("rt32", rng.getrandbits(32), 1 << 18, 8191)
            add("rt64", rng.getrandbits(64), 1 << 18, 1)
    else:
        # exhaustive against the harness' reference; the model hash on every 16th (enc16) / 128th block
        for blk in range(256):
            add("enc16", blk << 24, 1 << 24, 1, model=(blk % 16 == 7) or blk in (0x33, 0x38, 0x47, 0xb3, 0xb8, 0xc7))
            add("dec64", blk << 24, 1 << 24, 1, model=(blk % 128 == 0x3f))
            add("dec32", blk << 24, 1 << 24, 1, model=False)
        for k in range(64):
            add("enc16", rng.getrandbits(32), 1 << 20, 127)
            add("dec64", rng.getrandbits(32), 1 << 19, 1021)
            add("dec32", rng.getrandbits(32), 1 << 18, 4093)
            add("rt32", rng.getrandbits(32), 1 << 18, 8191)
            add("rt64", rng.getrandbits(64), 1 << 18, 1)
    return ops


def nontrivial(op, impl):
    return impl.startswith("ok") or impl.startswith("err type") or impl[:2] in ("f9", "fa", "fb") or impl.startswith("blk")


def streams(rng, tier):
    out = []
    # ---- all 2^16 half patterns
    ops = []
    for h in range(65536):
        item = "f9%04x" % h
        ops.append(f"dec f16 {item}"); ops.append(f"dec f32 {item}"); ops.append(f"dec f64 {item}")
    # and back: enc f16 of the exact f32 image (computed here, independently of code and model)
    for h in range(65536):
        if isnan16(h):
            img = ((h >> 15) << 31) | 0x7f800000 | ((h & 0x3ff) << 13)
        else:
            img = struct.unpack(">I", struct.pack(">f", f16_val(h)))[0]
        ops.append(f"enc f16 {img:08x}")
    out.append(Stream("half-all-65536", "hcore", ops, judge=judge, nontrivial=nontrivial,
                      rule="all 65 536 binary16 patterns: dec f16/f32/f64 of f9xxxx, and enc f16 of their exact f32 image"))
    # ---- binary32 patterns
    pats = f32_patterns(rng, tier)
    ops = []
    for b in pats:
        ops.append(f"dec f32 fa{b:08x}"); ops.append(f"dec f64 fa{b:08x}")
        ops.append(f"enc f16 {b:08x}"); ops.append(f"enc f32 {b:08x}")
    out.append(Stream("f32-stratified", "hcore", ops, judge=judge, nontrivial=nontrivial,
                      rule="stratified binary32 patterns: bit-exact dec f32, exact widening dec f64, enc f32, enc f16 (RNE)"))
    # ---- binary64 patterns
    ops = []
    for b in f64_patterns(rng, tier):
        ops.append(f"enc f64 {b:016x}"); ops.append(f"dec f64 fb{b:016x}")
    out.append(Stream("f64-roundtrip", "hcore", ops, judge=judge, nontrivial=nontrivial,
                      rule="binary64: f32-representable boundaries and neighbours, exponent boundaries, NaN payloads, random"))
    # ---- narrowing attempts: payloads exactly representable in the narrower type must still be rejected
    ops = []
    for h in list(range(0, 65536, 97)) + [0, 0x8000, 0x3c00, 0x7c00, 0xfc00, 0x7e00, 0x0001, 0x7bff]:
        v = f16_val(h)
        b32 = ((h >> 15) << 31) | 0x7fc00000 if isnan16(h) else struct.unpack(">I", struct.pack(">f", v))[0]
        b64 = struct.unpack(">Q", struct.pack(">d", v))[0]
        ops.append(f"dec f16 fa{b32:08x}"); ops.append(f"dec f16 fb{b64:016x}"); ops.append(f"dec f32 fb{b64:016x}")
    for _ in range(3000 if tier == "quick" else 50000):
        b32 = rng.getrandbits(32); b64 = rng.getrandbits(64)
        ops.append(f"dec f16 fa{b32:08x}"); ops.append(f"dec f16 fb{b64:016x}"); ops.append(f"dec f32 fb{b64:016x}")
    out.append(Stream("no-narrowing", "hcore", ops, judge=judge, nontrivial=nontrivial,
                      rule="dec f32 on fb items, dec f16 on fa/fb items: always a (type) error, also when the value would fit"))
    # ---- the same rules through the serde bridge's float deserializers (deserialize_f32 / deserialize_f64 call the accessors)
    from verifkit import wiregen as _W, typegen as _T
    bops = []
    for h in list(range(0, 65536, 61)) + [0, 0x8000, 0x3c00, 0x7c00, 0xfc00, 0x7e00, 0x0001, 0x7bff]:
        bops += [f"de f32 f9{h:04x}", f"de f64 f9{h:04x}"]
    for b in pats[::(11 if tier == "quick" else 1)]:
        bops += [f"de f32 fa{b:08x}", f"de f64 fa{b:08x}"]
    for b in f64_patterns(rng, tier):
        bops += [f"de f64 fb{b:016x}", f"de f32 fb{b:016x}"]
    for b in [0x7fc00000, 0xffc00000, 0x7f800001, 0x7fc00001, 0x7f800000, 0xff800000, 0x80000000, 0x3fc00000, 1] + [rng.getrandbits(32) for _ in range(30)]:
        bops.append(f"rt f32 f32:{b:08x}")
    for b in [0x7ff8000000000000, 0xfff8000000000000, 0x7ff0000000000001, 0x7ff0000000000000, 0xfff0000000000000, 1 << 63, 0x3ff8000000000000, 1] + [rng.getrandbits(64) for _ in range(30)]:
        bops.append(f"rt f64 f64:{b:016x}")
    def judge_bridge(op, impl, model, spec):
        w = op.split(" ")
        if w[0] == "rt":
            # written at the width of the type, bit for bit, and read back the same
            bits = w[2].split(":")[1]
            exp = ("fa" if w[1] == "f32" else "fb") + bits
            return "ok" if impl == f"{exp} ok {w[2]} {len(exp) // 2}" and impl == model else ("violation" if impl != f"{exp} ok {w[2]} {len(exp) // 2}" else "corr")
        want, item = w[1], w[2]
        width = {"f9": 16, "fa": 32, "fb": 64}[item[:2]]
        bits = int(item[2:], 16)
        iw = impl.split(" ")
        if width > int(want[1:]):
            if iw[0] != "err":
                return "violation"          # a wider float accepted by a narrower deserializer
            return "ok" if impl == model else "corr"
        if iw[0] != "ok" or len(iw) != 3 or int(iw[2]) != len(item) // 2 or not iw[1].startswith(want + ":"):
            return "violation"
        got = int(iw[1].split(":")[1], 16)
        b32 = bits if width == 32 else _T.half_to_f32_bits(bits) if width == 16 else None
        nan = (width == 16 and isnan16(bits)) or (width == 32 and (bits >> 23) & 0xff == 0xff and bits & 0x7fffff)
        if want == "f64" and width == 64:
            exp = bits
        elif want == "f32":
            exp = b32
        else:
            exp = _W.f32_to_f64_bits(b32)
        if nan:
            # a NaN stays a NaN of the same sign (payload rules: the model's, compared below)
            isn = (got >> 23) & 0xff == 0xff and got & 0x7fffff if want == "f32" else (got >> 52) & 0x7ff == 0x7ff and got & ((1 << 52) - 1)
            if not isn or (got >> (31 if want == "f32" else 63)) != (b32 >> 31):
                return "violation"
        elif got != exp:
            return "violation"
        return "ok" if impl == model else "corr"
    # an f32 read behind serde's Content buffer (a flattened struct): the bridge hands the item over at its own width, bit for bit
    from verifkit.props import serde_types as _S
    ftree = _S.parse_type(dict(_S.SERDE_ONLY)["FlatDeep"])
    fd = _S.spec_enc(_S.gen_val(rng, ftree))
    k = fd.find(b"\x61f\xfa")
    cops = []
    if k >= 0:
        for b in [0x7f800001, 0xff800001, 0x7fc00000, 0xffc00000, 0x7fffffff, 0x7f801000, 0x7fa00000, 0x00000001, 0x80000000, 0x3f800001, 0x7f7fffff, 0x7f800000] + \
                 [rng.getrandbits(32) | 0x7f800000 for _ in range(40)] + [rng.getrandbits(32) for _ in range(40)]:
            cops.append(f"de FlatDeep {(fd[:k + 2] + bytes([0xfa]) + b.to_bytes(4, 'big') + fd[k + 7:]).hex()} #f32={b:08x}")
    def judge_content(op, impl, model, spec):
        want = [x for x in op.split(" ") if x.startswith("#f32=")][0][5:]
        if not impl.startswith("ok ") or f"f32:{want}" not in impl:
            return "violation"
        return "ok" if impl == model else "corr"
    from verifkit.props import C17 as _C17
    out.append(Stream("bridge-floats-buffered", "hserde", cops, model_ops=[_C17.model_op(o) for o in cops], judge=judge_content, nontrivial=lambda op, impl: impl.startswith("ok"),
                      rule="de FlatDeep with the f32 field (read through serde's Content buffer) holding NaNs of every kind, signed zero, extremes: the identical bit pattern comes back"))
    out.append(Stream("bridge-floats", "hserde", bops, judge=judge_bridge, nontrivial=nontrivial,
                      rule="de f32|f64 through minicbor-serde on f9 / fa / fb items: bit-exact at the item's own width, exact widening, and a wider item is "
                           "always refused by the narrower deserializer (what serde's visitor would do with a narrowed value never happens)"))
    # ---- the Encode impls of f32 / f64 (to_vec, containers, derived types go through these, not through Encoder::f64)
    ops = []
    for b in pats[::(7 if tier == "quick" else 1)]:
        ops.append(f"tenc f32 x{b:08x}")
    for b in f64_patterns(rng, tier):
        ops.append(f"tenc f64 x{b:016x}")
    out.append(Stream("trait-encode", "hcore", ops, judge=judge_trait, nontrivial=nontrivial,
                      rule="tenc f32|f64: the Encode impls; the item written denotes the identical value (NaN: identical width and bits)"))
    # ---- a rejected narrower accessor, tried again, then the right one: one decoder
    ops = []
    heads16 = [0x3c00, 0x0000, 0x7c00, 0x7e00, 0x0001]
    b64s = [int("fa3f800000000000", 16), int("f93c000000000000", 16), int("f97e00f93c00f93c", 16), int("fa7fc00000fa7fc0", 16),
            int("fbfbfbfbfbfbfbfb", 16), int("3ff0000000000000", 16), 0, int("fa00000000000000", 16)]
    b64s += [(0xf9 << 56) | (h << 40) | rng.getrandbits(40) for h in heads16] + [(0xfa << 56) | rng.getrandbits(56) for _ in range(40)]
    b64s += [rng.getrandbits(64) for _ in range(200 if tier == "quick" else 5000)]
    for b in b64s:
        for accs in ("f32 f32 f64", "f16 f16 f64", "f32 f16 f32 f64", "f16 f32 f32 f32", "f32 f32 f32 f32 f32"):
            ops.append(f"seq fb{b:016x} {accs}")
    b32s = [int("f93c0000", 16), int("f97e0000", 16), int("f9f9f9f9", 16), 0x3f800000, 0] + [(0xf9 << 24) | rng.getrandbits(24) for _ in range(60)]
    b32s += [rng.getrandbits(32) for _ in range(200 if tier == "quick" else 5000)]
    for b in b32s:
        for accs in ("f16 f16 f32", "f16 f16 f64", "f16 f16 f16 f16"):
            ops.append(f"seq fa{b:08x} {accs}")
    out.append(Stream("rejected-then-retried", "hcore", ops, judge=judge_retry, nontrivial=lambda op, impl: "err type" in impl,
                      rule="seq <float item> <narrower accessors> <right accessor> on one decoder: the first call is an error (oracle); "
                           "what the later calls see (the position a rejected call leaves behind) is compared with the model"))
    # ---- several float items behind each other, ONE decoder: every accessor call answers for the item it stands on
    sops = []
    def item(rng_):
        k = rng_.random()
        if k < 0.45:
            b = rng_.choice([0x3ff8000000000000, 0xc004000000000001, 0x7ff0000000000000, 0x8000000000000000, 0x0000000000000001, rng_.getrandbits(64)])
            if (b >> 52) & 0x7ff == 0x7ff and b & ((1 << 52) - 1): b = 0x7ff8000000000000
            return f"fb{b:016x}", 64, b
        if k < 0.8:
            b = rng_.choice([0x3fc00000, 0x80000000, 0x7f800000, 0x00000001, 0x7f7fffff, rng_.getrandbits(32)])
            if (b >> 23) & 0xff == 0xff and b & 0x7fffff: b = 0x3f800000
            return f"fa{b:08x}", 32, b
        h = rng_.choice([0x3e00, 0x0001, 0x7c00, 0xfbff, rng_.getrandbits(16)])
        if isnan16(h): h = 0x3c00
        return f"f9{h:04x}", 16, h
    for _ in range(4000 if tier == "quick" else 80000):
        its = [item(rng) for _ in range(rng.randint(2, 6))]
        accs, exp, pos = [], [], 0
        for hx, width, bits in its:
            a = rng.choice([x for x in ("f16", "f32", "f64") if int(x[1:]) >= width])
            b32 = bits if width == 32 else _T.half_to_f32_bits(bits) if width == 16 else None
            v = bits if (a == "f64" and width == 64) else b32 if a in ("f32", "f16") else _W.f32_to_f64_bits(b32)
            pos += len(hx) // 2
            accs.append(a); exp.append(f"ok {v:0{16 if a == 'f64' else 8}x} {pos}")
        sops.append(f"seq {''.join(h for h, _, _ in its)} {' '.join(accs)} #X={';'.join(exp).replace(' ', '~')}")
    def judge_seq(op, impl, model, spec):
        exp = [x for x in op.split(" ") if x.startswith("#X=")][0][3:].replace("~", " ")
        if impl != exp:
            return "violation"
        return "ok" if impl == model else "corr"
    out.append(Stream("float-sequences", "hcore", sops, judge=judge_seq, nontrivial=lambda op, impl: impl.startswith("ok"),
                      rule="seq <2..6 float items of mixed widths> <a matching or wider accessor each>: one decoder, every call returns the exact value of the item "
                           "it stands on and stops behind it (first item a full double included)"))
    # ---- blocks
    bl = blocks(rng, tier)
    st = Stream("blocks", "hcore", [a for a, _ in bl], model_ops=[b for _, b in bl], judge=judge_blk, nontrivial=nontrivial,
                rule="fblk: blocks of binary32 patterns through Encoder::f16 / Decoder::f64 / Decoder::f32 / round trips; "
                     "bad=0 against the harness' independent reference, hash equal to the model's")
    st.shrinkable = False
    out.append(st)
    # ---- Token::F16 (the token API carries a half as an f32 and writes it through Encoder::f16): same rounding, NaN stays NaN
    tk = []
    nan32 = [0x7f800001, 0xff800001, 0x7f801fff, 0x7f802000, 0x7fc00000, 0xffc00000, 0x7fffffff, 0x7f800400, 0xff801000, 0x7fa00000]
    for b in nan32 + pats[::(41 if tier == "quick" else 5)] + [rng.getrandbits(32) | 0x7f800000 for _ in range(200)]:
        tk.append(f"tokenc f16:x{b:08x}")
    def judge_tok16(op, impl, model, spec):
        bits = int(op.split(" ")[1][5:], 16)
        hx = impl.split(" ")[0]
        if len(hx) != 6 or not hx.startswith("f9"):
            return "violation"
        r = int(hx[2:], 16)
        exp = half_rne(bits)
        good = (r == exp) if exp is not None else (isnan16(r) and (r >> 15) == (bits >> 31))
        if not good:
            return "violation"
        return "ok" if impl == model else "corr"
    out.append(Stream("token-f16", "hcore", tk, judge=judge_tok16, nontrivial=lambda op, impl: impl.startswith("f9"),
                      rule="tokenc f16:<f32 bits>: Token::F16 through Encode for Token: round to nearest even like Encoder::f16, a NaN (payload anywhere, either sign) stays a NaN"))
    from verifkit import dextra
    out.append(dextra.stream(rng, tier, floats_only=True))
    for s in out:
        s.shrinkable = False        # ops are structured (item = initial byte + payload); failing ops are reported as they are
    return out


def replay_streams(rp):
    op = rp.get("original_op") or rp["op"]
    if op.startswith("fblk"):
        s = Stream("replay", "hcore", [op], model_ops=[rp.get("model_op") or op], judge=judge_blk)
        s.shrinkable = False
        return [s]
    if op.startswith("dextra"):
        from verifkit import dextra
        return [dextra.replay(rp)]
    if op.startswith("tokenc"):
        return [s for s in streams(__import__("random").Random(1), "quick") if s.name == "token-f16"][:1] and [Stream("replay", "hcore", [op], judge=[s for s in streams(__import__("random").Random(1), "quick") if s.name == "token-f16"][0].judge)]
    if op.startswith("tenc"):
        return [Stream("replay", "hcore", [op], judge=judge_trait)]
    if op.startswith("seq") and "#X=" in op:
        def j(o, impl, model, spec):
            exp = [x for x in o.split(" ") if x.startswith("#X=")][0][3:].replace("~", " ")
            return "violation" if impl != exp else ("ok" if impl == model else "corr")
        return [Stream("replay", "hcore", [op], judge=j)]
    if op.startswith("seq"):
        return [Stream("replay", "hcore", [op], judge=judge_retry)]
    return [Stream("replay", "hcore", [op], judge=judge)]
