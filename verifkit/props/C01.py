"""C01 — Value round-trip: decode(encode(v)) == v for every built-in codec type.

Rust/Python half of the correspondence (typed harness ops of docs/TYPES_PROTOCOL.md).  The Lean half
(`lean/Minicbor/Types.lean`, `Minicbor.Thm.C01`, driver ops `tenc`/`tdec`) is filled in by the lead:
REQUIRED stays empty until the theorem module exists.
"""
import os
from verifkit.runner import Stream, harness_bin, run_lines
from verifkit import gen, typegen

ID = "C01"
THM_MODULES = ["Minicbor.Thm.C01"]
P = "Minicbor.C01."
REQUIRED = [P + n for n in "roundtrip roundtrip_exact roundtrip_position roundtrip_list optopt_lossy optopt_lossy_general".split()]
PACKAGES = ["hcore"]
DEBUG_TWINS = True
RULE = ("for every concrete instantiation printed by `hcore tlist` (every built-in Encode/Decode impl at least once, nested "
        "combinations): boundary values (all 2^k±3 and width edges 23/24, 255/256, 65535/65536, 2^32-1/2^32, 2^63, 2^64-1 with their "
        "negative images; empty and 1/23/24/255/256-element containers; strings at the length-width edges incl. multi-byte UTF-8; "
        "None/Some; every enum index; float special patterns) plus seeded size-biased random values.  `tenc <type> <value>` gives "
        "the implementation's bytes (compared with the model's), then `tdec <type> <those bytes>`; the property oracle is evaluated "
        "here on the implementation's answer: decoded value text equals the encoded value (floats bitwise, HashSet as set, BinaryHeap "
        "as multiset, HashMap as map) and position == number of bytes.  Never generated (the property's exclusions): Some(None) of an "
        "Option directly in an Option, pre-epoch SystemTime, non-UTF-8 paths, IPv6 flow-info/scope-id.  Non-trivial = implementation "
        "produced bytes / a value; distinct = distinct op lines.")
ASSUMPTIONS = ["model encodeT/decodeT = code is established on the generated values of the registered instantiations only",
               "SystemTime values are limited to offsets below 2^63 s (the platform's SystemTime range)"]

# With VERIF_NO_MODEL=1 a model answer `bad-op` (driver op not implemented yet) is tolerated, so that the
# implementation-vs-oracle half can be exercised before the Lean side exists.  Never set in a real check.
NO_MODEL = os.environ.get("VERIF_NO_MODEL") == "1"

_REG = None


def registry():
    global _REG
    if _REG is None:
        _REG = typegen.load_registry(harness_bin("hcore"))
    return _REG


_BY_NAME = None


def by_name():
    global _BY_NAME
    if _BY_NAME is None:
        _BY_NAME = {rt.name: rt for rt in registry()}
    return _BY_NAME


def vs_model(impl, model):
    """'ok' if the model printed the same line, else 'corr'."""
    if impl == model or (NO_MODEL and model == "bad-op"):
        return "ok"
    return "corr"


def sizes(tier):
    return (150, 200) if tier == "quick" else (5000, None)


def corpus(rng, tier):
    """[(RType, value, value text)] — shared with C07 (same seed => same corpus)."""
    n_random, max_boundary = sizes(tier)
    out = []
    for rt in registry():
        for v, t in typegen.values_for(rng, rt, n_random, max_boundary):
            out.append((rt, v, t))
    # exhaustive sweeps of the small scalar types (16-bit ones and the surrogate gap of char only in the thorough tier)
    sweeps = {"u8": range(256), "i8": range(-128, 128)}
    if tier != "quick":
        sweeps.update({"u16": range(65536), "i16": range(-32768, 32768),
                       "char": list(range(0xd000, 0xd800)) + list(range(0xe000, 0xe800)) + list(range(0x10f800, 0x110000))})
    for rt in registry():
        if rt.name in sweeps:
            have = {t for r, _, t in out if r is rt}
            out += [(rt, v, str(v)) for v in sweeps[rt.name] if str(v) not in have]
    return out


def enc_ops(cps):
    ops = [f"tenc {rt.name} {t}" for rt, _, t in cps]
    mops = [f"tenc {rt.desc_s} {t}" for rt, _, t in cps]
    return ops, mops


def split_enc(line):
    """`<hex> len=<n>` -> (bytes, n) | None"""
    w = line.split(" ")
    if len(w) != 2 or not w[1].startswith("len=") or w[0] in ("err", "ok"):
        return None
    try:
        return (b"" if w[0] == "-" else bytes.fromhex(w[0])), int(w[1][4:])
    except ValueError:
        return None


def judge_enc(op, impl, model, spec):
    if impl == "panic" or impl.startswith("crash"):
        return "violation"
    if impl == "bad-op":
        return "corr"                      # generator / harness disagreement about the value syntax: machinery defect
    if split_enc(impl) is None:
        return "violation"                 # the encoder refused a value inside the property's domain
    return vs_model(impl, model)


def judge_roundtrip(op, impl, model, spec):
    """op = `tdec <rustname> <hex of the implementation's own encoding> #<value text>`"""
    w = op.split(" ")
    rt = by_name()[w[1]]
    nbytes = 0 if w[2] == "-" else len(w[2]) // 2
    val = typegen.parse_value(rt.gdesc, w[3][1:])
    iw = impl.split(" ")
    if len(iw) != 3 or iw[0] != "ok":
        return "violation"
    try:
        got = typegen.parse_value(rt.gdesc, iw[1])
    except (ValueError, IndexError):
        return "violation"
    if not typegen.same_value(rt.gdesc, got, val) or iw[1] != typegen.expected_decode_text(rt.gdesc, val):
        return "violation"
    if int(iw[2]) != nbytes:
        return "violation"
    return vs_model(impl, model)


def dec_streams_from(cps, enc_results, name="roundtrip-tdec"):
    ops, mops = [], []
    for (rt, _, t), r in zip(cps, enc_results):
        if rt.enconly:
            continue
        e = split_enc(r)
        if e is None:
            continue                        # reported by the tenc stream
        h = gen.hexb(e[0])
        ops.append(f"tdec {rt.name} {h} #{t}")
        mops.append(f"tdec {rt.desc_s} {h}")
    st = Stream(name, "hcore", ops, model_ops=mops, judge=judge_roundtrip,
                nontrivial=lambda op, impl: impl.startswith("ok "),
                rule="tdec <type> <bytes the implementation produced for the value after #>: value text and position judged by the property oracle")
    st.shrinkable = False
    return st


def judge_token_roundtrip(op, impl, model, spec):
    """op = `tokdec <hex of the implementation's encoding of one token> #<token>`"""
    w = op.split(" ")
    nbytes = len(w[1]) // 2
    iw = impl.split(" ")
    if len(iw) != 3 or iw[1] != "end" or iw[2] != f"pos={nbytes}" or "," in iw[0]:
        return "violation"
    if not typegen.same_token(iw[0], w[2][1:]):
        return "violation"
    return vs_model(impl, model)


def token_streams(rng, tier):
    """Token is a built-in codec type too: one token -> Encoder::tokens -> Decoder::tokens() gives one equal token."""
    toks = typegen.boundary_tokens(lossy_f16=False)
    toks += [f"f16:x{typegen.half_to_f32_bits(h):08x}" for h in (range(0, 65536, 97) if tier == "quick" else range(65536))]
    toks += [typegen.rand_token(rng) for _ in range(3000 if tier == "quick" else 60000)]
    toks = list(dict.fromkeys(toks))
    eops = [f"tokenc {t}" for t in toks]
    s1 = Stream("token-enc", "hcore", eops, judge=judge_enc, nontrivial=lambda op, impl: split_enc(impl) is not None,
                rule="tokenc <one token>: every Token variant at its boundary payloads (F16 payloads = images of half patterns, "
                     "the encoder being documented as lossy otherwise) plus seeded random tokens")
    enc = run_lines(harness_bin("hcore"), eops)
    dops = [f"tokdec {e.split(' ')[0]} #{t}" for t, e in zip(toks, enc) if split_enc(e) is not None]
    s2 = Stream("token-roundtrip", "hcore", dops, judge=judge_token_roundtrip,
                nontrivial=lambda op, impl: " end " in impl,
                rule="tokdec <bytes the implementation wrote for the token after #>: exactly one token, equal (integers by numeric "
                     "value, floats bitwise), position == number of bytes")
    s1.shrinkable = s2.shrinkable = False
    # Token as an ELEMENT of the built-in containers: the trait impls Encode / Decode / CborLen for Token (not Encoder::tokens / the Tokenizer)
    cops, cmops = [], []
    singles = [t for t in toks[:400]] + ["break", "null", "undefined", "beginarray", "beginmap", "beginbytes", "beginstring", "array:0", "map:3", "tag:55799", "simple:255"]
    def add(kind, ts):
        cops.append(f"tokcont {kind} {','.join(ts) or '-'}")
        body = [x for i, t in enumerate(ts) for x in (f"u8:{i}", t)] if kind == "map" else list(ts)
        cmops.append(f"tokenc {','.join(body) or '-'}")
    for t in singles:
        for kind in ("vec", "boxed", "arr"):
            add(kind, [t])
        add("tup", [t, "u8:7"]); add("tup", ["u8:7", t]); add("map", ["u8:1", t]); add("deque", [t, t]); add("list", ["break", t, "break"])
    for _ in range(1500 if tier == "quick" else 30000):
        n = rng.choice([0, 1, 2, 2, 3, 3, 4, 5, 8, 23, 24, 25])
        ts = [rng.choice(singles) if rng.random() < 0.6 else typegen.rand_token(rng) for _ in range(n)]
        ts = [t for t in ts if not t.startswith("f16:") or t in toks]
        kinds = ["vec", "deque", "list", "map"] + (["arr"] if 1 <= len(ts) <= 4 else []) + (["tup"] if 2 <= len(ts) <= 3 else [])
        add(rng.choice(kinds), ts)
    def judge_cont(op, impl, model, spec):
        kind, n = op.split(" ")[1], (0 if op.split(" ")[2] == "-" else len(op.split(" ")[2].split(",")))
        iw, mw = impl.split(" "), model.split(" ")
        if len(iw) != 4 or len(mw) != 2:
            return "violation" if len(iw) != 4 else "corr"
        body = b"" if mw[0] == "-" else bytes.fromhex(mw[0])
        exp = (b"" if kind == "boxed" else gen.head(5 if kind == "map" else 4, n)) + body
        if iw[0] != (exp.hex() or "-") or iw[1] != f"len={len(exp)}" or iw[2] != "rt=ok" or iw[3] != f"pos={len(exp)}":
            return "violation"
        return "ok"
    s3 = Stream("token-containers", "hcore", cops, model_ops=cmops, judge=judge_cont, nontrivial=lambda op, impl: " rt=ok " in impl,
                rule="tokcont <container> <tokens>: Vec / VecDeque / LinkedList / [Token; 1..4] / tuples / BTreeMap<u8, Token> / Box<Token> of tokens (break, "
                     "indefinite openers, null included): bytes == container head ++ the model's encoding of the tokens, minicbor::len == bytes, decode as "
                     "the same type gives equal tokens (integers by value) and stops at the end")
    s3.shrinkable = False
    return [s1, s2, s3]


def streams(rng, tier):
    cps = corpus(rng, tier)
    ops, mops = enc_ops(cps)
    s1 = Stream("roundtrip-tenc", "hcore", ops, model_ops=mops, judge=judge_enc,
                nontrivial=lambda op, impl: split_enc(impl) is not None, rule=RULE)
    s1.shrinkable = False
    enc = run_lines(harness_bin("hcore"), ops)
    # the same encodings with failed to_vec / to_vec_with calls in between, on the thread the operations run on: what a failed call leaves
    # behind (a scratch buffer, a counter) must not show in the bytes of the next value
    fops, fmops, k = [], [], 0
    step = max(1, len(ops) // 120000)          # the thorough corpus is ~10^6 values: a sample of it is enough for what precedes a call
    for i, (o, m) in enumerate(zip(ops[::step], mops[::step])):
        if len(o) > 500:
            continue                  # long operations run on a thread of their own
        if i % 3 == 0:
            fops.append(f"givesup {[0, 1, 22, 300, 70000][k % 5]}"); fmops.append("nop"); k += 1
        fops.append(o); fmops.append(m)
    def judge_after(op, impl, model, spec):
        if op.startswith("givesup"):
            return "ok" if impl == "err" else "violation"
        r = judge_enc(op, impl, model, spec)
        # bytes that differ from the model's here, while the same operation agrees with the model in `roundtrip-tenc`, differ because of
        # what came before on the thread: a concrete failing history (the replay puts the failed calls in front of the operation)
        return "violation" if r == "corr" and split_enc(impl) is not None else r
    s0 = Stream("encodings-after-failed-calls", "hcore", fops, model_ops=fmops, judge=judge_after,
                nontrivial=lambda op, impl: split_enc(impl) is not None,
                rule="tenc <type> <value> with `givesup <k>` (a to_vec and a to_vec_with that fail after k+2 bytes) before every third one, all on one thread: "
                     "the bytes and the length are the model's, whatever failed before")
    s0.shrinkable = False
    return [s1, dec_streams_from(cps, enc), s0] + token_streams(rng, tier)


# ----------------------------------------------------------------------------- helper for C02 / C04

def judge_prefix(op, impl, model, spec):
    """strict prefix of a valid encoding of a value of the type: must fail with the end-of-input class."""
    iw = impl.split(" ")
    if not (len(iw) == 3 and iw[0] == "err" and iw[1] == "eoi"):
        return "violation"
    return vs_model(impl, model)


def judge_mutated(op, impl, model, spec):
    """op = `tdec <rustname> <hex> #<kind>[=<value text>]`.  No panic; a widened head denotes the same data item."""
    if impl == "panic" or impl.startswith("crash"):
        return "violation"
    w = op.split(" ")
    ann = w[3][1:]
    iw = impl.split(" ")
    if len(iw) != 3 or iw[0] not in ("ok", "err") or int(iw[2]) > (0 if w[2] == "-" else len(w[2]) // 2):
        return "violation"                 # malformed answer or position beyond the input
    if ann.startswith("widen="):
        rt = by_name()[w[1]]
        val = typegen.parse_value(rt.gdesc, ann[6:])
        nbytes = len(w[2]) // 2
        if impl != f"ok {typegen.expected_decode_text(rt.gdesc, val)} {nbytes}":
            return "violation"
    return "ok" if impl == model or (NO_MODEL and model == "bad-op") else "violation"


def canon_sorted(op, line):
    """Stream canonicaliser for decode results on input that did not come from the encoder: BTreeSet / BTreeMap hold
    their elements sorted and de-duplicated, the model (descriptor `seq` / `map`) prints them in input order."""
    w = line.split(" ")
    if len(w) != 3 or w[0] != "ok":
        return line
    rt = by_name().get(op.split(" ")[1])
    if rt is None or not typegen.has_sorted_collection(rt.gdesc):
        return line
    try:
        v = typegen.canon_collections(rt.gdesc, typegen.parse_value(rt.gdesc, w[1]))
    except (ValueError, IndexError):
        return line
    return f"ok {typegen.show_value(rt.gdesc, v)} {w[2]}"


def typed_mutation_streams(rng, tier, per_type=None, max_len=400):
    """`tdec` streams on truncated / mutated encodings of valid values, for C02 and C04.
    Returns [prefix stream, mutation stream]; default judges: strict prefixes must give `err eoi`; mutated encodings must not
    panic, a widened head must still decode to the same value, and everything must equal the model line."""
    per_type = per_type or (8 if tier == "quick" else 120)
    cps = []
    for rt in registry():
        if rt.enconly:
            continue
        vals = typegen.values_for(rng, rt, per_type, 3 * per_type)
        rng.shuffle(vals)
        cps += [(rt, v, t) for v, t in vals[:per_type]]
    enc = run_lines(harness_bin("hcore"), enc_ops(cps)[0])
    pops, pmops, mops_, mmops = [], [], [], []
    for (rt, v, t), r in zip(cps, enc):
        e = split_enc(r)
        if e is None or len(e[0]) > max_len:
            continue
        b = e[0]
        for p in typegen.prefixes(b, 48 if tier == "quick" else 400, rng):
            pops.append(f"tdec {rt.name} {gen.hexb(p)} #prefix")
            pmops.append(f"tdec {rt.desc_s} {gen.hexb(p)}")
        for kind, m in typegen.mutate(rng, b):
            ann = f"widen={t}" if kind == "widen" else kind
            mops_.append(f"tdec {rt.name} {gen.hexb(m)} #{ann}")
            mmops.append(f"tdec {rt.desc_s} {gen.hexb(m)}")
    # [seconds, nanoseconds] pairs no encoder writes: nanoseconds of a second and more carried into seconds at the top of their range
    U64 = 2**64 - 1
    for rt in registry():
        if rt.enconly or rt.desc_s not in ("duration", "systime", "opt(duration)", "seq(duration)"):
            continue
        for secs in [0, 1, 2**32, 2**63 - 1, 2**63] + [U64 - k for k in range(6)]:
            for ns in (0, 1, 999999999, 10**9, 10**9 + 1, 1999999999, 2 * 10**9, 2999999999, 3 * 10**9, 3999999999, 4 * 10**9, 2**32 - 1):
                for doc in (b"\x82" + gen.head(0, secs) + gen.head(0, ns), b"\x9f" + gen.head(0, secs) + gen.head(0, ns, 8) + b"\xff"):
                    if rt.desc_s == "seq(duration)":
                        doc = b"\x82" + doc + b"\x82\x01\x02"
                    mops_.append(f"tdec {rt.name} {gen.hexb(doc)} #carry")
                    mmops.append(f"tdec {rt.desc_s} {gen.hexb(doc)}")
    # the fixed-arity array types (Duration, SystemTime, addresses, ranges) given arrays of hundreds of elements: whatever counts the elements counts past 255
    for rt in registry():
        if rt.enconly or rt.desc_s not in ("duration", "systime", "opt(duration)"):
            continue
        for n in (3, 254, 255, 256, 257, 258, 300, 511, 512, 513, 1000):
            body = b"\x01\x02" + b"\x03" * (n - 2)
            for doc in (gen.head(4, n) + body, b"\x9f" + body + b"\xff", gen.head(4, n) + body[:-1]):
                mops_.append(f"tdec {rt.name} {gen.hexb(doc)} #long")
                mmops.append(f"tdec {rt.desc_s} {gen.hexb(doc)}")
    # sets and maps from arrays / maps that repeat an element / a key (in the same or another head width): well-formed input, the collection's own
    # insert decides (the later key wins), the item is consumed to its end
    for rt in registry():
        if rt.enconly:
            continue
        if rt.name in ("BTreeSet<u8>", "BTreeSet<i32>", "HashSet<i32>", "HashSet<u64>"):
            docs = ["83010201", "9f0101ff", "8218010" + "1", "840505050" + "5", "8301190001" + "01", "9f01021801ff", "82" + "1817" + "17"]
        elif rt.name in ("BTreeMap<u8,u8>",):
            docs = ["a201020103", "bf01020103ff", "a2180102" + "0103", "a301010102" + "0103", "a2010201" + "02"]
        else:
            continue
        for doc in docs:
            mops_.append(f"tdec {rt.name} {doc} #repeat")
            mmops.append(f"tdec {rt.desc_s} {doc}")
    s1 = Stream("typed-prefix", "hcore", pops, model_ops=pmops, judge=judge_prefix,
                nontrivial=lambda op, impl: impl.startswith("err eoi"),
                rule="tdec <type> <strict prefix of a valid encoding of a value of that type>: must be `err eoi`")
    s2 = Stream("typed-mutated", "hcore", mops_, model_ops=mmops, judge=judge_mutated, canon=canon_sorted,
                rule="tdec <type> <valid encoding with one mutation: widened head, length +-1 / huge, definite<->indefinite, "
                     "major type swapped, break inserted, item substituted, bit flipped, byte appended>")
    s1.shrinkable = s2.shrinkable = False
    return [s1, s2]


JUDGES = {"encodings-after-failed-calls": judge_enc, "token-enc": judge_enc, "token-roundtrip": judge_token_roundtrip, "roundtrip-tenc": judge_enc, "roundtrip-tdec": judge_roundtrip, "typed-prefix": judge_prefix, "typed-mutated": judge_mutated}


def replay_streams(rp):
    if rp.get("stream", "").startswith("encodings-after-failed-calls"):
        # the recorded operation shows the defect only after failed calls on its thread: they are replayed in front of it
        pre = [f"givesup {k}" for k in (0, 1, 22, 300, 70000)]
        st = Stream("replay", rp.get("binary", "hcore"), pre + [rp["op"]], model_ops=["nop"] * len(pre) + [rp.get("model_op") or rp["op"]],
                    judge=lambda op, impl, model, spec: ("ok" if impl == "err" else "violation") if op.startswith("givesup") else judge_enc(op, impl, model, spec))
        st.shrinkable = False
        return [st]
    j = JUDGES.get(rp.get("stream"), judge_enc if rp["op"].startswith("tenc") else judge_roundtrip)
    st = Stream("replay", rp.get("binary", "hcore"), [rp["op"]], model_ops=[rp.get("model_op") or rp["op"]], judge=j,
                canon=canon_sorted if rp.get("stream") == "typed-mutated" else None)
    st.shrinkable = False
    return [st]
