"""C17 — the serde bridge round-trips the serde data model with the documented representation."""
from verifkit.runner import Stream
from verifkit import gen
from verifkit.props import serde_types as T

ID = "C17"
THM_MODULES = ["Minicbor.Thm.C17", "Minicbor.Thm.Narrow"]
P = "Minicbor.C17."
REQUIRED = [P + n for n in """ser_eq_encW toW_valid ser_wellformed ser_representation
roundtrip_plain roundtrip_content roundtrip_partial roundtrip_statement_false flatChar_not_good
fromC_rt flat_rt itag_rt atag_rt untagged_rt hasT_ok
option_in_option_counterexample char_behind_content_counterexample unit_behind_content_counterexample content_roundtrip_examples
unknown_struct_fields_ignored indefinite_seq_accepted indefinite_map_accepted indefinite_struct_accepted
de_any_consumes_one_item de_any_on_ser roundtrip_skipped_fields""".split()] + \
           ["Minicbor.NarrowThm.narrow_widen", "Minicbor.NarrowThm.narrow_widen_fields", "Minicbor.NarrowThm.rneShift_exact",
            "Minicbor.NarrowThm.narrow_rne", "Minicbor.NarrowThm.f64ToF32_lt"]
PACKAGES = ["hserde", "hcore"]
DEBUG_TWINS = True
RULE = ("rt <type> <value>: ~100 serde types (std + derived: every Serializer/Deserializer method, externally / internally / adjacently tagged, "
        "untagged, flatten, bytes newtype, unknown-length seq/map, fields skipped at run time by skip_serializing_if in structs and struct variants, "
        "alone and inside Vec / tuple / struct) x type-directed values (integers dense at width edges 2^k±3, containers of "
        "0,1,2,3,23,24,25,255,256 elements, bulk documents with 130 / 300 (thorough: 127..1000) compound elements per container, NaNs, char boundaries).  The orchestrator re-encodes the value with its own encoder of the *documented* "
        "representation and checks: bytes equal, one well-formed item (own RFC 8949 parser), de(ser v) == v, consumed == len.  "
        "de <type> <hex>: the same values re-framed by the orchestrator (wider heads, definite<->indefinite seq/map/struct maps, unknown extra "
        "struct fields, shuffled fields: all must be accepted with the same value; chunked strings / indefinite tuples: never a different value), "
        "every strict prefix class and random byte mutations (model comparison).  Non-trivial: the implementation answered ok.")
ASSUMPTIONS = ["serde 1.0.229 / serde_derive (derive output, Content buffer, std visitors) are modelled, not verified",
               "the harness rebuilds every value from the op text through serde and refuses to run unless its Serializer trace equals that text"]
TRUSTED_EXTRA = ["verifkit/props/serde_types.py: type table (harness type name -> model descriptor), spec encoder, reference parser"]

ALL = dict(T.SERDE_ONLY)
for _n, _d in T.SHARED.items():
    ALL[_n] = T.native_to_serde(_d)
TREES = {n: T.parse_type(d) for n, d in ALL.items()}
KNOWN_IDS = {"K6": "K6", "K7": "K7"}

MUST = {"wide": dict(wide=True), "flip": dict(flip=0.5), "extra": dict(extra=0.8), "shuffle": dict(shuffle=1.0),
        "mixed": dict(wide=True, flip=0.3, extra=0.4, shuffle=0.3)}
FREE = {"fnarrow": dict(fnarrow=0.9), "chunk": dict(chunk=0.6), "fliptup": dict(fliptup=True, flip=0.5), "all": dict(wide=True, flip=0.4, fliptup=True, chunk=0.3, extra=0.3)}


def model_op(op):
    w = op.split(" ")
    w[1] = ALL[w[1]]
    return " ".join(x for x in w if not x.startswith("#"))


def classify(t, v, content_first=False):
    cls = T.known_classes(t, v, content_first)
    if "K6" in cls: return ("known", "K6")
    if "K7" in cls: return ("known", "K7")
    if "OO" in cls: return "excluded"
    return None


def judge_rt(op, impl, model, spec):
    w = op.split(" ")
    t = TREES[w[1]]
    v = T.parse_val(w[2])
    iw = impl.split(" ")
    if iw[0] in ("bad-op", "panic", "crash") or iw[0].startswith("bad-"):
        return "violation" if iw[0] in ("panic", "crash") else "corr"
    want = T.spec_enc(v)
    # the documented representation, one well-formed item
    if iw[0] != want.hex() or not T.wellformed_one(want):
        return "violation"
    good = len(iw) == 4 and iw[1] == "ok" and iw[2] == w[2] and int(iw[3]) == len(want)
    if not good:
        c = classify(t, v)
        if c is None:
            return "violation"
        if impl != model:
            return "corr"
        return "ok" if c == "excluded" else c
    return "ok" if impl == model else "corr"


def judge_rt3(op, impl, model, spec):
    w = op.split(" ")
    v = T.parse_val(w[2])
    want = T.spec_enc(v)
    mw = model.split(" ")
    if not (len(mw) == 4 and mw[1] == "ok" and mw[2] == w[2]):
        return "ok"                     # a value that does not round-trip on its own (K6 / K7 / the Option-in-Option exclusion): judged by `roundtrip`
    iw = impl.split(" ")
    if len(iw) != 5 or iw[0] != want.hex() * 3 or iw[1] != w[2] or iw[3] != w[2] or iw[2] not in (w[2], "N") or int(iw[4]) != 3 * len(want):
        return "violation"
    if iw[2] == "N" and want != b"\xf6":
        return "violation"
    return "ok"


def judge_de(op, impl, model, spec):
    w = op.split(" ")
    t = TREES[w[1]]
    ann = {x[1:].split("=", 1)[0]: x[1:].split("=", 1)[1] for x in w if x.startswith("#") and "=" in x}
    mode = ann.get("m", "")
    iw = impl.split(" ")
    if iw[0] in ("panic", "crash"):
        return "violation"
    if "v" in ann:
        v = T.parse_val(ann["v"])
        n = 0 if w[2] == "-" else len(w[2]) // 2
        good = len(iw) == 3 and iw[0] == "ok" and iw[1] == ann["v"] and int(iw[2]) == n
        if mode in MUST:
            if not good:
                c = classify(t, v, content_first=mode in ("shuffle", "mixed"))
                if c is None:
                    return "violation"
                if impl != model:
                    return "corr"
                return "ok" if c == "excluded" else c
        elif iw[0] == "ok" and not good:
            # an alternative framing is never read as a *different* value
            c = classify(t, v, content_first=True)
            if c is None:
                return "violation"
    if model == "unmodelled" and mode in ("mut", "trunc"):
        return "ok"          # the model declines (serde's f64->f32 coercion behind Content); only random mutations can get there
    return "ok" if impl == model else "corr"


def n_values(name, tier):
    base = 60 if tier == "quick" else 1200
    t = TREES[name]
    return base * 2 if t[0] in ("int", "char", "f32", "f64") else base


def streams(rng, tier):
    rt_ops, de_ops, hostile = [], [], []
    for name in sorted(ALL):
        t = TREES[name]
        seen = set()
        for i in range(n_values(name, tier)):
            v = T.gen_val(rng, t)
            s = T.show_val(v)
            if s in seen or len(s) > 6000:
                continue
            seen.add(s)
            rt_ops.append(f"rt {name} {s}")
            if i % 3 == 0:
                # unknown fields of a struct read directly are skipped whatever they hold; behind serde's Content buffer (flatten, internally /
                # adjacently tagged, untagged) they go through deserialize_any, which only takes the bridge's data model: no raw extras there
                raw_ok = not any(x in ALL[name] for x in ("fl{", "it(", "at(", "un{"))
                for m, o in MUST.items():
                    o = dict(o, raw_extras=raw_ok)
                    h = T.spec_enc(v, dict(o, rng=rng)).hex()
                    de_ops.append(f"de {name} {h} #m={m} #v={s}")
                for m, o in FREE.items():
                    h = T.spec_enc(v, dict(o, rng=rng)).hex()
                    de_ops.append(f"de {name} {h} #m={m} #v={s}")
            if i % 6 == 0:
                b = T.spec_enc(v)
                cuts = range(len(b)) if len(b) <= 24 else sorted({0, 1, 2, len(b) // 3, len(b) // 2, len(b) - 2, len(b) - 1})
                for c in cuts:
                    hostile.append(f"de {name} {T.hx(b[:c])} #m=trunc")
                for _ in range(4):
                    if not b: break
                    mb = bytearray(b)
                    mb[rng.randrange(len(mb))] = rng.choice([0x00, 0x17, 0x18, 0x1b, 0x20, 0x38, 0x3b, 0x40, 0x5f, 0x60, 0x7f, 0x80, 0x9f, 0xa0, 0xa1,
                                                             0xbf, 0xc0, 0xf4, 0xf6, 0xf7, 0xf9, 0xfa, 0xfb, 0xff, rng.getrandbits(8)])
                    hostile.append(f"de {name} {T.hx(bytes(mb))} #m=mut")
    # bulk documents: hundreds of tuples / fixed arrays / options / structs / enum values in ONE document (state that a
    # (de)serialiser keeps per document, e.g. a depth or budget counter, only shows after many nested values)
    for name in sorted(ALL):
        t = TREES[name]
        if not T.has_container(t):
            continue
        for count in ((130, 300) if tier == "quick" else (127, 128, 129, 255, 256, 257, 300, 1000)):
            v = T.gen_bulk(rng, t, count)
            s = T.show_val(v)
            if len(s) > 40000 or len(T.spec_enc(v)) > 8192:        # the model driver is quadratic in the document size
                continue
            rt_ops.append(f"rt {name} {s}")
            for m in ("flip", "mixed"):
                h = T.spec_enc(v, dict(MUST[m], rng=rng)).hex()
                de_ops.append(f"de {name} {h} #m={m} #v={s}")
    # floats of another width (and NaNs) where a float is read, directly and through the Content buffer
    for f32 in T.INTERESTING_F32 + [0x7f800001, 0xff800001, 0xfffef5a9, 0x7fc00001]:
        for name in ("Untagged", "f64", "f32", "vec_untagged"):
            h = "fa%08x" % f32
            hostile.append(f"de {name} {'81' + h if name == 'vec_untagged' else h} #m=mut")
    # an f64 item where an f32 is read behind the Content buffer (flatten): serde's visitor narrows it with `as f32`
    fd = T.spec_enc(T.gen_val(rng, TREES["FlatDeep"]))
    k = fd.find(b"\x61f\xfa")
    if k >= 0:
        for b64 in (0x3ff0000000000000, 0x3ff0000010000000, 0x3ff0000030000000, 0x7fefffffffffffff, 0x36a0000000000000, 0x3690000000000001,
                    0x7ff8000000000001, 0xfff0000000000000, 0x47efffffe0000000, 0x47effffff0000000, 0x8000000000000001):
            hostile.append(f"de FlatDeep {T.hx(fd[:k + 2] + bytes([0xfb]) + b64.to_bytes(8, 'big') + fd[k + 7:])} #m=mut")
    for f16 in (0x0000, 0x8000, 0x3c00, 0x7c00, 0xfc00, 0x7e00, 0x7c01, 0xfc01, 0x0001, 0x7bff):
        for name in ("Untagged", "f64", "f32"):
            hostile.append(f"de {name} f9{f16:04x} #m=mut")
    # every integer type at every width edge
    for kind, (lo, hi) in T.INT_KINDS.items():
        for k in range(0, 65):
            for d in (-2, -1, 0, 1):
                for x in ((1 << k) + d, -(1 << k) + d):
                    if lo <= x <= hi:
                        rt_ops.append(f"rt {kind} {kind}:{x}")
    rt_ops = list(dict.fromkeys(rt_ops))
    # failed to_vec calls in between (a Serialize impl that gives up after k elements): nothing of them may show in the next value's bytes
    mixed, k = [], 0
    for i, o in enumerate(rt_ops):
        if i % 29 == 7:
            mixed.append(f"serfail {[0, 1, 3, 24, 300][k % 5]} bridge"); k += 1
        mixed.append(o)
    def judge_rt2(op, impl, model, spec):
        if op.startswith("serfail"):
            return "ok" if impl == "err | -" else "violation"
        return judge_rt(op, impl, model, spec)
    s1 = Stream("roundtrip", "hserde", mixed, model_ops=["nop" if o.startswith("serfail") else model_op(o) for o in mixed], judge=judge_rt2, rule=RULE)
    s2 = Stream("reframed", "hserde", de_ops, model_ops=[model_op(o) for o in de_ops], judge=judge_de,
                rule="de <type> <re-framed encoding> #m=<mode> #v=<expected value>")
    s3 = Stream("hostile", "hserde", hostile, model_ops=[model_op(o) for o in hostile], judge=judge_de,
                rule="de <type> <strict prefix | one-byte mutation of an encoding>: model comparison, no panic",
                nontrivial=lambda op, impl: impl.startswith("err"))
    s4 = narrow_stream(rng, tier)
    # ONE Serializer / Deserializer for three values in a row: value, Some(value), value
    r3 = ["rt3" + o[2:] for o in rt_ops[::3] if len(o) < 3000]
    # borrowing field types in positions that go through serde's Content buffer (untagged enum, flattened struct, internally tagged enum): a
    # definite-length string reaches them as a borrow from the input, whatever stands around it
    bops = []
    for txt in (b"", b"a", b"hi", "\u00e9\u20ac".encode(), b"x" * 23, b"y" * 24, b"z" * 300):
        t = gen.head(3, len(txt)) + txt
        bops.append(f"sdeb untagged {t.hex()} #D=ok~S:{gen.hexb(txt)}~{len(t)}")
        doc = b"\xa2\x62id\x07\x64name" + t
        bops.append(f"sdeb flatten {doc.hex()} #D=ok~7,{gen.hexb(txt)}~{len(doc)}")
        doc = b"\xbf\x64name" + t + b"\x62id\x18\xff\xff"
        bops.append(f"sdeb flatten {doc.hex()} #D=ok~255,{gen.hexb(txt)}~{len(doc)}")
        doc = b"\xa2\x61t\x61V\x61s" + t
        bops.append(f"sdeb itag {doc.hex()} #D=ok~V:{gen.hexb(txt)}~{len(doc)}")
    for bs in (b"\xff", b"\xc3\x28", b"\x80" * 24):
        t = gen.head(2, len(bs)) + bs
        bops.append(f"sdeb untagged {t.hex()} #D=ok~B:{bs.hex()}~{len(t)}")
    bops += ["sdeb untagged 05 #D=ok~N:5~1", "sdeb untagged 1bffffffffffffffff #D=ok~N:18446744073709551615~9", "sdeb itag a261746157616e05 #D=ok~W:5~8",
             "sdeb untagged f5 #D=err", "sdeb flatten a162696407 #D=err"]
    s6 = Stream("borrowed-behind-the-content-buffer", "hserde", bops, model_ops=["nop"] * len(bops),
                judge=lambda op, impl, model, spec: "ok" if impl == [a[3:] for a in op.split(" ") if a.startswith("#D=")][0].replace("~", " ") else "violation",
                rule="sdeb: &str / &[u8] fields of an untagged enum, a flattened struct and an internally tagged enum deserialised through the bridge: the value, borrowed from the input")
    s6.shrinkable = False
    s5 = Stream("one-serializer-three-values", "hserde", r3, model_ops=["rt" + o[3:] for o in r3], judge=judge_rt3,
                nontrivial=lambda op, impl: len(impl.split(" ")) == 5,
                rule="rt3 <type> <value>: value, Some(value), value through ONE Serializer and back through ONE Deserializer: three times the bytes of the "
                     "value alone (the model's `rt`), three times the value, the end position")
    for s in (s1, s2, s3, s4, s5):
        s.shrinkable = False
    return [s1, s2, s3, s4, s5, s6]


def f64_narrow_patterns(rng, tier):
    """binary64 patterns around everything `as f32` distinguishes: every binary32 value widened, its neighbours, the exact
    midpoints between neighbouring binary32 values (ties), the overflow threshold, the binary32 subnormal range, NaN payloads"""
    import struct
    out = set()
    def w(b32):                       # exact widening of a finite binary32 pattern
        return struct.unpack(">Q", struct.pack(">d", struct.unpack(">f", struct.pack(">I", b32))[0]))[0]
    f32s = set(T.INTERESTING_F32) | {0, 1, 2, 0x007fffff, 0x00800000, 0x00800001, 0x3f800000, 0x3f800001, 0x7f7fffff, 0x7f7ffffe, 0x33800000, 0x00400000}
    for _ in range(300 if tier == "quick" else 20000):
        f32s.add(rng.getrandbits(31))
    for b in f32s:
        if (b >> 23) & 0xff == 0xff:
            continue
        for sign in (0, 1 << 63):
            x = w(b)
            for d in (-2, -1, 0, 1, 2):
                if 0 <= x + d < (0x7ff << 52):
                    out.add(sign | (x + d))
            if b + 1 < 0x7f800000:
                y = w(b + 1)
                mid = (x + y) // 2          # exponents of neighbours differ by at most one: the integer midpoint of the patterns is the tie
                if (x + y) % 2 == 0:
                    for d in (-1, 0, 1):
                        out.add(sign | (mid + d))
    # overflow threshold: 2^128 - 2^103 is the tie between the largest finite binary32 and 2^128
    thr = struct.unpack(">Q", struct.pack(">d", 2.0 ** 128 - 2.0 ** 103))[0]
    for d in range(-3, 4):
        out.add(thr + d); out.add((1 << 63) | (thr + d))
    for e in (0, 1, 0x380, 0x381, 0x36a, 0x369, 0x368, 0x47e, 0x47f, 0x7fe):
        for m in (0, 1, (1 << 52) - 1, 1 << 51, (1 << 29) - 1, 1 << 28, (1 << 28) + 1, (1 << 29) + (1 << 28), rng.getrandbits(52)):
            out.add((e << 52) | m); out.add((1 << 63) | (e << 52) | m)
    for m in (1, 1 << 51, (1 << 51) + 1, (1 << 29), (1 << 29) - 1, (1 << 52) - 1, 1 << 28, rng.getrandbits(52) | 1):
        out.add((0x7ff << 52) | m); out.add((0xfff << 52) | m)
    out |= {0x7ff << 52, 0xfff << 52}
    for _ in range(2000 if tier == "quick" else 200000):
        out.add(rng.getrandbits(64))
    return sorted(out)


def judge_narrow(op, impl, model, spec):
    import struct
    w = op.split(" ")[1:]
    rs = impl.split(",")
    if len(rs) != len(w):
        return "violation"
    for a, r in zip(w, rs):
        b = int(a, 16)
        e, m = (b >> 52) & 0x7ff, b & ((1 << 52) - 1)
        if e == 0x7ff and m:
            continue                      # NaN payloads: compared with the model only
        try:
            want = struct.unpack(">I", struct.pack(">f", struct.unpack(">d", struct.pack(">Q", b))[0]))[0]
        except OverflowError:
            want = 0x7f800000 | ((b >> 63) << 31)
        if int(r, 16) != want:
            return "corr"                 # not a property of minicbor: the model of `as f32` would be wrong (or the platform's cast)
    return "ok" if impl == model else "corr"


def narrow_stream(rng, tier):
    pats = f64_narrow_patterns(rng, tier)
    ops = ["fnarrow " + " ".join("%016x" % b for b in pats[i:i + 64]) for i in range(0, len(pats), 64)]
    return Stream("f64-as-f32", "hcore", ops, judge=judge_narrow,
                  rule="fnarrow: `f64 as f32` (what serde's f32 visitor applies to a buffered f64) on every binary32 value widened, its neighbours, the ties "
                       "between neighbouring binary32 values, the overflow threshold, the binary32 subnormal range, NaN payloads and random patterns: the "
                       "model's f64ToF32 (theorem NarrowThm.narrow_widen) against the real cast and CPython's",
                  nontrivial=lambda op, impl: "," in impl)


def replay_streams(rp):
    if (rp.get("original_op") or rp.get("op", "")).startswith("sdeb"):
        o = rp.get("original_op") or rp["op"]
        return [Stream("replay", "hserde", [o], model_ops=["nop"], judge=lambda op, impl, model, spec: "ok" if impl == [a[3:] for a in op.split(" ") if a.startswith("#D=")][0].replace("~", " ") else "violation")]
    op = rp.get("original_op") or rp["op"]
    if op.startswith("fnarrow"):
        s = Stream("replay", "hcore", [op], judge=judge_narrow)
        s.shrinkable = False
        return [s]
    if op.startswith("rt3 "):
        s = Stream("replay", "hserde", [op], model_ops=["rt" + op[3:]], judge=judge_rt3)
        s.shrinkable = False
        return [s]
    j = judge_rt if op.startswith("rt ") else judge_de
    s = Stream("replay", "hserde", [op], model_ops=[model_op(op)], judge=j)
    s.shrinkable = False
    return [s]
