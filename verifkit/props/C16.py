"""C16 — AsyncWriter delivers whole frames in order under short writes and cancel+sync."""
import itertools, zlib
from verifkit.runner import Stream
from verifkit import runner
from verifkit import gen
from verifkit import frameio as F

ID = "C16"
THM_MODULES = ["Minicbor.Thm.C16"]
P = "Minicbor.C16."
REQUIRED = [P + n for n in """drop_is_identity
act_inv run_inv async_writer_bytes async_writer_clean_end completed_write_reports_length
sync_idle_noop write_zero_error write_zero_then_sync_resumes transient_error_keeps_offset
encode_failure_or_too_long_writes_nothing offset_le_buffer
undisciplined_stale_state""".split()] + ["Minicbor.Frame.syncLoop_spec"]
PACKAGES = ["hio"]
DEBUG_TWINS = True
RULE = ("awrite scenarios on the real AsyncWriter over a scripted futures_io::AsyncWrite, futures polled by hand with a no-op waker: value "
        "sequences with <=10 frame bytes x ALL compositions into accepted sizes x every placement of <=2 Pendings x every decision at each "
        "Pending (keep polling | drop then sync, the sync itself droppable); one error event (Other / Interrupted / accept-0) at every "
        "position followed by sync; values that fail to encode (after writing 0..n bytes) or exceed max_len between good ones; sync on an "
        "idle writer; seeded random disciplined walks over longer frames (explicit and implicit drops) and undisciplined ones (model "
        "comparison only). The judge recomputes the caller-visible discipline from the transcript and evaluates the property: sink == "
        "frames of the delivered values (+ a strict prefix of the frame in flight), completed writes report the payload length, one error "
        "result per error event, rejected values add nothing.")
ASSUMPTIONS = ["the scripted sink honours the AsyncWrite contract (accepts nothing when it returns Pending or an error)",
               "Disciplined = a write is issued only when the previous write/sync call completed with Ok (an I/O error or a dropped future "
               "must be followed by a sync that returns Ok); this is the property's precondition made caller-observable"]


def tail(nframes):
    return [99999] * (nframes + 2)


def insert_at(parts, slots, what):
    evs, s = [], sorted(slots)
    for i, k in enumerate(parts):
        evs += [what] * s.count(i)
        evs.append(k)
    evs += [what] * s.count(len(parts))
    return evs


def walk(vs, maxlen, evs, decide, implicit=lambda: False, extra_sync=lambda: False, limit=400):
    """a disciplined caller: writes every value; at each Pending asks `decide()` (True = drop, then sync);
    after an I/O error syncs until Ok.  Returns the act list."""
    it = iter(evs)
    acts = []
    for i, v in enumerate(vs):
        if extra_sync():
            acts.append("s")                      # sync on an idle writer
        acts.append(f"w{i}")
        p = F.payload(v)
        if p is None or len(p) > maxlen:
            continue
        st = [0, 4 + len(p)]
        r = F.sim_awrite_poll(st, it)
        while r != "ok" and len(acts) < limit:
            if r == "P" and not decide():
                acts.append("p")
            else:
                if r == "P" and not implicit():
                    acts.append("d")
                acts.append("s")
            r = F.sim_awrite_poll(st, it)
    if extra_sync():
        acts.append("s")
    return acts


def judge(op, impl, model, spec):
    w = op.split(" ")
    if impl in ("panic", "bad-op") or impl.startswith("crash"):
        return "violation"
    maxlen, vs, script = F.ml(w[1]), F.parse_vals(w[2]), F.parse_script(w[3])
    acts = [] if w[4] == "-" else w[4].split(",")
    iw = impl.split(" ")
    toks = iw[0].split(",") if acts else []
    sink = b"" if iw[1] == "-" else bytes.fromhex(iw[1])
    if len(toks) != len(acts):
        return "violation"
    disciplined, dirty, pending, cur, done = True, False, None, None, []
    good = True
    accepted = []                   # payloads the writer took on (the completeness clause counts these, under the limit in force at the time)
    for a, t in zip(acts, toks):
        if a[0] == "m":
            # set_max_len: changes the limit for values written from now on; a frame in flight is not touched
            good &= t == "-"
            pending = None
            maxlen = int(a[1:])
            continue
        if a[0] == "w":
            if dirty:
                disciplined = False      # outside the property's precondition: only the model comparison applies
                break
            pending = None
            p = F.payload(vs[int(a[1:])])
            if p is None:
                good &= t == "w:err:encode"
            elif len(p) > maxlen:
                good &= t == "w:err:len"
            else:
                cur = p
                accepted.append(p)
                if t == "P":
                    pending, dirty = "w", True
                elif t == f"w:ok:{len(p)}":
                    done.append(p)
                elif t.startswith("w:err:io:"):
                    dirty = True
                else:
                    good = False
        elif a == "s":
            pending = None
            if not dirty:
                good &= t == "s:ok"
            elif t == "P":
                pending = "s"
            elif t == "s:ok":
                done.append(cur); dirty = False
            elif not t.startswith("s:err:io:"):
                good = False
        elif a == "p":
            if pending is None:
                good &= t == "-"
            elif t == "P":
                pass
            elif (pending == "w" and t == f"w:ok:{len(cur)}") or (pending == "s" and t == "s:ok"):
                done.append(cur); dirty = False; pending = None
            elif t.startswith(pending + ":err:io:"):
                pending = None
            else:
                good = False
        elif a == "d" or a[0] == "c" or a == "g":
            # d: the pending future is dropped.  g: the accessors writer_mut() / writer() are called.  c<i> / cs: write(..) / sync() is called and the future dropped without a single poll;
            # futures are lazy, so nothing has been encoded, armed or sent (a future pending before is gone: the call needs &mut self)
            good &= t == "-"
            pending = None
    if disciplined:
        exp = F.frames(done)
        if not sink.startswith(exp):
            good = False
        else:
            rest = sink[len(exp):]
            if dirty:
                good &= len(rest) < 4 + len(cur) and F.frame(cur).startswith(rest)
            else:
                good &= rest == b""
        if F.ann(op, "complete") == "1":
            ok_ps = accepted if any(a[0] == "m" for a in acts) else [F.payload(v) for v in vs if F.payload(v) is not None and len(F.payload(v)) <= maxlen]
            good &= (not dirty) and done == ok_ps
            for ev, cls in (("e", "other"), ("i", "intr"), ("z", "zero")):
                n = sum(1 for e in script if e == ev or (cls == "zero" and e == 0))
                good &= sum(1 for t in toks if t.endswith("err:io:" + cls)) == n
    elif F.ann(op, "k") != "free":
        good = False       # the generator promised a disciplined schedule
    if not good:
        return "violation"
    return "ok" if impl == model else "corr"


def sched_ops(tier):
    ops = []
    seqs = ["u5", "b0102", "u5,u6"] + (["u24,u5", "b0102,u5"] if tier == "thorough" else [])
    for s in seqs:
        vs = F.parse_vals(s)
        total = sum(4 + len(F.payload(v)) for v in vs)
        for parts in F.compositions(total):
            slots = range(len(parts) + 1)
            pls = [()] + [(a,) for a in slots] + list(itertools.combinations_with_replacement(slots, 2))
            if tier == "thorough" and total <= 7:
                pls += list(itertools.combinations_with_replacement(slots, 3))
            for pl in pls:
                evs = insert_at(parts, pl, "p") + tail(len(vs))
                for drops in itertools.product((False, True), repeat=len(pl)):
                    d = iter(drops)
                    acts = walk(vs, 100, evs, lambda: next(d, False))
                    ops.append(f"awrite 100 {s} {F.script_tok(evs)} {','.join(acts)} #k=sched #complete=1")
    return ops


def error_ops(rng, tier):
    ops = []
    for s in ["u5", "u5,u6", "b0102,u300"]:
        vs = F.parse_vals(s)
        total = sum(4 + len(F.payload(v)) for v in vs)
        comps = list(F.compositions(total))
        if len(comps) > 512:
            comps = comps[::(9 if tier == "quick" else 1)]
        for parts in comps:
            for slot in range(len(parts)):          # (an event after the last byte is never asked for)
                for what in ("e", "i", "z"):
                    for pend in (None, "before", "after"):
                        evs = []
                        for i, k in enumerate(parts + [None]):
                            if i == slot:
                                evs += (["p"] if pend == "before" else []) + [what] + (["p"] if pend == "after" else [])
                            if k is not None:
                                evs.append(k)
                        evs += tail(len(vs))
                        for drop in ((False, True) if pend else (False,)):
                            acts = walk(vs, 100, evs, lambda: drop)
                            ops.append(f"awrite 100 {s} {F.script_tok(evs)} {','.join(acts)} #k=sched #complete=1")
    return ops


def reject_ops(rng, tier):
    """values that fail to encode / exceed max_len between good ones, idle syncs."""
    ops = []
    seqs = ["x-", "x05", "x0102030405", "u5,x-,u6", "x01,u5", "u5,x0102", "b0102,u5", "b000102,x05,u300,b0001", "u300,u5,u70000"]
    for s in seqs:
        vs = F.parse_vals(s)
        for ml in (0, 1, 2, 3, 4, 5, 100):
            total = sum(4 + len(F.payload(v)) for v in vs if F.payload(v) is not None and len(F.payload(v)) <= ml)
            for _ in range(30):
                parts = F.rand_composition(rng, total, rng.choice([1, 2, 3, 100]))
                pl = [rng.randint(0, len(parts)) for _ in range(rng.randint(0, 3))]
                evs = insert_at(parts, pl, "p") + tail(len(vs))
                acts = walk(vs, ml, evs, lambda: rng.random() < 0.4, extra_sync=lambda: rng.random() < 0.4)
                ops.append(f"awrite {ml} {s} {F.script_tok(evs)} {','.join(acts)} #k=sched #complete=1")
    return ops


def random_ops(rng, tier):
    ops = []
    for _ in range(15000 if tier == "quick" else 150000):
        vs = [F.rand_val(rng, rng.choice([5, 40, 300])) if rng.random() < 0.9 else rng.choice([("x", gen.rand_bytes(rng, rng.randint(0, 6))), ("e", b"")])
              for _ in range(rng.randint(0, 6))]
        ml = rng.choice([1000, 1000, 100, 26, 9, 3])
        ok = [F.payload(v) for v in vs if F.payload(v) is not None and len(F.payload(v)) <= ml]
        total = sum(4 + len(p) for p in ok)
        if rng.random() < 0.75:
            parts = F.rand_composition(rng, total, rng.choice([1, 2, 3, 7, 64, 1000]))
            evs = []
            for k in parts:
                while rng.random() < 0.25:
                    evs.append(rng.choice(["p", "p", "p", "e", "i", "z"]))
                evs.append(k)
            evs += tail(len(vs))
            acts = walk(vs, ml, evs, lambda: rng.random() < 0.4, implicit=lambda: rng.random() < 0.5,
                        extra_sync=lambda: rng.random() < 0.15)
            if rng.random() < 0.25 and acts:
                acts = acts[:rng.randint(0, len(acts))]
                ops.append(f"awrite {ml} {F.vals_tok(vs)} {F.script_tok(evs)} {','.join(acts) or '-'} #k=sched")
            else:
                ops.append(f"awrite {ml} {F.vals_tok(vs)} {F.script_tok(evs)} {','.join(acts) or '-'} #k=sched #complete=1")
        else:
            # undisciplined: anything goes (writes over a frame in flight, polls of nothing, ...)
            evs = [rng.choice([1, 2, 3, 4, 9, 100, "i", "e", "p", "p", "z", 0]) for _ in range(rng.randint(0, 40))]
            acts = [rng.choice(["p", "p", "d", "s"] + [f"w{i}" for i in range(len(vs))] * 2) for _ in range(rng.randint(0, 30))]
            ops.append(f"awrite {ml} {F.vals_tok(vs)} {F.script_tok(evs)} {','.join(acts) or '-'} #k=free")
    return ops


LONG = (31, 32, 33, 64, 65, 100, 128, 129, 255, 256, 257, 300)


def long_ops(rng, tier):
    """many frames through one writer: counters that only matter after dozens or hundreds of frames"""
    ops = []
    for n in LONG * (2 if tier == "quick" else 10):
        vs = [F.rand_val(rng, rng.choice([5, 5, 40])) if rng.random() < 0.96 else rng.choice([("x", gen.rand_bytes(rng, 2)), ("e", b"")]) for _ in range(n)]
        ml = rng.choice([1000, 26])
        ok = [F.payload(v) for v in vs if F.payload(v) is not None and len(F.payload(v)) <= ml]
        total = sum(4 + len(p) for p in ok)
        parts = F.rand_composition(rng, total, rng.choice([1, 3, 7, 64, 100000]))
        pr = rng.choice([0.0, 0.05, 0.3])
        evs = []
        for k in parts:
            while rng.random() < pr:
                evs.append(rng.choice(["p", "p", "p", "e", "i", "z"]))
            evs.append(k)
        evs += tail(len(vs))
        pd = rng.choice([0.0, 0.4, 1.0])
        acts = walk(vs, ml, evs, lambda: rng.random() < pd, implicit=lambda: rng.random() < 0.5, extra_sync=lambda: rng.random() < 0.1, limit=10 ** 6)
        ops.append(f"awrite {ml} {F.vals_tok(vs)} {F.script_tok(evs)} {','.join(acts) or '-'} #k=sched #complete=1")
    return ops


def big_ops(rng, tier):
    """values whose frames exceed 64 KiB through one writer, between small ones"""
    ops = []
    for k in range(10 if tier == "quick" else 60):
        sizes = rng.choice([[70000, 5], [5, 66000, 5, 70000, 5], [65537], [100005, 3, 65536]])
        vs = [("b", gen.rand_bytes(rng, n)) for n in sizes]
        ml = 200000
        total = sum(4 + len(F.payload(v)) for v in vs)
        parts = F.rand_composition(rng, total, rng.choice([20000, 40000, 66000, 10 ** 6, 3000, 9000, 16383, 16385]))
        evs = []
        for part in parts:
            while rng.random() < 0.4:
                evs.append(rng.choice(["p", "p", "e", "i", "z"]))
            evs.append(part)
        evs += tail(len(vs))
        pd = rng.choice([0.0, 0.5, 1.0])
        acts = walk(vs, ml, evs, lambda: rng.random() < pd, implicit=lambda: rng.random() < 0.5, extra_sync=lambda: rng.random() < 0.2, limit=10 ** 6)
        ops.append(f"awrite {ml} {F.vals_tok(vs)} {F.script_tok(evs)} {','.join(acts) or '-'} #k=sched #complete=1")
    return ops


def setmax_ops(rng, tier):
    """set_max_len between a cancelled write and the sync that must complete it (and at other quiet moments): the limit applies to
    values written afterwards; the frame in flight is completed unchanged"""
    ops = []
    for _ in range(400 if tier == "quick" else 6000):
        vs = [F.rand_val(rng, rng.choice([5, 40, 300])) for _ in range(rng.randint(1, 4))]
        ml0 = 1000
        evs, acts = [], []
        for i, v in enumerate(vs):
            p = F.payload(v)
            n = 4 + len(p)
            cut = rng.randint(0, n - 1)
            # the write is accepted, `cut` bytes go out, Pending; the caller drops the future, lowers the limit, then syncs
            evs += ([cut] if cut else []) + ["p"] + [99999]
            acts += [f"w{i}"] + (["p"] if False else []) + ["d", f"m{rng.choice([0, 1, 3, max(len(p) - 1, 0), len(p), 1000])}", "s"]
            acts += [f"m{ml0}"]
        evs += tail(len(vs))
        ops.append(f"awrite {ml0} {F.vals_tok(vs)} {F.script_tok(evs)} {','.join(acts)} #k=sched #complete=1")
    return ops


def unpolled_ops(rng, tier):
    """disciplined walks with write / sync futures that are created and dropped without a poll in front of some of the calls and at the end"""
    ops = []
    base = sched_ops(tier)[::7] + random_ops(rng, "quick")
    for op in base:
        if "#k=sched" not in op:
            continue
        w = op.split(" ")
        acts = w[4].split(",") if w[4] != "-" else []
        n = len(F.parse_vals(w[2]))
        if n == 0:
            continue
        out = []
        for a in acts:
            if a[0] in "ws" and rng.random() < 0.4:
                out += [rng.choice([f"c{rng.randrange(n)}", "cs", "g"]) for _ in range(rng.choice([1, 1, 2]))]
            out.append(a)
        out.append(f"c{rng.randrange(n)}")
        if "#complete=1" in op:
            out.append("s")
        w[4] = ",".join(out)
        ops.append(" ".join(w))
    for v in (("u", 5), ("b", bytes(40)), ("e", None), ("b", bytes(200))):           # a first call that is never polled, then nothing / a sync / another value
        for tailacts in ("", ",s", ",w1,s", ",cs,w1", ",c1,c0,s"):
            ops.append(f"awrite 100 {F.vals_tok([v, ('u', 7)])} {F.script_tok([3, 3, 3, 3, 3, 3])} c0{tailacts} #k=sched")
    return ops


def flush_ops(ops, rng, every=9):
    """every 9th scenario once more over a sink whose poll_flush misbehaves (write / sync never flush, so nothing may change)"""
    out = []
    for op in ops:
        if zlib.crc32(op.encode()) % every == 0 and op.startswith("awrite "):
            out.append(f"awritef {1 + zlib.crc32(op.encode()) // every % 3} " + op[7:])
    return out


def flush_plain(op):
    w = op.split(" ", 2)
    return ("awrite " + w[2]) if w[0] == "awritef" else op


def mk(name, ops, rule):
    if name != "replay":
        ops = F.ctor_expand(ops)      # every 4th scenario once more through with_buffer(..) with some buffer
        ops = ops + flush_ops(ops, None)
    fj = F.ctor_judge(judge)
    s = Stream(name, "hio", ops, model_ops=[F.ctor_plain(flush_plain(o))[0] for o in ops],
               judge=lambda op, impl, model, spec: fj(flush_plain(op), impl, model, spec), rule=rule,
               nontrivial=lambda op, impl: "ok" in impl or "err:" in impl)
    s.shrinkable = False
    return s


def streams(rng, tier):
    return [
        mk("schedules-exhaustive", sched_ops(tier), "all compositions x <=2 Pendings x all keep / drop-then-sync decisions; oracle: exact frames, lengths"),
        mk("error-events", error_ops(rng, tier), "one Other / Interrupted / accept-0 event at every position, then sync; oracle: one error result, exact frames"),
        mk("rejected-values", reject_ops(rng, tier), "encode failures and over-long values between good ones, idle syncs; oracle: they add nothing"),
        mk("random-walks", random_ops(rng, tier), "seeded random disciplined walks judged by the oracle; undisciplined ones against the model"),
        mk("default-limit", [f"awrite d {F.vals_tok([v, ('u', 5)])} {F.script_tok([99999999] * 4)} w0,w1 #k=rand" for v in F.default_limit_vals()],
           "values whose payload is 524285..524289 bytes through a writer whose limit was never set: 524288 is the last one accepted"),
        mk("big-frames", big_ops(rng, tier), "values of 65537..100005 bytes through one writer in 20 KB..1 MB pieces with Pendings, error events and drop-then-sync; oracle: exact frames, lengths"),
        mk("set-max-len", setmax_ops(rng, tier), "write accepted, part of the frame out, Pending, future dropped, set_max_len(smaller), sync: the frame in flight is completed unchanged; the new limit applies to later values"),
        mk("futures-never-polled", unpolled_ops(rng, tier), "write(..) / sync() called and the future dropped before its first poll, in front of other calls and at the end: "
           "nothing is encoded, armed or sent by a future that was never polled; oracle: exact frames, lengths, Encode runs"),
        mk("long-streams", long_ops(rng, tier), "31..300 values through one writer under chunking, Pendings, error events and drop-then-sync; oracle: exact frames, lengths"),
    ]


def replay_streams(rp):
    return [mk("replay", [rp["original_op"]], "replay")]
