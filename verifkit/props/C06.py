"""C06 — `Decoder::skip()` consumes exactly one data item, whatever its nesting.

Correspondence half.  Two builds of the real code are driven:
  * `hcore`    (workspace harness, minicbor with std => the `#[cfg(feature = "alloc")]` skip),
  * `hnoalloc` (STANDALONE crate /verif/harness/noalloc, minicbor with NO features => the
                `#[cfg(not(feature = "alloc"))]` skip; own [workspace] and own target dir so feature
                unification can never switch `alloc` on),
against the model (`mcdrv`: `dec skip` / `dec skip_noalloc`).  The judges evaluate the property's
own oracle (position = length of the generated item; error on every strict prefix; no-alloc: same
position or the documented `message` error, the latter only if an indefinite array/map occurs
inside a definite one) on the implementation's answer, then equality with the model line.
"""
import os
from verifkit import runner, gen
from verifkit.runner import Stream

ID = "C06"
THM_MODULES = ["Minicbor.Thm.C06"]
P = "Minicbor.C06."
# ---------------------------------------------------------------- FILLED IN BY THE PROOF AUTHOR
REQUIRED = [P + n for n in """skip_exact skip_no_panic skip_ext skip_prefix_err skip_prefix_err'
noalloc_lockstep noalloc_refines noalloc_exact noalloc_exact_or_unsupported noalloc_prefix_err
skip_fuel_adequate skip_stack_le_consumed
parse_encW parse_sound wellformed_iff skip_agrees_parse skip_ok_ends_at_parse""".split()]
# ----------------------------------------------------------------------------------------------
PACKAGES = ["hcore"]
DEBUG_TWINS = True

NOALLOC_DIR = os.path.join(runner.HARNESS, "noalloc")
NOALLOC_BIN = os.path.join(runner.target_dir(os.path.join(NOALLOC_DIR, "target")), "release", "hnoalloc")

# depth of the chain family (c); see ASSUMPTIONS if ever lowered
CHAIN_DEPTHS = {"quick": (10, 100, 130, 260, 1000, 1030, 2050, 4100), "thorough": (10, 100, 130, 260, 1000, 1030, 2050, 4100, 10000, 33000, 66000)}

_RULE = (
    "dec skip <enc(tree) ++ suffix> #n=<len enc> #iid=<indefinite array/map somewhere inside a definite one>, on two builds of the real "
    "code (hcore = alloc skip; hnoalloc = standalone crate, minicbor without features = no-alloc skip) and on the model (skip / skip_noalloc).  "
    "Trees over scalar (uint/nint at every head width, simple, f8 xx, f16/f32/f64), definite/chunked bytes and text, definite/indefinite "
    "array and map (also NON-preferred head widths), tags.  Families: (a) EXHAUSTIVE tree shapes with <= 5 nodes (90351 shapes; in quick the "
    "85293 five-node shapes get prefix cuts only for a seeded 1/16 of them) over 5 leaf kinds + 4 container kinds + tag, payloads / "
    "head widths by deterministic rotation; (b) seeded random trees to depth 8, <= 400 nodes (quick 3000, thorough 30000); (c) chains to depth "
    "10^3 (quick) / 10^4 (thorough): 9f^d ff^d, mixed 9f/bf, 81^d 9f ff, (82 9f)^d .. (ff 00)^d, alternating (81 9f)^d, tag chains, definite "
    "map chains, deep counting->stack switches (irounds = d at the switch; d None frames pushed after it); (d) mode-switch stress: nests of "
    "depth 1..4 over {definite, indefinite}^k x position {first, middle, last, only}^k x 12 inner items x sibling rotation (80, a0, 9f ff, "
    "5f ff, scalars) (quick: seeded sample of 5000; thorough: all).  Every item is followed by 0..4 suffix bytes (random, or confusing ones: "
    "ff 00 9f bf 80 5f 7f c0 1b); plus strict prefixes without suffix (#prefix=1): all prefixes of items <= 24 bytes (thorough <= 256) and "
    "6 (thorough 48) seeded cut points of longer ones.  Oracle in the orchestrator: alloc: full item => exactly `ok () n`, strict prefix => "
    "`err`; no-alloc: full item => `ok () n`, or `err message` only when iid=1; strict prefix => `err`; then impl line == model line.  "
    "Spec (independent of the skip model): `wf parse` = the Lean reference decoder of Parse.lean (proved sound and complete w.r.t. "
    "Wire.lean's valid trees) must find exactly one valid item of n bytes with the same iid flag (WItem.indefInDef) on the full "
    "input and must reject every strict prefix: skip agrees with full decoding, and the Python generator agrees with the Lean spec.  "
    "Non-trivial: ok, or err on a prefix.  Family (e) malformed: mutated items / random structural bytes (quick 20000, thorough 200000) on both "
    "builds: never panic, outcome == model, and the no-alloc answer equals the alloc model's answer or is `err message` (lockstep)."
)
ASSUMPTIONS = [
    "well-formedness of the generated items is by construction of the Python encoder enc() (definite counts = number of children, maps have an "
    "even number of child items, text chunks are valid UTF-8 each, every indefinite container is closed by ff) and is re-checked for every item "
    "by an independent explicit-stack item-boundary parser in the orchestrator (ref_item_len), which must return exactly len(enc)",
    "the harness decodes from a slice; positions are Decoder::position() after the call (also after an error)",
    "prefix sweeps of items longer than 24 bytes (thorough: 256) are sampled at seeded cut points, not exhaustive",
]

# counters filled by the no-alloc judge (reported in RULE / the stream's rule text)
STATS = {"iid1_full": 0, "iid1_message": 0, "iid1_ok": 0, "iid0_full": 0, "iid0_ok": 0}


def _stats_text():
    s = STATS
    if not (s["iid1_full"] or s["iid0_full"]):
        return ""
    return (f"  [this run, no-alloc build, full items: iid=1: {s['iid1_full']} items, {s['iid1_message']} answered `err message`, "
            f"{s['iid1_ok']} answered `ok () n` (indefinite container met while it was the last pending element, e.g. 81 9f ff); "
            f"iid=0: {s['iid0_full']} items, {s['iid0_ok']} answered `ok () n`]")


def __getattr__(name):          # PEP 562: RULE is computed when read, so that it carries this run's counters
    if name == "RULE":
        return _RULE + _stats_text()
    raise AttributeError(name)


# =============================================================================== wire trees
# A tree is a tuple:
#   ("s", raw)                      scalar, `raw` = its complete encoding (uint/nint/simple/float)
#   ("str", major, width, payload)  definite bytes (major 2) / text (major 3)
#   ("chunks", major, [(width, payload), ...])   indefinite bytes / text with definite chunks
#   ("arr", width, [children])      definite array        ("map", width, [children])  definite map, even #children
#   ("iarr", [children])            indefinite array      ("imap", [children])        indefinite map, even #children
#   ("tag", width, n, child)
# All functions below are iterative (chains are 10^4 deep).

def enc(tree):
    out = bytearray()
    st = [tree]
    while st:
        x = st.pop()
        if isinstance(x, (bytes, bytearray)):
            out += x
            continue
        k = x[0]
        if k == "s":
            out += x[1]
        elif k == "str":
            out += gen.head(x[1], len(x[3]), x[2]); out += x[3]
        elif k == "chunks":
            out.append(x[1] * 32 + 31)
            for (w, p) in x[2]:
                out += gen.head(x[1], len(p), w); out += p
            out.append(0xff)
        elif k == "arr":
            out += gen.head(4, len(x[2]), x[1]); st.extend(reversed(x[2]))
        elif k == "map":
            assert len(x[2]) % 2 == 0
            out += gen.head(5, len(x[2]) // 2, x[1]); st.extend(reversed(x[2]))
        elif k == "iarr":
            out.append(0x9f); st.append(b"\xff"); st.extend(reversed(x[1]))
        elif k == "imap":
            assert len(x[1]) % 2 == 0
            out.append(0xbf); st.append(b"\xff"); st.extend(reversed(x[1]))
        elif k == "tag":
            out += gen.head(6, x[2], x[1]); st.append(x[3])
        else:
            raise ValueError(k)
    return bytes(out)


def has_indef_inside_def(tree):
    """True iff some indefinite ARRAY or MAP occurs (at any depth, through tags and through other indefinite
    containers) inside a DEFINITE array or map.  Indefinite strings do not count."""
    st = [(tree, False)]
    while st:
        x, ind = st.pop()
        k = x[0]
        if k in ("arr", "map"):
            for c in x[2]:
                st.append((c, True))
        elif k in ("iarr", "imap"):
            if ind:
                return True
            for c in x[1]:
                st.append((c, ind))
        elif k == "tag":
            st.append((x[3], ind))
    return False


def nodes(tree):
    n = 0
    st = [tree]
    while st:
        x = st.pop(); n += 1
        k = x[0]
        if k in ("arr", "map"): st.extend(x[2])
        elif k in ("iarr", "imap"): st.extend(x[1])
        elif k == "tag": st.append(x[3])
    return n


def ref_item_len(b):
    """independent reference item-boundary parser (RFC 8949 well-formedness, explicit stack): the length of the
    single well-formed data item at the start of `b`, or None.  Used to self-check enc(): every generated item
    must be exactly one item, and no strict prefix of it may be."""
    pos = 0
    st = []          # frames: remaining item count, or -1 = indefinite array, -2 / -3 = indefinite map with an even / odd
                     # number of items so far (closed by ff; a map only on an even count)
    n = len(b)
    while True:
        if pos >= n: return None
        ib = b[pos]; pos += 1
        maj, ai = ib >> 5, ib & 31
        if ib == 0xff:
            if not st or st[-1] not in (-1, -2): return None
            st.pop()                                   # the container just closed is one finished item
        else:
            if ai < 24: arg = ai
            elif ai < 28:
                w = 1 << (ai - 24)
                if pos + w > n: return None
                arg = int.from_bytes(b[pos:pos + w], "big"); pos += w
            elif ai == 31 and maj in (2, 3, 4, 5): arg = None
            else: return None
            if maj in (2, 3):
                if arg is None:
                    while True:
                        if pos >= n: return None
                        cb = b[pos]; pos += 1
                        if cb == 0xff: break
                        if cb >> 5 != maj: return None
                        ca = cb & 31
                        if ca < 24: cl = ca
                        elif ca < 28:
                            w = 1 << (ca - 24)
                            if pos + w > n: return None
                            cl = int.from_bytes(b[pos:pos + w], "big"); pos += w
                        else: return None
                        if pos + cl > n: return None
                        if maj == 3:
                            try: b[pos:pos + cl].decode("utf-8")
                            except UnicodeDecodeError: return None
                        pos += cl
                else:
                    if pos + arg > n: return None
                    if maj == 3:
                        try: b[pos:pos + arg].decode("utf-8")
                        except UnicodeDecodeError: return None
                    pos += arg
            elif maj in (4, 5):
                if arg is None: st.append(-1 if maj == 4 else -2); continue
                cnt = arg * (maj - 3)
                if cnt: st.append(cnt); continue
            elif maj == 6:
                continue                                # the tagged item follows and is the item
            elif maj == 7 and ai == 24 and arg < 32:
                return None
        # one item finished: account for it in the enclosing frames
        while True:
            if not st: return pos
            if st[-1] == -1: break
            if st[-1] < -1: st[-1] = -5 - st[-1]; break
            st[-1] -= 1
            if st[-1]: break
            st.pop()


# ------------------------------------------------------------------------------- leaf material

def _scalars():
    out = []
    for maj in (0, 1):
        for w in gen.WIDTHS:
            vals = {0: (0, 10, 23), 1: (0, 24, 255), 2: (0, 256, 65535), 4: (1, 65536, 2**32 - 1), 8: (7, 2**32, 2**64 - 1)}[w]
            for v in vals:
                out.append(gen.head(maj, v, w))
    for b in (0xf4, 0xf5, 0xf6, 0xf7, 0xe0, 0xe5, 0xf0, 0xf3):
        out.append(bytes([b]))
    for x in (32, 100, 255):
        out.append(bytes([0xf8, x]))
    out += [bytes.fromhex(h) for h in ("f90000", "f93c00", "f97e00", "f9fc00", "fa3fc00000", "fa7fc00000", "faff800000",
                                       "fb3ff8000000000000", "fb7ff8000000000000", "fbffffffffffffffff")]
    return out

SCALARS = _scalars()
TEXTS = [t.encode() for t in ["", "a", "hi", "é", "€", "😀", "a\u0000b", "ÿz", "\U0010ffff", "abcdefghijklmnopqrstuvwxyz"]]
BYTESS = [b"", b"\x00", b"\xff", b"\xff\xff", b"\x9f\xff", b"\x80\xc0\xfe", b"\x5f\x41\x00\xff", bytes(range(24)), b"\x00" * 30]
CWIDTHS = (0, 1, 0, 2, 0, 4, 1, 8, 0, 0, 2)            # head widths for containers (period 11)
SWIDTHS = (0, 0, 1, 0, 2, 4, 0, 8, 1)                  # head widths for strings / chunks (period 9)
TAGS = ((0, 0), (0, 1), (1, 24), (0, 23), (2, 55799), (1, 2), (4, 65536), (8, 2**64 - 1), (0, 21), (8, 0))
CONFUSERS = (0xff, 0x00, 0x9f, 0xbf, 0x80, 0x5f, 0x7f, 0xc0, 0x1b)


class Rot:
    """deterministic rotation through the leaf material (counters with different periods)."""
    def __init__(self, start=0):
        self.i = start
    def nxt(self):
        self.i += 1
        return self.i
    def scalar(self):
        return ("s", SCALARS[self.nxt() % len(SCALARS)])
    def payload(self, major, small=False):
        i = self.nxt()
        pool = BYTESS if major == 2 else TEXTS
        p = pool[i % len(pool)]
        if small and len(p) > 5:
            p = p[:2] if major == 2 else b"ab"
        return p
    def string(self, major):
        p = self.payload(major)
        w = SWIDTHS[self.nxt() % len(SWIDTHS)]
        if w == 0 and len(p) >= 24:
            w = 1
        return ("str", major, w, p)
    def chunks(self, major):
        n = self.nxt() % 4
        cs = []
        for _ in range(n):
            p = self.payload(major, small=True)
            cs.append((SWIDTHS[self.nxt() % len(SWIDTHS)], p))
        return ("chunks", major, cs)
    def cwidth(self, n):
        w = CWIDTHS[self.nxt() % len(CWIDTHS)]
        return 1 if (w == 0 and n >= 24) else w
    def tag(self, child):
        w, n = TAGS[self.nxt() % len(TAGS)]
        return ("tag", w, n, child)


# ------------------------------------------------------------------------------- (a) exhaustive shapes
# A shape is ("L", kind) for the 5 leaf kinds, ("T", shape), or (ckind, [shapes]) for ckind in arr/map/iarr/imap.
LEAVES = ("scalar", "dtext", "dbytes", "itext", "ibytes")
_shape_cache, _forest_cache = {}, {}


def shapes(n):
    """all tree shapes with exactly n nodes."""
    if n in _shape_cache:
        return _shape_cache[n]
    res = []
    if n == 1:
        res += [("L", k) for k in LEAVES]
    if n >= 2:
        res += [("T", s) for s in shapes(n - 1)]
    for f in forests(n - 1):
        res.append(("arr", f)); res.append(("iarr", f))
        if len(f) % 2 == 0:
            res.append(("map", f)); res.append(("imap", f))
    _shape_cache[n] = res
    return res


def forests(n):
    """all ordered forests (tuples of shapes) with exactly n nodes in total."""
    if n in _forest_cache:
        return _forest_cache[n]
    if n == 0:
        res = [()]
    else:
        res = []
        for first in range(1, n + 1):
            for s in shapes(first):
                for rest in forests(n - first):
                    res.append((s,) + rest)
    _forest_cache[n] = res
    return res


def instantiate(shape, rot):
    k = shape[0]
    if k == "L":
        lk = shape[1]
        if lk == "scalar": return rot.scalar()
        if lk == "dtext": return rot.string(3)
        if lk == "dbytes": return rot.string(2)
        if lk == "itext": return rot.chunks(3)
        return rot.chunks(2)
    if k == "T":
        return rot.tag(instantiate(shape[1], rot))
    ch = [instantiate(s, rot) for s in shape[1]]
    if k == "arr": return ("arr", rot.cwidth(len(ch)), ch)
    if k == "map": return ("map", rot.cwidth(len(ch) // 2), ch)
    return (k, ch)


# ------------------------------------------------------------------------------- (b) random trees

def rand_scalar(rng):
    r = rng.random()
    if r < 0.6:
        w = rng.choice(gen.WIDTHS)
        n = rng.randrange(24) if w == 0 else gen.rand_u(rng, 8 * w)
        return ("s", gen.head(rng.randrange(2), n, w))
    return ("s", rng.choice(SCALARS))


def rand_payload(rng, major, maxlen):
    if major == 2:
        return gen.rand_bytes(rng, rng.randint(0, maxlen))
    t = gen.rand_text(rng, maxlen).encode()
    return t


def rand_width(rng, n):
    ws = [w for w in gen.WIDTHS if gen.fits(w, n)]
    return ws[0] if rng.random() < 0.5 else rng.choice(ws)


def rand_leaf(rng):
    r = rng.random()
    if r < 0.5:
        return rand_scalar(rng)
    major = rng.choice((2, 3))
    if r < 0.8:
        p = rand_payload(rng, major, rng.choice((0, 3, 8, 30)))
        return ("str", major, rand_width(rng, len(p)), p)
    cs = []
    for _ in range(rng.randint(0, 3)):
        p = rand_payload(rng, major, rng.choice((0, 2, 6)))
        cs.append((rand_width(rng, len(p)), p))
    return ("chunks", major, cs)


def rand_tree(rng, maxdepth, budget, p_indef, p_leaf):
    """random tree, nesting depth <= maxdepth, about <= budget nodes."""
    left = [budget]

    def go(depth):
        left[0] -= 1
        if depth >= maxdepth or left[0] <= 0 or rng.random() < p_leaf:
            return rand_leaf(rng)
        r = rng.random()
        if r < 0.12:
            w, n = rng.choice(TAGS) if rng.random() < 0.5 else (None, None)
            if w is None:
                w = rng.choice(gen.WIDTHS); n = rng.randrange(24) if w == 0 else gen.rand_u(rng, 8 * w)
            return ("tag", w, n, go(depth + 1))
        nch = rng.choice((0, 1, 1, 2, 2, 2, 3, 3, 4, 5, 7))
        ismap = rng.random() < 0.4
        if ismap and nch % 2:
            nch += 1
        nch = max(0, min(nch, left[0]))
        if ismap and nch % 2:
            nch -= 1
        ch = [go(depth + 1) for _ in range(nch)]
        if rng.random() < p_indef:
            return ("imap" if ismap else "iarr", ch)
        cnt = len(ch) // 2 if ismap else len(ch)
        return ("map" if ismap else "arr", rand_width(rng, cnt), ch)

    # force a container (or tag) at the root most of the time so the depth is used
    return go(0)


def random_trees(rng, count):
    out = []
    for i in range(count):
        maxdepth = 1 + (i % 8)                       # every nesting bound 1..8
        budget = rng.choice((6, 12, 25, 50, 100, 200, 400))
        p_indef = rng.choice((0.1, 0.35, 0.5, 0.65, 0.9))
        p_leaf = rng.choice((0.05, 0.15, 0.3))
        t = rand_tree(rng, maxdepth, budget, p_indef, p_leaf)
        out.append(t)
    return out


# ------------------------------------------------------------------------------- (c) chains
Z = ("s", b"\x00")


def chain(levels, core):
    """wrap `core` in `levels` (outermost first); a level is a function child -> tree."""
    t = core
    for f in reversed(levels):
        t = f(t)
    return t


def chains(rng, depths):
    out = []   # (label, tree)
    for d in depths:
        iarr = lambda c: ("iarr", [c])
        imapv = lambda c: ("imap", [Z, c])
        imapk = lambda c: ("imap", [c, Z])
        arr1 = lambda c: ("arr", 0, [c])
        arr1w = lambda c: ("arr", 2, [c])
        arr2 = lambda c: ("arr", 0, [c, Z])
        arr2b = lambda c: ("arr", 0, [Z, c])
        map1v = lambda c: ("map", 0, [Z, c])
        map1k = lambda c: ("map", 0, [c, Z])
        tag0 = lambda c: ("tag", 0, 0, c)
        out.append((f"9f^{d}", chain([iarr] * (d - 1), ("iarr", []))))
        out.append((f"9f^{d} 00", chain([iarr] * d, Z)))
        out.append((f"bf^{d}", chain([imapv] * (d - 1), ("imap", []))))
        mixed = [rng.choice((iarr, imapv, imapk)) for _ in range(d)]
        out.append((f"mixed 9f/bf^{d}", chain(mixed, ("iarr", []))))
        out.append((f"81^{d} 9f ff", chain([arr1] * d, ("iarr", []))))
        out.append((f"81^{d} 00", chain([arr1] * d, Z)))
        out.append((f"(99 0001)^{d} bf ff", chain([arr1w] * d, ("imap", []))))
        out.append((f"(82 9f)^{d} .. (ff 00)^{d}", chain([arr2, iarr] * (d // 2), ("iarr", []))))
        out.append((f"(82 00 9f)^{d}", chain([arr2b, iarr] * (d // 2), Z)))
        out.append((f"(81 9f)^{d}", chain([arr1, iarr] * (d // 2), ("iarr", []))))
        out.append((f"(9f 81)^{d}", chain([iarr, arr1] * (d // 2), ("arr", 0, []))))
        out.append((f"(9f 82)^{d}", chain([iarr, arr2] * (d // 2), ("imap", []))))
        alt = [rng.choice((arr1, arr2, arr2b, map1v, map1k, iarr, imapv, imapk, tag0)) for _ in range(d)]
        out.append((f"random def/indef nest^{d}", chain(alt, ("iarr", [Z]))))
        out.append((f"a1^{d}", chain([map1v] * d, Z)))
        out.append((f"(a1 key-side)^{d}", chain([map1k] * d, ("imap", []))))
        out.append((f"c0^{d} 00", chain([tag0] * d, Z)))
        tags = [(lambda c, wn=TAGS[i % len(TAGS)]: ("tag", wn[0], wn[1], c)) for i in range(d)]
        out.append((f"tags(mixed widths)^{d} 9f ff", chain(tags, ("iarr", []))))
        out.append((f"(c0 81 c0 9f)^{d}", chain([tag0, arr1, tag0, iarr] * (d // 4), Z)))
        # counting -> stack switch with irounds = d (d None frames pushed), then d more indefinite levels in stack mode
        out.append((f"9f^{d} 82 9f^{d} 00", chain([iarr] * d + [arr2] + [iarr] * d, Z)))
        out.append((f"82 9f^{d} .. 00", chain([arr2] + [iarr] * d, ("iarr", []))))
        out.append((f"82 (81)^{d} 9f ff 00", chain([arr2] + [arr1] * d, ("iarr", []))))
        # wide rather than deep: d siblings
        out.append((f"9f (9f ff)^{d} ff", ("iarr", [("iarr", [])] * d)))
        out.append((f"arr(d) of 9f ff", ("arr", 2 if d < 65536 else 4, [("iarr", [])] * d)))
        out.append((f"arr(d) of 80/a0/9fff", ("arr", 4, [(("arr", 0, []), ("map", 0, []), ("iarr", []), ("imap", []))[i % 4] for i in range(d)])))
    return out


# ------------------------------------------------------------------------------- (d) mode-switch stress
def inner_items():
    e = ("iarr", [])
    return [
        ("iarr", []), ("iarr", [Z]), ("imap", []), ("imap", [Z, Z]),
        ("iarr", [("arr", 0, [Z, ("iarr", [])])]),
        ("arr", 0, []),                                   # no indefinite container at all: pure counting
        ("tag", 0, 1, ("iarr", [])),
        ("chunks", 2, [(0, b"\xff")]),                    # indefinite *string*: does not count
        ("iarr", [e, e]),
        ("arr", 0, [e, e]),                               # directly inside a definite array that may be LAST in its parent
        ("arr", 0, [e]),
        ("imap", [("arr", 0, [Z]), ("map", 0, [Z, e])]),
    ]


def siblings():
    return [Z, ("arr", 0, []), ("map", 0, []), ("iarr", []), ("s", b"\x18\x18"), ("chunks", 3, []), ("imap", []),
            ("str", 3, 0, b"a"), ("arr", 1, []), ("s", b"\xf6"), ("map", 1, [])]


def place(kind_def, pos, x, rot, sibs):
    """one nest level: container (definite or not; array or map by rotation) with x at position pos."""
    s1 = sibs[rot.nxt() % len(sibs)]; s2 = sibs[rot.nxt() % len(sibs)]; s3 = sibs[rot.nxt() % len(sibs)]
    ismap = (rot.nxt() % 3 == 0) and pos != "O"
    if ismap:
        ch = {"F": [x, s1], "M": [s1, x, s2, s3], "L": [s1, x]}[pos]
        return ("map", rot.cwidth(len(ch) // 2), ch) if kind_def else ("imap", ch)
    ch = {"F": [x, s1, s2], "M": [s1, x, s2], "L": [s1, s2, x], "O": [x]}[pos]
    return ("arr", rot.cwidth(len(ch)), ch) if kind_def else ("iarr", ch)


def stress_specs():
    specs = []
    inn = inner_items()
    for k in range(1, 5):
        for kinds in range(2 ** k):
            for poss in range(4 ** k):
                for xi in range(len(inn)):
                    specs.append((k, kinds, poss, xi))
    return specs


def stress_tree(spec, rot):
    k, kinds, poss, xi = spec
    t = inner_items()[xi]
    sibs = siblings()
    for lvl in range(k):        # innermost level first
        kd = (kinds >> lvl) & 1 == 1
        pos = "FMLO"[(poss >> (2 * lvl)) & 3]
        t = place(kd, pos, t, rot, sibs)
    return t


# ------------------------------------------------------------------------------- ops

def suffix(rng):
    n = rng.choice((0, 0, 1, 1, 2, 3, 4))
    if rng.random() < 0.5:
        return bytes(rng.choice(CONFUSERS) for _ in range(n))
    return gen.rand_bytes(rng, n)


def item_ops(rng, tree, ops, all_prefix_upto, ncuts, with_prefixes=True):
    e = enc(tree)
    n = len(e)
    iid = 1 if has_indef_inside_def(tree) else 0
    if ref_item_len(e) != n:
        raise AssertionError("C06 generator self-check: enc(tree) is not exactly one well-formed item: " + e.hex()[:200])
    ann = f"#n={n} #iid={iid}"
    ops.append(f"dec skip {(e + suffix(rng)).hex()} {ann}")
    if not with_prefixes:
        return
    if n <= all_prefix_upto:
        cuts = range(n)
    else:
        cs = {0, n - 1, n - 2, rng.randrange(n), n // 2}
        while len(cs) < min(ncuts + 3, n):
            cs.add(rng.randrange(n))
        cuts = sorted(cs)
    h = e.hex()
    for c in cuts:
        ops.append(f"dec skip {h[:2 * c] if c else '-'} {ann} #prefix=1")


def build_ops(rng, tier):
    """-> list of (family name, ops)."""
    thorough = tier == "thorough"
    upto, ncuts = (256, 48) if thorough else (24, 6)
    fams = []

    # (a) exhaustive shapes
    ops = []
    rot = Rot()
    maxn = 5 if thorough else 4
    for n in range(1, maxn + 1):
        for sh in shapes(n):
            item_ops(rng, instantiate(sh, rot), ops, upto, ncuts)
    if not thorough:
        # quick: every 5-node shape as a full item; strict prefixes (3 + ends) only for a seeded 1/16 of them
        off = rng.randrange(16)
        for i, sh in enumerate(shapes(5)):
            item_ops(rng, instantiate(sh, rot), ops, 0, 3, with_prefixes=(i % 16 == off))
    fams.append(("exhaustive", ops))

    # (b) random trees
    ops = []
    for t in random_trees(rng, 30000 if thorough else 3000):
        item_ops(rng, t, ops, min(upto, 128), ncuts)      # thorough: all prefixes up to 128 bytes here (volume)
    fams.append(("random", ops))

    # (c) chains
    ops = []
    for label, t in chains(rng, CHAIN_DEPTHS[tier]):
        item_ops(rng, t, ops, upto, 24 if thorough else 8)
    fams.append(("chains", ops))

    # (d) mode-switch stress
    ops = []
    specs = stress_specs()
    if not thorough:
        specs = sorted(rng.sample(specs, 5000))
    rot = Rot(7)
    for sp in specs:
        item_ops(rng, stress_tree(sp, rot), ops, upto, ncuts)
    fams.append(("modeswitch", ops))
    return fams


# ------------------------------------------------------------------------------- (e) malformed input
def mutant_ops(rng, count):
    """arbitrary / malformed bytes for the theorems stated for ARBITRARY input (skip_no_panic, noalloc_lockstep,
    noalloc_refines): mutated well-formed items (byte flips, deletions, insertions of structural bytes, truncation +
    garbage) and purely random strings biased towards structural bytes."""
    structural = bytes([0xff, 0x9f, 0xbf, 0x5f, 0x7f, 0x80, 0x81, 0x82, 0x98, 0xa0, 0xa1, 0xb8, 0xc0, 0xd8, 0x1b, 0x3b, 0x5b, 0x7b,
                        0x9b, 0xbb, 0xf8, 0xf9, 0xfb, 0x1c, 0x3f, 0xdc, 0xfc, 0x00, 0x17, 0x18, 0x40, 0x60, 0x61])
    base = random_trees(rng, max(50, count // 8))
    ops = []
    for i in range(count):
        r = rng.random()
        if r < 0.25:
            n = rng.randint(0, 24)
            b = bytes(rng.choice(structural) if rng.random() < 0.7 else rng.getrandbits(8) for _ in range(n))
        else:
            e = bytearray(enc(base[i % len(base)])[:300])
            for _ in range(rng.randint(1, 3)):
                k = rng.random()
                pos = rng.randrange(len(e) + 1)
                if k < 0.4 and e:
                    e[min(pos, len(e) - 1)] = rng.choice(structural) if rng.random() < 0.6 else rng.getrandbits(8)
                elif k < 0.6 and e:
                    del e[min(pos, len(e) - 1)]
                elif k < 0.85:
                    e.insert(pos, rng.choice(structural))
                else:
                    e = e[:pos] + bytearray(gen.rand_bytes(rng, rng.randint(0, 3)))
            b = bytes(e)
        ops.append(f"dec skip {gen.hexb(b)} #mut=1")
    # ill-formed nests that are long rather than random: an indefinite string whose chunks are again indefinite strings
    # (RFC 8949 3.2.3 forbids it; skip must refuse at the first inner head, not descend), heads repeated d times
    for d in (2, 3, 100, 1000, 5000, 20000):
        for hx in ("5f" * d, "7f" * d, "5f" * d + "ff" * d, "7f" * d + "41ff" + "ff" * d, "9f" + "5f" * d, "bf00" + "7f" * d,
                   "82" + "5f" * d + "ff" * d + "00", "5f40" * d, "7f60" * d + "ff"):
            ops.append(f"dec skip {hx} #mut=1")
    return ops


def judge_mut_alloc(op, impl, model, spec):
    # skip_no_panic: never a panic (or crash) on arbitrary bytes; otherwise the model must predict the outcome exactly
    if impl == "panic" or impl.startswith("crash"):
        return "violation"
    return "ok" if impl == model else "corr"


def judge_mut_noalloc(op, impl, model, spec):
    # spec = the ALLOC model on the same bytes (the alloc stream ties it to the alloc build): noalloc_lockstep says the
    # no-alloc build answers exactly like the alloc build or with `err message`; in particular ok => same position
    if impl == "panic" or impl.startswith("crash"):
        return "violation"
    if not impl.startswith("err message ") and spec is not None and impl != spec:
        return "violation"
    return "ok" if impl == model else "corr"


# ------------------------------------------------------------------------------- judges

def parse_ann(op):
    a = {}
    for w in op.split(" "):
        if w.startswith("#") and "=" in w:
            k, v = w[1:].split("=", 1)
            a[k] = int(v)
    return a


def judge_alloc(op, impl, model, spec):
    a = parse_ann(op)
    if a.get("prefix"):
        good = impl.startswith("err ")
        spec_good = spec is None or spec == "none"
    else:
        good = impl == f"ok () {a['n']}"
        # the Lean reference decoder (Parse.lean, proved sound and complete for Wire.lean's valid trees) finds exactly
        # one valid item of n bytes: "skip agrees with full decoding of the same item", and the Python generator agrees
        # with the Lean specification about what is well-formed
        # ... and on whether it nests an indefinite array/map inside a definite one (WItem.indefInDef, the predicate of
        # theorem noalloc_exact_or_unsupported)
        spec_good = spec is None or spec == f"ok () {a['n']} 1 {a['iid']}"
    if not good:
        return "violation"
    if not spec_good:
        return "corr"
    return "ok" if impl == model else "corr"


def to_spec(op):
    assert op.startswith("dec skip ")
    return "wf parse " + op[len("dec skip "):]


def judge_noalloc(op, impl, model, spec):
    a = parse_ann(op)
    if a.get("prefix"):
        good = impl.startswith("err ")
    else:
        isok = impl == f"ok () {a['n']}"
        ismsg = impl.startswith("err message ")
        good = isok or (ismsg and a["iid"] == 1)
        if a["iid"] == 1:
            STATS["iid1_full"] += 1
            STATS["iid1_message"] += ismsg
            STATS["iid1_ok"] += isok
        else:
            STATS["iid0_full"] += 1
            STATS["iid0_ok"] += isok
    if not good:
        return "violation"
    if spec is not None:
        want = "none" if a.get("prefix") else f"ok () {a['n']} 1 {a['iid']}"
        if spec != want:
            return "corr"
    return "ok" if impl == model else "corr"


def nontrivial(op, impl):
    return impl.startswith("ok ") or (impl.startswith("err ") and "#prefix=1" in op)


def to_model_noalloc(op):
    assert op.startswith("dec skip ")
    return "dec skip_noalloc " + op[len("dec skip "):]


class _NoallocStream(Stream):
    """rule text carries the run's iid counters (read by the runner after the stream was judged)."""
    @property
    def rule(self):
        return self._rule + _stats_text().replace("[this run,", "[cumulative over the no-alloc streams judged so far in this run,")
    @rule.setter
    def rule(self, v):
        self._rule = v


# ------------------------------------------------------------------------------- runner interface

def prepare(seed, tier):
    """build the standalone no-alloc harness (offline); abort loudly if it does not build."""
    with runner.cargo_lock():
        rc, out = runner.sh(["cargo", "build", "--release", "--offline"] + runner.cargo_extra_args(os.path.join(NOALLOC_DIR, "target")),
                            cwd=NOALLOC_DIR, timeout=3600)
    if rc != 0 or not os.path.exists(NOALLOC_BIN):
        runner.log(out[-6000:])
        raise RuntimeError("C06: the no-alloc harness (/verif/harness/noalloc, minicbor without features) does not build: "
                           "/repo/minicbor does not compile without the `alloc` feature, or the toolchain is unavailable offline")
    # self-check: the crate graph of the stand-alone harness really has minicbor WITHOUT features (no feature unification).  This is
    # read off cargo's resolution, not off the behaviour of skip: a tree whose no-alloc skip has learnt to cross an indefinite
    # container inside a definite one is allowed by the property and must be judged by the streams, not stop the check.
    import json as _json
    ea = runner.cargo_extra_args(None)                      # only the `--config paths=[..]` part applies to `cargo metadata`
    cfg = [ea[i + k] for i, a in enumerate(ea) if a == "--config" for k in (0, 1)]
    rc, out = runner.sh(["cargo", "metadata", "--format-version", "1", "--offline"] + cfg, cwd=NOALLOC_DIR, timeout=600)
    feats = None
    if rc == 0:
        try:
            md = _json.loads(out[out.index("{"):])
            ids = {p["id"] for p in md["packages"] if p["name"] == "minicbor"}
            feats = sorted({f for n in md["resolve"]["nodes"] if n["id"] in ids for f in n["features"]})
        except (ValueError, KeyError):
            feats = None
    if feats is None or any(f in feats for f in ("alloc", "std")):
        raise RuntimeError(f"C06: the stand-alone harness does not resolve minicbor without features (features: {feats}; cargo metadata rc={rc})")


def streams(rng, tier):
    for k in STATS:
        STATS[k] = 0
    out = []
    for name, ops in build_ops(rng, tier):
        s1 = Stream(f"{name}-alloc", "hcore", ops, spec_ops=[to_spec(o) for o in ops], judge=judge_alloc, nontrivial=nontrivial,
                    rule=f"family ({name}) on the alloc build (hcore) vs model `skip`; oracle: ok () n / err on strict prefixes; "
                         "spec: the Lean reference decoder `parse` (wf parse) ends at n on the full item and rejects every strict prefix")
        s1.shrinkable = False           # the #n / #iid annotations would go stale under byte deletion
        mops = [to_model_noalloc(o) for o in ops]
        s2 = _NoallocStream(f"{name}-noalloc", NOALLOC_BIN, ops, model_ops=mops, spec_ops=[to_spec(o) for o in ops],
                            judge=judge_noalloc, nontrivial=nontrivial,
                            rule=f"family ({name}) on the no-alloc build (hnoalloc, minicbor without features) vs model `skip_noalloc`; "
                                 "oracle: ok () n, or err message only if iid=1; err on strict prefixes")
        s2.shrinkable = False
        out += [s1, s2]
    mops = mutant_ops(rng, 200000 if tier == "thorough" else 20000)
    m1 = Stream("malformed-alloc", "hcore", mops, judge=judge_mut_alloc, nontrivial=lambda op, impl: True,
                rule="mutated well-formed items and random structural bytes on the alloc build: never panic (skip_no_panic), outcome == model")
    m2 = Stream("malformed-noalloc", NOALLOC_BIN, mops, model_ops=[to_model_noalloc(o) for o in mops], spec_ops=mops,
                judge=judge_mut_noalloc, nontrivial=lambda op, impl: True,
                rule="the same bytes on the no-alloc build: never panic; answer identical to the alloc model's (spec) or `err message` "
                     "(noalloc_lockstep / noalloc_refines on arbitrary bytes); outcome == model skip_noalloc")
    m2.shrinkable = False
    return out + [m1, m2, seq_stream(rng, tier)]


def item_starts(b):
    """offsets at which an item (or a break) starts inside the well-formed item b (top level first, then nested)"""
    out, i = [], 0
    while i < len(b):
        out.append(i)
        ib = b[i]; maj, ai = ib >> 5, ib & 31
        i += 1
        if ai in (24, 25, 26, 27):
            w = 1 << (ai - 24)
            arg = int.from_bytes(b[i:i + w], "big"); i += w
        else:
            arg = ai
        if maj in (2, 3) and ai != 31:
            i += arg
    return out


def seq_stream(rng, tier):
    """several skip() calls on ONE decoder: a skip that fails part-way (truncated input, after the switch to the explicit
    stack) followed by set_position and further skips: every call must behave like a call on a fresh decoder at that
    position (the model's calls are independent by construction), so state kept inside the Decoder between calls shows"""
    ops = []
    specs = stress_specs()
    n = 4000 if tier == "quick" else 60000
    for _ in range(n):
        if rng.random() < 0.7:
            t = stress_tree(rng.choice(specs), Rot(rng.randrange(1000)))
        else:
            t = rand_tree(rng, 5, 14, 0.45, 0.3)
        e = enc(t)
        full = e + enc(rand_tree(rng, 2, 4, 0.3, 0.5)) + suffix(rng)
        cut = e[:rng.randrange(1, len(e))] if len(e) > 1 and rng.random() < 0.6 else full
        starts = item_starts(e)
        calls = []
        for _ in range(rng.randint(2, 6)):
            r = rng.random()
            if r < 0.45: calls.append("skip")
            elif r < 0.8: calls.append("setpos:%d" % rng.choice(starts + [0, 0, len(cut), len(e)]))
            elif r < 0.9: calls.append("probe:skip")
            else: calls.append(rng.choice(["datatype", "array", "map", "u8"]))
        if "skip" not in calls: calls.append("skip")
        ops.append("seq " + (cut.hex() or "-") + " " + " ".join(calls))
    st = Stream("skip-call-sequences", "hcore", ops, judge=lambda op, impl, model, spec: ("violation" if ("panic" in impl or impl.startswith("crash")) else ("ok" if impl == model else "violation")),
                rule="seq <bytes> <2..7 calls>: skip / set_position to item starts / probe().skip() / accessors on ONE decoder over mode-switch stress nests and random "
                     "trees, complete or truncated: every answer (value / error class / position) equals the model's, whose calls are independent of each other; "
                     "a difference is a failing call sequence",
                nontrivial=lambda op, impl: "ok" in impl)
    st.shrinkable = False
    return st


def replay_streams(rp):
    op = rp["original_op"]
    binary = rp.get("binary", "hcore")
    mop = rp.get("model_op") or op
    if "#mut=1" in op:
        if binary == "hcore":
            s = Stream("replay", "hcore", [op], judge=judge_mut_alloc)
        else:
            s = Stream("replay", NOALLOC_BIN, [op], model_ops=[to_model_noalloc(op)], spec_ops=[op], judge=judge_mut_noalloc)
            s.shrinkable = False
        return [s]
    if binary == "hcore":
        s = Stream("replay", "hcore", [op], spec_ops=[rp.get("spec_op") or to_spec(op)], judge=judge_alloc, nontrivial=nontrivial)
    else:
        if not mop.startswith("dec skip_noalloc "):
            mop = to_model_noalloc(op)
        s = _NoallocStream("replay", NOALLOC_BIN, [op], model_ops=[mop], spec_ops=[rp.get("spec_op") or to_spec(op)],
                           judge=judge_noalloc, nontrivial=nontrivial)
    s.shrinkable = False
    return [s]
