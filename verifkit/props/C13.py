"""C13 — Bounded sinks: encoding succeeds iff it fits, never overruns, sink-independent."""
import struct
from verifkit.runner import Stream
from verifkit import gen

ID = "C13"
THM_MODULES = ["Minicbor.Thm.C13"]
P = "Minicbor.C13."
REQUIRED = [P + n for n in """sink_iff_fits sink_prefix vec_collects sink_independent specSeq_atomic cursor_position
position_after_encoding failure_is_write_error exact_buffer encoder_puts_sound call_script call_leaves_prefix call_script_all_fit""".split()]
PACKAGES = ["hcore"]
DEBUG_TWINS = True
KINDS = ["slice", "cslice", "carray", "cbox", "io:1", "io:3", "io:64"]
RULE = ("sinkenc <kind> <cap> <calls>: Encoder call chains (every integer method at its width edges, floats, simple/bool/null, tag/array/map heads at every "
        "width, strings and byte strings around the length-width edges 23/24/255/256/65535/65536, composite chains) into the real sinks &mut [u8], "
        "Cursor<&mut [u8]>, Cursor<[u8;N]> (N<=40), Cursor<Box<[u8]>>, Writer<limited std::io::Write> (1, 3, 64 bytes per write call) and Vec, at EVERY "
        "capacity 0..=len+1 (long strings: capacities around 0, the head length and the total length); sinkval: minicbor::encode of concrete typed values "
        "(u64, i64, String, ByteVec, Vec<u16>, Option<u32>, (u8,String,bool), BTreeMap<u8,u16>) likewise; sink <kind> <cap> <chunks>: raw write_all "
        "sequences, exhaustively all sequences of <=3 chunks with lengths 0..=cap+1 for cap<=5 (quick) / <=4 chunks, cap<=6 (thorough) plus seeded random longer ones. "
        "The buffer (0xEE) lies between two 16-byte canary regions.  Oracle computed in the orchestrator from the op alone (own CBOR encoder / own replay of the "
        "call sequence): success iff it fits, accepted bytes = a prefix of the expected encoding (all of it on success), rest of the buffer untouched, canaries "
        "intact, position = bytes accepted, never a panic; then the whole line is compared with the model.  Non-trivial = the op reached the sink.")
ASSUMPTIONS = [
    "Cursor<Box<[u8]>> and Vec own their heap allocation: no adjacent canary can be placed (safe Rust bounds checks apply); canaries are real for the slice, "
    "cursor-over-slice, array-cursor (neighbouring #[repr(C)] fields) and io sinks",
    "values of the C01/C08 typed generators reach the sinks only through Encoder call chains and the handful of concrete types of `sinkval`; that every Encode impl "
    "is such a chain is C01/C07's concern — the C13 theorems quantify over all chunk lists",
    "the std::io writer is the harness' Limited writer (at most `step` bytes per write, fixed total); std's default write_all loop is modelled, not verified",
]


# ----------------------------------------------------------------------------- own encoder (expected bytes)

TOVEC = ["tovec", "tovecw", "tovech", "tovecwh", "tovecb", "tovecn", "tovecwn"]


def head(maj, n):
    return gen.head(maj, n)

def enc_int(v):
    return head(0, v) if v >= 0 else head(1, -1 - v)

def enc_call(call):
    m, _, a = call.partition(":")
    if m in ("u8", "u16", "u32", "u64", "i8", "i16", "i32", "i64", "int", "char"):
        return enc_int(int(a))
    if m == "simple":
        x = int(a); return bytes([0xe0 + x]) if x < 0x14 else bytes([0xf8, x])
    if m == "bool": return bytes([0xf5 if a == "1" else 0xf4])
    if m == "null": return b"\xf6"
    if m == "undefined": return b"\xf7"
    if m == "f32": return b"\xfa" + bytes.fromhex(a.rjust(8, "0"))
    if m == "f64": return b"\xfb" + bytes.fromhex(a.rjust(16, "0"))
    if m == "f16":
        v = struct.unpack(">f", bytes.fromhex(a.rjust(8, "0")))[0]
        try:
            return b"\xf9" + struct.pack(">e", v)
        except OverflowError:
            return b"\xf9" + bytes([0xfc if v < 0 else 0x7c, 0])
    if m == "tag": return head(6, int(a))
    if m == "array": return head(4, int(a))
    if m == "map": return head(5, int(a))
    if m in ("bytes", "str"):
        b = b"" if a == "-" else bytes.fromhex(a)
        return head(2 if m == "bytes" else 3, len(b)) + b
    return {"begin_array": b"\x9f", "begin_bytes": b"\x5f", "begin_map": b"\xbf", "begin_str": b"\x7f", "end": b"\xff"}[m]

def enc_chain(calls):
    return b"".join(enc_call(c) for c in calls)


def val_chain(v):
    """the Encoder call chain a typed `sinkval` value is expected to amount to."""
    t, _, a = v.partition(":")
    if t in ("u64", "i64"): return [f"{t}:{a}"]
    if t in ("str", "bytes"): return [f"{t}:{a}"]
    if t == "vecu16":
        xs = [] if a == "-" else a.split(",")
        return [f"array:{len(xs)}"] + [f"u16:{x}" for x in xs]
    if t == "optu32": return ["null"] if a == "none" else [f"u32:{a}"]
    if t == "tuple":
        x, s, b = a.split(",")
        return ["array:3", f"u8:{x}", f"str:{s}", f"bool:{b}"]
    if t == "mapu8":
        kv = [] if a == "-" else [p.split("=") for p in a.split(",")]
        return [f"map:{len(kv)}"] + [c for k, v_ in kv for c in (f"u8:{k}", f"u16:{v_}")]
    raise ValueError(v)


# ----------------------------------------------------------------------------- judges

def parse_line(line):
    """`<status> pos=<n> buf=<hex> canary=<c>`; the status may contain one space (`err write`)."""
    p = line.split(" ")
    if len(p) < 4 or not p[-3].startswith("pos=") or not p[-2].startswith("buf=") or not p[-1].startswith("canary="):
        return None
    buf = b"" if p[-2][4:] == "-" else bytes.fromhex(p[-2][4:])
    return " ".join(p[:-3]), int(p[-3][4:]), buf, p[-1][7:]


def judge_enc(op, impl, model, spec):
    w = [x for x in op.split(" ")]
    kind, cap = w[1], int(w[2])
    exp = bytes.fromhex(w[-1].split(":")[1]) if w[-1] != "#exp:-" else b""
    r = parse_line(impl)
    if r is None:
        return "violation"                      # panic / crash / garbage
    status, pos, buf, canary = r
    good = canary == "ok"
    if kind == "vec" or kind in TOVEC:
        good = good and status == "ok" and buf == exp and pos == len(exp)
    else:
        fits = len(exp) <= cap
        good = good and len(buf) == cap and pos <= cap
        good = good and (status == "ok") == fits and (fits or status == "err write")
        good = good and exp.startswith(buf[:pos]) and (not fits or buf[:pos] == exp)
        good = good and all(b == 0xEE for b in buf[pos:])
    if not good:
        return "violation"
    return "ok" if impl == model else "corr"


def spec_seq(atomic, cap, chunks):
    free, acc, oks = cap, b"", []
    for c in chunks:
        if len(c) <= free:
            oks.append("ok"); acc += c; free -= len(c)
        else:
            oks.append("err")
            if not atomic:
                acc += c[:free]; free = 0
    return oks, acc


def judge_raw(op, impl, model, spec):
    w = [x for x in op.split(" ") if not x.startswith("#")]
    kind, cap = w[1], int(w[2])
    chunks = [b"" if h == "-" else bytes.fromhex(h) for h in w[3:]]
    r = parse_line(impl)
    if r is None:
        return "violation"
    status, pos, buf, canary = r
    if kind == "vec":
        exp = b"".join(chunks)
        good = status == "seq:" + (",".join(["ok"] * len(chunks)) or "-") and buf == exp and pos == len(exp) and canary == "ok"
    else:
        oks, acc = spec_seq(not kind.startswith("io:"), cap, chunks)
        good = (status == "seq:" + (",".join(oks) or "-") and canary == "ok" and pos == len(acc) and len(buf) == cap
                and buf[:pos] == acc and all(b == 0xEE for b in buf[pos:]))
    if not good:
        return "violation"
    return "ok" if impl == model else "corr"


# ----------------------------------------------------------------------------- generators

def judge_script(op, impl, model, spec):
    """`encseq <kind> <cap> <call>…`: calls on ONE encoder, carrying on after a call that did not fit.  The oracle does not
    know how a method splits its encoding into writes: a call is Ok iff its whole encoding fits into the room left at that
    time and then adds exactly it; a failed call adds a strict prefix of its encoding (any length); nothing else changes."""
    w = [x for x in op.split(" ") if not x.startswith("#")]
    cap, calls = int(w[2]), w[3:]
    iw = impl.split(" ")
    if len(iw) != 3 or not iw[1].startswith("pos=") or not iw[2].startswith("buf="):
        return "violation"
    rs = iw[0].split(",") if iw[0] != "-" else []
    pos = int(iw[1][4:])
    buf = b"" if iw[2][4:] == "-" else bytes.fromhex(iw[2][4:])
    if len(rs) != len(calls) or len(buf) != cap or pos > cap or any(b != 0xEE for b in buf[pos:]):
        return "violation"
    encs = [enc_call(c) for c in calls]

    def match(i, p):
        if i == len(calls):
            return p == pos
        e, room = encs[i], cap - p
        if rs[i] == "ok":
            return len(e) <= room and buf[p:p + len(e)] == e and match(i + 1, p + len(e))
        if rs[i] != "write" or len(e) <= room:
            return False
        return any(buf[p:p + k] == e[:k] and match(i + 1, p + k) for k in range(0, min(room, len(e) - 1) + 1))
    if not match(0, 0):
        return "violation"
    return "ok" if impl == model else "corr"


def script_ops(rng, tier):
    ops = ["encseq slice 6 u8:1 bytes:1111111111111111 u16:1000", "encseq cbox 0 u8:1 null", "encseq cslice 1 u16:1000 u8:3 u8:4"]
    pool = value_chains(rng, "quick")
    for _ in range(4000 if tier == "quick" else 60000):
        calls = []
        for _ in range(rng.randint(1, 7)):
            calls.append(rng.choice(rng.choice(pool)))
        total = sum(len(enc_call(c)) for c in calls)
        kind = rng.choice(["slice", "cslice", "cbox", "carr"])
        cap = 12 if kind == "carr" else rng.choice([0, 1, 2, 3, 5, 8, 12, 16, 24, max(total - 1, 0), total, max(total // 2, 0)])
        if cap > 4096:
            continue
        ops.append(f"encseq {kind} {cap} " + " ".join(calls))
    return ops


def tovec_stream(rng, tier):
    """minicbor::to_vec / to_vec_with on a thread with a history; also used by C03 (same value, same bytes, whatever was encoded before)"""
    ops, mops = [], []
    for v in typed_values(rng, tier):
        ch = val_chain(v)
        exp = enc_chain(ch)
        for k in TOVEC:
            ops.append(f"sinkval {k} 0 {v} #exp:{gen.hexb(exp)}")
            mops.append(f"sinkenc vec 0 {' '.join(ch)}")
    st = Stream("to-vec-with-history", "hcore", ops, model_ops=mops, judge=judge_enc, nontrivial=nontrivial,
                rule="sinkval tovec*: minicbor::to_vec / to_vec_with after failed calls on this thread, after a big one, nested inside another to_vec: "
                     "always the bytes of the value alone (own-encoder oracle + the model's one growable vector)")
    st.shrinkable = False
    return st


def value_chains(rng, tier):
    """lists of Encoder calls."""
    out = []
    edges = [0, 1, 23, 24, 25, 255, 256, 65535, 65536, 2**32 - 1, 2**32, 2**63 - 1, 2**63, 2**64 - 1]
    for bits, u, i in ((8, "u8", "i8"), (16, "u16", "i16"), (32, "u32", "i32"), (64, "u64", "i64")):
        for v in edges:
            if v < 2**bits: out.append([f"{u}:{v}"])
            if v < 2**(bits - 1):
                out.append([f"{i}:{v}"]); out.append([f"{i}:{-1 - v}"])
    for v in edges:
        out.append([f"int:{v}"]); out.append([f"int:{-1 - v}"])
        for m in ("tag", "array", "map"):
            out.append([f"{m}:{v}"])
    for x in (0, 19, 20, 23, 24, 32, 255): out.append([f"simple:{x}"])
    for c in (0x41, 0xe9, 0x20ac, 0x1f600): out.append([f"char:{c}"])
    out += [["bool:0"], ["bool:1"], ["null"], ["undefined"], ["begin_array"], ["begin_map"], ["begin_bytes"], ["begin_str"], ["end"]]
    for b in ("00000000", "3f800000", "7fc00001", "477ff000", "33000001", "c0490fdb"):
        out.append([f"f16:{b}"]); out.append([f"f32:{b}"])
    for b in ("0000000000000000", "400921fb54442d18", "7ff8000000000001", "8000000000000001"):
        out.append([f"f64:{b}"])
    for n in (0, 1, 2, 22, 23, 24, 25, 26, 254, 255, 256, 257) + (() if tier == "quick" else (1000,)):
        data = bytes((i * 7 + 1) % 251 for i in range(n))
        text = bytes(0x61 + (i % 26) for i in range(n))
        out.append([f"bytes:{gen.hexb(data)}"]); out.append([f"str:{gen.hexb(text)}"])
    # composites
    out += [["array:2", "u32:70000", "str:6162"],
            ["map:2", "u8:1", "str:61", "u8:2", "bytes:0102030405"],
            ["begin_array", "u8:1", "i16:-300", "f32:3f800000", "end"],
            ["tag:1", "u64:1700000000"],
            ["tag:55799", "array:3", "null", "bool:1", "f64:400921fb54442d18"],
            ["begin_str", "str:6162", "str:-", "str:63", "end"],
            ["array:4", "u64:18446744073709551615", "i64:-9223372036854775808", "f16:3c00", "simple:255"],
            ["map:1", "str:" + (b"k" * 24).hex(), "bytes:" + bytes(range(30)).hex()]]
    for _ in range(150 if tier == "quick" else 1500):
        n = rng.randint(2, 6)
        ch = []
        for _ in range(n):
            r = rng.random()
            if r < 0.35: ch.append(f"u64:{gen.rand_u(rng, 64)}")
            elif r < 0.55: ch.append(f"i64:{-1 - gen.rand_u(rng, 63)}")
            elif r < 0.7: ch.append("str:" + gen.hexb(gen.rand_text(rng, 8).encode()))
            elif r < 0.85: ch.append("bytes:" + gen.hexb(gen.rand_bytes(rng, rng.randint(0, 30))))
            elif r < 0.92: ch.append(f"array:{gen.rand_u(rng, 33)}")
            else: ch.append(rng.choice(["null", "bool:1", "f32:40490fdb", "f64:400921fb54442d18", "f16:3e000000"]))
        out.append(ch)
    return out


def caps_for(n, headlen, tier):
    if n <= (300 if tier == "quick" else 1200):
        return list(range(0, n + 2))
    s = {0, 1, 2, 3, headlen - 1, headlen, headlen + 1, n // 2, n - 2, n - 1, n, n + 1}
    return sorted(c for c in s if c >= 0)


def typed_values(rng, tier):
    vs = ["u64:0", "u64:24", "u64:65536", "u64:18446744073709551615", "i64:-1", "i64:-25", "i64:-9223372036854775808",
          "str:-", "str:616263", "str:" + (b"x" * 24).hex(), "bytes:-", "bytes:00", "bytes:" + bytes(range(25)).hex(),
          "vecu16:-", "vecu16:1", "vecu16:1,2,300", "vecu16:" + ",".join(str(i * 2731 % 65536) for i in range(24)),
          "optu32:none", "optu32:0", "optu32:4294967295", "tuple:7,6162,1", "tuple:255,-,0", "tuple:24," + (b"y" * 23).hex() + ",1",
          "mapu8:-", "mapu8:1=2", "mapu8:1=2,3=400,200=65535"]
    for _ in range(10 if tier == "quick" else 200):
        vs.append("vecu16:" + ",".join(str(gen.rand_u(rng, 16)) for _ in range(rng.randint(1, 12))))
    return vs


def raw_sequences(rng, tier):
    """(cap, [chunks]) with distinct running byte values."""
    out = []
    max_cap, max_len = (5, 3) if tier == "quick" else (6, 4)
    for cap in range(0, max_cap + 1):
        lens = range(0, cap + 2)
        seqs = [[]]
        frontier = [[]]
        for _ in range(max_len):
            frontier = [s + [l] for s in frontier for l in lens]
            seqs += frontier
        for s in seqs:
            out.append((cap, s))
    for _ in range(4000 if tier == "quick" else 60000):
        cap = rng.choice([0, 1, 2, 3, 5, 8, 13, 16, 24, 32, 40])
        n = rng.randint(1, 10)
        out.append((cap, [rng.choice([0, 1, 1, 2, 3, cap // 2, cap, cap + 1, rng.randint(0, cap + 2)]) for _ in range(n)]))
    res = []
    for cap, ls in out:
        ctr = 1
        chunks = []
        for l in ls:
            chunks.append(bytes(((ctr + i) % 200) + 1 for i in range(l)))
            ctr += l
        res.append((cap, chunks))
    return res


def nontrivial(op, impl):
    return " pos=" in impl


def streams(rng, tier):
    out = []
    # ---- Encoder call chains at every capacity in every sink
    ops = []
    for ch in value_chains(rng, tier):
        exp = enc_chain(ch)
        headlen = len(exp) - (len(bytes.fromhex(ch[-1].split(":")[1])) if ch[-1].startswith(("str:", "bytes:")) and not ch[-1].endswith(":-") else 0)
        calls = " ".join(ch)
        ops.append(f"sinkenc vec 0 {calls} #exp:{gen.hexb(exp)}")
        for cap in caps_for(len(exp), headlen, tier):
            for k in KINDS:
                if k == "carray" and cap > 40:
                    continue
                ops.append(f"sinkenc {k} {cap} {calls} #exp:{gen.hexb(exp)}")
    # long strings: capacities around the interesting points only
    for n in (65535, 65536) if tier == "quick" else (65535, 65536, 70000):
        text = bytes(0x61 + (i % 26) for i in range(n))
        for m in ("str", "bytes"):
            ch = [f"{m}:{text.hex()}"]
            exp = enc_chain(ch)
            for cap in caps_for(len(exp), len(exp) - n, tier):
                for k in ("slice", "cslice", "cbox", "io:4096"):
                    ops.append(f"sinkenc {k} {cap} {ch[0]} #exp:{exp.hex()}")
    s1 = Stream("encoder-into-sinks", "hcore", ops, judge=judge_enc, nontrivial=nontrivial,
                rule="sinkenc: Encoder call chains x every capacity 0..=len+1 x sink kinds; own-encoder oracle + model")
    s1.shrinkable = False
    out.append(s1)
    # ---- typed values through minicbor::encode; the model runs the call chain they must amount to
    ops, mops = [], []
    for v in typed_values(rng, tier):
        ch = val_chain(v)
        exp = enc_chain(ch)
        for cap in caps_for(len(exp), len(exp), tier):
            for k in KINDS + ["vec"]:
                if k == "carray" and cap > 40:
                    continue
                ops.append(f"sinkval {k} {cap} {v} #exp:{gen.hexb(exp)}")
                mops.append(f"sinkenc {k} {cap} {' '.join(ch)}")
        # the growable-vector entry points of lib.rs, on a thread with a history: after failed calls (h), after a
        # big successful one (b), nested inside another to_vec (n); the model knows one growable vector
        for k in TOVEC:
            ops.append(f"sinkval {k} 0 {v} #exp:{gen.hexb(exp)}")
            mops.append(f"sinkenc vec 0 {' '.join(ch)}")
    s2 = Stream("typed-values-into-sinks", "hcore", ops, model_ops=mops, judge=judge_enc, nontrivial=nontrivial,
                rule="sinkval: minicbor::encode(value, sink) for concrete types x every capacity x sink kinds; the model runs the equivalent Encoder call chain")
    s2.shrinkable = False
    out.append(s2)
    # ---- raw write_all sequences
    ops = []
    for cap, chunks in raw_sequences(rng, tier):
        hx = " ".join(gen.hexb(c) for c in chunks)
        for k in KINDS + ["vec"]:
            if k == "carray" and cap > 40:
                continue
            ops.append(f"sink {k} {cap} {hx}".rstrip())
    s3 = Stream("raw-write-all-sequences", "hcore", ops, judge=judge_raw, nontrivial=nontrivial,
                rule="sink: raw write_all sequences (carrying on after failures), lengths 0..=cap+1; own replay oracle + model")
    s3.shrinkable = False
    out.append(s3)
    # ---- the iterator adaptors encode::ArrayIter / MapIter into bounded sinks; the model runs the Encoder call chain they amount to
    ops, mops = [], []
    for _ in range(600 if tier == "quick" else 8000):
        vals = [rng.choice([0, 1, 2, 23, 24, 255, 256, 1000, 65536, 70001]) for _ in range(rng.randint(0, 5))]
        what, mode = rng.choice(["array", "map"]), rng.choice(["exact", "loose", "even"])
        if what == "array":
            items = [v for v in vals if mode != "even" or v % 2 == 0]
            body = [f"u32:{v}" for v in items]
            # a filter over an empty iterator reports the exact size 0: definite
            ch = ([f"array:{len(items)}"] + body) if mode == "exact" or not vals else (["begin_array"] + body + ["end"])
        else:
            items = [(i, v) for i, v in enumerate(vals) if mode != "even" or v % 2 == 0]
            body = [c for i, v in items for c in (f"u32:{i}", f"u32:{v}")]
            ch = ([f"map:{len(items)}"] + body) if mode == "exact" or not vals else (["begin_map"] + body + ["end"])
        exp = enc_chain(ch)
        for cap in sorted(set(caps_for(len(exp), len(exp), tier)) | {max(len(exp) - 2, 0), max(len(exp) - 3, 0)}):
            for k in rng.sample(KINDS, 3):
                if k == "carray" and cap > 40:
                    continue
                ops.append(f"sinkiter {k} {cap} {what} {mode} {','.join(map(str, vals)) or '-'} #exp:{gen.hexb(exp)}")
                mops.append(f"sinkenc {k} {cap} {' '.join(ch)}")
    s5 = Stream("iterator-adaptors-into-sinks", "hcore", ops, model_ops=mops, judge=judge_enc, nontrivial=nontrivial,
                rule="sinkiter: Encoder::encode(ArrayIter / MapIter over exact, loose and filtering iterators) into every bounded sink at capacities around "
                     "the length; own-encoder oracle (succeeds iff it fits, a prefix of the encoding behind) + the model on the equivalent call chain")
    s5.shrinkable = False
    out.append(s5)
    # ---- scripts of Encoder calls on one sink, carrying on after failures
    s4 = Stream("call-scripts", "hcore", script_ops(rng, tier), judge=judge_script, nontrivial=lambda op, impl: "pos=" in impl,
                rule="encseq: Encoder calls on ONE bounded sink carrying on after a call that did not fit (C13.call_script): a call is Ok iff its "
                     "encoding fits into the room left then; a failed one leaves a strict prefix of its encoding; nothing beyond is touched; + model")
    s4.shrinkable = False
    out.append(s4)
    # ---- every built-in Encode impl (the C01 corpus) into plain slices and cursors of every capacity up to the length and one beyond
    from verifkit.props import C01
    tops, tmops = C01.enc_ops(C01.corpus(rng, tier))
    step = 3 if tier == "quick" else 1
    kops = ["tsink" + o[4:] for o in tops[::step]]
    def judge_tsink(op, impl, model, spec):
        mw = model.split(" ")
        if not impl.startswith("fits "):
            return "ok" if impl.startswith("err ") and model.startswith("err ") else "violation"
        mlen = 0 if mw[0] == "-" else len(mw[0]) // 2
        return "ok" if int(impl.split(" ")[1]) == mlen else "corr"
    s6 = Stream("builtin-impls-into-bounded-sinks", "hcore", kops, model_ops=tmops[::step], judge=judge_tsink, nontrivial=lambda op, impl: impl.startswith("fits"),
                rule="tsink <type> <value>: every registered built-in type's Encode impl into &mut [u8] and Cursor<&mut [u8]> at every capacity 0..len+1 "
                     "(all up to 48, then a sample): Ok exactly when it fits, otherwise a WRITE error, the accepted bytes a prefix, nothing beyond touched; "
                     "the length is the model's")
    s6.shrinkable = False
    out.append(s6)
    # ---- one std::io adapter (`Writer`) across a failed write: an inner writer that has room again (it takes chunks whole or not at all, or it was
    # rewound through get_mut) accepts what fits; the adapter keeps no memory of the failure
    iops = []
    for _ in range(1500 if tier == "quick" else 30000):
        cap = rng.choice([0, 1, 2, 3, 4, 5, 8, 16, 23, 24, 64])
        chunks = [gen.hexb(gen.rand_bytes(rng, rng.choice([0, 1, 1, 2, 3, 4, 5, 9, 17, 30]))) for _ in range(rng.randint(1, 10))]
        iops.append(f"sinkio {rng.choice(['aon', 'rewind'])} {cap} " + " ".join(chunks))
    def judge_sinkio(op, impl, model, spec):
        w = op.split(" ")
        cap = int(w[2]); chunks = [b"" if c == "-" else bytes.fromhex(c) for c in w[3:]]
        rs = []
        if w[1] == "aon":
            buf = b""
            for c in chunks:
                if len(c) <= cap - len(buf): buf += c; rs.append("ok")
                else: rs.append("err")
        else:
            m = bytearray([0xEE] * cap); pos = 0
            for c in chunks:
                n = min(len(c), cap - pos)
                m[pos:pos + n] = c[:n]; pos += n
                if n < len(c): rs.append("err"); pos = 0
                else: rs.append("ok")
            buf = bytes(m)
        return "ok" if impl == f"seq:{','.join(rs)} buf={gen.hexb(buf)}" else "violation"
    s7 = Stream("writer-adapter-across-a-failed-write", "hcore", iops, model_ops=["nop"] * len(iops), judge=judge_sinkio,
                rule="sinkio: raw write_all sequences on ONE encode::write::Writer over (a) an all-or-nothing std::io::Write, (b) a std::io::Cursor rewound through "
                     "get_mut() after each failure: a chunk that fits is written, whatever failed before; oracle computed here")
    s7.shrinkable = False
    out.append(s7)
    # ---- token lists through ONE Encoder::tokens call (indefinite containers open when the sink runs out) at every capacity
    tops = []
    lists = [["beginarray", "string:s616263", "u8:1", "break"], ["beginmap", "u8:1", "beginarray", "bytes:h0102", "break", "break"],
             ["beginstring", "string:s6162", "string:s63", "break"], ["array:2", "beginarray", "u16:300", "break", "u8:1"],
             ["beginarray", "beginarray", "beginmap", "break", "break", "u64:4294967296", "break"], ["tag:1", "beginbytes", "bytes:h010203", "break"]]
    for _ in range(150 if tier == "quick" else 3000):
        l = []
        depth = 0
        for _ in range(rng.randint(1, 8)):
            r = rng.random()
            if r < 0.3:
                l.append(rng.choice(["beginarray", "beginmap"])); depth += 1
            elif r < 0.45 and depth:
                l.append("break"); depth -= 1
            else:
                l.append(rng.choice(["u8:1", "u16:300", "string:s616263", "bytes:h0102", "null", "u32:70000", "f64:x3ff8000000000000", "string:s" + "61" * 30]))
        l += ["break"] * depth
        lists.append(l)
    tmodel = []
    for l in lists:
        for kind in ("slice", "cslice", "cbox"):
            for cap in range(0, 48):
                tops.append(f"sinktok {kind} {cap} {','.join(l)}"); tmodel.append("tokenc " + ",".join(l))
    def judge_sinktok(op, impl, model, spec):
        w = op.split(" ")
        cap = int(w[2])
        mw = model.split(" ")
        if len(mw) != 2 or not mw[1].startswith("len="):
            return "corr"
        full = b"" if mw[0] == "-" else bytes.fromhex(mw[0])
        iw = impl.split(" ")
        if impl.startswith("ok "):
            st, rest = "ok", iw[1:]
        elif impl.startswith("err write "):
            st, rest = "err", iw[2:]
        else:
            return "violation"
        kv = dict(x.split("=", 1) for x in rest)
        pos = int(kv["pos"]); buf = b"" if kv["buf"] == "-" else bytes.fromhex(kv["buf"])
        if kv.get("canary") != "ok" or len(buf) != cap or pos > cap:
            return "violation"
        if (st == "ok") != (len(full) <= cap):
            return "violation"                          # Ok exactly when the whole encoding fits
        if buf[:pos] != full[:pos] or any(b != 0xEE for b in buf[pos:]):
            return "violation"                          # what was accepted is a prefix of the encoding; nothing behind it is touched
        if st == "ok" and pos != len(full):
            return "violation"
        return "ok"
    s8 = Stream("token-lists-into-bounded-sinks", "hcore", tops, model_ops=tmodel, judge=judge_sinktok,
                rule="sinktok: a balanced token list (indefinite containers, chunked strings, tags) through one Encoder::tokens call into &mut [u8] / Cursor sinks of every "
                     "capacity 0..47: Ok exactly when the model's encoding fits; otherwise a write error, the accepted bytes a prefix of that encoding, nothing behind them touched")
    s8.shrinkable = False
    out.append(s8)
    return out


def replay_streams(rp):
    op = rp.get("original_op") or rp["op"]
    if op.startswith("tsink"):
        s = Stream("replay", "hcore", [op], model_ops=[rp.get("model_op") or "nop"], judge=lambda o, i, m, sp: "ok" if i.startswith("fits ") else "violation")
        s.shrinkable = False
        return [s]
    if op.startswith("sinktok"):
        st = [x for x in streams(__import__("random").Random(1), "quick") if x.name.startswith("token-lists-into")][0]
        s = Stream("replay", "hcore", [op], model_ops=["tokenc " + op.split(" ")[3]], judge=st.judge)
        s.shrinkable = False
        return [s]
    if op.startswith("sinkio"):
        st = [x for x in streams(__import__("random").Random(1), "quick") if x.name.startswith("writer-adapter")][0]
        s = Stream("replay", "hcore", [op], model_ops=["nop"], judge=st.judge)
        s.shrinkable = False
        return [s]
    j = judge_raw if op.startswith("sink ") else judge_script if op.startswith("encseq") else judge_enc
    s = Stream("replay", "hcore", [op], model_ops=[rp.get("model_op") or op], judge=j)
    s.shrinkable = False
    return [s]
