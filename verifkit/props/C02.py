"""C02 — Decoding untrusted bytes is total: no panic, no hang, bounded memory, in bounds."""
import itertools
from verifkit.runner import Stream
from verifkit import gen, wiregen as W
from verifkit.props import C01

ID = "C02"
THM_MODULES = ["Minicbor.Thm.C02"]
REQUIRED = ["Minicbor.C02." + n for n in """no_panic_accessors no_panic_unsigned no_panic_accessors_pointwise
no_panic_decodeT no_panic_decodeT_pointwise decodeT_consumes fuel_adequate fuel_irrelevant fuel_adequate_fields no_panic_iterators
no_panic_counterexample_prefix_duration suffix_iterators
no_panic_token no_panic_tokens suffix_accessors suffix_decodeT suffix_token pos_of_suffix pos_in_bounds pos_monotone
pos_token pos_skip pos_stuck_past_end_accessors pos_stuck_past_end_decodeT pos_stuck_past_end_token pos_stuck_past_end
alloc_linear_decodeT alloc_linear_stringIter alloc_linear_bytes alloc_linear_tokens work_indep_of_declared_count
repeatN_ok_count work_linear_accessors work_linear_decodeT work_linear_skip work_linear_tokens
arrayvec_drops_once arrayvec_each_once""".split()]   # see lean/Minicbor/Thm/C02.lean
PACKAGES = ["hcore", "hserde"]
DEBUG_TWINS = True
ACCS = ["bool", "u8", "u16", "u32", "u64", "i8", "i16", "i32", "i64", "int", "f16", "f32", "f64", "char", "bytes", "str",
        "bytes_iter", "str_iter", "array", "map", "tag", "null", "undefined", "simple", "datatype", "skip"]
RULE = ("every decoding entry point on hostile input: (a) every byte string of length <= 2 (quick: second byte stride 3; thorough: all, plus 3-byte samples) x 26 accessors; "
        "(b) all 256 initial bytes x 5 argument widths x boundary arguments {0,1,23,24,255,256,2^16-1,2^16,2^32-1,2^32,2^63,2^64-1} x {no payload, short payload} x accessors, "
        "tokenizer and display; (c) typed decode of ~190 Rust types on strict prefixes and single mutations of valid encodings (length bumped/huge, definite<->indefinite, "
        "major type swapped, break inserted), with the bytes allocated during the call measured by a counting global allocator (must stay <= 256*len + 65536 whatever "
        "length the input declares); (d) short sequences of calls on one decoder incl. arbitrary set_position and probe; (e) containers of drop-counting elements: every "
        "element decoded before a failure is dropped exactly once.  Oracle on the implementation: never `panic`, position <= max(old position, len), allocation bound, "
        "created == dropped; and every line must equal the model's.  Non-trivial: an error other than eoi, or ok.")
ASSUMPTIONS = ["memory safety of the two unsafe blocks (ArrayVec, ByteSlice casts) is outside the model; the thorough tier runs the same corpus under Miri as supporting evidence only",
               "wall-clock time is not measured; termination is the fuel-adequacy theorems plus the fact that every run completed"]


def judge_acc(op, impl, model, spec):
    w = op.split(" ")
    n = 0 if w[2] == "-" else len(w[2]) // 2
    iw = impl.split(" ")
    if iw[0] in ("panic", "crash") or len(iw) < 3:
        return "violation"
    try:
        pos = int(iw[-1])
    except ValueError:
        return "violation"
    if pos > n:
        return "violation"
    return "ok" if impl == model else "corr"


def judge_tdecm(op, impl, model, spec):
    w = op.split(" ")
    n = 0 if w[2] == "-" else len(w[2]) // 2
    if impl.startswith("panic") or impl.startswith("crash"):
        return "violation"
    body, _, a = impl.rpartition(" alloc=")
    try:
        alloc = int(a)
        pos = int(body.split(" ")[-1])
    except ValueError:
        return "violation"
    if pos > n or alloc > 256 * n + 65536:
        return "violation"
    return "ok" if C01.canon_sorted(op, body) == C01.canon_sorted(op, model) else "corr"


def judge_seq(op, impl, model, spec):
    w = op.split(" ")
    n = 0 if w[1] == "-" else len(w[1]) // 2
    if "panic" in impl or impl.startswith("crash"):
        return "violation"
    cur = 0
    for part in impl.split(";"):
        pw = part.split(" ")
        if pw[0] == "pos":
            cur = int(pw[1]); continue
        p = int(pw[-1])
        if p > max(cur, n):
            return "violation"
        cur = p
    return "ok" if impl == model else "corr"


def judge_drop(op, impl, model, spec):
    iw = impl.split(" ")
    if len(iw) != 3 or iw[0] not in ("ok", "err"):
        return "violation"
    c, d = int(iw[1].split("=")[1]), int(iw[2].split("=")[1])
    return "ok" if c == d else "violation"


def streams(rng, tier):
    q = tier == "quick"
    ops = []
    for acc in ACCS:
        ops.append(f"dec {acc} -")
        for a in range(256):
            ops.append("dec %s %02x" % (acc, a))
    step = 3 if q else 1
    for a in range(256):
        for b in range(a % step, 256, step):
            h = "%02x%02x" % (a, b)
            for acc in ACCS:
                ops.append(f"dec {acc} {h}")
    if not q:
        for _ in range(400000):
            h = gen.rand_bytes(rng, 3).hex()
            ops.append(f"dec {rng.choice(ACCS)} {h}")
    big = [0, 1, 23, 24, 255, 256, 65535, 65536, 2**32 - 1, 2**32, 2**63, 2**64 - 1]
    tok_ops, disp_ops = [], []
    for b0 in range(256):
        maj = b0 >> 5
        for width in gen.WIDTHS:
            for n in big:
                if gen.fits(width, n):
                    hd = gen.head(maj, n, width)
                    for tail in (b"", b"\x01\x02"):
                        h = (hd + tail).hex()
                        for acc in (ACCS if (b0 % 8 == 0 or not q) else rng.sample(ACCS, 4)):
                            ops.append(f"dec {acc} {h}")
                        tok_ops.append(f"tokdec {h}")
                        disp_ops.append(f"display {h}")
    s1 = Stream("accessors-hostile", "hcore", ops, judge=judge_acc, rule=RULE,
                nontrivial=lambda op, impl: not impl.startswith("err eoi"))
    s1.shrinkable = False
    yield s1
    size_ops = ["size tail -"] + ["size head %02x" % b for b in range(256)] + ["size tail %02x" % b for b in range(256)]
    size_ops += ["size tail %02x%s" % (b, t) for b in range(256) for t in ("00", "0000", "000000", "00000000", "00" * 7, "00" * 8, "ff" * 9)]
    for op in tok_ops:
        size_ops.append("size tail " + op.split(" ")[1])
    for a in range(256):
        for b in range(0, 256, 5):
            size_ops.append("size tail %02x%02x" % (a, b))
    s2b = Stream("size-hostile", "hcore", size_ops, rule="Size::head on all 256 bytes; Size::tail on all 1-byte strings, every first byte with 1..9 argument bytes, every head with extreme arguments and 2-byte strings (sampled)")
    s2b.shrinkable = False
    yield s2b
    s2 = Stream("tokenizer-hostile", "hcore", tok_ops, rule="tokdec on every head with extreme declared lengths")
    s2.shrinkable = False
    yield s2
    # a tokenizer obtained at, and beyond, the end of the input (set_position does not check): nothing, no panic — all three constructors
    t2 = []
    for op in tok_ops[::7]:
        h = op.split(" ")[1]
        n = len(h) // 2
        for p in (n, n + 1, n + 9):
            t2.append(f"tokdec2 {p} {h}")
    def judge_t2(op, impl, model, spec):
        parts = impl.split(" | ")
        return "ok" if len(parts) == 3 and parts[0] == parts[1] == parts[2] else "violation"
    s2c = Stream("tokenizer-beyond-end", "hcore", t2, model_ops=["nop"] * len(t2), judge=judge_t2,
                 rule="tokdec2 <pos >= len>: Decoder::tokens(), Tokenizer::new and Tokenizer::from at and beyond the end of the input (no model op)",
                 nontrivial=lambda op, impl: " | " in impl)
    s2c.shrinkable = False
    yield s2c
    # typed decodes with allocation accounting
    pre, mut = C01.typed_mutation_streams(rng, tier)
    def with_alloc(st, name):
        o = ["tdecm" + x[4:] for x in st.ops]
        s = Stream(name, "hcore", o, model_ops=st.model_ops, judge=judge_tdecm, rule=st.rule + "; allocation measured")
        s.shrinkable = False
        return s
    yield with_alloc(pre, "typed-prefix-alloc")
    yield with_alloc(mut, "typed-mutated-alloc")
    # hostile declared lengths through every registered type
    hostile = []
    reg = [rt for rt in C01.registry() if not rt.enconly]
    for rt in reg:
        for h in ("9bffffffffffffffff", "9b00000000ffffffff01", "bbffffffffffffffff0101", "5bffffffffffffffff00", "7b7fffffffffffffff61",
                  "9f", "bf", "5f", "7f", "9f9f9f9f9f9f9f9f", "821bffffffffffffffff1a3b9aca00", "c6" * 9, "d8" , "fb", "f9", "3b", "38",
                  "821b800000000000000000", "821b7fffffffffffffff1a3b9aca00", "821b7fffffffffffffff1affffffff", "821bffffffffffffffff00",
                  "821b80000000000000001a3b9ac9ff", "9f1b8000000000000000" "00ff", "1b8000000000000000", "3b8000000000000000", "3b7fffffffffffffff",
                  "3bffffffffffffffff", "1bffffffffffffffff", "1b0000000100000041", "1a00110000", "19d800",
                  # thousands of nested indefinite-string heads (ill-formed; must be refused at the first inner head, not descended into)
                  "5f" * 3000, "7f" * 3000, "9f" + "7f" * 3000, "5f" * 3000 + "ff" * 3000):
            hostile.append((f"tdecm {rt.name} {h}", f"tdec {rt.desc_s} {h}"))
    s5 = Stream("typed-hostile-lengths", "hcore", [a for a, _ in hostile], model_ops=[b for _, b in hostile], judge=judge_tdecm,
                rule="every registered type on inputs declaring 2^64-1 / 2^32-1 elements or bytes, unterminated indefinite items, the Duration carry overflow")
    s5.shrinkable = False
    yield s5
    # call sequences with set_position / probe
    seqs = []
    calls = ACCS + ["probe:" + a for a in ("u8", "skip", "str", "array", "int")]
    for _ in range(8000 if q else 150000):
        t = W.rand_tree(rng, rng.randint(0, 4))
        e = W.enc(t) + gen.rand_bytes(rng, rng.randint(0, 3))
        if rng.random() < 0.3 and len(e) > 1:
            m = bytearray(e); m[rng.randrange(len(m))] = rng.getrandbits(8); e = bytes(m)
        cs = []
        for _ in range(rng.randint(1, 6)):
            if rng.random() < 0.2:
                cs.append("setpos:%d" % rng.choice([0, 1, len(e) - 1 if e else 0, len(e), len(e) + 1, len(e) + 7, 2**63, 2**64 - 1]))
            else:
                cs.append(rng.choice(calls))
        seqs.append(f"seq {gen.hexb(e)} " + " ".join(cs))
    for acc in ("bytes", "str", "bytes_iter", "str_iter", "skip", "datatype"):
        for d in (50, 3000, 20000):
            for unit in ("5f", "7f"):
                seqs.append(f"seq {unit * d} {acc}")
                seqs.append(f"seq {unit * d}{'ff' * d} {acc} {acc}")
    s6 = Stream("call-sequences", "hcore", seqs, judge=judge_seq, rule="1..6 calls on one decoder incl. set_position (also far beyond the end) and probe")
    s6.shrinkable = False
    yield s6
    # drop counting
    drops = []
    conts = ["arr0", "arr1", "arr3", "arr8", "vec", "deque", "bset", "bmap", "hmap", "tup", "optarr", "arrarr", "range"]
    base = [b"\x80", b"\x81\x01", b"\x83\x01\x02\x03", b"\x84\x01\x02\x03\x04", b"\x83\x01\x02", b"\x83\x01\x02\x61", b"\x9f\x01\x02\x03\xff",
            b"\x9f\x01\x02\x03", b"\x9f\x01\x02\x03\x04\x05\x06\x07\x08\x09\xff", b"\xa2\x01\x02\x03\x04", b"\xa2\x01\x02\x03", b"\xa2\x01\x02\x01\x05",
            b"\xbf\x01\x02\x03\x61\xff", b"\x82\x82\x01\x02\x82\x03\x61", b"\x82\x82\x01\x02\x83\x03\x04\x05", b"\xf6", b"\x82\x01\x19\x01\x00",
            b"\x98\x08" + bytes(range(8)), b"\x88" + bytes(range(7)) + b"\x61", b"\x89" + bytes(range(9))]
    for c in conts:
        for b in base:
            drops.append(f"dropcount {c} {b.hex()}")
        for _ in range(100 if q else 3000):
            b = bytearray(rng.choice(base))
            if len(b) > 1: b[rng.randrange(len(b))] = rng.getrandbits(8)
            drops.append(f"dropcount {c} {bytes(b).hex()}")
    s7 = Stream("drop-exactly-once", "hcore", drops, model_ops=["nop"] * len(drops), judge=judge_drop,
                rule="containers of drop-counting elements decoded from valid / truncated / overlong / mutated input: created == dropped after the call")
    s7.shrinkable = False
    yield s7
    # nesting as deep as the input is long: nothing on the decoding side may recurse per level (skip above all: it is what every
    # typed decode calls for what it ignores)
    deep = []
    for d in ((100000, 1000000) if q else (100000, 1000000, 4000000)):
        for unit, close in (("c0", ""), ("d81e", ""), ("81", ""), ("9f", "ff"), ("a100", ""), ("bf00", "ff"), ("c081", ""), ("c19fc2", "ff"), ("82c0", "00")):
            deep.append(f"dec skip {unit * d}00{close * d} #whole=1")
            deep.append(f"dec skip {unit * d} #whole=0")                          # cut before the bottom
        deep.append(f"dec datatype {'c0' * d}00")
        deep.append(f"dec tag {'c0' * d}00")
    def judge_deep(op, impl, model, spec):
        # the oracle is computed here (a whole chain is skipped to its end, a cut one ends in end-of-input); the model is compared where the model
        # DRIVER itself survives the depth (its recursion is structural: at 10^7 levels the driver process may run out of stack, which says
        # nothing about the code)
        w = op.split(" ")
        n = len(w[2]) // 2
        if w[1] == "skip":
            whole = "#whole=1" in w
            if whole and impl != f"ok () {n}": return "violation"
            if not whole and not impl.startswith("err eoi"): return "violation"
        r = judge_acc(op, impl, model, spec)
        return "ok" if r == "corr" and model.startswith("crash") else r
    s8 = Stream("nesting-as-deep-as-the-input", "hcore", deep, judge=judge_deep,
                rule="dec skip on chains of 10^5 / 10^6 (thorough 4*10^6) tags, definite / indefinite arrays and maps, mixed; whole and cut before the bottom: an answer (no stack overflow): "
                     "position = length for a whole chain, end-of-input for a cut one; the model's answer wherever the model driver survives the depth")
    s8.shrinkable = False
    yield s8
    # rendering: every head at its extreme arguments through the diagnostic display (integers at both ends of their range included)
    rops = []
    for b0 in range(256):
        for width in gen.WIDTHS:
            for n in (0, 23, 255, 2**16 - 1, 2**32 - 1, 2**63 - 1, 2**63, 2**64 - 1):
                if gen.fits(width, n):
                    rops.append("display " + gen.head(b0 >> 5, n, width).hex() if (b0 & 31) == 0 else "display " + bytes([b0]).hex() + gen.rand_bytes(rng, 8).hex())
    for n in list(range(0, 70)) + [96, 128, 256, 1024]:
        rops.append("display " + (gen.head(2, n) + bytes(n)).hex()); rops.append("display " + (gen.head(3, n) + b"a" * n).hex())
    # two and three containers open at once with extreme announced counts, then the input ends (whatever is computed from the counts
    # still outstanding must not overflow), and tags in front of empty indefinite strings
    ext = [gen.head(m, n, 8) for m in (4, 5) for n in (2**64 - 1, 2**63, 2**63 - 1, 2**32)] + [gen.head(4, 3), gen.head(5, 2), b"\x9f", b"\xbf"]
    for a in ext:
        for b in ext:
            for tl in (b"", b"\x01", b"\x01\x02", b"\x83\x01"):
                rops.append("display " + (a + b + tl).hex())
            for c in ext[:8:3]:
                rops.append("display " + (a + b + c + b"\x01").hex())
    for tg in (b"\xc2", b"\xc2\xc3", b"\xd9\xd9\xf7"):
        for st_ in (b"\x5f\xff", b"\x7f\xff", b"\x5f\x40\xff", b"\x7f\x60\xff"):
            rops += ["display " + (tg + st_).hex(), "display " + (b"\x82" + tg + st_ + b"\x05").hex(), "display " + (b"\x9f" + tg + st_ + tg + st_ + b"\xff").hex()]
    rops = list(dict.fromkeys(rops))
    def judge_render(op, impl, model, spec):
        if impl.startswith("overflow") or impl in ("panic", "fmt-error") or impl.startswith("crash"):
            return "violation"
        return "ok"
    s9 = Stream("rendering-extremes", "hcore", rops, judge=judge_render,
                rule="display of every major type at its extreme arguments (0, 23, 2^8-1 .. 2^64-1 at every width) and of every initial byte before random bytes: an answer, no panic")
    s9.shrinkable = False
    yield s9
    # the typed iterators behind the Iterator adaptors (an overriding nth / size_hint computes with declared lengths: the harness is
    # built with overflow checks, so arithmetic that would wrap in a release build and panic in a debug build panics here)
    from verifkit.props import C04
    yield C04.iter_stream(rng, tier)
    # one decoder through long scripts (abandoned / never started iterators over strings that declare up to 2^64-1 bytes, failed decodes, probes):
    # no panic, and no call leaves the decoder beyond its input
    yield C04.reuse_stream(rng, tier)
    # names taken from the input end up in error messages (serde's "unknown variant `..`" / "unknown field `..`" reach decode::Error::message
    # through the bridge): long names, multi-byte characters at every alignment
    nops = []
    for name in ("Color", "Ext", "Point", "ITag", "ATag", "Untagged", "Event", "Record", "WithEnum", "FlatOuter", "UnitS", "tup_color_opt"):
        for ch in ("a", "\u00e9", "\u20ac", "\U0001f600", "`", "\\"):
            lens = list(range(0, 40, 7)) + list(range(100, 140)) + [200, 255, 256, 257, 1000, 70000] if name in ("Color", "Point") else [120, 121, 122, 123, 129, 254, 255, 256, 1023, 1024]
            for k in lens:
                for pre in ("", "x"):
                    t = (pre + ch * k).encode()
                    if len(t) > 80000:
                        continue
                    ts = gen.head(3, len(t)) + t
                    for doc in (ts, b"\xa1" + ts + b"\x05", b"\x81" + ts, b"\xa2" + ts + b"\x05" + ts + b"\x06"):
                        nops.append(f"de {name} {doc.hex()}")
    nops = list(dict.fromkeys(nops))
    s10 = Stream("names-from-the-input-in-error-messages", "hserde", nops, model_ops=["nop"] * len(nops),
                 judge=lambda op, impl, model, spec: "violation" if impl.startswith(("panic", "crash", "bad-op")) or "panic" in impl.split(" ") else "ok",
                 rule="the serde bridge decoding enums / structs from text strings and map keys of 0..70000 bytes made of 1-, 2-, 3- and 4-byte characters at both alignments: an answer, no panic")
    s10.shrinkable = False
    yield s10


def replay_streams(rp):
    op = rp["original_op"]
    if op.startswith("aiter") or op.startswith("reuse"):
        from verifkit.props import C04
        return C04.replay_streams(rp)
    if op.startswith("de "):
        return [Stream("replay", "hserde", [op], model_ops=["nop"], judge=lambda o, i, m, s: "violation" if i.startswith(("panic", "crash", "bad-op")) or "panic" in i.split(" ") else "ok")]
    if op.startswith("display"):
        return [Stream("replay", "hcore", [op], judge=lambda o, i, m, s: "violation" if i.startswith(("overflow", "crash")) or i in ("panic", "fmt-error") else "ok")]
    j = {"dec": judge_acc, "tdecm": judge_tdecm, "seq": judge_seq, "dropcount": judge_drop}.get(op.split(" ")[0])
    return [Stream("replay", "hcore", [op], model_ops=[rp.get("model_op") or op], judge=j)]
