"""C15 — AsyncReader is cancellation-safe: no frame lost, duplicated or torn."""
import itertools
from verifkit.runner import Stream
from verifkit import runner
from verifkit import gen
from verifkit import frameio as F

ID = "C15"
THM_MODULES = ["Minicbor.Thm.C15"]
P = "Minicbor.C15."
REQUIRED = [P + n for n in """drop_is_identity run_fut_irrelevant run_drop_irrelevant
poll_inv poll_script_suffix run_spec
async_reader_schedule_independent async_reader_complete async_reader_roundtrip
transient_error_once transient_error_resumes
async_truncation async_truncation_never_value
async_resync poll_good async_alloc offset_le_four async_oversize_rejected
set_max_len_frame_in_flight pollLoop_readVal_max""".split()] + [
    "Minicbor.Frame.pollLoop_spec", "Minicbor.Frame.pollLoop_script", "Minicbor.Frame.absorb_settle", "Minicbor.Frame.frame_inj"]
PACKAGES = ["hio"]
DEBUG_TWINS = True
RULE = ("aread scenarios on the real AsyncReader over a scripted futures_io::AsyncRead, futures polled by hand with a no-op waker and dropped "
        "where the schedule says so: streams <=10 bytes x ALL compositions into delivery sizes x every placement of <=2 Pendings (incl. "
        "consecutive) x every keep/drop decision at each Pending; one transient error (Other / Interrupted) at every position x Pending "
        "before/after x drop; every truncation point (stream end and an explicit Ok(0)) x compositions x Pending/drop; undecodable, empty "
        "and over-long frames; seeded random walks over longer streams with random drops anywhere. The judge evaluates the property on the "
        "implementation transcript (non-error results == values written then none, one error result per error event, eof error never a "
        "value) and compares with the model.")
ASSUMPTIONS = ["the scripted source honours the AsyncRead contract (writes nothing into the buffer when it returns Pending or an error)",
               "wakers are not modelled (the harness polls unconditionally); fairness is the explicit hypothesis that the script is not exhausted"]



def tail(nframes):
    """enough generous deliveries for every frame (prefix + payload, deliveries are clipped to the request) and the end."""
    return [99999] * (2 * nframes + 2)


def stream_of(vs):
    return F.frames([F.payload(v) for v in vs])


def build_acts(stream, maxlen, evs, drops, npolls, want_pos=False):
    """acts string: `npolls` polls; after a poll that returns Pending the next decision of `drops` says whether to drop."""
    sim = F.SimARead(stream, maxlen, evs)
    acts, di = [], 0
    for _ in range(npolls):
        acts.append("p")
        if sim.poll() == "P":
            if di < len(drops) and drops[di]:
                acts.append("d")
            di += 1
    return ("".join(acts), sim.pos) if want_pos else "".join(acts)


def insert_at(parts, slots, what):
    evs, s = [], sorted(slots)
    for i, k in enumerate(parts):
        evs += [what] * s.count(i)
        evs.append(k)
    evs += [what] * s.count(len(parts))
    return evs


def expect_tokens(payloads):
    out = []
    for p in payloads:
        d = F.decode_payload(p)
        out.append("some:" + d[1] if d[0] == "some" else "err:decode")
    return out


def tok_matches(tok, exp):
    return tok.startswith("err:decode:") if exp == "err:decode" else tok == exp


def judge(op, impl, model, spec):
    w = op.split(" ")
    kind = F.ann(op, "k")
    if impl in ("panic", "bad-op") or impl.startswith("crash"):
        return "violation"
    toks, kv, pos = F.fields(impl)
    maxlen = F.ml(w[1])
    script = F.parse_script(w[3])
    acts = w[4]
    if acts != "-":
        toks = impl.split(" ")[0].split(",")      # (a lone `-` token is a dropped-nothing act, not an empty transcript)
    if len(toks) != (0 if acts == "-" else len(acts)):
        return "violation"
    if not F.peak_ok(kv, maxlen):
        return "violation"
    good = True
    if kind in ("sched", "trunc", "rand"):
        # a drop is never observable; a poll answers
        for a, t in zip(acts, toks):
            if (a == "d") != (t == "-"):
                return "violation"
        res = [t for t in toks if t not in ("P", "-")]
        transient = [t for t in res if t in ("err:io:other", "err:io:intr")]
        data = [t for t in res if t not in ("err:io:other", "err:io:intr")]
        nerr = sum(1 for e in script if e in ("e", "i"))
        complete = F.ann(op, "complete") == "1"
        ps = [b"" if x == "-" else bytes.fromhex(x) for x in F.ann(op, "p").split("/")] if F.ann(op, "p") else []
        if kind == "trunc":
            cut = int(F.ann(op, "cut"))
            full, acc = [], 0
            for p in ps:
                if acc + 4 + len(p) <= cut:
                    full.append(p); acc += 4 + len(p)
                else:
                    break
            exp = expect_tokens(full)
            n = len(exp)
            tail_tok = "none" if acc == cut else "err:io:eof"
            good = (all(tok_matches(t, e) for t, e in zip(data, exp)) and all(t == tail_tok for t in data[n:])
                    and len(transient) <= nerr)
            if complete:
                good = good and len(data) > n and len(transient) == nerr
        else:
            exp = expect_tokens(ps)
            n = len(exp)
            good = (all(tok_matches(t, e) for t, e in zip(data, exp)) and all(t == "none" for t in data[n:])
                    and len(transient) <= nerr)
            if complete:
                good = good and len(data) > n and kv["rem"] == "0" and len(transient) == nerr
    elif kind == "maxlen":
        ln = int(F.ann(op, "len"))
        res = [t for t in toks if t not in ("P", "-")]
        if ln > maxlen:
            # refused, and refused again on every later call (the reader stays on the complete prefix: async_oversize_rejected);
            # it neither skips the frame nor reports an end while the source still holds its payload
            good = res[:1] == ["err:len"] and all(r == "err:len" for r in res)
        else:
            exp = F.ann(op, "exp").split("/")
            good = res[:len(exp)] == exp
    if not good:
        return "violation"
    return "ok" if F.strip_peak(impl) == model else "corr"


def sched_ops(tier):
    """all compositions x <=2 pendings anywhere x all drop decisions."""
    ops = []
    seqs = ["u5,u6", "b0102", "u5", "u300", "b-,u5"] + (["u24,u24", "u5,b01"] if tier == "thorough" else [])
    for s in seqs:
        vs = F.parse_vals(s)
        st = stream_of(vs)
        ptag = "/".join(gen.hexb(F.payload(v)) for v in vs)
        for parts in F.compositions(len(st)):
            slots = range(len(parts) + 1)
            pls = [()] + [(a,) for a in slots] + list(itertools.combinations_with_replacement(slots, 2))
            if tier == "thorough" and len(st) <= 7:
                pls += list(itertools.combinations_with_replacement(slots, 3))
            for pl in pls:
                evs = insert_at(parts, pl, "p") + tail(len(vs))
                npolls = len(pl) + len(vs) + 2
                for drops in itertools.product((0, 1), repeat=len(pl)):
                    acts = build_acts(st, 100, evs, drops, npolls)
                    ops.append(f"aread 100 {gen.hexb(st)} {F.script_tok(evs)} {acts} #k=sched #complete=1 #p={ptag}")
    return ops


def error_ops(rng, tier):
    """one transient error at every position, optionally a Pending right before / after, dropped or not."""
    ops = []
    for s in ["u5,u6", "b0102", "u300,b-"]:
        vs = F.parse_vals(s)
        st = stream_of(vs)
        ptag = "/".join(gen.hexb(F.payload(v)) for v in vs)
        comps = list(F.compositions(len(st)))
        if tier == "quick" and len(comps) > 256:
            comps = comps[::3]
        for parts in comps:
            for slot in range(len(parts) + 1):
                for what in ("e", "i"):
                    for pend in (None, "before", "after"):
                        evs = []
                        for i, k in enumerate(parts + [None]):
                            if i == slot:
                                evs += (["p"] if pend == "before" else []) + [what] + (["p"] if pend == "after" else [])
                            if k is not None:
                                evs.append(k)
                        evs += tail(len(vs))
                        npolls = (1 if pend else 0) + 1 + len(vs) + 2
                        for drops in ([(0,), (1,)] if pend else [()]):
                            acts = build_acts(st, 100, evs, drops, npolls)
                            ops.append(f"aread 100 {gen.hexb(st)} {F.script_tok(evs)} {acts} #k=sched #complete=1 #p={ptag}")
    return ops


def trunc_ops(rng, tier):
    ops = []
    for s in ["u5,u6", "b0102,u300", "u5,b0102,u300", "b" + "ab" * 30 + ",u70000"]:
        vs = F.parse_vals(s)
        st = stream_of(vs)
        ptag = "/".join(gen.hexb(F.payload(v)) for v in vs)
        for cut in range(0, len(st) + 1):
            comps = list(F.compositions(cut)) if cut <= (8 if tier == "quick" else 11) else [F.rand_composition(rng, cut, 6) for _ in range(12)]
            for parts in comps:
                slots = range(len(parts) + 1)
                for pl in [()] + [(rng.choice(slots),)] + [(rng.choice(slots), rng.choice(slots))]:
                    base = insert_at(parts, pl, "p")
                    nfull = 0; acc = 0
                    for v in vs:
                        if acc + 4 + len(F.payload(v)) <= cut:
                            nfull += 1; acc += 4 + len(F.payload(v))
                    npolls = len(pl) + nfull + 3
                    for drops in itertools.product((0, 1), repeat=len(pl)):
                        # (a) the stream simply ends at the cut
                        evs = base + tail(len(vs))
                        ops.append(f"aread 100 {gen.hexb(st[:cut])} {F.script_tok(evs)} {build_acts(st[:cut], 100, evs, drops, npolls)} "
                                   f"#k=trunc #complete=1 #p={ptag} #cut={cut}")
                    # (b) the source answers Ok(0) at the cut although more would follow: still an end, and it repeats
                    evs = base + ["z", "z", "z", "z"]
                    acts, where = build_acts(st, 100, evs, (), npolls, want_pos=True)   # deliveries are clipped to what is requested
                    ops.append(f"aread 100 {gen.hexb(st)} {F.script_tok(evs)} {acts} #k=trunc #p={ptag} #cut={where}")
    return ops


BAD = ["ff", "", "1901", "05ff", "a0", "4201", "f6", "1b00", "5f41ff", "3903e7", "9f", "1c", "5c", "40", "18"]


def resync_ops(rng, tier):
    ops = []
    good = ["05", "420102", "19012c"]
    for b in BAD:
        for pre in (0, 1):
            ps = [bytes.fromhex(x) for x in (good[:pre] + [b] + good[pre:pre + 2])]
            st = F.frames(ps)
            ptag = "/".join(gen.hexb(p) for p in ps)
            for _ in range(40):
                parts = F.rand_composition(rng, len(st), rng.choice([1, 2, 4, 100]))
                pl = [rng.randint(0, len(parts)) for _ in range(rng.randint(0, 3))]
                evs = insert_at(parts, pl, "p") + tail(len(ps))
                drops = [rng.randint(0, 1) for _ in pl]
                acts = build_acts(st, 100, evs, drops, len(pl) + len(ps) + 2)
                ops.append(f"aread 100 {gen.hexb(st)} {F.script_tok(evs)} {acts} #k=sched #complete=1 #p={ptag}")
    return ops


def maxlen_ops(rng, tier):
    ops = []
    for n in [0, 1, 22, 23, 24, 25, 100, 254, 255, 256, 257, 300, 1000, 65536]:
        v = ("b", gen.rand_bytes(rng, n))
        p = F.payload(v)
        st = F.frames([p, b"\x05"])
        exp = f"some:{F.val_tok(v)}/some:u5/none"
        for ml in sorted({max(len(p) - 1, 0), len(p), len(p) + 1, 0, 4}):
            for _ in range(3):
                parts = F.rand_composition(rng, len(st), rng.choice([3 if len(st) < 2000 else len(st) // 7, max(1, len(st) // 3), len(st)]))
                pl = [rng.randint(0, len(parts)) for _ in range(rng.randint(0, 2))]
                evs = insert_at(parts, pl, "p") + tail(2)
                acts = build_acts(st, ml, evs, [rng.randint(0, 1) for _ in pl], len(pl) + 4)
                ops.append(f"aread {ml} {gen.hexb(st)} {F.script_tok(evs)} {acts} #k=maxlen #len={len(p)} #exp={exp}")
    for pre in ["ffffffff", "7fffffff", "80000000", "00100000", "00010000", "00000100", "00000011"]:
        ln = int(pre, 16)
        for tl in ["", "00", "0505050505050505"]:
            for ml in [0, 1, 16, 255, 65535, 524288]:
                if ln > ml:
                    for evs, acts in (([9, 9, 9, 9], "ppp"), ([1, "p", 1, 2, "p", 9, 9], "pdppdpp")):
                        ops.append(f"aread {ml} {pre}{tl} {F.script_tok(evs)} {acts} #k=maxlen #len={ln} #exp=-")
    return ops


def random_ops(rng, tier):
    ops = []
    for _ in range(12000 if tier == "quick" else 150000):
        vs = [F.rand_val(rng, rng.choice([5, 40, 300])) for _ in range(rng.randint(0, 6))]
        ps = [F.payload(v) for v in vs]
        if rng.random() < 0.15 and ps:
            ps[rng.randrange(len(ps))] = bytes.fromhex(rng.choice(BAD))
        st = F.frames(ps)
        ptag = "/".join(gen.hexb(p) for p in ps)
        ml = max([len(p) for p in ps] + [0]) + rng.choice([0, 0, 1, 50])
        mode = rng.random()
        parts = F.rand_composition(rng, len(st), rng.choice([1, 2, 3, 7, 64, 1000]))
        if mode < 0.75:
            # benign walk: data, pendings, transient errors; random drops anywhere (also where nothing is pending)
            evs = []
            for k in parts:
                while rng.random() < 0.25:
                    evs.append(rng.choice(["p", "p", "p", "e", "i"]))
                evs.append(k)
            evs += tail(len(ps))
            npolls = sum(1 for e in evs if e in ("p", "e", "i")) + len(ps) + 2
            acts = "".join("p" + ("d" if rng.random() < 0.3 else "") for _ in range(npolls))
            if rng.random() < 0.3:
                acts = acts[:rng.randint(0, len(acts))]
                ops.append(f"aread {ml} {gen.hexb(st)} {F.script_tok(evs)} {acts or '-'} #k=rand #p={ptag}")
            else:
                ops.append(f"aread {ml} {gen.hexb(st)} {F.script_tok(evs)} {acts} #k=rand #complete=1 #p={ptag}")
        else:
            evs = [rng.choice([1, 2, 3, 4, 9, 100, "i", "e", "p", "z", 0]) for _ in range(rng.randint(0, 40))]
            acts = "".join(rng.choice("pppd") for _ in range(rng.randint(0, 40))) or "-"
            ops.append(f"aread {rng.choice([ml, 3, 0, 100])} {gen.hexb(st)} {F.script_tok(evs)} {acts} #k=free")
    return ops


def long_ops(rng, tier):
    """long streams of small frames: whatever a reader counts (frames, polls, bytes), a count that matters only
    after dozens or hundreds of frames is out of reach of the short scenarios above"""
    ops = []
    for n in (31, 32, 33, 34, 64, 65, 66, 100, 128, 129, 255, 256, 257, 300) * (2 if tier == "quick" else 12):
        vs = [F.rand_val(rng, rng.choice([5, 5, 40])) for _ in range(n)]
        ps = [F.payload(v) for v in vs]
        st = F.frames(ps)
        ptag = "/".join(gen.hexb(p) for p in ps)
        ml = max(len(p) for p in ps)
        parts = F.rand_composition(rng, len(st), rng.choice([1, 3, 7, 64, 100000]))
        pr = rng.choice([0.0, 0.0, 0.05, 0.3])
        evs = []
        for k in parts:
            while rng.random() < pr:
                evs.append(rng.choice(["p", "p", "p", "e", "i"]))
            evs.append(k)
        evs += tail(len(ps))
        npolls = sum(1 for e in evs if e in ("p", "e", "i")) + len(ps) + 2
        pd = rng.choice([0.0, 0.3, 1.0])
        acts = "".join("p" + ("d" if rng.random() < pd else "") for _ in range(npolls))
        ops.append(f"aread {ml} {gen.hexb(st)} {F.script_tok(evs)} {acts} #k=rand #complete=1 #p={ptag}")
    return ops


def big_ops(rng, tier):
    """frames beyond 64 KiB (buffers a reader might treat specially once they are large) interrupted mid-payload"""
    ops = []
    for k in range(6 if tier == "quick" else 40):
        sizes = rng.choice([[70000], [66000, 3, 70000], [5, 65537, 5], [100005, 65536]])
        vs = [("b", gen.rand_bytes(rng, n)) for n in sizes]
        ps = [F.payload(v) for v in vs]
        st = F.frames(ps)
        ptag = "/".join(gen.hexb(p) for p in ps)
        ml = max(len(p) for p in ps)
        parts = F.rand_composition(rng, len(st), rng.choice([20000, 40000, 66000]))
        evs = []
        for part in parts:
            while rng.random() < 0.5:
                evs.append(rng.choice(["p", "p", "e", "i"]))
            evs.append(part)
        evs += tail(len(ps))
        npolls = sum(1 for e in evs if e in ("p", "e", "i")) + len(ps) + 2
        pd = rng.choice([0.5, 1.0])
        acts = "".join("p" + ("d" if rng.random() < pd else "") for _ in range(npolls))
        ops.append(f"aread {ml} {gen.hexb(st)} {F.script_tok(evs)} {acts} #k=rand #complete=1 #p={ptag}")
    return ops


def default_limit_ops(rng, tier):
    ops = []
    for v in F.default_limit_vals():
        p = F.payload(v)
        st = F.frames([p, b"\x05"])
        exp = f"some:{F.val_tok(v)}/some:u5/none"
        ops.append(f"aread d {gen.hexb(st)} {F.script_tok([99999999] * 6)} pppp #k=maxlen #len={len(p)} #exp={exp}")
    return ops


def setmax_ops(rng, tier):
    """`set_max_len` between a dropped read and the next one, the frame in flight longer than the new limit (it was admitted under the old
    one and must arrive whole), the frames after it within the new limit"""
    ops = []
    for _ in range(300 if tier == "quick" else 6000):
        L = rng.choice([5, 24, 40, 300])
        v = rng.choice([0, 1, 3, L // 2, L - 1, L, L + 5])
        first = ("b", gen.rand_bytes(rng, L))
        rest = [("b", gen.rand_bytes(rng, rng.randint(0, max(v - 3, 0)))) if v >= 3 else ("u", rng.randint(0, 23)) for _ in range(rng.randint(0, 3))]
        rest = [x for x in rest if len(F.payload(x)) <= v]
        vs = [first] + rest
        ps = [F.payload(x) for x in vs]
        st = F.frames(ps)
        k = rng.randint(0, len(ps[0]) - 1)
        pre = rng.choice([[4], [1, 3], [2, "p", 2]])
        evs = pre + ([k] if k else []) + ["p"] + tail(len(ps))
        # polls until the source is Pending with the payload partly read, the future dropped (explicitly or by the call), the limit changed
        npre = 1 + sum(1 for e in pre if e == "p")
        acts = "p" * npre + rng.choice(["m", "dm", "ddm"]) + "p" * (len(ps) + 3)
        ops.append(f"areadm {len(ps[0])} {gen.hexb(st)} {F.script_tok(evs)} {acts} {v} #k=setmax #p={'/'.join(gen.hexb(p) for p in ps)}")
    return ops


def touch_ops(rng, tier):
    """the accessors reader_mut() / reader() called, and read() called with the future dropped before its first poll, between the polls of a
    frame in flight (after the future that was reading it has been dropped): neither touches what has been received so far"""
    ops = []
    for _ in range(600 if tier == "quick" else 12000):
        vs = [F.rand_val(rng, 30) for _ in range(rng.randint(1, 4))]
        ps = [F.payload(x) for x in vs]
        st = F.frames(ps)
        evs = []
        left = len(st)
        while left > 0:
            k = rng.choice([1, 1, 2, 3, 5, 8])
            evs.append(min(k, left)); left -= min(k, left)
            if rng.random() < 0.6:
                evs.append("p")
        evs += tail(len(ps))
        npolls = sum(1 for e in evs if e == "p") + len(ps) + 2
        acts = "".join("p" + rng.choice(["", "", "r", "c", "d", "rc", "cr", "dr", "cc"]) for _ in range(npolls))
        ops.append(f"areadm 100 {gen.hexb(st)} {F.script_tok(evs)} {acts} 100 #k=touch #p={'/'.join(gen.hexb(p) for p in ps)}")
    return ops


def judge_setmax(op, impl, model, spec):
    if impl in ("panic", "bad-op") or impl.startswith("crash"):
        return "violation"
    w = op.split(" ")
    acts = w[4]
    toks = impl.split(" ")[0].split(",")
    if len(toks) != len(acts) or any((a in "dmrc") != (t == "-") for a, t in zip(acts, toks)):
        return "violation"
    data = [t for t in toks if t not in ("P", "-")]
    ps = [b"" if x == "-" else bytes.fromhex(x) for x in F.ann(op, "p").split("/")]
    exp = expect_tokens(ps)
    if not (len(data) > len(exp) and all(tok_matches(t, e) for t, e in zip(data, exp)) and all(t == "none" for t in data[len(exp):])):
        return "violation"              # the frame in flight (or one behind it) was torn, lost or refused
    return "ok" if F.strip_peak(impl) == model else "corr"


def mk(name, ops, rule):
    if name != "replay":
        ops = F.ctor_expand(ops)      # every 4th scenario once more through with_buffer(..) with some buffer
    s = Stream(name, "hio", ops, model_ops=[F.ctor_plain(o)[0] for o in ops], judge=F.ctor_judge(judge), rule=rule,
               nontrivial=lambda op, impl: "some:" in impl or "err:" in impl)
    s.shrinkable = False
    return s


def streams(rng, tier):
    return [
        mk("schedules-exhaustive", sched_ops(tier), "all compositions x <=2 Pendings x all keep/drop decisions; oracle: values then none, rem=0"),
        mk("transient-errors", error_ops(rng, tier), "one error event at every position; oracle: exactly one error result, values unaffected"),
        mk("truncation", trunc_ops(rng, tier), "every cut; oracle: complete frames' values then only unexpected-eof (none on a boundary)"),
        mk("resync", resync_ops(rng, tier), "bad payloads between good frames under random schedules"),
        mk("maxlen", maxlen_ops(rng, tier), "max_len around the frame size, hostile prefixes; oracle: err:len, buffer untouched, allocation bounded"),
        mk("random-walks", random_ops(rng, tier), "seeded random walks; benign ones judged by the oracle, the rest against the model"),
        Stream("set-max-len-in-flight", "hio", setmax_ops(rng, tier), judge=judge_setmax, nontrivial=lambda op, impl: "some:" in impl,
               rule="areadm: the payload partly read, the future dropped, set_max_len(k) with k below / at / above the length of the frame in flight, read again: "
                    "every frame whole and in order, then a clean end (theorem set_max_len_frame_in_flight: in state ReadVal the limit is not consulted)"),
        Stream("accessors-and-unpolled-futures", "hio", touch_ops(rng, tier), judge=judge_setmax, nontrivial=lambda op, impl: "some:" in impl,
               rule="areadm: reader_mut() / reader() called, read() called and dropped unpolled, between the polls of frames in flight under chunking and Pendings: "
                    "every frame whole and in order, then a clean end"),
        mk("default-limit", default_limit_ops(rng, tier), "payloads of 524285..524289 bytes through a reader whose limit was never set: 524288 is the last one accepted"),
        mk("big-frames", big_ops(rng, tier), "frames of 65537..100005 bytes delivered in 20..66 KB pieces with Pendings / transient errors mid-payload and drops; oracle: every value once, in order, then none, rem=0"),
        mk("long-streams", long_ops(rng, tier), "31..300 frames in one scenario under chunking, Pendings, transient errors and a drop after every / a third of / no poll; oracle: every value once, in order, then none, rem=0"),
    ]


def replay_streams(rp):
    if rp["original_op"].startswith("areadm"):
        return [Stream("replay", "hio", [rp["original_op"]], judge=judge_setmax)]
    return [mk("replay", [rp["original_op"]], "replay")]
