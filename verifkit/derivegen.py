"""derivegen: draws type definitions for the minicbor derive macros from a schema grammar and writes

  (a) the Rust crate /verif/harness/dgen (type definitions with #[derive(Encode, Decode, CborLen)],
      a value builder and a canonical value view per type, op tables), and
  (b) the same schemas / values in the protocol syntax understood by mcdrv (lean/Minicbor/Drv/Derive.lean).

It also contains a *reference encoder* of the documented format (py_encode) written from the
documentation in minicbor-derive/src/lib.rs, which can re-frame (indefinite containers, wide heads)
and mutate (wrong / missing tag, dropped mandatory field, unknown variant) the encoding, the
decoder-side oracle (with_defaults, borrow flags, null clash) and the C10 edit chains.

Python stdlib only.  Everything is a deterministic function of (seed, tier)."""
import os, random, copy

HARNESS = os.path.join(os.path.dirname(os.path.dirname(os.path.abspath(__file__))), "harness")
CRATE = os.path.join(HARNESS, "dgen")

INT_RANGE = {"u8": (0, 2**8 - 1), "u16": (0, 2**16 - 1), "u32": (0, 2**32 - 1), "u64": (0, 2**64 - 1),
             "i8": (-2**7, 2**7 - 1), "i16": (-2**15, 2**15 - 1), "i32": (-2**31, 2**31 - 1), "i64": (-2**63, 2**63 - 1)}
INTS = list(INT_RANGE)
TEXTS = ["string", "str", "cowstr"]
BLOBS = ["bytevec", "byteslice", "vecu8", "sliceu8", "cowu8"]
NEEDS_CODEC = {"vecu8", "sliceu8", "cowu8"}


# ------------------------------------------------------------------------------------------ schema

class T:
    """a type node. kind: int bool text blob opt vec st en"""
    def __init__(self, kind, **kw):
        self.kind = kind
        self.__dict__.update(kw)

    def __repr__(self):
        return proto(self)


class Field:
    def __init__(self, idx, ty, tag=None, codec="d", skip=False, is_b=False, name=None, style=0, spell=None):
        self.idx, self.ty, self.tag, self.codec, self.skip, self.is_b, self.name, self.style = idx, ty, tag, codec, skip, is_b, name, style
        self.generic = False      # declared as the type parameter `T`
        # how the declared type is *spelled* in Rust when it is nil-capable without being literally `Option<..>`:
        # 'generic' (type parameter instantiated at Option<..>), 'alias' (`type A = Option<..>`), 'newtype'
        # (crate::rt::NilOpt, a hand-written Encode/Decode overriding is_nil/nil; model type opt(u16)), 'core' / 'std'
        # (path-qualified core::option::Option<..> / std::option::Option<..>, still syntactically an Option).  The model
        # sees the same `opt(..)` field type in all cases (same is_nil / nil semantics under the default codec).
        self.spell = spell


class Variant:
    def __init__(self, idx, shape="u", fields=None, enc="d", tag=None, is_b=False, name=None):
        self.idx, self.shape, self.fields, self.enc, self.tag, self.is_b, self.name = idx, shape, fields or [], enc, tag, is_b, name


def t_int(k): return T("int", k=k)
def t_bool(): return T("bool")
def t_text(k): return T("text", k=k)
def t_blob(k): return T("blob", k=k)
def t_opt(e): return T("opt", e=e)
def t_vec(e): return T("vec", e=e)
def t_st(fields, enc="d", tag=None, shape="n", transparent=False):
    return T("st", fields=fields, enc=enc, tag=tag, shape=shape, transparent=transparent, name=None, generic=None)
def t_en(variants, enc="d", tag=None, index_only=False):
    return T("en", variants=variants, enc=enc, tag=tag, index_only=index_only, name=None, generic=None)


def spell_ok(f, spell):
    """may the declared type of field f be spelled that way?"""
    if spell in ("core", "std"):          # core::option::Option<..> / std::option::Option<..>: any codec that sits on an Option
        return (not f.skip) and f.ty.kind == "opt" and f.codec in ("d", "b", "p")
    if f.skip or f.codec != "d" or f.ty.kind != "opt" or has_lt(f.ty) or contains_codec_blob(f.ty): return False
    if spell == "newtype": return f.ty.e.kind == "int" and f.ty.e.k == "u16"
    return True


def ptag(t): return "-" if t is None else str(t)


def proto(ty):
    k = ty.kind
    if k == "int": return ty.k
    if k == "bool": return "bool"
    if k in ("text", "blob"): return ty.k
    if k == "opt": return "opt(" + proto(ty.e) + ")"
    if k == "vec": return "vec(" + proto(ty.e) + ")"
    if k == "st":
        return "st(" + ",".join([ty.enc, ptag(ty.tag), ty.shape + ("t" if ty.transparent else "")] + [proto_field(f) for f in ty.fields]) + ")"
    if k == "en":
        return "en(" + ",".join([ty.enc, ptag(ty.tag), "i" if ty.index_only else "-"] + [proto_var(v) for v in ty.variants]) + ")"
    raise ValueError(k)


def proto_field(f):
    ix = "s" if f.skip else ("b" if f.is_b else "n") + str(f.idx)
    # codec 'p' = a custom module WITHOUT nil functions on Option<u16> (crate::rt::plainopt): for a field spelled as an Option
    # the macro falls back on Option::is_none / Some(None), i.e. exactly the semantics of the default codec
    return "f(" + ",".join([ix, ptag(f.tag), "d" if f.codec == "p" else f.codec, proto(f.ty)]) + ")"


def proto_var(v):
    return "v(" + ",".join([("b" if v.is_b else "n") + str(v.idx), v.enc, ptag(v.tag), v.shape] + [proto_field(f) for f in v.fields]) + ")"


def has_lt(ty):
    k = ty.kind
    if k == "text": return ty.k != "string"
    if k == "blob": return ty.k in ("byteslice", "sliceu8", "cowu8")
    if k in ("opt", "vec"): return has_lt(ty.e)
    if k == "st": return any(has_lt(f.ty) for f in ty.fields)
    if k == "en": return any(has_lt(f.ty) for v in ty.variants for f in v.fields)
    return False


def implicit_borrow(ty):
    def leaf(t): return (t.kind == "text" and t.k == "str") or (t.kind == "blob" and t.k in ("byteslice", "sliceu8"))
    return leaf(ty) or (ty.kind == "opt" and leaf(ty.e))


def needs_b(ty): return has_lt(ty) and not implicit_borrow(ty)


def is_optional(f):
    """nil() of the field is Some: Option types, or the nil-aware codec."""
    return f.codec == "x" or f.ty.kind == "opt"


def eff_enc(*encs):
    for e in encs:
        if e != "d": return e
    return "a"


# ------------------------------------------------------------------------------------------ values
# int | bool | ('s', bytes) | ('h', bytes) | None | ('so', v) | ('l', [v]) | ('r', [v]) | ('e', k, [v])

def show_val(v):
    if v is None: return "N"
    if v is True: return "T"
    if v is False: return "F"
    if isinstance(v, int): return str(v)
    t = v[0]
    if t == "s": return "s" + v[1].hex()
    if t == "h": return "h" + v[1].hex()
    if t == "so": return "so(" + show_val(v[1]) + ")"
    if t == "l": return "l(" + ",".join(show_val(x) for x in v[1]) + ")"
    if t == "r": return "r(" + ",".join(show_val(x) for x in v[1]) + ")"
    if t == "e": return "e(" + ",".join([str(v[1])] + [show_val(x) for x in v[2]]) + ")"
    raise ValueError(v)


def default_of(ty):
    k = ty.kind
    if k == "int": return 0
    if k == "bool": return False
    if k == "text": return ("s", b"")
    if k == "blob": return ("h", b"")
    if k == "opt": return None
    if k == "vec": return ("l", [])
    raise ValueError("no default for derived types")


def with_defaults(ty, v):
    k = ty.kind
    if k == "opt": return None if v is None else ("so", with_defaults(ty.e, v[1]))
    if k == "vec": return ("l", [with_defaults(ty.e, x) for x in v[1]])
    if k == "st": return ("r", [default_of(f.ty) if f.skip else with_defaults(f.ty, x) for f, x in zip(ty.fields, v[1])])
    if k == "en":
        var = ty.variants[v[1]]
        return ("e", v[1], [default_of(f.ty) if f.skip else with_defaults(f.ty, x) for f, x in zip(var.fields, v[2])])
    return v


def flags(ty, v, direct=False):
    """borrow flags of the string / byte-string leaves of a decoded value, traversal order."""
    k = ty.kind
    if k == "text": return "o" if ty.k == "string" else "b" if ty.k == "str" else ("b" if direct else "o")
    if k == "blob": return "o" if ty.k in ("bytevec", "vecu8") else "b" if ty.k in ("byteslice", "sliceu8") else ("b" if direct else "o")
    if k == "opt": return "" if v is None else flags(ty.e, v[1])
    if k == "vec": return "".join(flags(ty.e, x) for x in v[1])
    if k == "st": return "".join("" if f.skip else flags(f.ty, x, f.is_b) for f, x in zip(ty.fields, v[1]))
    if k == "en":
        var = ty.variants[v[1]]
        return "".join("" if f.skip else flags(f.ty, x, f.is_b) for f, x in zip(var.fields, v[2]))
    return ""


# ------------------------------------------------------------------------------------------ reference encoder

class Opts:
    def __init__(self, indef=False, wide=0, salt=0, wrap_indef=False):
        self.indef, self.wide, self.salt, self.wrap_indef = indef, wide, salt, wrap_indef
        self.n = 0


def head(maj, n, o=None):
    w = 0 if n < 24 else 1 if n < 256 else 2 if n < 65536 else 4 if n < 2**32 else 8
    if o is not None and o.wide:
        o.n += 1
        order = [0, 1, 2, 4, 8]
        i = order.index(w)
        if o.wide == 1: i = min(4, i + 1)
        elif o.wide == 2: i = 4
        elif o.wide == 3: i = min(4, i + (o.n + o.salt) % 3)
        w = order[i]
    if w == 0: return bytes([maj * 32 + n])
    return bytes([maj * 32 + {1: 24, 2: 25, 4: 26, 8: 27}[w]]) + n.to_bytes(w, "big")


def enc_tag(t, o): return b"" if t is None else head(6, t, o)


def absent(f, v):
    return v == 0 if f.codec == "x" else v is None


def enc_field_value(f, v, o):
    if f.codec == "x":
        return b"\xf6" if v == 0 else head(0, v, o)
    return py_encode(f.ty, v, o)


def enc_body(enc, fields, vals, o, drop=None, fieldmut=None):
    """the documented struct-as-array / struct-as-map encoding.  drop: index of a field to leave out;
    fieldmut: (field position, 'wrong'|'missing') applied to that field's tag."""
    pieces = []
    for pos, (f, v) in enumerate(zip(fields, vals)):
        if f.skip: continue
        if drop is not None and pos == drop: continue
        tag = f.tag
        if fieldmut is not None and fieldmut[0] == pos and fieldmut[1] == "raw":
            pieces.append((f.idx, enc_tag(tag, o) + fieldmut[2], False))           # the field's value replaced by the given bytes
            continue
        if fieldmut is not None and fieldmut[0] == pos:
            tag = None if fieldmut[1] == "missing" else f.tag ^ 1
        pieces.append((f.idx, enc_tag(tag, o) + enc_field_value(f, v, o), absent(f, v)))
    present = [p for p in pieces if not p[2]]
    if enc == "a":
        if drop is not None:
            # a writer that lacks the field: everything at or beyond its index is cut off if it was last, else null
            pass
        if not present:
            return b"\x9f\xff" if o.indef else b"\x80"
        m = max(p[0] for p in present)
        by = {p[0]: p[1] for p in pieces}
        items = [by.get(i, b"\xf6") for i in range(m + 1)]
        if o.indef: return b"\x9f" + b"".join(items) + b"\xff"
        return head(4, m + 1, o) + b"".join(items)
    ents = sorted(present)
    body = b"".join(head(0, i, o) + b for i, b, _ in ents)
    if o.indef: return b"\xbf" + body + b"\xff"
    return head(5, len(ents), o) + body


def py_encode(ty, v, o=None, mut=None):
    """the documented encoding of value v of type ty.  mut (top level only):
    ('tag','wrong'|'missing') struct/enum tag; ('vtag', ..) variant tag; ('ftag', pos, ..) field tag;
    ('drop', pos) leave a field out; ('variant', newidx) replace the variant index."""
    o = o or Opts()
    k = ty.kind
    if k == "int": return head(0, v, o) if v >= 0 else head(1, -1 - v, o)
    if k == "bool": return b"\xf5" if v else b"\xf4"
    if k == "text": return head(3, len(v[1]), o) + v[1]
    if k == "blob": return head(2, len(v[1]), o) + v[1]
    if k == "opt": return b"\xf6" if v is None else py_encode(ty.e, v[1], o)
    if k == "vec":
        items = b"".join(py_encode(ty.e, x, o) for x in v[1])
        return b"\x9f" + items + b"\xff" if o.indef else head(4, len(v[1]), o) + items
    if k == "st":
        if ty.transparent:
            f = ty.fields[0]
            return enc_field_value(f, v[1][0], o)
        tag = ty.tag
        if mut and mut[0] == "tag": tag = None if mut[1] == "missing" else ty.tag ^ 1
        drop = mut[1] if mut and mut[0] == "drop" else None
        fm = (mut[1], mut[2]) if mut and mut[0] == "ftag" else None
        if mut and mut[0] == "inner":
            fm = inner_mut(ty.fields, v[1], mut, o)
        return enc_tag(tag, o) + enc_body(eff_enc(ty.enc), ty.fields, v[1], o, drop, fm)
    if k == "en":
        var = ty.variants[v[1]]
        tag = ty.tag
        if mut and mut[0] == "tag": tag = None if mut[1] == "missing" else ty.tag ^ 1
        idx = mut[1] if mut and mut[0] == "variant" else var.idx
        if ty.index_only: return enc_tag(tag, o) + head(0, idx, o)
        vtag = var.tag
        if mut and mut[0] == "vtag": vtag = None if mut[1] == "missing" else var.tag ^ 1
        enc = eff_enc(var.enc, ty.enc)
        drop = mut[1] if mut and mut[0] == "drop" else None
        fm = (mut[1], mut[2]) if mut and mut[0] == "ftag" else None
        if mut and mut[0] == "inner":
            fm = inner_mut(var.fields, v[2], mut, o)
        if var.shape == "u":
            # the empty payload of a unit variant is re-framed like every other container (the decoder skips it, whatever its framing)
            maj = 4 if enc == "a" else 5
            body = (bytes([maj * 32 + 31, 0xff]) if o.indef else head(maj, 0, o))
        else:
            body = enc_body(enc, var.fields, v[2], o, drop, fm)
        if o.wrap_indef:
            # the two-element wrapper as an indefinite-length array (rejected by the generated decoder: K8)
            return enc_tag(tag, o) + b"\x9f" + head(0, idx, o) + enc_tag(vtag, o) + body + b"\xff"
        return enc_tag(tag, o) + head(4, 2, o) + head(0, idx, o) + enc_tag(vtag, o) + body
    raise ValueError(k)


def inner_mut(fields, vals, mut, o):
    """('inner', pos, m): the value of the field at `pos` (a struct / enum, possibly behind an Option, which is present) is encoded with the
    mutation m applied to it; as a `raw` field mutation for enc_body."""
    f, x = fields[mut[1]], vals[mut[1]]
    t = f.ty
    if t.kind == "opt":
        t, x = t.e, x[1]
    return (mut[1], "raw", py_encode(t, x, o, mut[2]))


def null_clash(ty, v):
    """Some(x) whose encoding is `null` (Option nested in Option, Option of a transparent wrapper
    of a nil value): excluded by the property (C01's documented exclusion)."""
    k = ty.kind
    if k == "opt":
        if v is None: return False
        return py_encode(ty.e, v[1])[:1] == b"\xf6" or null_clash(ty.e, v[1])
    if k == "vec": return any(null_clash(ty.e, x) for x in v[1])
    if k == "st": return any((not f.skip) and null_clash(f.ty, x) for f, x in zip(ty.fields, v[1]))
    if k == "en":
        var = ty.variants[v[1]]
        return any((not f.skip) and null_clash(f.ty, x) for f, x in zip(var.fields, v[2]))
    return False


# ------------------------------------------------------------------------------------------ value generation

def int_boundaries(k):
    lo, hi = INT_RANGE[k]
    c = [0, 1, 23, 24, 255, 256, 65535, 65536, 2**32 - 1, 2**32, hi, -1, -24, -25, -256, -257, -65536, -65537, -2**32, -2**32 - 1, lo]
    return sorted({x for x in c if lo <= x <= hi})


TEXT_SAMPLES = [b"", b"a", b"hello", "é€😀".encode(), b"x" * 23, b"y" * 24, b"z" * 256]
BLOB_SAMPLES = [b"", b"\x00", b"\xff\xf6\xff", bytes(range(23)), bytes(range(24)), bytes(255), bytes(256)]


class VGen:
    def __init__(self, rng):
        self.rng = rng

    def leaf(self, ty, small=False):
        r = self.rng
        if ty.kind == "int":
            b = int_boundaries(ty.k)
            return r.choice(b[:6] if small else b) if r.random() < 0.8 else r.randint(*INT_RANGE[ty.k])
        if ty.kind == "bool": return r.random() < 0.5
        if ty.kind == "text": return ("s", r.choice(TEXT_SAMPLES[:4] if small else TEXT_SAMPLES))
        if ty.kind == "blob": return ("h", r.choice(BLOB_SAMPLES[:3] if small else BLOB_SAMPLES))
        raise ValueError

    def value(self, ty, depth=0, present=None, small=False):
        """a random value; `present`: forced presence of optional things (None = random)."""
        r = self.rng
        k = ty.kind
        if k in ("int", "bool", "text", "blob"): return self.leaf(ty, small)
        if k == "opt":
            p = present if present is not None else r.random() < 0.6
            return ("so", self.value(ty.e, depth + 1, present, small)) if p else None
        if k == "vec":
            n = r.choice([0, 1, 2, 3] if (small or depth > 1) else [0, 1, 2, 3, 5, 23, 24, 25])
            return ("l", [self.value(ty.e, depth + 1, present, True) for _ in range(n)])
        if k == "st":
            return ("r", [self.field_value(f, depth, present, small) for f in ty.fields])
        if k == "en":
            i = r.randrange(len(ty.variants))
            return ("e", i, [self.field_value(f, depth, present, small) for f in ty.variants[i].fields])
        raise ValueError(k)

    def field_value(self, f, depth, present, small):
        if f.codec == "x":
            p = present if present is not None else self.rng.random() < 0.6
            return self.rng.choice([1, 23, 24, 255, 256, 65536, 2**32 - 1]) if p else 0
        return self.value(f.ty, depth + 1, present, small)

    def struct_values(self, ty, cap):
        """presence combinations of the optional fields of a struct (or of each variant) x values."""
        out = []
        if ty.kind == "st":
            out += [("r", vs) for vs in self.fields_values(ty.fields, cap)]
            out += [("r", vs) for vs in self.some_none_values(ty.fields, None)]
        elif ty.kind == "en":
            per = max(2, cap // max(1, len(ty.variants)))
            for i, var in enumerate(ty.variants):
                out += [("e", i, vs) for vs in self.fields_values(var.fields, per)]
                out += [("e", i, vs) for vs in self.some_none_values(var.fields, None)]
        else:
            out += [self.value(ty) for _ in range(cap)]
        return out

    def some_none_values(self, fields, base):
        """for every field whose type is an Option directly inside an Option: the value `Some(None)` (present, written as null),
        next to otherwise present siblings and next to absent ones"""
        out = []
        for i, f in enumerate(fields):
            if not f.skip and f.codec != "x" and f.ty.kind == "opt" and f.ty.e.kind == "opt":
                for others_present in (True, False):
                    vs = []
                    for j, g in enumerate(fields):
                        if j == i: vs.append(("so", None))
                        elif g.codec == "x": vs.append(self.field_value(g, 1, others_present, True))
                        elif g.ty.kind == "opt" and not g.skip: vs.append(("so", self.value(g.ty.e, 2, True, True)) if others_present else None)
                        else: vs.append(self.field_value(g, 1, True, True))
                    out.append(vs)
        return out

    def fields_values(self, fields, cap):
        opt = [i for i, f in enumerate(fields) if not f.skip and is_optional(f)]
        combos = []
        n = len(opt)
        if n <= 5 and 2 ** n <= cap:
            combos = [[bool(m >> j & 1) for j in range(n)] for m in range(2 ** n)]
        else:
            combos.append([False] * n); combos.append([True] * n)
            for j in range(n):
                combos.append([i == j for i in range(n)])
            for j in range(n):
                combos.append([i != j for i in range(n)])
            # "the highest present index" sweeps: first j present
            for j in range(1, n):
                combos.append([i < j for i in range(n)])
            self.rng.shuffle(combos)
            combos = combos[:max(4, cap - 4)]
            while len(combos) < cap:
                combos.append([self.rng.random() < 0.5 for _ in range(n)])
        res = []
        for c in combos[:cap]:
            pm = dict(zip(opt, c))
            vs = []
            for i, f in enumerate(fields):
                if i in pm:
                    vs.append(self.field_value(f, 1, pm[i], False) if f.codec == "x" else
                              (("so", self.value(f.ty.e, 2, None, False)) if pm[i] else None))
                else:
                    vs.append(self.field_value(f, 1, None, False))
            res.append(vs)
        # nil values one level down: a mandatory field whose own type is a struct / enum / Vec (or transparent newtype) with optional
        # parts must also be seen with those parts absent and present, whatever the generator above drew for them
        if any(i not in opt and not f.skip and f.codec != "x" and f.ty.kind in ("st", "en", "vec") for i, f in enumerate(fields)):
            for top, nested in ((True, False), (False, False), (True, True), (False, True)):
                vs = []
                for i, f in enumerate(fields):
                    if i in opt:
                        vs.append(self.field_value(f, 1, top, False) if f.codec == "x" else (("so", self.value(f.ty.e, 2, nested, True)) if top else None))
                    else:
                        vs.append(self.field_value(f, 1, nested, True))
                res.append(vs)
        return res


# ------------------------------------------------------------------------------------------ schema grammar

class SGen:
    def __init__(self, rng):
        self.rng = rng

    def tag(self, p=0.25):
        r = self.rng
        return r.choice([0, 5, 23, 24, 255, 256, 65536, 2**32, 2**64 - 1]) if r.random() < p else None

    def leaf_type(self, allow_borrow=True, allow_codec=True):
        r = self.rng
        x = r.random()
        if x < 0.45: return t_int(r.choice(INTS))
        if x < 0.55: return t_bool()
        if x < 0.8:
            ks = TEXTS if allow_borrow else ["string"]
            return t_text(r.choice(ks))
        ks = [b for b in BLOBS if (allow_codec or b not in NEEDS_CODEC) and (allow_borrow or b in ("bytevec", "vecu8"))]
        return t_blob(r.choice(ks))

    def field_type(self, depth, allow_derived=True):
        """a type usable as the declared type of a field; returns (type, codec)."""
        r = self.rng
        x = r.random()
        if x < 0.07: return t_int("u32"), "x"
        if x < 0.50 or depth >= 3:
            t = self.leaf_type()
            if r.random() < 0.35: t = t_opt(t)
            return t, self.codec_for(t)
        if x < 0.62:
            inner = self.leaf_type(allow_codec=False)
            if r.random() < 0.3: inner = t_opt(inner)
            t = t_vec(inner)
            if r.random() < 0.3: t = t_opt(t)
            return t, "d"
        if not allow_derived: return t_int(r.choice(INTS)), "d"
        d = self.derived(depth + 1)
        y = r.random()
        if y < 0.35: d = t_opt(d)
        elif y < 0.5: d = t_vec(d)
        elif y < 0.55: d = t_opt(t_vec(d))
        return d, "d"

    def codec_for(self, t):
        b = t.e if t.kind == "opt" else t
        if b.kind == "blob":
            if b.k in NEEDS_CODEC: return "b"
            return self.rng.choice(["d", "d", "b"])
        return "d"

    def indices(self, n, dense=None):
        r = self.rng
        dense = r.random() < 0.5 if dense is None else dense
        if dense:
            idx = list(range(n))
        else:
            idx, cur = [], 0
            for _ in range(n):
                cur += r.choice([0, 0, 1, 2, 5])
                idx.append(cur); cur += 1
        r.shuffle(idx) if r.random() < 0.5 else None
        return idx

    def fields(self, n, depth, enc, allow_skip=True, shape="n"):
        r = self.rng
        nskip = r.choice([0, 0, 0, 1, 2]) if allow_skip else 0
        idx = self.indices(n)
        if enc != "m" and n and r.random() < 0.12:
            # array encoding: a field far out (the gap is filled with nulls), around the one-byte / two-byte array header boundary
            cand = r.choice([22, 23, 24, 30, 255, 256])
            if cand not in idx: idx[idx.index(max(idx))] = max(cand, max(idx))
        if enc == "m" and n and r.random() < 0.3:
            # map encoding: index keys at the head-width boundaries
            big = [23, 24, 255, 256, 65535, 65536, 2**32 - 1]
            j = r.randrange(n)
            cand = r.choice(big)
            if cand not in idx: idx[j] = cand
        fs = []
        for i in range(n):
            ty, codec = self.field_type(depth)
            f = Field(idx[i], ty, tag=self.tag(0.2), codec=codec, style=r.randrange(4))
            f.is_b = needs_b(ty) or r.random() < 0.15
            if ty.kind == "opt" and r.random() < 0.15:
                if codec == "d" and r.random() < 0.4 and not needs_b(ty):
                    f.ty = ty = t_opt(t_int("u16")); f.codec = "p"; f.is_b = False
                f.spell = r.choice(["core", "std", None]) if f.codec == "p" else r.choice(["core", "std"])
            elif r.random() < 0.2:
                sp = r.choice(["generic", "alias", "alias", "newtype"])
                if sp == "newtype" and ty.kind == "opt" and codec == "d" and r.random() < 0.5: f.ty = ty = t_opt(t_int("u16"))
                if spell_ok(f, sp): f.spell = sp
            fs.append(f)
        for _ in range(nskip):
            t = r.choice([t_int(r.choice(INTS)), t_bool(), t_text("string"), t_opt(t_int("u8")), t_vec(t_int("u16")), t_opt(t_blob("bytevec"))])
            fs.insert(r.randrange(len(fs) + 1), Field(0, t, skip=True))
        return fs

    def struct(self, depth, nfields=None, enc=None, shape=None):
        r = self.rng
        enc = enc or r.choice(["d", "a", "m", "m"])
        shape = shape or r.choice(["n", "n", "p"])
        n = nfields if nfields is not None else r.choice([0, 1, 2, 3, 4, 5, 6])
        if n == 0 and r.random() < 0.5:
            return t_st([], enc=enc, tag=self.tag(), shape="u")
        return t_st(self.fields(n, depth, eff_enc(enc), shape=shape), enc=enc, tag=self.tag(), shape=shape)

    def transparent(self, depth):
        r = self.rng
        ty, codec = self.field_type(depth)
        f = Field(0, ty, tag=None, codec=codec, style=r.randrange(4))
        if r.random() < 0.2: f.tag = 9      # a field tag inside a transparent struct is ignored by the macro
        f.is_b = needs_b(ty) or r.random() < 0.2
        return t_st([f], shape=r.choice(["n", "p"]), transparent=True)

    def enum(self, depth):
        r = self.rng
        if r.random() < 0.25:
            n = r.choice([1, 2, 3, 5])
            idx = self.indices(n)
            return t_en([Variant(i) for i in idx], enc=r.choice(["d", "a", "m"]), index_only=True)
        enc = r.choice(["d", "a", "m"])
        n = r.choice([1, 2, 3, 4])
        idx = self.indices(n)
        if r.random() < 0.2: idx[r.randrange(n)] = r.choice([23, 24, 255, 256, 65536, 2**32 - 1])
        vs = []
        for i in idx:
            shape = r.choice(["u", "p", "n"])
            venc = r.choice(["d", "d", "a", "m"])
            if shape == "u":
                vs.append(Variant(i, "u", [], venc, self.tag(0.2)))
            else:
                nf = r.choice([0, 1, 2, 3])
                vs.append(Variant(i, shape, self.fields(nf, depth, eff_enc(venc, enc), shape=shape), venc, self.tag(0.2)))
        return t_en(vs, enc=enc, tag=self.tag())

    def derived(self, depth):
        r = self.rng
        x = r.random()
        if x < 0.5: return self.struct(depth)
        if x < 0.62: return self.transparent(depth)
        return self.enum(depth)

    def wide_struct(self, enc, shape="n"):
        """>= 24 fields, about half of them optional, at the array / map head-width boundary."""
        r = self.rng
        n = r.choice([24, 25, 26, 30])
        fs = []
        idx = list(range(n))
        if r.random() < 0.5: r.shuffle(idx)
        for i in range(n):
            base = r.choice([t_int("u8"), t_int("u16"), t_bool(), t_text("string"), t_int("i8")])
            if i % 2 == 0 or r.random() < 0.3: base = t_opt(base)
            fs.append(Field(idx[i], base, tag=(7 if r.random() < 0.1 else None), style=r.randrange(4)))
        return t_st(fs, enc=enc, shape=shape)


def core_schemas(rng):
    """a fixed family exercising every value-affecting attribute whatever the seed."""
    S = []
    F = Field
    o8 = lambda: t_opt(t_int("u8"))
    # plain / gaps / permutations / tuple
    S.append(t_st([F(0, t_int("u8")), F(1, t_text("string")), F(2, o8())]))
    S.append(t_st([F(3, o8()), F(0, t_int("i16")), F(7, t_opt(t_text("string")))], enc="a"))
    S.append(t_st([F(2, t_int("u8")), F(0, t_bool()), F(1, o8())], shape="p"))
    S.append(t_st([F(5, o8()), F(1, o8()), F(9, o8())], enc="m"))
    S.append(t_st([F(0, o8()), F(1, o8()), F(2, o8())]))                       # trailing None trimming
    # array encoding with FEW fields at HIGH indices: the array header is sized by the highest present index, not by the field count
    S.append(t_st([F(0, t_int("u8")), F(23, o8())], enc="a"))
    S.append(t_st([F(1, o8()), F(22, o8()), F(24, o8())]))
    S.append(t_st([F(0, o8()), F(255, t_int("u8"))], enc="a"))
    S.append(t_st([F(3, t_int("u16")), F(256, o8()), F(30, o8(), tag=5)]))
    S.append(t_en([Variant(0, "n", [F(0, t_int("u8")), F(25, o8())]), Variant(1, "p", [F(23, t_int("u8"))], enc="a")], enc="a"))
    S.append(t_st([F(0, o8(), tag=5), F(1, t_int("u8"))]))                     # K3 shape
    S.append(t_st([F(0, o8(), tag=5), F(1, o8(), tag=6), F(4, t_int("u8"), tag=7)], enc="m", tag=100))
    S.append(t_st([], shape="u")); S.append(t_st([], shape="u", enc="m", tag=3)); S.append(t_st([], shape="n")); S.append(t_st([], shape="p"))
    # skip
    S.append(t_st([F(0, t_int("u8")), F(0, t_text("string"), skip=True), F(1, o8())]))
    S.append(t_st([F(0, t_int("u64"), skip=True), F(1, t_int("u8")), F(0, t_bool())], shape="p"))
    # transparent
    S.append(t_st([F(0, t_int("u32"))], shape="p", transparent=True))
    S.append(t_st([F(0, o8())], shape="n", transparent=True))
    S.append(t_st([F(0, t_int("u32"), codec="x")], shape="p", transparent=True))
    S.append(t_st([F(0, t_blob("vecu8"), codec="b")], shape="p", transparent=True))
    S.append(t_st([F(0, t_int("u8"), tag=9)], shape="p", transparent=True))
    S.append(t_st([F(1, t_opt(t_st([F(0, o8())], shape="p", transparent=True))), F(0, t_st([F(0, o8())], shape="n", transparent=True))], enc="m"))
    # bytes codec / native byte strings / borrowing
    S.append(t_st([F(0, t_blob("sliceu8"), codec="b"), F(1, t_opt(t_blob("sliceu8")), codec="b"), F(2, t_blob("vecu8"), codec="b"),
                   F(3, t_opt(t_blob("vecu8")), codec="b"), F(4, t_blob("cowu8"), codec="b", is_b=True), F(5, t_blob("cowu8"), codec="b")]))
    S.append(t_st([F(0, t_blob("bytevec")), F(1, t_blob("byteslice")), F(2, t_opt(t_blob("byteslice"))), F(3, t_blob("bytevec"), codec="b")], enc="m"))
    S.append(t_st([F(0, t_text("str")), F(1, t_opt(t_text("str"))), F(2, t_text("cowstr"), is_b=True), F(3, t_text("cowstr")),
                   F(4, t_opt(t_text("cowstr")), is_b=True), F(5, t_vec(t_text("str")), is_b=True)]))
    # nil-aware custom codec
    S.append(t_st([F(0, t_int("u32"), codec="x"), F(1, o8()), F(2, t_int("u32"), codec="x")]))
    S.append(t_st([F(0, t_int("u32"), codec="x", tag=4), F(3, t_int("u32"), codec="x")], enc="m"))
    # enums
    S.append(t_en([Variant(0), Variant(1, "p", [F(0, t_int("u8"))]), Variant(2, "n", [F(0, o8()), F(1, o8())])]))
    S.append(t_en([Variant(0), Variant(1, "p", [F(0, o8()), F(2, o8())]), Variant(5, "n", [F(1, t_int("u8"))], enc="a")], enc="m"))
    S.append(t_en([Variant(0, tag=8), Variant(1, "p", [F(0, t_int("u8"), tag=2)], tag=9, enc="m")], tag=7))
    # explicit enum-level encoding against the opposite explicit variant-level encoding (fields, gaps, optionals)
    S.append(t_en([Variant(0, "n", [F(0, t_int("u8")), F(2, o8())], enc="a"), Variant(1, "p", [F(1, t_int("u16")), F(0, o8())]), Variant(2, enc="a")], enc="m"))
    S.append(t_en([Variant(0, "n", [F(0, t_int("u8")), F(2, o8())], enc="m"), Variant(1, "p", [F(1, t_int("u16")), F(0, o8())]), Variant(2, enc="m")], enc="a"))
    S.append(t_en([Variant(0), Variant(3), Variant(24)], index_only=True))
    S.append(t_en([Variant(1, "n", []), Variant(0, "p", [])]))
    S.append(t_en([Variant(0, "p", [F(0, t_int("u32"), codec="x"), F(1, o8())]), Variant(1, "n", [F(3, t_int("u32"), codec="x")], enc="m")]))
    S.append(t_en([Variant(0, "p", [F(1, t_int("u8")), F(0, t_text("string"), skip=True), F(0, o8())])]))
    # nil-capable field types that are NOT spelled `Option<..>`: type parameter, type alias, hand-written newtype
    # (array and map encoding; the nil value in trailing and in non-trailing position; structs, tuple structs, variants)
    o16 = lambda: t_opt(t_int("u16"))
    for sp in ("generic", "alias", "newtype"):
        for enc in ("d", "m"):
            S.append(t_st([F(0, t_int("u8")), F(1, o16(), spell=sp)], enc=enc))                       # trailing
            S.append(t_st([F(0, o16(), spell=sp), F(1, t_int("u8"))], enc=enc, shape="p"))            # non-trailing
            S.append(t_st([F(0, o16(), spell=sp), F(2, t_opt(t_text("string")), spell="alias"), F(5, o16(), spell="newtype")], enc=enc))   # all absent possible
            S.append(t_en([Variant(0, "p", [F(0, t_int("u8")), F(1, o16(), spell=sp)], enc=enc),
                           Variant(1, "n", [F(0, o16(), spell=sp), F(3, t_bool())], enc=enc)]))
    S.append(t_st([F(0, t_int("u8")), F(1, t_opt(t_vec(t_int("u8"))), spell="generic"), F(2, t_opt(t_opt(t_int("u8"))), spell="alias")]))
    # path-qualified Option (`core::option::Option<..>`, `std::option::Option<..>`): alone, under with = "minicbor::bytes", and under a
    # custom codec module without nil functions; None in trailing and non-trailing position; both encodings; structs and variants
    for sp in ("core", "std"):
        for enc in ("d", "m"):
            S.append(t_st([F(0, t_int("u8")), F(1, t_opt(t_blob("vecu8")), codec="b", spell=sp), F(2, o16(), codec="p", spell=sp)], enc=enc))
            S.append(t_st([F(0, t_opt(t_blob("sliceu8")), codec="b", spell=sp), F(1, o16(), codec="p", spell=sp), F(2, o16(), spell=sp), F(3, t_int("u8"))],
                          enc=enc, shape="p"))
            S.append(t_st([F(0, o16(), codec="p", spell=sp, style=1), F(4, t_opt(t_blob("cowu8")), codec="b", spell=sp, style=1, is_b=True),
                           F(2, t_opt(t_text("str")), spell=sp)], enc=enc))
            S.append(t_en([Variant(3, "n", [F(0, o16(), codec="p", spell=sp)], enc=enc),
                           Variant(1, "p", [F(0, t_opt(t_blob("vecu8")), codec="b", spell=sp), F(1, t_int("u8")), F(2, o16(), codec="p")], enc=enc)]))
    # nesting
    inner = t_st([F(0, t_int("u8")), F(1, o8())])
    e1 = t_en([Variant(0), Variant(1, "p", [F(0, t_int("u8"))])])
    io = t_en([Variant(0), Variant(1)], index_only=True)
    S.append(t_st([F(0, inner), F(1, t_opt(copy.deepcopy(inner))), F(2, t_vec(copy.deepcopy(inner))), F(3, t_opt(e1)), F(4, t_opt(io)), F(5, t_int("u8"))]))
    S.append(t_st([F(0, t_vec(o8())), F(1, t_opt(t_vec(t_text("string")))), F(2, t_vec(t_vec(t_int("i8"))))], enc="m"))
    # an Option directly inside an Option (the encoder's side of the documented exclusion: `Some(None)` is PRESENT and written as null;
    # only `None` is absent): trailing and non-trailing, array and map, spelled plainly and as a type parameter, in a variant
    S.append(t_st([F(0, t_opt(o8())), F(1, t_int("u8"))]))
    S.append(t_st([F(0, t_int("u8")), F(1, t_opt(o8()))]))
    S.append(t_st([F(0, t_int("u8")), F(3, t_opt(o8()), spell="generic"), F(1, t_opt(t_opt(t_text("string"))))], enc="m"))
    S.append(t_en([Variant(0, "p", [F(0, t_opt(o8())), F(1, o8())]), Variant(1, "n", [F(2, t_opt(o8()))], enc="m")]))
    return S


# ------------------------------------------------------------------------------------------ metamorphic twin

def twin(ty, rng):
    """the same schema declared differently: other names (given at emission), shuffled declaration order
    of fields and variants, n <-> b swapped where legal, other attribute spelling.  Returns (type', f) where
    f maps a value of ty to the corresponding value of type'."""
    k = ty.kind
    if k in ("int", "bool", "text", "blob"):
        return copy.copy(ty), (lambda v: v)
    if k == "opt":
        e, f = twin(ty.e, rng)
        return t_opt(e), (lambda v: None if v is None else ("so", f(v[1])))
    if k == "vec":
        e, f = twin(ty.e, rng)
        return t_vec(e), (lambda v: ("l", [f(x) for x in v[1]]))
    if k == "st":
        fs, perm, fmaps = twin_fields(ty.fields, rng)
        t2 = t_st(fs, enc=ty.enc if ty.enc != "a" or rng.random() < 0.5 else "d", tag=ty.tag, shape=ty.shape, transparent=ty.transparent)
        if ty.enc == "d" and rng.random() < 0.5: t2.enc = "a"
        return t2, (lambda v: ("r", [fmaps[j](v[1][p]) for j, p in enumerate(perm)]))
    if k == "en":
        order = list(range(len(ty.variants)))
        rng.shuffle(order)
        vs, maps = [], []
        for p in order:
            var = ty.variants[p]
            fs, perm, fmaps = twin_fields(var.fields, rng)
            vs.append(Variant(var.idx, var.shape, fs, var.enc, var.tag, is_b=not var.is_b))
            maps.append((perm, fmaps))
        t2 = t_en(vs, enc=ty.enc, tag=ty.tag, index_only=ty.index_only)
        inv = {p: j for j, p in enumerate(order)}
        def f(v):
            j = inv[v[1]]
            perm, fmaps = maps[j]
            return ("e", j, [fmaps[a](v[2][p]) for a, p in enumerate(perm)])
        return t2, f
    raise ValueError(k)


def twin_fields(fields, rng):
    perm = list(range(len(fields)))
    rng.shuffle(perm)
    fs, fmaps = [], []
    for p in perm:
        f = fields[p]
        t2, fm = twin(f.ty, rng)
        g = Field(f.idx, t2, f.tag, f.codec, f.skip, f.is_b or (not f.skip and rng.random() < 0.5), style=(f.style + 1 + rng.randrange(3)) % 4,
                  spell=(None if f.spell else ("alias" if rng.random() < 0.3 else None)))
        if g.spell and not spell_ok(g, g.spell): g.spell = None
        fs.append(g); fmaps.append(fm)
    return fs, perm, fmaps


# ------------------------------------------------------------------------------------------ C10: documented edits

class Chain:
    """versions[0] is the base; versions[i+1] results from one documented compatible edit.  `extra[i]`: hand-made values of
    version i in addition to the generated ones."""
    def __init__(self, versions, notes, extra=None):
        self.versions, self.notes, self.extra = versions, notes, extra or {}


def all_fields_lists(ty, path=()):
    """every field list (struct bodies and variant bodies) reachable in ty, with the enum context."""
    out = []
    k = ty.kind
    if k in ("opt", "vec"): out += all_fields_lists(ty.e, path)
    elif k == "st":
        if not ty.transparent: out.append((ty, None, ty.fields, eff_enc(ty.enc)))
        for f in ty.fields: out += all_fields_lists(f.ty, path)
    elif k == "en":
        for v in ty.variants:
            if v.shape != "u": out.append((ty, v, v.fields, eff_enc(v.enc, ty.enc)))
            for f in v.fields: out += all_fields_lists(f.ty, path)
    return out


def optional_enums(ty):
    """enums that occur as `Option<Enum>` field types (the only place where variants may be added)."""
    out = []
    def walk(t, direct_opt_field):
        k = t.kind
        if k == "opt": walk(t.e, direct_opt_field)
        elif k == "vec": walk(t.e, False)
        elif k == "st":
            for f in t.fields:
                if not f.skip: walk(f.ty, f.ty.kind == "opt")
        elif k == "en":
            if direct_opt_field: out.append(t)
            for v in t.variants:
                for f in v.fields:
                    if not f.skip: walk(f.ty, f.ty.kind == "opt")
    walk(ty, False)
    return out


def nested_enums(ty):
    """enums that sit INSIDE the value of an optional field without being that field's own type (behind a mandatory field of a
    nested struct / variant, or inside a Vec): an unknown variant there makes the decoder give up the whole optional field."""
    out = []
    def walk(t, inside_opt, direct):
        k = t.kind
        if k == "opt": walk(t.e, True, direct)
        elif k == "vec": walk(t.e, inside_opt, False)
        elif k == "st":
            for f in t.fields:
                if not f.skip: walk(f.ty, inside_opt or f.ty.kind == "opt", f.ty.kind == "opt")
        elif k == "en":
            if inside_opt and not direct: out.append(t)
            for v in t.variants:
                for f in v.fields:
                    if not f.skip: walk(f.ty, inside_opt or f.ty.kind == "opt", f.ty.kind == "opt")
    walk(ty, False, False)
    return out


def top_level_only_enums_ok(ty):
    return True


def used_indices(root, fields_obj):
    """indices ever used by this field list across the chain (retired ones are never reused)."""
    return root.__dict__.setdefault("_retired", {}).setdefault(id(fields_obj), set())


def new_opt_field(sg, idx):
    r = sg.rng
    x = r.random()
    if x < 0.15: return Field(idx, t_int("u32"), codec="x", tag=(6 if r.random() < 0.3 else None))
    if x < 0.3:
        io = t_en([Variant(i) for i in range(r.choice([1, 2, 3]))], index_only=True)
        return Field(idx, t_opt(io))
    if x < 0.45:
        e = t_en([Variant(0), Variant(1, "p", [Field(0, t_int("u8"))])], enc=r.choice(["d", "m"]))
        return Field(idx, t_opt(e), tag=(11 if r.random() < 0.2 else None))
    if x < 0.55:
        return Field(idx, t_opt(t_st([Field(0, t_int("u8")), Field(1, t_opt(t_text("string")))], enc=r.choice(["d", "m"]))))
    t = r.choice([t_int("u8"), t_int("i32"), t_text("string"), t_bool(), t_vec(t_int("u8")), t_blob("bytevec"), t_text("str")])
    return Field(idx, t_opt(t), tag=(r.choice([5, 300]) if r.random() < 0.3 else None))


def apply_edit(sg, root, retired):
    """one documented compatible edit on a deep copy of root; returns (new root, note) or None."""
    r = sg.rng
    new = copy.deepcopy(root)
    lists = all_fields_lists(new)
    oenums = optional_enums(new)
    kinds = ["add_new", "add_gap", "drop", "add_variant", "unit_to_fields", "add_new"]
    r.shuffle(kinds)
    for kind in kinds:
        if kind in ("add_new", "add_gap", "drop") and lists:
            owner, var, fields, enc = r.choice(lists)
            key = proto_owner_key(new, owner, var)
            ret = retired.setdefault(key, set())
            live = [f.idx for f in fields if not f.skip]
            used = set(live) | ret
            if kind == "add_new":
                idx = (max(used) + 1 if used else 0) + r.choice([0, 0, 1, 3])
                if enc == "m" and r.random() < 0.25:
                    big = [i for i in (255, 256, 65535, 65536, 4294967295) if i not in used and i >= idx]
                    if big: idx = r.choice(big)
                if idx > 4294967295: continue          # the index space of this body is exhausted at the top (a field sits at 2^32-1)
                fields.insert(r.randrange(len(fields) + 1), new_opt_field(sg, idx))
                return new, f"add optional field at new index {idx}"
            if kind == "add_gap":
                # (indices of map-encoded bodies go up to 2^32-1: never enumerate the whole range)
                hi = max(used) if used else 0
                gaps = [i for i in range(min(hi, 600)) if i not in used] + [i for i in (255, 256, 65535, 65536) if 600 <= i < hi and i not in used]
                if not gaps: continue
                idx = r.choice(gaps)
                fields.insert(r.randrange(len(fields) + 1), new_opt_field(sg, idx))
                return new, f"add optional field at gap index {idx}"
            if kind == "drop":
                cands = [f for f in fields if not f.skip and is_optional(f)]
                if not cands: continue
                f = r.choice(cands)
                fields.remove(f); ret.add(f.idx)
                return new, f"drop optional field {f.idx}"
        if kind == "add_variant" and oenums:
            e = r.choice(oenums)
            used = {v.idx for v in e.variants}
            idx = max(used) + 1 + r.choice([0, 0, 2])
            if r.random() < 0.25:
                big = [i for i in (255, 256, 65535, 65536, 4294967295) if i not in used and i >= idx]
                if big: idx = r.choice(big)
            if idx > 4294967295: return None
            if e.index_only:
                e.variants.append(Variant(idx))
            else:
                shape = r.choice(["u", "p", "n"])
                fs = [] if shape == "u" else [Field(0, r.choice([t_int("u8"), t_opt(t_int("u16")), t_text("string")]))]
                e.variants.insert(r.randrange(len(e.variants) + 1), Variant(idx, shape, fs, enc=r.choice(["d", "a", "m"])))
            return new, f"add variant {idx} to an enum used as an optional field"
        if kind == "unit_to_fields":
            cands = []
            def walk(t):
                if t.kind in ("opt", "vec"): walk(t.e)
                elif t.kind == "st":
                    for f in t.fields: walk(f.ty)
                elif t.kind == "en":
                    if not t.index_only:
                        for v in t.variants:
                            if v.shape == "u": cands.append(v)
                            for f in v.fields: walk(f.ty)
            walk(new)
            if not cands: continue
            v = r.choice(cands)
            v.shape = r.choice(["p", "n"])
            v.fields = [new_opt_field(sg, i) for i in range(r.choice([1, 2]))]
            return new, f"unit variant {v.idx} becomes a {v.shape} variant with optional fields"
    return None


def proto_owner_key(root, owner, var):
    """a stable key for a field list across deep copies: the path of indices from the root."""
    path = find_path(root, owner)
    return (path, None if var is None else var.idx)


def find_path(t, target, acc=()):
    if t is target: return acc
    k = t.kind
    if k in ("opt", "vec"): return find_path(t.e, target, acc + (k,))
    if k == "st":
        for f in t.fields:
            p = find_path(f.ty, target, acc + (("f", f.idx, f.skip),))
            if p is not None: return p
    if k == "en":
        for v in t.variants:
            for f in v.fields:
                p = find_path(f.ty, target, acc + (("v", v.idx, f.idx, f.skip),))
                if p is not None: return p
    return None


def base_for_chain(sg):
    """a base struct with the ingredients the documented edits act on."""
    r = sg.rng
    enc = r.choice(["d", "m", "a"])
    n = r.choice([2, 3, 4])
    idx = sg.indices(n, dense=r.random() < 0.6)
    fs = []
    for i in range(n):
        x = r.random()
        if x < 0.25:
            e = t_en([Variant(0), Variant(1, r.choice(["p", "n"]), [Field(0, t_int("u8")), Field(1, t_opt(t_text("string")))], enc=r.choice(["d", "m"]))],
                     enc=r.choice(["d", "m"]), tag=sg.tag(0.15))
            fs.append(Field(idx[i], t_opt(e), tag=sg.tag(0.15)))
        elif x < 0.4:
            io = t_en([Variant(0), Variant(1), Variant(2)], index_only=True)
            fs.append(Field(idx[i], t_opt(io)))
        elif x < 0.55:
            inner = t_st([Field(0, t_int("u16")), Field(2, t_opt(t_bool()))], enc=r.choice(["d", "m"]), tag=sg.tag(0.15))
            y = r.random()
            fs.append(Field(idx[i], inner if y < 0.4 else t_opt(inner) if y < 0.7 else t_vec(inner)))
        else:
            t, c = sg.field_type(3)
            f = Field(idx[i], t, tag=sg.tag(0.2), codec=c)
            f.is_b = needs_b(t)
            fs.append(f)
    # a trailing mandatory field makes "swallowed sibling" observable
    fs.append(Field((max(idx) if idx else 0) + 1, t_int("u8")))
    return t_st(fs, enc=enc, tag=sg.tag(0.15), shape=r.choice(["n", "p"]))


def core_chains():
    """fixed chains: the documented example edits, and the two recorded defects (F5, K5) in their minimal form."""
    F = Field
    out = []
    # F5: index_only enum in an optional field gains a variant; a sibling follows
    io2 = lambda n: t_en([Variant(i) for i in range(n)], index_only=True)
    a = t_st([F(0, t_opt(io2(2))), F(1, t_int("u8"))])
    b = t_st([F(0, t_opt(io2(3))), F(1, t_int("u8"))])
    out.append(Chain([a, b], ["base", "add variant 2 to an enum used as an optional field"]))
    a = t_st([F(0, t_opt(io2(1))), F(1, t_text("string"))], enc="m")
    b = t_st([F(0, t_opt(io2(2))), F(1, t_text("string"))], enc="m")
    out.append(Chain([a, b], ["base", "add variant 1 to an enum used as an optional field"]))
    # hundreds of unknown variants rescued in ONE document (whatever a decoder counts per failed-and-rescued enum must not add up):
    # a Vec of structs whose optional enum field holds the new variant; regular enum with a body, and index_only
    for io in (False, True):
        def en(n, io=io):
            return t_en([Variant(i) for i in range(n)], index_only=True) if io else t_en([Variant(0), Variant(1, "p", [F(0, t_int("u8"))])] + [Variant(i, "n", [F(0, t_opt(t_int("u8")))]) for i in range(2, n)])
        el = lambda n: t_st([F(0, t_opt(en(n))), F(1, t_int("u8"))])
        a = t_st([F(0, t_vec(el(2))), F(1, t_int("u8"))])
        b = t_st([F(0, t_vec(el(3))), F(1, t_int("u8"))])
        newv = ("e", 2, [] if io else [("so", 7)])
        many = lambda k: ("r", [("l", [("r", [("so", newv), i % 24]) for i in range(k)]), 9])
        out.append(Chain([a, b], ["base", "add variant 2 to an enum used as an optional field of a Vec element"], extra={1: [many(126), many(127), many(128), many(300)]}))
    # K5: a tagged optional field added at a gap index, array encoding
    a = t_st([F(0, t_int("u8")), F(2, t_int("u8"))])
    b = t_st([F(0, t_int("u8")), F(1, t_opt(t_int("u8")), tag=5), F(2, t_int("u8"))])
    c = t_st([F(0, t_int("u8")), F(1, t_opt(t_int("u8")), tag=5), F(2, t_int("u8")), F(3, t_int("u32"), codec="x", tag=6)])
    out.append(Chain([a, b, c], ["base", "add optional field at gap index 1", "add optional field at new index 3"]))
    # indices known only to the newer version that do not fit a narrower integer than the older version's own indices need
    # (255 / 65535 as controls, 256 / 65536 / 2^32-1 across the u8 / u16 / u32 head boundaries): regular and index_only enums
    # in an optional field, and optional fields of map-encoded structs and variants; the old version's indices stay small
    BIG = [[255, 256], [65535, 65536], [4294967295]]
    for grp in BIG:
        # regular enum (unit and tuple variants) under Option, with a sibling field after it
        def reg(extra):
            vs = [Variant(0), Variant(1, "p", [F(0, t_int("u8"))])]
            for j, i in enumerate(extra):
                vs.append(Variant(i) if j % 2 == 0 else Variant(i, "n", [F(0, t_opt(t_int("u16")))], enc="m"))
            return t_en(vs)
        for enc in ("d", "m"):
            vers = [t_st([F(0, t_opt(reg(grp[:k]))), F(1, t_int("u8"))], enc=enc) for k in range(len(grp) + 1)]
            out.append(Chain(vers, ["base"] + [f"add variant {i} to an enum used as an optional field" for i in grp]))
            vers = [t_st([F(0, t_opt(t_en([Variant(0), Variant(1)] + [Variant(i) for i in grp[:k]], index_only=True))), F(1, t_text("string"))], enc=enc)
                    for k in range(len(grp) + 1)]
            out.append(Chain(vers, ["base"] + [f"add variant {i} to an enum used as an optional field" for i in grp]))
        # map-encoded struct: optional fields at the large indices
        vers = [t_st([F(0, t_int("u8")), F(1, t_opt(t_text("string")))] + [F(i, t_opt(t_int("u16")), tag=(7 if j else None)) for j, i in enumerate(grp[:k])], enc="m")
                for k in range(len(grp) + 1)]
        out.append(Chain(vers, ["base"] + [f"add optional field at new index {i}" for i in grp]))
        # map-encoded variant body inside a mandatory enum field, and a nested map-encoded struct under Vec
        def body(k): return [F(0, t_int("u8"))] + [F(i, t_opt(t_bool())) for i in grp[:k]]
        vers = [t_st([F(0, t_en([Variant(0, "n", body(k), enc="m"), Variant(1)])), F(1, t_vec(t_st(body(k), enc="m")))]) for k in range(len(grp) + 1)]
        out.append(Chain(vers, ["base"] + [f"add optional field at new index {i}" for i in grp]))
    # an unknown variant DEEPER inside the value of an optional field (behind a mandatory field of a nested struct, inside a Vec, inside a
    # variant body): the whole optional field becomes None and the siblings after it are untouched (array and map encoding)
    def kind(n, io=False): return t_en([Variant(i) if (io or i % 2 == 0) else Variant(i, "p", [F(0, t_int("u8"))]) for i in range(n)], index_only=io)
    for enc in ("d", "m"):
        for io in (False, True):
            vers = [t_st([F(0, t_opt(t_st([F(0, t_int("u8")), F(1, kind(n, io)), F(2, t_text("string"))], enc=enc))), F(1, t_int("u16")), F(2, t_opt(t_bool()))], enc=enc) for n in (2, 3)]
            out.append(Chain(vers, ["base", "add variant 2 to an enum nested inside an optional field"]))
            vers = [t_st([F(0, t_int("u8")), F(1, t_opt(t_vec(kind(n, io)))), F(2, t_text("string"))], enc=enc) for n in (2, 3)]
            out.append(Chain(vers, ["base", "add variant 2 to an enum nested inside an optional field"]))
            vers = [t_st([F(0, t_opt(t_en([Variant(0), Variant(1, "n", [F(0, kind(n, io)), F(1, t_int("u8"))], enc=enc)]))), F(3, t_int("i8"))], enc=enc) for n in (2, 3)]
            out.append(Chain(vers, ["base", "add variant 2 to an enum nested inside an optional field"]))
    # the example of the documentation: regular enum under Option, unit variant -> tuple variant, new struct variant
    e1 = t_en([Variant(0)])
    e2 = t_en([Variant(0, "p", [F(0, t_opt(t_int("i64")))])])
    e3 = t_en([Variant(0, "p", [F(0, t_opt(t_int("i64")))]), Variant(1, "n", [F(0, t_int("u32")), F(1, t_opt(t_blob("bytevec")))])])
    v1 = t_st([F(0, t_int("u32")), F(1, t_opt(t_text("string")))])
    v2 = t_st([F(0, t_int("u32")), F(1, t_opt(t_text("string"))), F(2, t_opt(t_bool()))])
    v3 = t_st([F(0, t_int("u32")), F(2, t_opt(t_bool()))])
    v4 = t_st([F(0, t_int("u32")), F(2, t_opt(t_bool())), F(3, t_opt(e1))])
    v5 = t_st([F(0, t_int("u32")), F(2, t_opt(t_bool())), F(3, t_opt(e2))])
    v6 = t_st([F(0, t_int("u32")), F(2, t_opt(t_bool())), F(3, t_opt(e3))])
    out.append(Chain([v1, v2, v3, v4, v5, v6], ["base", "add optional field at new index 2", "drop optional field 1", "add optional field at new index 3",
                                                "unit variant 0 becomes a p variant with optional fields", "add variant 1 to an enum used as an optional field"]))
    return out


def variant_sweep(ty, vg, base):
    """values derived from `base` in which every enum reachable through struct fields / Option takes each of its variants once
    (so that a variant only the newer version knows is actually written)."""
    out = []
    def sweep(t, v, rebuild):
        if t.kind == "opt":
            inner = v[1] if v is not None else vg.value(t.e, 2, True, True)
            sweep(t.e, inner, lambda x: rebuild(("so", x)))
        elif t.kind == "vec":
            if v[1]: sweep(t.e, v[1][0], lambda x: rebuild(("l", [x] + list(v[1][1:]))))
            else: sweep(t.e, vg.value(t.e, 2, True, True), lambda x: rebuild(("l", [x])))
        elif t.kind == "st":
            for i, f in enumerate(t.fields):
                if f.skip or f.codec == "x": continue
                sweep(f.ty, v[1][i], lambda x, i=i: rebuild(("r", list(v[1][:i]) + [x] + list(v[1][i + 1:]))))
        elif t.kind == "en":
            for k, var in enumerate(t.variants):
                fv = [vg.field_value(f, 2, True, True) for f in var.fields]
                out.append(rebuild(("e", k, fv)))
    sweep(ty, base, lambda x: x)
    return out


def make_chain(sg, steps):
    root = base_for_chain(sg)
    retired = {}
    versions, notes = [root], ["base"]
    for _ in range(steps):
        res = apply_edit(sg, versions[-1], retired)
        if res is None: break
        versions.append(res[0]); notes.append(res[1])
    return Chain(versions, notes)


# ------------------------------------------------------------------------------------------ Rust emission

class Emitter:
    def __init__(self, rng):
        self.rng = rng
        self.items = []          # Rust source of type definitions + impls
        self.names = {}          # structural key -> rust name
        self.tops = []           # (rust name, type, has_lt)
        self.count = 0

    # ---- naming / interning
    def key(self, ty):
        return proto(ty) + "|" + style_key(ty)

    def name_of(self, ty):
        """assign Rust names to every derived type in ty (interned by structure + spelling)."""
        k = ty.kind
        if k in ("opt", "vec"): self.name_of(ty.e); return
        if k not in ("st", "en"): return
        for f in (ty.fields if k == "st" else [f for v in ty.variants for f in v.fields]):
            self.name_of(f.ty)
        key = self.key(ty)
        if key in self.names:
            ty.name = self.names[key]
            self.copy_names(ty)
            return
        ty.name = f"T{self.count}"; self.count += 1
        self.names[key] = ty.name
        self.assign_member_names(ty)
        self._keep = getattr(self, "_keep", {})
        self._keep[ty.name] = ty
        self.emit(ty)

    def copy_names(self, ty):
        src = self._keep[ty.name]
        if ty.kind == "st":
            for f, g in zip(ty.fields, src.fields): f.name = g.name
            ty.generic = src.generic
            for f, g in zip(ty.fields, src.fields): f.generic = g.generic
        else:
            ty.generic = src.generic
            for v, w in zip(ty.variants, src.variants):
                v.name = w.name
                for f, g in zip(v.fields, w.fields): f.name = g.name; f.generic = g.generic

    def assign_member_names(self, ty):
        r = self.rng
        words = ["alpha", "beta", "gamma", "delta", "eps", "zeta", "eta", "theta", "iota", "kappa", "lam", "mu", "nu", "xi", "omi", "pi", "rho", "sig", "tau", "ups", "phi", "chi", "psi", "omega"]
        def fresh(n, cap=False):
            ws = [words[(i + r.randrange(len(words))) % len(words)] + str(i) for i in range(n)]
            return [w.capitalize() for w in ws] if cap else ws
        if ty.kind == "st":
            for f, n in zip(ty.fields, fresh(len(ty.fields))): f.name = n
            # generics where cheap: one plain, owned, default-codec field becomes the type parameter
            self.pick_generic(ty, ty.fields, not ty.transparent)
        else:
            for v, n in zip(ty.variants, fresh(len(ty.variants), True)):
                v.name = n
                for f, m in zip(v.fields, fresh(len(v.fields))): f.name = m
            self.pick_generic(ty, [f for v in ty.variants for f in v.fields], True)

    def pick_generic(self, ty, fields, allowed):
        """one field becomes the type parameter `T`: the first one spelled 'generic', else (sometimes) a random plain one;
        further 'generic' spellings of the same type fall back to an alias."""
        r = self.rng
        want = [f for f in fields if f.spell == "generic"]
        if want and allowed:
            g = want[0]; g.generic = True; ty.generic = g
            for f in want[1:]: f.spell = "alias"
            return
        for f in want: f.spell = "alias"
        cands = [f for f in fields if not f.skip and f.codec == "d" and f.spell is None and not has_lt(f.ty) and not contains_codec_blob(f.ty)]
        if allowed and cands and r.random() < 0.12:
            g = r.choice(cands); g.generic = True; ty.generic = g

    # ---- types as Rust text
    def rty(self, ty):
        k = ty.kind
        if k == "int": return ty.k
        if k == "bool": return "bool"
        if k == "text": return {"string": "String", "str": "&'a str", "cowstr": "Cow<'a, str>"}[ty.k]
        if k == "blob": return {"bytevec": "ByteVec", "byteslice": "&'a ByteSlice", "vecu8": "Vec<u8>", "sliceu8": "&'a [u8]", "cowu8": "Cow<'a, [u8]>"}[ty.k]
        if k == "opt": return f"Option<{self.rty(ty.e)}>"
        if k == "vec": return f"Vec<{self.rty(ty.e)}>"
        args = []
        if has_lt(ty): args.append("'a")
        if ty.generic is not None: args.append(self.rty(ty.generic.ty))
        return ty.name + ("<" + ", ".join(args) + ">" if args else "")

    def field_attrs(self, f):
        if f.skip: return "#[cbor(skip)]"
        nb = "b" if f.is_b else "n"
        parts = []
        if f.tag is not None: parts.append(f"tag({f.tag})")
        if f.codec == "b":
            parts.append('with = "minicbor::bytes"' if f.style % 2 == 0 else
                         'encode_with = "minicbor::bytes::encode", decode_with = "minicbor::bytes::decode", cbor_len = "minicbor::bytes::cbor_len"')
        if f.codec == "p":
            parts.append('with = "crate::rt::plainopt"' if f.style % 2 == 0 else
                         'encode_with = "crate::rt::plainopt::encode", decode_with = "crate::rt::plainopt::decode", cbor_len = "crate::rt::plainopt::cbor_len"')
        if f.codec == "x":
            parts.append('with = "crate::nilu", has_nil' if f.style % 2 == 0 else
                         'encode_with = "crate::nilu::encode", is_nil = "crate::nilu::is_nil", decode_with = "crate::nilu::decode", nil = "crate::nilu::nil", cbor_len = "crate::nilu::cbor_len"')
        if f.style < 2:
            return f"#[{nb}({f.idx})]" + (" #[cbor(" + ", ".join(parts) + ")]" if parts else "")
        return "#[cbor(" + ", ".join([f"{nb}({f.idx})"] + parts) + ")]"

    def field_decl_type(self, f):
        if f.generic: return "T"
        if f.spell == "alias": return self.alias_of(f.ty)
        if f.spell == "newtype": return "crate::rt::NilOpt"
        if f.spell in ("core", "std"): return f"{f.spell}::option::Option<{self.rty(f.ty.e)}>"
        return self.rty(f.ty)

    def alias_of(self, ty):
        self.aliases = getattr(self, "aliases", {})
        t = self.rty(ty)
        if t not in self.aliases:
            self.aliases[t] = f"Al{len(self.aliases)}"
        return self.aliases[t]

    def emit(self, ty):
        lt = has_lt(ty)
        gen = []
        if lt: gen.append("'a")
        if ty.generic is not None: gen.append("T")
        g = "<" + ", ".join(gen) + ">" if gen else ""
        out = ["#[derive(Debug, Clone, PartialEq, Encode, Decode, CborLen)]"]
        cb = []
        if ty.enc == "a": cb.append("array")
        if ty.enc == "m": cb.append("map")
        if ty.tag is not None: cb.append(f"tag({ty.tag})")
        if ty.kind == "st" and ty.transparent: cb.append("transparent")
        if ty.kind == "en" and ty.index_only: cb.append("index_only")
        if cb: out.append("#[cbor(" + ", ".join(cb) + ")]")
        if ty.kind == "st":
            if ty.shape == "u":
                out.append(f"pub struct {ty.name};")
            elif ty.shape == "p":
                out.append(f"pub struct {ty.name}{g}(" + ", ".join(f"{self.field_attrs(f)} pub {self.field_decl_type(f)}" for f in ty.fields) + ");")
            else:
                out.append(f"pub struct {ty.name}{g} {{ " + ", ".join(f"{self.field_attrs(f)} pub {f.name}: {self.field_decl_type(f)}" for f in ty.fields) + " }")
        else:
            rows = []
            for v in ty.variants:
                va = [f"{'b' if v.is_b else 'n'}({v.idx})"]
                if v.enc == "a": va.append("array")
                if v.enc == "m": va.append("map")
                if v.tag is not None: va.append(f"tag({v.tag})")
                attr = "#[cbor(" + ", ".join(va) + ")]" if len(va) > 1 else f"#[{va[0]}]"
                if v.shape == "u": rows.append(f"{attr} {v.name}")
                elif v.shape == "p": rows.append(f"{attr} {v.name}(" + ", ".join(f"{self.field_attrs(f)} {self.field_decl_type(f)}" for f in v.fields) + ")")
                else: rows.append(f"{attr} {v.name} {{ " + ", ".join(f"{self.field_attrs(f)} {f.name}: {self.field_decl_type(f)}" for f in v.fields) + " }")
            out.append(f"pub enum {ty.name}{g} {{ " + ", ".join(rows) + " }")
        # build + view for the concrete instantiation
        conc = self.rty(ty)
        lta = "<'a>"
        out.append(f"pub fn build_{ty.name}{lta}(v: &'a V) -> {conc} {{")
        if ty.kind == "st":
            if ty.shape == "u": out.append(f"    let _ = v; {ty.name}")
            else:
                out.append("    let fs = v.rec();")
                inits = [self.build_field(f, f"&fs[{i}]") for i, f in enumerate(ty.fields)]
                if ty.shape == "p": out.append(f"    {ty.name}(" + ", ".join(inits) + ")")
                else: out.append(f"    {ty.name} {{ " + ", ".join(f"{f.name}: {e}" for f, e in zip(ty.fields, inits)) + " }")
        else:
            out.append("    let (k, fs) = v.variant();")
            out.append("    match k {")
            for i, v in enumerate(ty.variants):
                inits = [self.build_field(f, f"&fs[{j}]") for j, f in enumerate(v.fields)]
                if v.shape == "u": out.append(f"        {i} => {ty.name}::{v.name},")
                elif v.shape == "p": out.append(f"        {i} => {ty.name}::{v.name}(" + ", ".join(inits) + "),")
                else: out.append(f"        {i} => {ty.name}::{v.name} {{ " + ", ".join(f"{f.name}: {e}" for f, e in zip(v.fields, inits)) + " },")
            out.append("        _ => { let _ = fs; panic!(\"bad variant\") }")
            out.append("    }")
        out.append("}")
        out.append(f"pub fn view_{ty.name}{lta}(x: &{conc}, c: &mut Ctx) {{")
        if ty.kind == "st":
            out.append("    c.open(\"r\");")
            for i, f in enumerate(ty.fields):
                acc = f"x.{i}" if ty.shape == "p" else f"x.{f.name}"
                out.append("    " + self.view_field(f, f"&{acc}"))
            if not ty.fields: out.append("    let _ = x;")
            out.append("    c.close();")
        else:
            out.append("    match x {")
            for i, v in enumerate(ty.variants):
                binds = [f"b{j}" for j in range(len(v.fields))]
                if v.shape == "u": pat = f"{ty.name}::{v.name}"
                elif v.shape == "p": pat = f"{ty.name}::{v.name}(" + ", ".join(binds) + ")"
                else: pat = f"{ty.name}::{v.name} {{ " + ", ".join(f"{f.name}: {b}" for f, b in zip(v.fields, binds)) + " }"
                body = " ".join(self.view_field(f, b) for f, b in zip(v.fields, binds))
                out.append(f"        {pat} => {{ c.open(\"e\"); c.item(); c.raw(\"{i}\"); {body} c.close(); }}")
            out.append("    }")
        out.append("}")
        self.items.append("\n".join(out))

    def build_field(self, f, e):
        x = self.build_expr(f.ty, e)
        return f"crate::rt::NilOpt({x})" if f.spell == "newtype" else x

    def build_expr(self, ty, e):
        k = ty.kind
        if k == "int": return f"({e}).int() as {ty.k}"
        if k == "bool": return f"({e}).boolean()"
        if k == "text": return {"string": f"({e}).text().to_string()", "str": f"({e}).text()", "cowstr": f"Cow::Borrowed(({e}).text())"}[ty.k]
        if k == "blob": return {"bytevec": f"ByteVec::from(({e}).blob().to_vec())", "byteslice": f"<&ByteSlice>::from(({e}).blob())",
                                "vecu8": f"({e}).blob().to_vec()", "sliceu8": f"({e}).blob()", "cowu8": f"Cow::Borrowed(({e}).blob())"}[ty.k]
        if k == "opt": return f"({e}).opt().map(|y| {self.build_expr(ty.e, 'y')})"
        if k == "vec": return f"({e}).list().iter().map(|y| {self.build_expr(ty.e, 'y')}).collect::<Vec<_>>()"
        return f"build_{ty.name}({e})"

    def view_field(self, f, e):
        if f.spell == "newtype": e = f"&({e}).0"
        if f.skip:
            return f"c.item(); c.mute += 1; {self.view_expr(f.ty, e, False)} c.mute -= 1;"
        return f"c.item(); {self.view_expr(f.ty, e, f.is_b)}"

    def view_expr(self, ty, e, direct):
        """statements printing the value `e` (a reference expression)."""
        k = ty.kind
        if k == "int": return f"c.int(*({e}) as i128);"
        if k == "bool": return f"c.boolean(*({e}));"
        if k == "text": return f"c.text(({e}).as_ref());"
        if k == "blob": return f"c.blob(({e}).as_ref());"
        if k == "opt": return f"match ({e}) {{ None => c.none(), Some(y) => {{ c.open(\"so\"); c.item(); {self.view_expr(ty.e, 'y', False)} c.close(); }} }}"
        if k == "vec": return f"c.open(\"l\"); for y in ({e}).iter() {{ c.item(); {self.view_expr(ty.e, 'y', False)} }} c.close();"
        return f"view_{ty.name}({e}, c);"

    def top(self, ty):
        self.name_of(ty)
        if ty.name not in [t[0] for t in self.tops]:
            self.tops.append((ty.name, ty))
        return ty.name

    def source(self):
        hdr = ["// generated by verifkit/derivegen.py -- do not edit", "#![allow(dead_code, unused_variables, unused_imports, unused_parens, non_snake_case, clippy::all)]",
               "use std::borrow::Cow;", "use minicbor::{Encode, Decode, CborLen};", "use minicbor::bytes::{ByteVec, ByteSlice};", "use crate::rt::{V, Ctx};", ""]
        body = "\n".join(f"pub type {n} = {t};" for t, n in getattr(self, "aliases", {}).items()) + "\n\n" + "\n\n".join(self.items)
        enc_rows, dec_rows = [], []
        for name, ty in self.tops:
            enc_rows.append(f"        \"{name}\" => {{ let x = build_{name}(v); Some((minicbor::to_vec(&x).unwrap(), minicbor::len(&x))) }}")
            dec_rows.append(f"        \"{name}\" => {{ let mut d = minicbor::Decoder::new(input); let r: Result<{self.rty(ty).replace(chr(39) + 'a', chr(39) + '_')}, _> = d.decode(); "
                            f"Some(match r {{ Ok(x) => {{ let mut c = Ctx::new(input); view_{name}(&x, &mut c); c.finish(d.position()) }}, Err(e) => crate::rt::err(&e, d.position()) }}) }}")
        tab = ["", "pub fn enc(name: &str, v: &V) -> Option<(Vec<u8>, usize)> {", "    match name {"] + enc_rows + ["        _ => None", "    }", "}", "",
               "pub fn dec(name: &str, input: &[u8]) -> Option<String> {", "    match name {"] + dec_rows + ["        _ => None", "    }", "}", ""]
        return "\n".join(hdr) + body + "\n" + "\n".join(tab)


def contains_codec_blob(ty):
    k = ty.kind
    if k == "blob": return True
    if k in ("opt", "vec"): return contains_codec_blob(ty.e)
    return False


def style_key(ty):
    k = ty.kind
    if k in ("opt", "vec"): return style_key(ty.e)
    sp = lambda f: (f.spell or "-")[0]
    if k == "st": return "S" + "".join(str(f.style) + ("b" if f.is_b else "n") + sp(f) + style_key(f.ty) for f in ty.fields)
    if k == "en": return "E" + "".join(("b" if v.is_b else "n") + "".join(str(f.style) + ("b" if f.is_b else "n") + sp(f) + style_key(f.ty) for f in v.fields) for v in ty.variants)
    return ""


# ------------------------------------------------------------------------------------------ the whole corpus

class Corpus:
    """cases   : [(rust name, type, [values])]                       (C07/C08/C09)
       twins   : [(rust name, twin type, [(twin value, orig type, orig value)])]   (names never influence the bytes)
       chains  : [(Chain, [rust names], [[values of version i]])]      (C10)"""
    pass


SIZES = {"quick": dict(random_schemas=120, twins=80, chains=30, steps=3, cap=12, chain_vals=8),
         "thorough": dict(random_schemas=400, twins=250, chains=100, steps=4, cap=24, chain_vals=12)}

_cache = {}


def build(seed, tier, batch=0):
    key = (seed, tier, batch)
    if key in _cache: return _cache[key]
    sz = SIZES[tier]
    rng = random.Random((seed * 1000003 + batch) ^ 0x5eed)
    sg, vg = SGen(rng), VGen(rng)
    em = Emitter(rng)
    c = Corpus()
    schemas = core_schemas(rng)
    schemas += [sg.wide_struct("a"), sg.wide_struct("m"), sg.wide_struct("m", "p"), sg.wide_struct("d")]
    for _ in range(sz["random_schemas"]):
        schemas.append(sg.derived(0))
    c.cases, c.twins, c.chains = [], [], []
    for ty in schemas:
        fix_b(ty)
        name = em.top(ty)
        cap = sz["cap"] * (3 if is_wide(ty) else 1)
        c.cases.append((name, ty, vg.struct_values(ty, cap)))
    for (name, ty, vals) in c.cases[:sz["twins"]] + c.cases[len(core_schemas(random.Random(0))):len(core_schemas(random.Random(0))) + 4]:
        t2, f = twin(ty, rng)
        fix_b(t2)
        n2 = em.top(t2)
        c.twins.append((n2, t2, [(f(v), ty, v) for v in vals[:max(4, sz["cap"] // 2)]]))
    for ch in core_chains() + [make_chain(sg, sz["steps"]) for _ in range(sz["chains"])]:
        names, vals = [], []
        for v in ch.versions:
            fix_b(v)
            names.append(em.top(v))
            vv = vg.struct_values(v, sz["chain_vals"])
            vv += variant_sweep(v, vg, vv[0])[:12] if vv else []
            vv += ch.extra.get(len(vals), [])
            vals.append(vv)
        c.chains.append((ch, names, vals))
    c.source = em.source()
    c.ntypes = em.count
    _cache[key] = c
    return c


def is_wide(ty): return ty.kind == "st" and len(ty.fields) >= 24


def fix_b(ty):
    """fields whose type mentions a lifetime non-implicitly need #[b]."""
    k = ty.kind
    if k in ("opt", "vec"): fix_b(ty.e)
    elif k == "st":
        for f in ty.fields:
            fix_b(f.ty)
            if not f.skip and needs_b(f.ty): f.is_b = True
    elif k == "en":
        for v in ty.variants:
            for f in v.fields:
                fix_b(f.ty)
                if not f.skip and needs_b(f.ty): f.is_b = True


CARGO_TOML = """[package]
name = "dgen"
version = "0.0.0"
edition = "2021"

[dependencies]
minicbor = { path = "/repo/minicbor", features = ["std", "half", "derive"] }
"""


def write_if_changed(path, text):
    if os.path.exists(path) and open(path).read() == text:
        return False
    os.makedirs(os.path.dirname(path), exist_ok=True)
    with open(path, "w") as f:
        f.write(text)
    return True


def write_crate(seed, tier, batch=0):
    """(re)generate harness/dgen/src/types.rs for this seed; the static files are only created if missing."""
    c = build(seed, tier, batch)
    write_if_changed(os.path.join(CRATE, "Cargo.toml"), CARGO_TOML)
    write_if_changed(os.path.join(CRATE, "src", "types.rs"), c.source)
    return c


if __name__ == "__main__":
    import sys
    c = write_crate(int(sys.argv[1]) if len(sys.argv) > 1 else 1, sys.argv[2] if len(sys.argv) > 2 else "quick")
    print(c.ntypes, "types,", len(c.cases), "cases,", sum(len(v) for _, _, v in c.cases), "values,", len(c.twins), "twins,", len(c.chains), "chains")
