#!/usr/bin/env python3
"""impl side of the attribute front-end stream: answers every op line from the verdicts rustc gave for the generated
definitions (file named by argv[1], written by props/C08.prepare_attrs on this run, against /repo's current tree)."""
import json, sys
v = json.load(open(sys.argv[1]))
for line in sys.stdin:
    op = " ".join(w for w in line.strip().split(" ") if not w.startswith("#"))
    print(v.get(op, "bad-op"), flush=False)
