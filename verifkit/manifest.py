"""Regenerates MANIFEST.json from the table below:  python3 -m verifkit.manifest"""
import json, os
ROOT = os.path.dirname(os.path.dirname(os.path.abspath(__file__)))

NOTE_COMMON = ("Trusted: Lean 4.33 kernel; axioms propext/Classical.choice/Quot.sound only (audited on every run with #print axioms; "
               "no sorry/native_decide/bv_decide); the hand-written model is tied to /repo by the differential correspondence run "
               "(harness links /repo's crates by path and is rebuilt on every run), which samples; rustc/std/half/serde semantics are modelled. ")

CHECKS = {
 "C01": dict(
   text="Lean theorem C01.roundtrip (full, no partial): for every type of the built-in universe (23 codec shapes covering the ~190 registered Rust instantiations), "
        "every value and every continuation, encodeT t v = some bs -> decodeT t (bs ++ rest) = ok v rest, under the decidable side conditions WF (tag numbers < 2^64), "
        "NoOptOpt (no Option directly inside an Option) and bs.length < 2^64; optopt_lossy_general proves the exclusion is necessary. Correspondence: every registered "
        "instantiation x boundary and random values: implementation bytes vs model bytes, then decode of the implementation's own bytes, judged by the property itself "
        "(value equal, floats bitwise, sets/maps unordered, position == length) and compared with the model; Token round trip included.",
   design="5/C01", technique="Lean 4 proof (induction principle over successful encodeT runs) + differential correspondence on ~190 concrete Rust types",
   note="IPv6 flow-info/scope-id, pre-epoch SystemTime and non-UTF-8 paths are outside the value universe (the property's own exclusions); VecDeque values are built with a wrapped ring buffer"),
 "C07": dict(
   text="Lean theorems (full): len_exact_builtin (lenT t v = length of encodeT t v for the whole built-in universe; side condition SmallArity = tuples/records <= 23 "
        "components, true of every Rust type), len_exact_token (all 26 token variants, after fix 6736830), exact_buffer; derived CborLen: len_exact_derived over the derive "
        "model, full (every accepted schema, every well-typed value; the former K2/KD1/K3 witnesses are positive obligations). Correspondence: `tenc` of the C01 corpus, `tokenc` of boundary/random token "
        "lists and `denc` of the generated derived types (all presence combinations): reported len must equal the bytes written, and both must equal the model's; attr-frontend (see C08): "
        "the len components of the run-time probes (which cbor_len function is bound); array-encoded types with few fields at indices 23..256 (the header is sized by the "
        "highest present index) and the hand-written derived types of dextra.rs.",
   design="5/C07", technique="Lean 4 proof (same induction as C01; finite case split for tokens; derive model) + differential correspondence",
   note="the three defects of the derived CborLen (K2, KD1, K3) were repaired in /repo (d85a3d2, 36d21e9, 0196d88) and the model follows the repaired code; no known finding remains for C07"),
 "C03": dict(
   text="Lean theorems: every Encoder method of the model writes exactly the RFC 8949 preferred serialisation (encPref) of the value it denotes, "
        "for all arguments of its Rust type (u8..u64, i8..i64, Int over [-2^64,2^64-1], type_len for all majors, bytes/str of any length, floats, "
        "bool/null/undefined, tag/array/map heads and their composition with preferred elements); ArrayIter/MapIter write one valid array/map of exactly the items yielded; "
        "builtin_pref: every built-in Encode impl writes encPref of the value's data-model item. simple() is proved correct outside 20..=31 and "
        "the counterexample inside (known finding K1) is machine-checked; bare Tag is K9. "
        "BALANCED CALL SEQUENCES (Thm/C03Ops.lean; a call sequence is a List Token, Token.enc = the Encoder method): `Balanced ts ws` is a fuel-free inductive specification of "
        "'ts is balanced and denotes the complete items ws' (array n + exactly n items, map n + 2n, tag + 1, begin_array..end, begin_map + even count..end, begin_bytes/begin_str + "
        "definite chunks only..end; heads at prefWidth) and `balanced` its executable decision procedure (balanced_spec: balanced ts = some ws <-> Balanced ts ws). "
        "ops_denote: balanced + arguments within their Rust types (Token.callOk; Encoder::f16 for EVERY f32) + no simple(20..=31) -> encodeTokens ts = encWs ws and validAll ws "
        "(exactly the concatenation of well-formed items, nothing more, nothing less); ops_denote_statement without the K1 hypothesis is refuted (ops_denote_counterexample). "
        "ops_denote_single: a single denoted item w: output = encW w, w valid, the RFC 8949 reference parser reads output++rest back as (w, rest), and value w = itemOfTokens ts "
        "(C11's independent reader of the call arguments). ops_shortest (no hypotheses): every definite head (ints, string and chunk lengths, array/map lengths, tags) has the least "
        "width; ops_preferred; ops_reference: without begin_* calls the output is encPrefs(values ws), identical to the reference encoder. ops_complete (converse): for all valid "
        "wire trees ws, balanced(ws.flatMap toks) = some(canonL ws), so every well-formed item sequence is reachable; ops_append (histories compose); ops_unique. Unbalanced "
        "sequences are not claimed well-formed (examples: [array 2, u8 1], bare tag, stray end, odd begin_map are not balanced). "
        "Correspondence: the same calls on the real Encoder, exhaustive for 8/16-bit arguments and simple values, boundary-dense + random for 32/64-bit, compared with model and "
        "with the spec encoder; enciter; stream balanced-call-sequences: Encoder::tokens on call sequences made from random wire trees (<= 40 calls, depth <= 6, definite + indefinite "
        "containers, chunked strings, every fitting integer method, counts/lengths at width edges) and mutated (mostly unbalanced) sequences, judged by an orchestrator-side reader: "
        "bytes == re-encoding of the denoted preferred trees, parse as exactly that many well-formed items, == model bytes, and the model's `balanced` denotation == the orchestrator's.",
   design="5/C03", technique="Lean 4 proof (case split on width arms + omega; inductive relation Balanced with sound+complete fuel-bounded decision procedure; induction over derivations) + differential correspondence model/code/spec",
   note="Known findings K1 (simple(20..=31)) and K9 (bare Tag) are excluded by explicit hypotheses with machine-checked counterexamples. Floats are written at the width of the call (f16 only on request), "
        "as the property states. The Encoder keeps no state between calls, so 'histories' are call sequences; Encoder::encode(x) inside a sequence is covered by builtin_pref (one well-formed item each)."),
 "C04": dict(
   text="Lean theorems, all three clauses of the property proved (no oracle-only half left). "
        "(1) Accessors: the 16 typed accessors of Decoder (bool, u8..i64/int, f16, f32, f64, char, bytes, str, bytes_iter, str_iter, array, map, tag, null, undefined, simple) as one "
        "family Acc against a specification written on the wire tree: view a w = the shapes accessor a accepts and the data-model value (bytes/str: definite strings only; iterators: "
        "definite or indefinite, chunks concatenate to the whole; intAcc t: uint/nint heads of any width representable in t; f64: f16/f32/f64 items widened; simple: not 20..23; "
        "array/map/tag: head only), consumed/after = the bytes read / left. accessor_sound: view a w = some v -> a(encW w ++ rest) = ok v at exactly the end of what a reads (any head width, "
        "UTF-8 validated). accessor_rejects / accessor_ok_iff: a(encW w ++ rest) = ok v r <-> view a w = some v and r = after a w ++ rest, i.e. a non-matching accessor returns an error, "
        "never a different value (via the class of initial bytes each accessor can succeed on vs the initial byte of each valid tree). prefix_eoi: every strict prefix of the bytes a "
        "matching accessor reads fails with the end-of-input class - never success, never another class, never a panic. "
        "(2) Typed decoding, prefixes: decodeT t (all ~100 built-in Decode impls) is stable under extension of the input (appending bytes can only change an end-of-input outcome: "
        "typed_stable, by induction over all loop combinators incl. skip and the fuelled loops at two fuels); hence typed_prefix_eoi: every strict prefix of the encoding of every value "
        "(side conditions of C01.roundtrip) fails with end-of-input, and typed_prefix_eoi_any: the same for ANY input a type accepts (re-framings included). "
        "(3) Typed decoding of ANY framing: interp t w = which wire trees a type accepts (integers at any width, strings definite only, seq/map/fields/[T;N] definite or indefinite, tuples "
        "and the enum wrapper definite only, Option via null, Tagged at any tag width, floats widened, fields ignoring extra entries, Duration carry checks) and the data-model value; "
        "typed_sound: interp t w = some v -> decodeT t (encW w ++ rest) = ok v rest; typed_rejects / typed_mismatch_err: interp t w = none -> an error, no value; typed_ok_iff; "
        "typed_prefix_eoi_reframed: every strict prefix of any accepted framing -> end-of-input; for the whole universe except the bare "
        "data::Tag impl (typed_bare_tag characterises it: a head reader; typed_sound_statement_needs_exclusion shows the exclusion is necessary), under FitsSlice (as C06). "
        "interp_of_encode: the spec maps every encoder output back to the encoded value (cross-check against C01/C03). Integers: C05.int_accessor_exact; floats' values: C12; Size introspection: size_head/tail_sound. "
        "Correspondence: wire trees (all scalar shapes x widths x boundaries, containers at every width and indefinite, tags, chunked strings, random trees) x all 25 "
        "accessors incl. non-matching ones, plus every strict prefix, typed decode of the 189 types on strict prefixes and re-framings, judged by the property's oracle computed from the tree, and compared with the model; the typed iterators "
        "array_iter / array_iter_with / map_iter behind nth, skip, step_by, take, last, count against the same script written with plain next() calls AND against the model's iterator (Iter.lean: state (left, rest) + iterNext, "
        "the core::iter adaptors spelled out through next; Thm/Iter: drain_definite / drain_indefinite / arrayIter_is_next_loop / mapIter_is_next_loop — next-until-None IS the drained loop every "
        "Decode impl of a sequence / map runs — definite_fused, indefinite_not_fused); ONE Decoder through scripts of 40..1000 typed decodes / accessors / abandoned iterators / probes at chosen "
        "positions, most failing half way, against a fresh decoder per step (decoder-reuse: a decoder is its input and a position).",
   design="5/C04", technique="Lean 4 proof (head read-back lemmas; initial-byte classes; a compositional 'stable under input extension' relation over the decoder monad incl. fuelled loops; "
        "forward simulation of every Decode impl against a wire-tree interpreter by mutual structural induction over type descriptors, reusing C06 skip exactness) + differential correspondence with tree-derived oracle",
   note="FULL for the model: 'matching -> exact value and position', 'non-matching -> error, never a different value' and 'strict prefix -> end-of-input' are theorems for all accessors and for typed decoding. "
        "Stated side conditions: well-formed = image of encW on valid trees; FitsSlice (|encW w| < 2^64, true of every Rust slice) where skip() is involved; the bare data::Tag impl is excluded from typed_sound "
        "because it reads a tag head, not an item (it is covered as the accessor `tag`); typed_prefix_eoi for canonical encodings carries C01's WF / NoOptOpt / length conditions, typed_prefix_eoi_any has none. "
        "typed_prefix_eoi_reframed: every strict prefix of ANY accepted framing (interp t w = some v) fails with end-of-input; typed_mismatch_err: a rejected item gives an error (no panic, by C02). "
        "Borrowed-slice pointer ranges are not expressible in the model (byte lists); they are observed by the harness only."),
 "C11": dict(
   text="Lean theorems (full, no partial fallback) about the model of Token (encode/decode), the Tokenizer iterator and token re-encoding. "
        "tokenize_encW / tokenize_item: for EVERY sequence of valid wire trees (any head widths, arbitrary nesting, indefinite arrays/maps, chunked strings; followed by arbitrary "
        "bytes) the tokenizer yields exactly toks(w) - one token per head, integer kind chosen as Decoder::type_of does from the head width and the top bit of the argument, "
        "payload = the data-model value of the head - and nothing else (mutual induction over WItem / List WItem via a per-head lemma Dec.token(head ++ rest) = ok tok rest). "
        "token_value: an independent reader itemOfTokens that looks only at token payloads rebuilds value(w) from toks(w). "
        "tokens_canonicalise / canon_spec / tokens_of_preferred: encodeTokens(tokens(encWs ws)) = encWs(canon ws), where canon ws is valid, has every head preferred, keeps "
        "indefiniteness and chunking and has the same data-model values; identity on the bytes when ws is already preferred. "
        "tokens_roundtrip: for every token list with well-formed payloads, tokens(encodeTokens ts) = ts' with ts' pointwise value-equal to ts (integers numerically, everything else "
        "identical, floats bitwise; intermediate bytes need not be well-formed: Simple(20..31), K1). "
        "tokenizer_bounded (ARBITRARY bytes): Token::decode never panics and consumes >= 1 byte on success, the iterator's fuel is never exhausted, it yields tokens then at most one "
        "non-eoi error (last), and #items <= #bytes. half_roundtrip: f32->f16 of f16->f32 is the identity on all 65536 patterns except that signalling NaNs are quieted (kernel-evaluated table). "
        "Correspondence: wire trees (preferred and non-preferred, indefinite, chunked), all 65536 half patterns except signalling NaNs, all simple values, random token lists "
        "(26 variants, boundary payloads), arbitrary bytes; judged by the property's own oracle computed from the tree / token list, and compared with the model; the three ways to obtain a tokenizer "
        "(Decoder::tokens() at a position, Tokenizer::new, Tokenizer::from) must agree (no model op; registered tags such as 55799 first in the input included).",
   design="5/C11", technique="Lean 4 proof (per-head decode lemmas, mutual structural induction over wire trees, finite half-float table by decide +kernel) + differential correspondence with tree-derived oracle",
   note="Assumptions stated as hypotheses: token payloads are what the Rust types can hold (Token.ok, slice lengths < 2^64) and - the property's own assumption - an F16 token holds a "
        "half-representable f32; a signalling half NaN is quieted by the token's f32 payload (canon/quiet16), which is why token_value carries halfQuiet (token_value_canon does not). "
        "Token::Tag is modelled as its u64; borrowed payloads as byte lists."),
 "C19": dict(
   text="Lean theorems (full, no partial fallback) about the model of the diagnostic Display state machine (tokenizer.rs) and Token::fmt, via a one-step transition function dstep "
        "proved equal to the model's loop (displayInner_succ). display_total (ARBITRARY bytes): the tokenizer finishes and both printer loops terminate within their fuels - explicit "
        "measure mu <= 6*tokens + stack; every round of the outer loop consumes a token or returns - so an output always exists; decoding problems are part of it (display_error_inline). "
        "display_bounded (ARBITRARY bytes): renderedLength(display bs) <= 16*|bs| + 149 (the check enforces 16*len+256 on the real output) by a potential function: every emission is paid "
        "by a consumed token, whose rendering + 5 is <= 16 per input byte its decoding consumed (token_rsize16), separators scheduled by definite containers are charged to the E::N above "
        "them, which consumes a token or (commit 7258571) reports end of input and returns - false on the pre-fix code. display_documented(_seq): for EVERY valid wire tree (any widths, "
        "nesting, indefinite containers, chunked strings) display(encW w) = render w, where render is written by recursion over the tree from the syntax summary in lib.rs "
        "([..], {..}, [_ / {_ markers, h'..', quoted text, (_ ..) chunks with ''_ / \"\"_ for empty ones, n(..), simple(n), null/undefined/true/false, decimal integers, float pieces). "
        "Correspondence: all byte strings up to 2 (3 thorough) bytes, all heads with extreme declared lengths, truncated/mutated valid "
        "items (real output must stay within 16*len+256 in a length-limited sink and equal the model's), wire trees whose rendering is compared with the notation rendered "
        "independently from the tree, and arrays / maps / tags (definite, indefinite, mixed) nested 10^3 .. 2*10^4 (thorough 4*10^5) deep, complete and cut, displayed on a thread with a "
        "192 KiB stack (pending work must live on the heap, not on the call stack); the Display of Decoder::tokens() taken at a position against display of the suffix, and "
        "arrays of 100..1000 tags / empty containers / chunked strings against the notation rendered from the tree.",
   design="5/C19", technique="Lean 4 proof (step function + termination measure + potential function over the control stack; abstract sequence lemmas and mutual induction over wire trees) + differential correspondence",
   note="Rust's {:e} float formatting and error message texts are parameters of the model (re-implemented / canonicalised in the orchestrator): renderedLength charges a fixed 32 per float "
        "piece and 128 per error text, and counts literal text in characters (every literal the printer writes is ASCII; string payloads are counted in bytes). Output is compared as a list of "
        "pieces (literal / raw payload / float / error), i.e. the theorem also fixes the segmentation the model uses."),
 "C20": dict(
   text="In the model the feature configuration is an explicit parameter of exactly the cfg-dependent functions (skip alloc/no-alloc, f32/f64 with/without half); every other "
        "function is configuration-free by construction. Lean theorems: without half an f9 item is a type error for f32/f64 and on every other input the accessors are "
        "identical with and without half (value, error class, position); the alloc/no-alloc skip relation is C06's (noalloc refines alloc or reports the documented "
        "unsupported-nesting error). Correspondence: the library is built six times ({none,alloc,std} x {half,no half}; separate cargo invocations/target dirs, "
        "default-features=false) and each build is run on one deterministic corpus (all accessors on wire trees, truncations, mutations, random bytes, typed decodes of EVERY kind of "
        "Decode impl that exists without alloc (Option, tuples, arrays, Range, Duration, &str, Bound, Tagged incl. wrong tags, NonZero, Int, Tag, bool, char, (), ByteArray, &ByteSlice, Result, "
        "nested) on valid, truncated and mutated input incl. arrays two and more elements longer than [T; N] with foreign / truncated tails, all Encoder methods, and `encseq`: call scripts on ONE encoder "
        "over a small &mut [u8] / Cursor<&mut [u8]> / Cursor<[u8; 12]>, carrying on after a call that did not fit, with the accepted bytes and the whole buffer in the transcript) and compared line by line with the model at that configuration AND with the answers of the other "
        "configurations on the same input (value / error class / position equal unless the difference is one of the two documented ones): a cross-configuration difference is "
        "reported with the input as replay.",
   design="5/C20", technique="Lean 4 proof (case analysis on the initial byte) + six-configuration differential correspondence against the configured model",
   note="the serde bridge is built in each of the six configurations too and compared across them (Deserializer on alloc-free types, deserialize_any on wire trees incl. indefinite strings, Serializer incl. collect_str), the two documented bridge differences (indefinite strings refused, collect_str an error without alloc) being the only accepted ones; the bridge has no model at configurations other than std+half (C17/C18), so there the comparison is between builds. Only x86-64 is compiled; message texts are not compared"),
 "C06": dict(
   text="Lean theorems (full, no partial fallback) about the model of both builds of Decoder::skip. skip_exact: for EVERY valid wire tree "
        "(arbitrarily nested definite/indefinite arrays and maps, chunked strings, tag chains, any head widths, unbounded size) followed by "
        "arbitrary bytes, the alloc skip returns ok and stops exactly after the item; proved by a refinement argument (relation between the "
        "concrete (nrounds, irounds, stack) state and the obviously-correct weight machine, preserved by every token kind in counting mode, stack "
        "mode and across the switch; no saturation; fuel adequacy). skip_prefix_err: error on every strict prefix (via skip_ext: a successful skip "
        "never looks past what it consumed). noalloc_lockstep / noalloc_refines (ARBITRARY bytes): the no-alloc skip computes exactly what the "
        "alloc skip computes or returns the message error, so ok => same position; noalloc_exact_or_unsupported: on valid items exact, or the "
        "message error and then the tree really has an indefinite array/map inside a definite one; noalloc_exact on all other trees. "
        "skip_no_panic (arbitrary bytes, both builds: `*n -= 1` never underflows, fuel never exhausted), skip_stack_le_consumed (stack length + "
        "irounds <= bytes consumed, small-step semantics Reach), skip_agrees_parse + parse_encW + parse_sound + wellformed_iff: an independent "
        "reference decoder (Parse.lean) is sound and complete for the wire spec and skip ends exactly where it ends. "
        "Correspondence: ~0.6M (quick) / ~9M (thorough) ops: all tree shapes <= 5 nodes, random trees to depth 8, chains to depth 10^3/10^4, "
        "mode-switch stress nests, each with random suffixes and strict prefixes, on the real alloc build (hcore) and on a standalone crate built "
        "WITHOUT features (the no-alloc skip, which the workspace never compiles), judged by the property's oracle, by equality with the model "
        "and by the Lean reference decoder as independent spec.",
   design="5/C06", technique="Lean 4 proof (refinement/simulation by mutual structural induction over wire trees; token view; lockstep of the two builds) "
        "+ differential correspondence on two builds with in-orchestrator oracle and Lean reference parser as spec",
   note="All exactness theorems carry the hypothesis (encW w).length < 2^64 (true of every Rust slice): the model's byte lists are unbounded, and on "
        "a >2^64-byte encoding the saturating u64 counters would clip (model artefact, not reachable in Rust). 32-bit targets (u64_to_usize failing) "
        "are not modelled. The no-alloc build is exercised through a separate crate /verif/harness/noalloc (own workspace/target dir)."),
 "C02": dict(
   text="Lean theorems (full, arbitrary input bytes): no_panic for every accessor, skip (both builds), decodeT for every type, tokens; fuel adequacy/irrelevance of every "
        "fuelled loop (= termination with work bounded by the input); Dec.Suffix (the remaining input after any outcome is a suffix of the one before: position in bounds "
        "and monotone); pos_stuck_past_end; alloc_linear (decoded value size + remaining <= input length: declared lengths cannot blow memory); ArrayVec bookkeeping model "
        "drops every pushed element exactly once; the pre-fix Duration code is shown to panic (F1). Correspondence: all byte strings <= 2 bytes x 26 accessors, all heads x "
        "widths x extreme arguments, typed decodes of ~190 types on prefixes/mutations with a counting allocator (<= 256*len + 64KiB), call sequences with set_position / probe, "
        "drop-counting containers (created == dropped).",
   design="5/C02", technique="Lean 4 proof (NoPanic / Consumes / Suffix predicates by induction over the type universe and fuel) + differential correspondence with runtime observers",
   note="partial by nature: memory safety of the unsafe blocks (ArrayVec MaybeUninit, ByteSlice casts), real allocator behaviour and wall time are outside the model; "
        "Size::head/tail (info.rs) are exercised by the correspondence only"),
 "C08": dict(
   text="Lean theorem derive_encode_spec (full strength, no partial fallback): for EVERY abstract schema satisfying `accepted` (the macro's validity rules: unique "
        "indices, transparent => one field, index_only => unit variants, tag/index_only and tag/transparent exclusive, skip alone, codec fits the type) and every "
        "well-typed value, the model of the generated Encode impl (encTy: fields sorted by index, run-time __max_index777 / __max_fields777 with the is_nil the "
        "macro selects, gap loops computed from the previous declared index, tags, encode_with, transparent forwarding, enum rows, index_only) writes exactly "
        "encPref(specTy t v), where specTy is an independent transcription of the documented format (lib.rs 'CBOR encoding') into the RFC 8949 data model: array "
        "position i = (tagged) field with index i or null, ending at the highest present index; map = present fields as (index, value) in ascending index order; "
        "enum = [index, body] or the bare index. Unbounded in field count, index / tag size, nesting depth and value sizes (mutual structural induction over the "
        "schema; frame lemma by cursor induction over the index-sorted pieces; sortedness / permutation lemmas). Also proved: names and the n/b choice never "
        "influence the bytes at any depth (anonymize), declaration order of struct / variant fields never influences the bytes (sortP_perm_eq). "
        "Correspondence: verifkit/derivegen.py draws ~900 type definitions per seed (fixed core family covering every value-affecting attribute + random grammar), "
        "writes the crate harness/dgen (rebuilt against /repo on every run) and the same schemas in protocol syntax for mcdrv; every case is judged by bytes == "
        "Lean spec == independent Python reference encoder, and the model must agree; a twin declaration of every schema (renamed, reordered, n<->b, other "
        "attribute spelling) must produce the spec bytes of the original. ATTRIBUTE FRONT END (Attrs.lean = attrs.rs / codec.rs / idx.rs / fields.rs / variants.rs and the structural checks of the "
        "three macros; Thm/Attrs.lean): which definitions are accepted and what an accepted one means (index, tag, encoding, bound encode / is_nil / decode / nil / cbor_len functions). "
        "fromAttrs_order_irrelevant / structSem_order_irrelevant / enumSem_order_irrelevant: the Rust code merges the entries of a per-attribute std HashMap in its per-process randomised "
        "iteration order; for every level, every attribute list and every pair of valid iteration orders the front end either rejects under both or yields the same meaning (pairwise "
        "commutation of try_insert on independent entries, by exhaustive case analysis of the codec cluster; invariant: a map parsed from one attribute never holds one of the two "
        "order-sensitive pairs). spelling_*: #[n(i)] = #[cbor(n(i))]; with = encode_with + decode_with + cbor_len; with + has_nil = the five functions; one attribute = several. "
        "order_sensitive_rejected / _accepted: the WRITTEN order matters for acceptance (is_nil; decode_with; encode_with in separate attributes is rejected), machine-checked. "
        "Correspondence attr-frontend: ~6300 generated definitions compiled against /repo's macros; accepted iff the model accepts, rejections carry the predicted error; every accepted struct "
        "is probed at run time and bytes / len / decode results must be what the model's meaning predicts (this check decides the encode components, C07 the len, C09 the decode components).",
   design="5/C08", technique="Lean 4 proof (mutual structural induction over nested schema syntax, list permutation / sortedness lemmas) + generated-crate differential "
        "correspondence with two independent reference encoders",
   note="syn (tokenising, literal parsing) and bound / lifetime generation are outside the model; attribute validation and merging ARE modelled (Attrs.lean); the schema-level model of the "
        "generated code starts from the abstract schema the macro keeps after parsing; a generated definition the macro rejects shows up as a harness build failure. The field-type universe of the model is a "
        "closed small one (integers, bool, text, byte strings, Option, Vec, nested derived types, with=minicbor::bytes, one nil-aware custom codec); generic "
        "parameters are covered as their instantiations. A field tag inside a #[cbor(transparent)] struct is silently ignored by the macro (modelled and "
        "specified as such)."),
 "C09": dict(
   text="Lean theorem derive_roundtrip (full for the encoder's own framing): for every accepted schema and well-typed value outside the documented Some(x)=null exclusion "
        "(decidable predicate noClash), decTy t (encTy t v ++ rest) = ok (v with skipped fields defaulted) rest for ARBITRARY trailing bytes - the model of the "
        "generated Decode impl (per-field Option slots initialised Some(None)/None, definite loops of both encodings, match on index, tag checks, nil() / "
        "missing_value resolution, Default for skipped fields, unknown_var_err arms, enum wrapper + index dispatch, transparent) reads back what the generated "
        "Encode impl wrote and stops exactly at its end. "
        "RE-FRAMED INPUT (proved, general): derive_decode_reframed: for every accepted schema t, value v and VALID wire tree w with `reframes t v w` (Reframe.lean, an executable "
        "relation: the items of the derived encoding in order, every head - integers, string / array / map lengths, tags at all four levels, map keys, the variant index - at ANY "
        "width, every struct body, variant body and Vec as a definite array / map of any head width OR an indefinite-length one, at every nesting depth; strings definite; the enum "
        "wrapper [index, body] a definite array), decTy t (encW w ++ rest) = ok (withDefaults t v) rest. Proof: mutual structural induction (rf_dec / rf_fields / rf_vars) over the "
        "schema; a generic engine for the four loops of gen_statements on arbitrary item bytes (arrLoopN_X / arrLoopI_X / mapLoopN_E / mapLoopI_E with fuel adequacy, "
        "fieldsDec_arrN/arrI/mapN/mapI), body_reframed, enum_reframed, width-generic accessor theorems of C04/C05, first-byte facts of valid trees (startNB_encW, startOk_encW). "
        "The enum wrapper [index, body] may be definite or INDEFINITE (the generated decoder rejected the latter until the repair of K8 in /repo; the former counterexample is the positive "
        "obligation derive_decode_reframed_K8_repaired; a definite wrapper of another length is still an error: derive_enum_wrong_wrapper_length); reframed_examples: concrete trees with all heads "
        "widened, indefinite bodies and indefinite wrappers are in `reframes`. The FULL statement derive_decode_reframed_statement (ANY valid tree with the documented value and unchunked strings decodes to the value, exactly consumed) is a theorem: "
        "derive_decode_reframed_full = derive_decode_reframed (trees in the executable relation `reframes`) + reframes_complete (`rf` only looks at the data-model value: rf_sim, by mutual induction over "
        "the schema with a value-equivalence `Sim` on wire trees; the preferred tree is in the relation: pref_rf). "
        "The relation is tied to the documented format in both directions: reframes_sound (every tree in the relation has value w = specTy t v and no chunked strings, so the "
        "theorem is the statement plus ONE decidable hypothesis: derive_decode_reframed_partial2) and reframes_preferred (the preferred tree of specTy t v, whose bytes are the "
        "derived encoding by C08, is in the relation for every schema and value; derive_roundtrip_from_reframed re-derives the round trip from the re-framing theorem). "
        "Error theorems: wrong tag -> tag mismatch (struct, enum); missing tag -> error; a declared mandatory field with an empty body -> missing_value (+ resolve_missing: any "
        "unresolved mandatory slot); unknown top-level variant -> unknown_variant at the position after the index. Borrowing: a decoded string / byte-string leaf is a contiguous "
        "slice of the input ending where the remaining input starts (borrowed_leaf_is_input_slice); whether the Rust value keeps the slice or a copy is observed by pointer range "
        "in the harness. Correspondence: the C08 corpus decoded from (o) the implementation's own bytes, (i) its encoding, (ii) re-framings (all struct / variant / Vec containers "
        "indefinite, all heads widened), (iii) top-level mutations (wrong / missing tag at four levels, dropped mandatory field, unknown variant), (iv) strict prefixes; oracle in "
        "the orchestrator (value, position, borrow flags, error class) and equality with the model; attr-frontend (see C08): the decode components of the run-time probes of every "
        "accepted generated definition (which decode / nil functions are bound, absent fields, own bytes); hand-written derived types with Box<Option<_>>, float, Option<f64> "
        "and Cow<[u8]> (bytes codec) fields (harness/core/src/dextra.rs): round trip bit for bit, exactly consumed, len = bytes (no model op).",
   design="5/C09", technique="Lean 4 proof (slot invariant over the decode loops with per-index results, mutual structural induction, executable re-framing relation on wire trees) + "
        "generated-crate differential correspondence with in-orchestrator oracle",
   note="Re-framed input is a theorem for the relation `reframes`; what it leaves out of the unrestricted statement that `reframes` leaves out on purpose is chunked strings (rejected by the String / byte-string decoders by design). `reframes` is defined by recursion on the schema (it reads the tree "
        "along the type); that it implies `value w = specTy t v` and contains the preferred tree of every value is checked on examples by `decide` (reframed_examples), not proved "
        "in general. `noClash` (the Some(x)=null exclusion) also demands that datatype() does not fail on the first byte of an encoding (always true; kept as a decidable "
        "hypothesis); `reframes` needs no such hypothesis (a Some(x) re-framed as null is not in the relation). The theorem files are Thm/C09Round.lean (round trip, errors, "
        "re-framing) and Thm/C09.lean (borrowing; imports the former). Front end outside the model as for C08."),
 "C10": dict(
   text="Lean theorem compat_decode_full : compat_decode_statement (the property in full, proved; = compat_decode with `benign` discharged by benign_always since the repair of K5, 3d449b2): for ANY two accepted versions w, r of a type with `compatible w r` (Compat.lean: compatTy, the directional relation "
        "'reader r reads writer w' generated by the documented edits at any nesting depth - shared fields by index with equal tag and compatible types, unshared reader fields "
        "optional, writer-only fields arbitrary, enum variants may differ only where the enum is the declared type of an optional field, unit <-> all-optional-fields variants, "
        "both encodings, index_only and regular enums, transparent wrappers, Option, Vec) and every well-typed value v of w outside the "
        "Some(x)=null exclusion of C09 (noClash), with (encode w v).length < 2^64: EXISTS pv, project w r v = ok pv AND decTy r (encTy w v ++ rest) = ok pv rest for ARBITRARY "
        "trailing bytes (compat_decode = project_defined + compat_decode_partial). Proof: mutual structural induction over the writer's schema following compatTy (compat_ty / "
        "compat_one / compat_fields / compat_vars), the reader's slot loops on a body written by another version (fieldsDec_compat -> body_compat: shared fields projected "
        "recursively, reader-only fields nil, writer-only items crossed by skip(), an unknown variant in an optional field skipped as a whole and the field left nil, siblings "
        "untouched), enum rows (row_compat: unknown variant -> unknown_variant error only in lenient position; reader unit variant skips the body; unit writer variant read by a "
        "variant with only optional fields), and skip() on unknown items discharged by C06.skip_exact because every derived encoding is a valid wire tree (spec_valid, skip_encTy). "
        "compat_decode_lenient: in the declared type of an optional field the result is the projection or an unknown-variant error. proj_ty/project_defined: the projection is "
        "total on compatible versions (never `bad`; `unknown` only in lenient position), so the theorem is not vacuous. Both directions of EVERY documented edit are instances of "
        "`compatible`: step_compatible (induction over the inductive relation CompatStep - rename / n<->b via compat_anon, add / drop optional field, add variant in optional "
        "position, unit variant -> variant with only optional fields, and the congruences inside field types, Option and Vec), hence compat_decode_step: for every single documented "
        "edit between accepted versions each side reads what the other wrote and obtains the projection. Kept: compat_K5_repaired (the former counterexample 83 01 f6 02 now decodes to the projection; c5 f6, c5 09 and the wrong tag c6 "
        "behave as before), bare_null_needs_nil (a tagged mandatory field still insists on its tag), compat_F5_repaired, compat_not_transitive (a retired index re-used with another type), "
        "compat_missing_mandatory; the one-level theorems compat_decode_fields / compat_decode_struct_partial / compat_add_optional_field / compat_drop_field / "
        "compat_unknown_variant_*. Concrete two-version example with nesting, gap and new indices, map-encoded Vec elements, new variant in optional position and "
        "unit->struct variant checked through the theorem (compat_example_hyps + examples). "
        "Correspondence: chains of versions produced by random sequences of the documented edits (any nesting depth, both encodings, regular / index_only enums, tagged fields, "
        "nil-aware codec) x every ordered pair x every writer value: implementation == Lean project (value, position) and == model; no deviation is accepted (K5 and F5 inputs are part of the fixed corpus).",
   design="5/C10", technique="Lean 4 proof (mutual structural induction over pairs of schemas; slot invariant with per-index results; C06 skip exactness through C08's encode = spec) + "
        "executable specification + machine-checked counterexamples + generated-crate differential correspondence against the specification",
   note="The general theorem is proved for the whole schema universe of the derive model. Hypotheses beyond the property's wording, all decidable: "
        "noClash (Some(x) encoded as null, C09's documented exclusion), encoding shorter than 2^64 bytes (true of every Rust slice; skip() counts in u64). "
        "`compatible` is the relation that actually holds: the documented edits do not compose when a retired index is re-used with another type (compat_not_transitive), so the "
        "correspondence generator never re-uses one; chains of edits are covered edit by edit (compat_decode_step) and, as pairs, whenever `compatible` holds (decidable). "
        "Front end outside the model as for C08."),
 "C05": dict(
   text="Lean theorem int_accessor_exact: for every accessor type (u8..u64,i8..i64,Int), every sign, every head width and every argument that fits the width, "
        "the model accessor returns the mathematical value and stops right after the head iff the value is representable in the type, and an error otherwise "
        "(overflow error when only the range fails). Correspondence: (sign,width,argument) triples x 10 accessors + datatype on the real Decoder, judged by the "
        "property's own oracle in the orchestrator and compared with the model.",
   design="5/C05", technique="Lean 4 proof (head read-back lemma, case analysis, omega) + differential correspondence with in-orchestrator oracle",
   note="Int <-> primitive TryFrom conversions and NonZero/usize impls: see C01/C04 streams; proofs for Int conversions pending"),
 "C12": dict(
   text="Lean theorems about the model's float paths (the definitions mcdrv executes): f32/f64 bit patterns round-trip identically through Encoder/Decoder for all 2^32 / 2^64 "
        "patterns; each of the 65 536 half patterns is converted by f16ToF32 (transcription of half's portable to_f32) to a binary32 of exactly the same value (complete kernel-evaluated "
        "table); f64::from(f32) is exact for all 2^32 patterns (proof by exponent class, subnormals via Nat.log2); f32/f64 accessors on f9/fa items return the widening and the exact "
        "value; f32 on fb and f16 on fa/fb items are type errors; f32ToF16 (transcription of half's portable from_f32) is exact on every half-representable value (table), maps NaN to NaN "
        "of the same sign, and for ALL finite binary32 inputs rounds to nearest with ties to even, overflowing to infinity exactly from 65520 (f16_encode_rne: full proof over exact "
        "magnitudes, no table). Correspondence: all half patterns, ~2^20 stratified f32 patterns (every exponent, every rounding tie shape) and f64 boundaries per-op against an "
        "orchestrator-side oracle (CPython struct codecs) and the model; blocks of 2^25 (quick) / all 2^32 (thorough) binary32 patterns through the real Encoder::f16 / Decoder::f64 / "
        "Decoder::f32 against an independent value-based reference inside the harness, hash-compared with the model; the Encode impls of f32 / f64 (what to_vec, containers and derived types "
        "call; whatever width is written, the item must denote the identical value, a NaN its identical bits), accessor sequences on ONE decoder (narrower accessors rejected, then the right one), "
        "and f32 / f64 / Option<f64> fields of hand-written derived types (array- and map-encoded structs, enum variants): every NaN payload and signed zero comes back bit for bit (no model op).",
   design="5/C12", technique="Lean 4 proof (finite tables by decide +kernel, exponent-class case analysis, grid-monotonicity argument for RNE, omega) + differential correspondence with independent oracles",
   note="the half crate's portable software path is what the pinned build uses on x86_64 (default-features = false) and what is modelled; its F16C/NEON paths are not exercised. "
        "NaN payload propagation is implementation-defined in IEEE 754: the oracle checks NaN-ness and sign, the exact payload is compared with the model only. "
        "In the thorough tier the exhaustive 2^32 sweep is judged by the harness reference; the model hash covers a 2^28 (enc f16) subset for time reasons."),
 "C17": dict(
   text="Lean theorems about a model of the bridge (SVal = the tree of Serializer calls, ser = ser.rs method by method, SType/de = de.rs composed with a model of serde's std/derive "
        "visitors; Content/deAny/fromC = serde's private Content buffer as filled by the bridge's deserialize_any and read by ContentDeserializer/ContentRefDeserializer): "
        "(a) ser writes exactly one well-formed item for every value (ser_wellformed: ser v = encW of an explicit valid wire tree); (b) the documented representation in the RFC 8949 "
        "data model (ser_representation: struct = map keyed by field-name text, unit variant = text, other variants = one-entry map name->content, None = null, unit = 80, Some/newtype "
        "transparent); (c) round trip de t (ser v ++ rest) = ok v rest (equal value, stops exactly after the item), unbounded sizes, by mutual structural induction over typing "
        "derivations: roundtrip_plain for every directly-read type (all primitives to 64 bits, char, strings, byte buffers, Option, unit, newtype/tuple/struct types, known- and "
        "unknown-length sequences and maps, tuples, BTreeMap, externally tagged enums with unit/newtype/tuple/struct variants) and roundtrip_content for flattened structs, internally "
        "tagged, adjacently tagged and untagged enums whose buffered positions avoid char and () (HasTC.good = exactly the complement of K6/K7; via fromC_rt, the round trip through "
        "the Content buffer); (d) de_any_consumes_one_item for every accepted item in ANY framing (head widths, indefinite containers, chunked strings, f16); unknown struct fields "
        "ignored; definite and indefinite seq/map/struct maps accepted; structs and struct variants with run-time skipped fields (skip_serializing_if) round-trip (roundtrip_skipped_fields); (e) the Option-in-Option exclusion, K6 (char behind Content) and K7 (unit behind Content) as machine-checked "
        "counterexamples and the refutation of the unrestricted statement (roundtrip_statement_false). Correspondence: ~100 serde types incl. flatten / internally / adjacently tagged / "
        "untagged, judged by the property's own oracle in the orchestrator (independent encoder of the documented representation, reference well-formedness parser, de(ser v)==v, "
        "consumed==len, accepted re-framings, never-a-different-value on free re-framings) and compared with the model; bulk documents (130 / 300, thorough 127..1000, compound elements "
        "per container: tuples, fixed arrays, options, structs, enum values) so that state a (de)serialiser keeps per document is exercised; enum values directly followed by optional ones in one "
        "array (a unit variant is a bare text: nothing closes it); unknown struct fields holding items outside the bridge's data model (tags, undefined, simple values, big negatives, "
        "chunked strings) where serde skips them (not behind Content); strict prefixes and byte mutations against the model.",
   design="5/C17", technique="Lean 4 proof (mutual structural induction over typing derivations, loop lemmas, finite decide tables for Decoder::type_of, reuse of the C03/C04/C05/C06 lemmas) + differential correspondence with in-orchestrator oracle",
   note="PARTIAL only in what the code does not do: the full statement (roundtrip_statement) is false on the pinned code in exactly two classes, recorded as known findings K6 (char behind "
        "serde's Content buffer) and K7 (unit `()` / untagged unit variant behind it), each with a machine-checked counterexample; everything else is proved (roundtrip_partial). Untagged enums "
        "carry the hypothesis that no earlier variant accepts the content (serde's first-match semantics; ambiguous enums are outside the property). MODELLED, NOT VERIFIED: serde 1.0.229's "
        "derive output, std visitors and private Content/ContentDeserializer machinery (transcribed from the registry sources and tied to the real thing only by the correspondence run); "
        "Content-in-Content nesting is not modelled (model answers `unmodelled`; never reached by the round-trip / re-framing streams, skipped if a random byte mutation gets there); the f64->f32 "
        "coercion of serde's f32 visitor behind Content is (Narrow.lean f64ToF32, theorems narrow_rne (round to nearest even, all finite doubles) and narrow_widen, stream f64-as-f32 against the real cast). The harness "
        "builds each value from the op text through serde and refuses to run unless its own Serializer trace equals that text."),
 "C18": dict(
   text="Lean theorems on the shared universe NType (ints, bool, char, floats, strings, unit, Option, Vec, fixed arrays, tuples, BTreeMap, compositions) with natEnc/natDec transcribing "
        "encode.rs/decode.rs: interop_bytes (bridge bytes = native bytes for every value), natDec_eq_de (without fixed arrays the two decoders are the same function of arbitrary bytes), "
        "interop_decode_agree (on ARBITRARY bytes and all shared types incl. [T;N]: two ok answers carry the same value and position, so each side returns that value or an error), "
        "interop_decode_canonical (the common bytes decode to v on both sides, consuming exactly the item), array_reframing_example (the 'or an error' is real). Correspondence: 43 shared "
        "types x boundary values: minicbor::to_vec vs minicbor_serde::to_vec vs the orchestrator's own encoder; minicbor::decode vs minicbor_serde on canonical bytes, re-framings "
        "(wider heads, indefinite containers, chunked strings), bulk documents (hundreds of tuples / fixed arrays / options in one document), a None at a distance inside a Some "
        "(Option<Vec<Option<_>>>, Option<(Option<_>, _)>, Option<BTreeMap<_, Option<_>>>), strict prefixes and byte mutations, judged by the property's oracle and compared with the model; "
        "borrowing targets (&str inside tuples / Vec / Option / BTreeMap) through both decoders on canonical, wide-head and chunked encodings, and BinaryHeap<u8 | i64 | String> "
        "written by both codecs (identical bytes, the pushed multiset) — these two without a model op.",
   design="5/C18", technique="Lean 4 proof (mutual structural induction; compositional 'agree on success' relation over the decoder monad) + differential correspondence",
   note="serde's std impls for the shared types are modelled, not verified; Option directly inside Option is the properties' documented exclusion (Some(None) is null on both sides, they agree with each other)."),
 "C13": dict(
   text="Lean theorems about the sink model (Sink.lean: &mut [u8], Cursor<&mut [u8]>, Cursor<[u8;N]>, Cursor<Box<[u8]>>, Vec, Writer over a limited std::io::Write with std's "
        "default write_all loop; the buffer lives inside a guarded memory and writes are raw blits at computed offsets, so staying inside the buffer is a consequence of the modelled "
        "bounds checks), quantified over ALL chunk lists (= every value and every split of its encoding into Encoder::put calls) and all canary surroundings: encoding into a bounded "
        "sink succeeds iff the total length is <= the capacity; success or failure, the memory afterwards is left canary ++ accepted ++ untouched rest of the buffer ++ right canary "
        "with accepted = the whole encoding on success and a prefix of it on failure; all sinks that succeed hold the same bytes, those Vec collects; after any raw sequence of "
        "write_all calls (continuing after failures) the position equals the number of bytes accepted and the per-call outcomes follow the fits-what-is-left rule; failure is a write "
        "error, never a panic; exact-fit corollary. Correspondence: Encoder call chains and concrete typed values at every capacity 0..=len+1 in every sink kind with real canary "
        "bytes, and exhaustive short raw write_all sequences, judged by an orchestrator-side oracle (own encoder / own replay) and compared with the model line by line; the growable-vector entry points "
        "minicbor::to_vec / to_vec_with on a thread with a history (after failed calls, after a big one, nested inside another to_vec) against the one growable vector the model knows; "
        "encode::ArrayIter / MapIter over exact, loose and filtering iterators into every bounded sink (model: the equivalent Encoder call chain); scripts of Encoder calls on ONE sink "
        "carrying on after a call that did not fit (Sink.callSeq, theorems call_script / call_leaves_prefix / call_script_all_fit; a chunking-agnostic oracle).",
   design="5/C13", technique="Lean 4 proof (layout invariant L++A++F++R, induction over the chunk list; fuel-bounded std write_all loop proved adequate) + differential correspondence with in-orchestrator oracle",
   note="Box<[u8]> and Vec own their allocation, so no adjacent canary exists for them (safe-Rust bounds checks apply). Typed values reach the sinks through Encoder call chains and a "
        "handful of concrete types; that every Encode impl is such a chain is C01/C07's subject. The std::io writer is the harness' Limited writer."),
 "C14": dict(
   text="Lean theorems about the model of minicbor-io's blocking Reader/Writer (Frame.lean: the frame grammar, Reader::read_with with std's default read_exact, Writer::write_with with "
        "std's default write_all, over scripted Read/Write streams whose scripts are lists of arbitrary length), for an arbitrary payload codec: fill_benign / drain_benign (induction over "
        "the script): under ANY split into short reads/writes and ANY placement of Interrupted the loops obtain / deliver exactly the requested bytes; writer_frames: writing vs appends "
        "exactly frames(payloads) and each call returns its payload length; writer_rejects_nothing_written and writer_frame_size (every sink behaviour): encode failures / over-long values "
        "put nothing into the sink, a call never adds more than a prefix of one frame of <= max_len; reader_any_fragmentation + reader_roundtrip: (n+1) reads return the n decoded payloads "
        "in order then None; reader_truncation: a stream cut anywhere strictly inside a frame (prefix or payload) gives the complete frames' values then UnexpectedEof, never a value; "
        "reader_resync: an undecodable payload consumes exactly 4+len bytes; reader_alloc (every source behaviour): the buffer is left alone or has length <= max_len; "
        "reader_oversize_rejected: InvalidLen with the buffer untouched; valCodec_roundtrip / decVal_noPanic: the codec the harness runs satisfies the round-trip hypothesis; valCodec_padded: a payload holding one item more than the value's decoder reads is delivered as the value (a frame is not required to hold exactly one item). "
        "Correspondence: ~150k fread/fwrite scenarios on the real crate over scripted std::io streams (all compositions of streams <=12 bytes x Interrupted placements, every truncation "
        "point, bad / empty / over-long frames, max_len in {len-1,len,len+1}, hostile prefixes with the reader's largest allocation request measured by a counting allocator, random longer "
        "ones incl. error / WouldBlock / Ok(0) events, 31..300 frames through one reader / writer), judged by the orchestrator's own frame/CBOR oracle and compared with the model; every fourth scenario "
        "once more with the reader / writer constructed by with_buffer from an empty, pre-allocated or dirty vector.",
   design="5/C14", technique="Lean 4 proof (induction over scripts; list take/drop algebra, omega) + differential correspondence with in-orchestrator oracle; oracle validated against 8 seeded mutants of minicbor-io",
   note="full strength for the model. The harness payload type is hio::V (u64 | bytes | failing encoder). Modelled, not verified: std's default read_exact/write_all loops, Vec growth "
        "(the allocation bound is measured on the real code: <= max(64, 2*max_len)). Release-profile arithmetic is modelled for `buffer.len() as u32 - 4` (debug builds would panic for "
        "payloads of 2^32-4..2^32-1 bytes with max_len >= that; out of reach of the streams). Not constrained by the property and only mirrored by the model: after InvalidLen, or after a "
        "non-Interrupted I/O error inside a frame, the blocking reader has lost its position in the stream."),
 "C15": dict(
   text="Lean theorems about the AsyncReader model (Frame.lean: persistent fields state/buffer/max_len + stream; poll = the `loop` run until the source says Pending or the function returns; "
        "the future has no fields, so drop is the identity — validated against the code by the drop schedules). pollLoop_spec / poll_inv (induction over source scripts of arbitrary length "
        "and content): with S = stored part of the current frame ++ undelivered bytes, a poll either keeps representing S (Pending / transient error / end answer), or returns the decoding "
        "of the first frame of S and represents the rest, or rejects an oversized prefix. run_spec (induction over the caller's poll/drop decisions) and its corollaries "
        "async_reader_schedule_independent (results are a prefix of decoded payloads then clean ends, for ALL scripts of deliveries k>=1 / Pending / transient errors and ALL decision "
        "sequences), async_reader_complete (fairness: if the script did not run out and the caller polled >= n+1+#Pending+#error times, ALL values and a clean end were returned), "
        "async_reader_roundtrip, run_drop_irrelevant, transient_error_once/_resumes (state, buffer, position untouched), async_truncation(_never_value), async_resync, "
        "async_alloc/offset_le_four (every source behaviour: buffer <= max_len, offsets in range), async_oversize_rejected (InvalidLen; the reader then stays in ReadLen(_,4) and repeats it). "
        "Correspondence: ~225k aread scenarios on the real AsyncReader with hand-polled futures (no-op waker), futures dropped where the schedule says: all compositions of streams <=10 bytes "
        "x <=2 Pendings anywhere x all keep/drop decisions; one transient error at every position; every truncation point; bad / over-long frames; random walks; 31..300 frames in one scenario with a "
        "drop after every / a third of / no poll; with_buffer constructors (empty, pre-allocated, dirty vector); set_max_len between a dropped read and the next one with the payload partly read "
        "(AReader.setMaxLen; theorem set_max_len_frame_in_flight: in state ReadVal the limit is not consulted, the frame in flight completes); sources whose vectored entry points really scatter; "
        "judged by the property's oracle on the implementation transcript and compared with the model.",
   design="5/C15", technique="Lean 4 proof (state/stream representation invariant; induction over scripts and over schedules) + differential correspondence with in-orchestrator oracle; oracle validated against 6 seeded mutants (offset / prefix progress kept in the future, ...)",
   note="full strength for the model; 'eventually' is stated as the counting theorem async_reader_complete under the explicit fairness hypothesis (script not exhausted). Wakers and real executors "
        "are not modelled (the harness polls unconditionally). The scripted source honours the AsyncRead contract. No source hook needed."),
 "C16": dict(
   text="Lean theorems about the AsyncWriter model (Frame.lean: fields state None|WriteFrom(o), buffer, max_len + sink; write = synchronous head (encode behind a placeholder, max_len check, "
        "patch prefix, arm state) then the sync loop; futures hold nothing). syncLoop_spec (induction over sink scripts of arbitrary length and content): from offset o the loop either completes "
        "having appended exactly buffer[o..], or stops (Pending / I/O error) at o' in [o,len) having appended exactly buffer[o..o'], never touching the buffer. Disciplined = the property's "
        "precondition, defined on the caller-visible transcript (write only after the previous write/sync returned Ok). act_inv / run_inv (induction over acts) => async_writer_bytes: for ALL "
        "disciplined act sequences and ALL sink scripts (accept k, Pending, Other, Interrupted, accept 0) the sink holds exactly frames(armed values) or, with a frame in flight, the frames before "
        "it plus a strict prefix of it; async_writer_clean_end; completed_write_reports_length; sync_idle_noop; write_zero_error (+ resumes); transient_error_keeps_offset; "
        "encode_failure_or_too_long_writes_nothing (from any state); offset_le_buffer; undisciplined_stale_state (machine-checked witness of the documented hazard outside the precondition). "
        "Correspondence: ~227k awrite scenarios on the real AsyncWriter: all compositions of <=10 frame bytes x <=2 Pendings x all keep / drop-then-sync decisions, one error event at every "
        "position, rejected values between good ones, idle syncs, random disciplined walks (explicit and implicit drops), 31..300 values through one writer, with_buffer constructors (empty, "
        "pre-allocated, dirty vector) judged by the property's oracle; undisciplined walks against the model.",
   design="5/C16", technique="Lean 4 proof (sync-loop specification by induction over scripts; run invariant by induction over acts) + differential correspondence with in-orchestrator oracle; oracle validated against 7 seeded mutants",
   note="full strength for the model under Disciplined. Outside the precondition (write over a cancelled frame without sync) the code tears the stream by design (documented 'cancels the transfer'); "
        "additionally a failing write in that situation leaves a stale WriteFrom(o) into the rewritten buffer (undisciplined_stale_state) — reported, not constrained by the property. "
        "The scripted sink honours the AsyncWrite contract; wakers/executors not modelled."),
}

def main():
    props = [json.loads(l) for l in open(os.path.join(ROOT, "properties.jsonl"))]
    checks, na = [], []
    for p in props:
        pid = p["id"]
        if pid in CHECKS:
            c = CHECKS[pid]
            checks.append({
                "property_id": pid,
                "quick_cmd": f"./check {pid} quick",
                "thorough_cmd": f"./check {pid} thorough",
                "evidence_file": f"/verif/evidence/{pid}.json",
                "replay_cmd_template": f"./check {pid} --replay {{path}}",
                "engine": "lean4-proof+correspondence",
                "level_claimed": {"category": "proof", "text": c["text"], "design_ref": "DESIGN.md section " + c["design"]},
                "level_note": NOTE_COMMON + c["note"],
                "technique": c["technique"],
            })
        else:
            na.append({"property_id": pid, "reason": "check not built yet (construction in progress; every property is planned to be claimed, see DESIGN.md section 5)"})
    m = {
        "version": 1,
        "setup_cmd": "./setup.sh",
        "hooks": {"guard": "minicbor_verif",
                  "enable": "no hooks are needed: the harness links /repo's crates by path and observes behaviour only (guard name reserved, unused)",
                  "baseline_off_cmd": "cd /repo && CARGO_NET_OFFLINE=true cargo test --workspace --no-fail-fast --offline",
                  "source_commits": [], "add_only": True},
        "engines": [{"name": "lean4-proof+correspondence", "path": "/verif/check",
                     "serves_properties": sorted(CHECKS),
                     "kind_free_text": "Lean 4 theorems about a hand-written executable model (lean/), tied to /repo on every run by a differential "
                                       "correspondence check: Rust harness (harness/) vs compiled model driver (mcdrv)"}],
        "checks": checks,
        "notes": "See DESIGN.md. known_findings.json lists genuine defects (fixed: commits in /repo, and recorded known findings). "
                 "Every correspondence stream whose binary is hcore / hio / hserde runs on two builds of the harness against /repo: optimised without and with debug assertions "
                 "(both with overflow checks); the Lean model's answers are computed once per stream.",
        "not_applicable": na,
    }
    json.dump(m, open(os.path.join(ROOT, "MANIFEST.json"), "w"), indent=1)

if __name__ == "__main__":
    main()
