"""Regenerates MANIFEST.json from the table below:  python3 -m verifkit.manifest"""
import json, os
ROOT = os.path.dirname(os.path.dirname(os.path.abspath(__file__)))

NOTE_COMMON = ("Trusted: Lean 4.33 kernel; axioms propext/Classical.choice/Quot.sound only (audited on every run with #print axioms; "
               "no sorry/native_decide/bv_decide); the hand-written model is tied to /repo by the differential correspondence run "
               "(harness links /repo's crates by path and is rebuilt on every run), which samples; rustc/std/half/serde semantics are modelled. ")

CHECKS = {
 "C01": dict(
   text="Model of every built-in Encode/Decode impl as a universe of codec shapes (lean/Minicbor/Types.lean: 23 type constructors covering the ~190 registered Rust "
        "instantiations); Lean theorem (being completed, see level_note): encodeT t v = some bs -> decodeT t (bs ++ rest) = ok v rest for every type without an Option "
        "directly inside an Option, by structural induction over values of unbounded size. Correspondence: for every registered instantiation, boundary + random values: "
        "implementation bytes vs model bytes, then decode of the implementation's own bytes; oracle = the property itself (value text equal, floats bitwise, sets/maps "
        "unordered, position == length) and comparison with the model.",
   design="5/C01", technique="Lean 4 proof (mutual structural induction over the type/value universe) + differential correspondence on ~190 concrete Rust types",
   note="the general theorems are being added to lean/Minicbor/Thm/C01.lean (the evidence file lists what was audited on each run); Token round-trip is covered by C11"),
 "C07": dict(
   text="Lean theorems (being completed, see level_note): lenT t v = length of encodeT t v for the whole built-in universe and Token.len = length of Token.enc for all 26 "
        "token variants (after the fix: commit 6736830). Correspondence: `tenc` of the C01 corpus and `tokenc` of boundary/random token lists: reported len must equal the "
        "number of bytes written, and both must equal the model's.",
   design="5/C07", technique="Lean 4 proof (same induction as C01; finite case split for tokens) + differential correspondence",
   note="derived CborLen (minicbor-derive/src/cbor_len.rs) is covered by the C08-C10 machinery (derive model, K2/K3 known findings) once it lands; exact-buffer consequence is C13's sink theorem"),
 "C03": dict(
   text="Lean theorems: every Encoder method of the model writes exactly the RFC 8949 preferred serialisation (encPref) of the value it denotes, "
        "for all arguments of its Rust type (u8..u64, i8..i64, Int over [-2^64,2^64-1], type_len for all majors, bytes/str of any length, floats, "
        "bool/null/undefined, tag/array/map heads and their composition with preferred elements); simple() is proved correct outside 20..=31 and "
        "the counterexample inside (known finding K1) is machine-checked. Correspondence: the same calls on the real Encoder, exhaustive for 8/16-bit "
        "arguments and simple values, boundary-dense + random for 32/64-bit, compared with model and with the spec encoder.",
   design="5/C03", technique="Lean 4 proof (case split on width arms + omega) + differential correspondence model/code/spec",
   note="partial: balanced call sequences (ops_denote) and built-in Encode impls are covered under C01/C07 theorems, not here yet"),
 "C04": dict(
   text="Lean theorems: on every valid wire tree of the matching shape (any head width, definite or indefinite) followed by arbitrary bytes, the accessors "
        "bytes/str/array/map/tag/bool/null/undefined/simple and the string iterators return exactly the data-model value and stop exactly at the end of "
        "what they read (chunks of indefinite strings concatenate to the whole; invalid UTF-8 is rejected); integers via C05.int_accessor_exact. "
        "Correspondence: wire trees (all scalar shapes x widths x boundaries, containers at every width and indefinite, tags, chunked strings, random trees) x all 25 "
        "accessors incl. non-matching ones, plus every strict prefix, judged by the property's oracle computed from the tree, and compared with the model.",
   design="5/C04", technique="Lean 4 proof (head read-back lemmas, induction over chunk lists) + differential correspondence with tree-derived oracle",
   note="partial: the 'non-matching accessor returns an error' and 'strict prefix -> end-of-input' halves are checked by the correspondence oracle only (theorems pending); "
        "typed decoding of the ~100 built-in types is exercised in the C01/C02 streams"),
 "C11": dict(
   text="Model of Token (encode/decode/len), the Tokenizer iterator and token re-encoding; Lean theorems (in progress, see level_note) that tokenising the encoding of any "
        "valid wire tree yields one token per head carrying its data-model value, that re-encoding gives the preferred form (identity on preferred input), that "
        "encoded token lists tokenise back value-equal and that tokenisation of arbitrary bytes yields at most one token per byte. Correspondence: wire trees (preferred and "
        "non-preferred, indefinite, chunked), all 65536 half patterns except signalling NaNs, all simple values, random token lists (26 variants, boundary payloads), "
        "arbitrary bytes; judged by the property's own oracle computed from the tree / token list, and compared with the model.",
   design="5/C11", technique="Lean 4 proof (induction over wire trees / token lists) + differential correspondence with tree-derived oracle",
   note="the general theorems are being added to lean/Minicbor/Thm/C11.lean; the evidence file lists the theorems audited on each run"),
 "C19": dict(
   text="Model of the diagnostic Display state machine (tokenizer.rs) and Token::fmt; Lean theorems (in progress, see level_note) for totality, the linear size bound and the "
        "documented notation on valid wire trees. Correspondence: all byte strings up to 2 (3 thorough) bytes, all heads with extreme declared lengths, truncated/mutated valid "
        "items (real output must stay within 16*len+256 in a length-limited sink and equal the model's), and wire trees whose rendering is compared with the notation rendered "
        "independently from the tree.",
   design="5/C19", technique="Lean 4 proof (potential function over the control stack; induction over wire trees) + differential correspondence",
   note="Rust's {:e} float formatting and error message texts are parameters of the model (re-implemented / canonicalised in the orchestrator); the general theorems are being "
        "added to lean/Minicbor/Thm/C19.lean; the evidence file lists the theorems audited on each run"),
 "C20": dict(
   text="In the model the feature configuration is an explicit parameter of exactly the cfg-dependent functions (skip alloc/no-alloc, f32/f64 with/without half); every other "
        "function is configuration-free by construction. Lean theorems: without half an f9 item is a type error for f32/f64 and on every other input the accessors are "
        "identical with and without half (value, error class, position); the alloc/no-alloc skip relation is C06's (noalloc refines alloc or reports the documented "
        "unsupported-nesting error). Correspondence: the library is built six times ({none,alloc,std} x {half,no half}; separate cargo invocations/target dirs, "
        "default-features=false) and each build is run on one deterministic corpus (all accessors on wire trees, truncations, mutations, random bytes, typed decodes "
        "available without alloc, all Encoder methods) and compared line by line with the model at that configuration.",
   design="5/C20", technique="Lean 4 proof (case analysis on the initial byte) + six-configuration differential correspondence against the configured model",
   note="partial: serde-bridge configurations (no-alloc bridge rejecting indefinite strings / collect_str) are not built separately yet; only x86-64 is compiled; message texts are not compared"),
 "C05": dict(
   text="Lean theorem int_accessor_exact: for every accessor type (u8..u64,i8..i64,Int), every sign, every head width and every argument that fits the width, "
        "the model accessor returns the mathematical value and stops right after the head iff the value is representable in the type, and an error otherwise "
        "(overflow error when only the range fails). Correspondence: (sign,width,argument) triples x 10 accessors + datatype on the real Decoder, judged by the "
        "property's own oracle in the orchestrator and compared with the model.",
   design="5/C05", technique="Lean 4 proof (head read-back lemma, case analysis, omega) + differential correspondence with in-orchestrator oracle",
   note="Int <-> primitive TryFrom conversions and NonZero/usize impls: see C01/C04 streams; proofs for Int conversions pending"),
}

def main():
    props = [json.loads(l) for l in open(os.path.join(ROOT, "properties.jsonl"))]
    checks, na = [], []
    for p in props:
        pid = p["id"]
        if pid in CHECKS:
            c = CHECKS[pid]
            checks.append({
                "property_id": pid,
                "quick_cmd": f"./check {pid} quick",
                "thorough_cmd": f"./check {pid} thorough",
                "evidence_file": f"/verif/evidence/{pid}.json",
                "replay_cmd_template": f"./check {pid} --replay {{path}}",
                "engine": "lean4-proof+correspondence",
                "level_claimed": {"category": "proof", "text": c["text"], "design_ref": "DESIGN.md section " + c["design"]},
                "level_note": NOTE_COMMON + c["note"],
                "technique": c["technique"],
            })
        else:
            na.append({"property_id": pid, "reason": "check not built yet (construction in progress; every property is planned to be claimed, see DESIGN.md section 5)"})
    m = {
        "version": 1,
        "setup_cmd": "./setup.sh",
        "hooks": {"guard": "minicbor_verif",
                  "enable": "no hooks are needed: the harness links /repo's crates by path and observes behaviour only (guard name reserved, unused)",
                  "baseline_off_cmd": "cd /repo && CARGO_NET_OFFLINE=true cargo test --workspace --no-fail-fast --offline",
                  "source_commits": [], "add_only": True},
        "engines": [{"name": "lean4-proof+correspondence", "path": "/verif/check",
                     "serves_properties": sorted(CHECKS),
                     "kind_free_text": "Lean 4 theorems about a hand-written executable model (lean/), tied to /repo on every run by a differential "
                                       "correspondence check: Rust harness (harness/) vs compiled model driver (mcdrv)"}],
        "checks": checks,
        "notes": "See DESIGN.md. known_findings.json lists genuine defects (fixed: commits in /repo, and recorded known findings).",
        "not_applicable": na,
    }
    json.dump(m, open(os.path.join(ROOT, "MANIFEST.json"), "w"), indent=1)

if __name__ == "__main__":
    main()
