"""Rust `{:e}` float formatting (a parameter of the display model) and the documented diagnostic
notation rendered independently from a wire tree (lib.rs `display` docs)."""
import struct

def _sci(digits_exp):
    m, e = digits_exp.split("e")
    m = m.rstrip("0").rstrip(".") if "." in m else m
    return f"{m}e{int(e)}"

def fmt_e64(bits):
    x = struct.unpack(">d", bits.to_bytes(8, "big"))[0]
    if x != x: return "NaN"
    if x in (float("inf"), float("-inf")): return "inf" if x > 0 else "-inf"
    if x == 0: return "-0e0" if bits >> 63 else "0e0"
    for p in range(0, 18):
        s = "%.*e" % (p, x)
        if float(s) == x:
            return _sci(s)
    return _sci("%.17e" % x)

def fmt_e32(bits):
    x = struct.unpack(">f", bits.to_bytes(4, "big"))[0]
    if x != x: return "NaN"
    if x in (float("inf"), float("-inf")): return "inf" if x > 0 else "-inf"
    if x == 0: return "-0e0" if bits >> 31 else "0e0"
    for p in range(0, 10):
        s = "%.*e" % (p, x)
        try:
            if struct.pack(">f", float(s)) == bits.to_bytes(4, "big"):
                return _sci(s)
        except OverflowError:
            pass
    return _sci("%.9e" % x)

def _cands(x, ok, maxp):
    """all shortest scientific renderings of x that round-trip (ties in the last digit give two)."""
    for p in range(0, maxp):
        s = "%.*e" % (p, x)
        m, e = s.split("e")
        neg = m.startswith("-")
        digits = m.lstrip("-").replace(".", "")
        base = int(digits)
        out = []
        for d in (base, base + 1, base - 1):
            if d < 10 ** p or d >= 10 ** (p + 1):
                continue
            ds = str(d)
            ms = ("-" if neg else "") + ds[0] + ("." + ds[1:] if p else "")
            c = f"{ms}e{e}"
            try:
                if ok(float(c)): out.append(_sci(c))
            except OverflowError:
                pass
        if out:
            return out
    return [_sci("%.*e" % (maxp, x))]

def cands32(bits):
    x = struct.unpack(">f", bits.to_bytes(4, "big"))[0]
    if x != x or x in (float("inf"), float("-inf")) or x == 0: return [fmt_e32(bits)]
    def ok(y):
        try: return struct.pack(">f", y) == bits.to_bytes(4, "big")
        except OverflowError: return False
    return _cands(x, ok, 10)

def cands64(bits):
    x = struct.unpack(">d", bits.to_bytes(8, "big"))[0]
    if x != x or x in (float("inf"), float("-inf")) or x == 0: return [fmt_e64(bits)]
    return _cands(x, lambda y: y == x, 18)

def match(pieces, b):
    """pieces: list of bytes | ('f32', bits) | ('f64', bits); does the text b match them?"""
    pos = [0]
    for p in pieces:
        nxt = set()
        if isinstance(p, bytes):
            for i in pos:
                if b.startswith(p, i): nxt.add(i + len(p))
        else:
            cs = cands32(p[1]) if p[0] == "f32" else cands64(p[1])
            for i in pos:
                for c in cs:
                    c = c.encode()
                    if b.startswith(c, i): nxt.add(i + len(c))
        if not nxt: return False
        pos = sorted(nxt)
    return len(b) in pos

def model_pieces(line):
    if line == "-": return []
    out = []
    for p in line.split(","):
        k, _, a = p.partition(":")
        if k == "l": out.append(b"" if a == "-" else bytes.fromhex(a))
        elif k == "f32": out.append(("f32", int(a, 16)))
        elif k == "f64": out.append(("f64", int(a, 16)))
        elif k == "e": out.append(b"<" + a.encode() + b">")
        else: return None
    return out

def render_pieces(t):
    """the documented notation, from the tree, as pieces."""
    k = t[0]
    hx = lambda b: b"h'" + " ".join("%02x" % x for x in b).encode() + b"'"
    def sep(parts, s):
        out = []
        for i, p in enumerate(parts):
            if i: out.append(s)
            out += p
        return out
    if k == "f16": return [("f32", f16_to_f32_bits(t[1]))]
    if k == "f32": return [("f32", t[1])]
    if k == "f64": return [("f64", t[1])]
    if k == "array": return [b"["] + sep([render_pieces(x) for x in t[2]], b", ") + [b"]"]
    if k == "arrayI": return [b"[_ "] + sep([render_pieces(x) for x in t[1]], b", ") + [b"]"]
    pairs = lambda xs: sep([render_pieces(xs[i]) + [b": "] + render_pieces(xs[i + 1]) for i in range(0, len(xs), 2)], b", ")
    if k == "map": return [b"{"] + pairs(t[2]) + [b"}"]
    if k == "mapI": return [b"{_ "] + pairs(t[1]) + [b"}"]
    if k == "tag": return [str(t[2]).encode() + b"("] + render_pieces(t[3]) + [b")"]
    return [render(t)]

def f16_to_f32_bits(h):
    x = struct.unpack(">e", h.to_bytes(2, "big"))[0]
    if x != x:
        return ((h & 0x8000) << 16) | 0x7fc00000 | ((h & 0x3ff) << 13)
    return struct.unpack(">I", struct.pack(">f", x))[0]

ERRCLASS = [(b"end of input bytes", "eoi"), (b"unexpected type", "type"), (b"invalid utf-8", "utf8"),
            (b"invalid char", "char"), (b"unexpected tag", "tag"), (b"unknown enum variant", "variant"),
            (b"missing value", "missing"), (b"decode error", "message")]
MARK = b" !!! decoding error: "

def canon_impl(hexline):
    """impl output (hex of UTF-8) -> bytes with the error message replaced by its class."""
    if hexline in ("-",): return b""
    try:
        b = bytes.fromhex(hexline)
    except ValueError:
        return None
    i = b.rfind(MARK)
    if i >= 0:
        msg = b[i + len(MARK):]
        cls = "other"
        if b"overflows target type" in msg: cls = "overflow"
        for p, c in ERRCLASS:
            if msg.startswith(p): cls = c; break
        b = b[:i + len(MARK)] + b"<" + cls.encode() + b">"
    return b

def canon_model(line):
    """model output (pieces) -> bytes."""
    if line == "-": return b""
    out = b""
    for p in line.split(","):
        k, _, a = p.partition(":")
        if k == "l": out += b"" if a == "-" else bytes.fromhex(a)
        elif k == "f32": out += fmt_e32(int(a, 16)).encode()
        elif k == "f64": out += fmt_e64(int(a, 16)).encode()
        elif k == "e": out += b"<" + a.encode() + b">"
        else: return None
    return out

def render(t):
    """the documented notation, from the tree."""
    k = t[0]
    if k == "uint": return str(t[2]).encode()
    if k == "nint": return str(-1 - t[2]).encode()
    hx = lambda b: b"h'" + " ".join("%02x" % x for x in b).encode() + b"'"
    if k == "bytes": return hx(t[2])
    if k == "text": return b'"' + t[2] + b'"'
    if k == "bytesI": return b"''_" if not t[1] else b"(_ " + b", ".join(hx(b) for _, b in t[1]) + b")"
    if k == "textI": return b'""_' if not t[1] else b"(_ " + b", ".join(b'"' + b + b'"' for _, b in t[1]) + b")"
    if k == "array": return b"[" + b", ".join(render(x) for x in t[2]) + b"]"
    if k == "arrayI": return b"[_ " + b", ".join(render(x) for x in t[1]) + b"]"
    pairs = lambda xs: b", ".join(render(xs[i]) + b": " + render(xs[i + 1]) for i in range(0, len(xs), 2))
    if k == "map": return b"{" + pairs(t[2]) + b"}"
    if k == "mapI": return b"{_ " + pairs(t[1]) + b"}"
    if k == "tag": return str(t[2]).encode() + b"(" + render(t[3]) + b")"
    if k == "simple":
        return {20: b"false", 21: b"true", 22: b"null", 23: b"undefined"}.get(t[1], b"simple(%d)" % t[1])
    if k == "f16": return fmt_e32(f16_to_f32_bits(t[1])).encode()
    if k == "f32": return fmt_e32(t[1]).encode()
    if k == "f64": return fmt_e64(t[1]).encode()
    raise ValueError(k)
