//! A `serde::Serializer` that records the calls it receives as an `Sx` tree: the value as the
//! bridge's `Serializer` sees it.  Declared lengths (`serialize_seq(Some(n))`, tuple / struct
//! lengths) must equal the number of elements that follow, otherwise the trace is rejected
//! (the model assumes it; serde's derive output and the std impls guarantee it).
use crate::sx::{Kind, Sx};
use serde::ser::{self, Serialize};
use std::fmt;

#[derive(Debug)]
pub struct TErr(pub String);

impl fmt::Display for TErr {
    fn fmt(&self, f: &mut fmt::Formatter<'_>) -> fmt::Result { f.write_str(&self.0) }
}
impl std::error::Error for TErr {}
impl ser::Error for TErr {
    fn custom<T: fmt::Display>(m: T) -> Self { TErr(m.to_string()) }
}

pub struct Tracer;

pub fn trace<T: Serialize + ?Sized>(v: &T) -> Result<Sx, TErr> {
    v.serialize(Tracer)
}

pub struct SeqT { kind: u8, name: String, known: bool, len: Option<usize>, xs: Vec<Sx> }
pub struct MapT { kind: u8, name: String, known: bool, len: Option<usize>, kvs: Vec<(Sx, Sx)>, key: Option<Sx> }

impl SeqT {
    fn finish(self) -> Result<Sx, TErr> {
        if let Some(n) = self.len {
            if n != self.xs.len() { return Err(TErr("declared length differs".into())) }
        }
        Ok(match self.kind {
            0 => Sx::Seq(self.known, self.xs),
            1 => Sx::Tuple(self.xs),
            2 => Sx::TupleStruct(self.xs),
            _ => Sx::TupleVariant(self.name, self.xs)
        })
    }
}

impl MapT {
    fn finish(self) -> Result<Sx, TErr> {
        if let Some(n) = self.len {
            if n != self.kvs.len() { return Err(TErr("declared length differs".into())) }
        }
        if self.key.is_some() { return Err(TErr("key without value".into())) }
        Ok(match self.kind {
            0 => Sx::Map(self.known, self.kvs),
            1 => Sx::Struct(self.kvs),
            _ => Sx::StructVariant(self.name, self.kvs)
        })
    }
}

impl ser::Serializer for Tracer {
    type Ok = Sx;
    type Error = TErr;
    type SerializeSeq = SeqT;
    type SerializeTuple = SeqT;
    type SerializeTupleStruct = SeqT;
    type SerializeTupleVariant = SeqT;
    type SerializeMap = MapT;
    type SerializeStruct = MapT;
    type SerializeStructVariant = MapT;

    fn serialize_bool(self, v: bool) -> Result<Sx, TErr> { Ok(Sx::Bool(v)) }
    fn serialize_i8(self, v: i8) -> Result<Sx, TErr> { Ok(Sx::Int(Kind::I8, v as i128)) }
    fn serialize_i16(self, v: i16) -> Result<Sx, TErr> { Ok(Sx::Int(Kind::I16, v as i128)) }
    fn serialize_i32(self, v: i32) -> Result<Sx, TErr> { Ok(Sx::Int(Kind::I32, v as i128)) }
    fn serialize_i64(self, v: i64) -> Result<Sx, TErr> { Ok(Sx::Int(Kind::I64, v as i128)) }
    fn serialize_u8(self, v: u8) -> Result<Sx, TErr> { Ok(Sx::Int(Kind::U8, v as i128)) }
    fn serialize_u16(self, v: u16) -> Result<Sx, TErr> { Ok(Sx::Int(Kind::U16, v as i128)) }
    fn serialize_u32(self, v: u32) -> Result<Sx, TErr> { Ok(Sx::Int(Kind::U32, v as i128)) }
    fn serialize_u64(self, v: u64) -> Result<Sx, TErr> { Ok(Sx::Int(Kind::U64, v as i128)) }
    fn serialize_f32(self, v: f32) -> Result<Sx, TErr> { Ok(Sx::F32(v.to_bits())) }
    fn serialize_f64(self, v: f64) -> Result<Sx, TErr> { Ok(Sx::F64(v.to_bits())) }
    fn serialize_char(self, v: char) -> Result<Sx, TErr> { Ok(Sx::Char(v as u32)) }
    fn serialize_str(self, v: &str) -> Result<Sx, TErr> { Ok(Sx::Str(v.as_bytes().to_vec())) }
    fn serialize_bytes(self, v: &[u8]) -> Result<Sx, TErr> { Ok(Sx::Bytes(v.to_vec())) }
    fn serialize_none(self) -> Result<Sx, TErr> { Ok(Sx::None) }
    fn serialize_some<T: Serialize + ?Sized>(self, v: &T) -> Result<Sx, TErr> { Ok(Sx::Some(Box::new(trace(v)?))) }
    fn serialize_unit(self) -> Result<Sx, TErr> { Ok(Sx::Unit) }
    fn serialize_unit_struct(self, _: &'static str) -> Result<Sx, TErr> { Ok(Sx::UnitStruct) }
    fn serialize_unit_variant(self, _: &'static str, _: u32, var: &'static str) -> Result<Sx, TErr> {
        Ok(Sx::UnitVariant(var.to_string()))
    }
    fn serialize_newtype_struct<T: Serialize + ?Sized>(self, _: &'static str, v: &T) -> Result<Sx, TErr> {
        Ok(Sx::NewtypeStruct(Box::new(trace(v)?)))
    }
    fn serialize_newtype_variant<T: Serialize + ?Sized>(self, _: &'static str, _: u32, var: &'static str, v: &T) -> Result<Sx, TErr> {
        Ok(Sx::NewtypeVariant(var.to_string(), Box::new(trace(v)?)))
    }
    fn serialize_seq(self, len: Option<usize>) -> Result<SeqT, TErr> {
        Ok(SeqT { kind: 0, name: String::new(), known: len.is_some(), len, xs: Vec::new() })
    }
    fn serialize_tuple(self, len: usize) -> Result<SeqT, TErr> {
        Ok(SeqT { kind: 1, name: String::new(), known: true, len: Some(len), xs: Vec::new() })
    }
    fn serialize_tuple_struct(self, _: &'static str, len: usize) -> Result<SeqT, TErr> {
        Ok(SeqT { kind: 2, name: String::new(), known: true, len: Some(len), xs: Vec::new() })
    }
    fn serialize_tuple_variant(self, _: &'static str, _: u32, var: &'static str, len: usize) -> Result<SeqT, TErr> {
        Ok(SeqT { kind: 3, name: var.to_string(), known: true, len: Some(len), xs: Vec::new() })
    }
    fn serialize_map(self, len: Option<usize>) -> Result<MapT, TErr> {
        Ok(MapT { kind: 0, name: String::new(), known: len.is_some(), len, kvs: Vec::new(), key: None })
    }
    fn serialize_struct(self, _: &'static str, len: usize) -> Result<MapT, TErr> {
        Ok(MapT { kind: 1, name: String::new(), known: true, len: Some(len), kvs: Vec::new(), key: None })
    }
    fn serialize_struct_variant(self, _: &'static str, _: u32, var: &'static str, len: usize) -> Result<MapT, TErr> {
        Ok(MapT { kind: 2, name: var.to_string(), known: true, len: Some(len), kvs: Vec::new(), key: None })
    }
    fn is_human_readable(&self) -> bool { false }
}

impl ser::SerializeSeq for SeqT {
    type Ok = Sx; type Error = TErr;
    fn serialize_element<T: Serialize + ?Sized>(&mut self, v: &T) -> Result<(), TErr> { self.xs.push(trace(v)?); Ok(()) }
    fn end(self) -> Result<Sx, TErr> { self.finish() }
}
impl ser::SerializeTuple for SeqT {
    type Ok = Sx; type Error = TErr;
    fn serialize_element<T: Serialize + ?Sized>(&mut self, v: &T) -> Result<(), TErr> { self.xs.push(trace(v)?); Ok(()) }
    fn end(self) -> Result<Sx, TErr> { self.finish() }
}
impl ser::SerializeTupleStruct for SeqT {
    type Ok = Sx; type Error = TErr;
    fn serialize_field<T: Serialize + ?Sized>(&mut self, v: &T) -> Result<(), TErr> { self.xs.push(trace(v)?); Ok(()) }
    fn end(self) -> Result<Sx, TErr> { self.finish() }
}
impl ser::SerializeTupleVariant for SeqT {
    type Ok = Sx; type Error = TErr;
    fn serialize_field<T: Serialize + ?Sized>(&mut self, v: &T) -> Result<(), TErr> { self.xs.push(trace(v)?); Ok(()) }
    fn end(self) -> Result<Sx, TErr> { self.finish() }
}
impl ser::SerializeMap for MapT {
    type Ok = Sx; type Error = TErr;
    fn serialize_key<T: Serialize + ?Sized>(&mut self, k: &T) -> Result<(), TErr> {
        if self.key.is_some() { return Err(TErr("two keys".into())) }
        self.key = Some(trace(k)?);
        Ok(())
    }
    fn serialize_value<T: Serialize + ?Sized>(&mut self, v: &T) -> Result<(), TErr> {
        let k = self.key.take().ok_or_else(|| TErr("value without key".into()))?;
        self.kvs.push((k, trace(v)?));
        Ok(())
    }
    fn end(self) -> Result<Sx, TErr> { self.finish() }
}
impl ser::SerializeStruct for MapT {
    type Ok = Sx; type Error = TErr;
    fn serialize_field<T: Serialize + ?Sized>(&mut self, k: &'static str, v: &T) -> Result<(), TErr> {
        self.kvs.push((Sx::Str(k.as_bytes().to_vec()), trace(v)?));
        Ok(())
    }
    fn end(self) -> Result<Sx, TErr> { self.finish() }
}
impl ser::SerializeStructVariant for MapT {
    type Ok = Sx; type Error = TErr;
    fn serialize_field<T: Serialize + ?Sized>(&mut self, k: &'static str, v: &T) -> Result<(), TErr> {
        self.kvs.push((Sx::Str(k.as_bytes().to_vec()), trace(v)?));
        Ok(())
    }
    fn end(self) -> Result<Sx, TErr> { self.finish() }
}
