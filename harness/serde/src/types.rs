//! The family of types the C17 / C18 streams range over.  Every `Serializer` / `Deserializer`
//! method of the bridge and every serde enum representation is reached by at least one.
//! The orchestrator's table (verifkit/props/serde_types.py) gives the model's descriptor of each.
#![allow(dead_code)]
use serde::{Deserialize, Serialize};
use serde::de::{self, Visitor};
use serde::ser::{SerializeMap, SerializeSeq};
use std::collections::BTreeMap;
use std::fmt;

// ---------------------------------------------------------------- hand-written impls

/// byte buffer using `serialize_bytes` / `deserialize_byte_buf`
#[derive(Debug, PartialEq)]
pub struct ByteBuf(pub Vec<u8>);

impl Serialize for ByteBuf {
    fn serialize<S: serde::Serializer>(&self, s: S) -> Result<S::Ok, S::Error> { s.serialize_bytes(&self.0) }
}
impl<'de> Deserialize<'de> for ByteBuf {
    fn deserialize<D: serde::Deserializer<'de>>(d: D) -> Result<Self, D::Error> {
        struct V;
        impl<'de> Visitor<'de> for V {
            type Value = ByteBuf;
            fn expecting(&self, f: &mut fmt::Formatter) -> fmt::Result { f.write_str("bytes") }
            fn visit_bytes<E: de::Error>(self, v: &[u8]) -> Result<ByteBuf, E> { Ok(ByteBuf(v.to_vec())) }
            fn visit_byte_buf<E: de::Error>(self, v: Vec<u8>) -> Result<ByteBuf, E> { Ok(ByteBuf(v)) }
        }
        d.deserialize_byte_buf(V)
    }
}

/// borrowed-bytes flavour: `deserialize_bytes`
#[derive(Debug, PartialEq)]
pub struct Bytes2(pub Vec<u8>);

impl Serialize for Bytes2 {
    fn serialize<S: serde::Serializer>(&self, s: S) -> Result<S::Ok, S::Error> { s.serialize_bytes(&self.0) }
}
impl<'de> Deserialize<'de> for Bytes2 {
    fn deserialize<D: serde::Deserializer<'de>>(d: D) -> Result<Self, D::Error> {
        struct V;
        impl<'de> Visitor<'de> for V {
            type Value = Bytes2;
            fn expecting(&self, f: &mut fmt::Formatter) -> fmt::Result { f.write_str("bytes") }
            fn visit_bytes<E: de::Error>(self, v: &[u8]) -> Result<Bytes2, E> { Ok(Bytes2(v.to_vec())) }
            fn visit_byte_buf<E: de::Error>(self, v: Vec<u8>) -> Result<Bytes2, E> { Ok(Bytes2(v)) }
        }
        d.deserialize_bytes(V)
    }
}

/// string read with `deserialize_str` (the std `String` uses `deserialize_string`)
#[derive(Debug, PartialEq)]
pub struct Str2(pub String);

impl Serialize for Str2 {
    fn serialize<S: serde::Serializer>(&self, s: S) -> Result<S::Ok, S::Error> { s.serialize_str(&self.0) }
}
impl<'de> Deserialize<'de> for Str2 {
    fn deserialize<D: serde::Deserializer<'de>>(d: D) -> Result<Self, D::Error> {
        struct V;
        impl<'de> Visitor<'de> for V {
            type Value = Str2;
            fn expecting(&self, f: &mut fmt::Formatter) -> fmt::Result { f.write_str("str") }
            fn visit_str<E: de::Error>(self, v: &str) -> Result<Str2, E> { Ok(Str2(v.to_string())) }
        }
        d.deserialize_str(V)
    }
}

/// sequence of unknown length: `serialize_seq(None)`
#[derive(Debug, PartialEq)]
pub struct UnkSeq<T>(pub Vec<T>);

impl<T: Serialize> Serialize for UnkSeq<T> {
    fn serialize<S: serde::Serializer>(&self, s: S) -> Result<S::Ok, S::Error> {
        let mut q = s.serialize_seq(None)?;
        for x in &self.0 { q.serialize_element(x)? }
        q.end()
    }
}
impl<'de, T: Deserialize<'de>> Deserialize<'de> for UnkSeq<T> {
    fn deserialize<D: serde::Deserializer<'de>>(d: D) -> Result<Self, D::Error> { Vec::<T>::deserialize(d).map(UnkSeq) }
}

/// `Serializer::collect_seq` over an iterator whose size hint is not tight (`filter_map`: lower bound 0, upper bound = the slots):
/// every other slot is empty, so fewer items follow than the upper bound says
#[derive(Debug, PartialEq)]
pub struct CollSeq<T>(pub Vec<Option<T>>);

impl<T: Serialize> Serialize for CollSeq<T> {
    fn serialize<S: serde::Serializer>(&self, s: S) -> Result<S::Ok, S::Error> { s.collect_seq(self.0.iter().filter_map(|x| x.as_ref())) }
}
impl<'de, T: Deserialize<'de>> Deserialize<'de> for CollSeq<T> {
    fn deserialize<D: serde::Deserializer<'de>>(d: D) -> Result<Self, D::Error> {
        // (an empty slot even when there are no elements: the hint of an empty iterator would be tight)
        Vec::<T>::deserialize(d).map(|v| CollSeq(std::iter::once(None).chain(v.into_iter().flat_map(|x| [Some(x), None])).collect()))
    }
}

/// `Serializer::collect_map` over a filtered iterator (entries with an odd marker are not written)
#[derive(Debug, PartialEq)]
pub struct CollMap<K, V>(pub Vec<(K, V, bool)>);

impl<K: Serialize, V: Serialize> Serialize for CollMap<K, V> {
    fn serialize<S: serde::Serializer>(&self, s: S) -> Result<S::Ok, S::Error> {
        s.collect_map(self.0.iter().filter(|e| e.2).map(|e| (&e.0, &e.1)))
    }
}
impl<'de, K: Deserialize<'de> + Ord + Clone + Default, V: Deserialize<'de> + Clone + Default> Deserialize<'de> for CollMap<K, V> {
    fn deserialize<D: serde::Deserializer<'de>>(d: D) -> Result<Self, D::Error> {
        BTreeMap::<K, V>::deserialize(d).map(|m| CollMap(std::iter::once((K::default(), V::default(), false))
            .chain(m.into_iter().flat_map(|(k, v)| [(k.clone(), v.clone(), true), (k, v, false)])).collect()))
    }
}

/// a map of KNOWN length written entry by entry through `serialize_key` / `serialize_value` (what hand-written impls and some of serde's own
/// enum representations do) instead of `serialize_entry`
#[derive(Debug, PartialEq)]
pub struct KvMap<K: Ord, V>(pub BTreeMap<K, V>);
impl<K: Serialize + Ord, V: Serialize> Serialize for KvMap<K, V> {
    fn serialize<S: serde::Serializer>(&self, s: S) -> Result<S::Ok, S::Error> {
        use serde::ser::SerializeMap;
        let mut m = s.serialize_map(Some(self.0.len()))?;
        for (k, v) in &self.0 { m.serialize_key(k)?; m.serialize_value(v)?; }
        m.end()
    }
}
impl<'de, K: Deserialize<'de> + Ord, V: Deserialize<'de>> Deserialize<'de> for KvMap<K, V> {
    fn deserialize<D: serde::Deserializer<'de>>(d: D) -> Result<Self, D::Error> { BTreeMap::<K, V>::deserialize(d).map(KvMap) }
}

/// borrowing field types behind serde's Content buffer (untagged enum, flattened struct): a definite-length string reaches them borrowed
#[derive(Deserialize, Debug)] #[serde(untagged)]
pub enum UBorrow<'a> { #[serde(borrow)] S(&'a str), #[serde(borrow)] B(&'a [u8]), N(u64) }
#[derive(Deserialize, Debug)]
pub struct FlatInnerB<'a> { #[serde(borrow)] pub name: &'a str }
#[derive(Deserialize, Debug)]
pub struct FlatBorrow<'a> { pub id: u8, #[serde(flatten, borrow)] pub inner: FlatInnerB<'a> }
#[derive(Deserialize, Debug)] #[serde(tag = "t")]
pub enum ITagBorrow<'a> { V { #[serde(borrow)] s: &'a str }, W { n: u8 } }

/// a `VecDeque` whose ring buffer has WRAPPED (built by pushes at both ends, the way `Deserialize` / `collect` never build one):
/// the same sequence, whichever way the storage is laid out
#[derive(Debug, PartialEq)]
pub struct Wrapped<T>(pub std::collections::VecDeque<T>);

impl<T: Serialize> Serialize for Wrapped<T> {
    fn serialize<S: serde::Serializer>(&self, s: S) -> Result<S::Ok, S::Error> { self.0.serialize(s) }
}
impl<'de, T: Deserialize<'de>> Deserialize<'de> for Wrapped<T> {
    fn deserialize<D: serde::Deserializer<'de>>(d: D) -> Result<Self, D::Error> {
        let v = Vec::<T>::deserialize(d)?;
        let n = v.len();
        let mut q = std::collections::VecDeque::with_capacity(n.max(2));
        let mut front = Vec::new();
        for (i, x) in v.into_iter().enumerate() { if i < n / 2 { front.push(x) } else { q.push_back(x) } }
        for x in front.into_iter().rev() { q.push_front(x) }
        Ok(Wrapped(q))
    }
}
impl<C, T: minicbor::Encode<C>> minicbor::Encode<C> for Wrapped<T> {
    fn encode<W: minicbor::encode::Write>(&self, e: &mut minicbor::Encoder<W>, ctx: &mut C) -> Result<(), minicbor::encode::Error<W::Error>> { self.0.encode(e, ctx) }
}
impl<'b, C, T: minicbor::Decode<'b, C>> minicbor::Decode<'b, C> for Wrapped<T> {
    fn decode(d: &mut minicbor::Decoder<'b>, ctx: &mut C) -> Result<Self, minicbor::decode::Error> { Ok(Wrapped(std::collections::VecDeque::decode(d, ctx)?)) }
}

/// map of unknown length: `serialize_map(None)`
#[derive(Debug, PartialEq)]
pub struct UnkMap<K, V>(pub BTreeMap<K, V>);

impl<K: Serialize, V: Serialize> Serialize for UnkMap<K, V> {
    fn serialize<S: serde::Serializer>(&self, s: S) -> Result<S::Ok, S::Error> {
        let mut m = s.serialize_map(None)?;
        for (k, v) in &self.0 { m.serialize_key(k)?; m.serialize_value(v)? }
        m.end()
    }
}
impl<'de, K: Deserialize<'de> + Ord, V: Deserialize<'de>> Deserialize<'de> for UnkMap<K, V> {
    fn deserialize<D: serde::Deserializer<'de>>(d: D) -> Result<Self, D::Error> { BTreeMap::<K, V>::deserialize(d).map(UnkMap) }
}

// ---------------------------------------------------------------- derived types

#[derive(Serialize, Deserialize)] pub struct UnitS;
#[derive(Serialize, Deserialize)] pub struct NewU64(pub u64);
#[derive(Serialize, Deserialize)] pub struct NewOpt(pub Option<u8>);
#[derive(Serialize, Deserialize)] pub struct NewVec(pub Vec<i16>);
#[derive(Serialize, Deserialize)] pub struct TupS(pub u8, pub String, pub i16);
#[derive(Serialize, Deserialize)] pub struct Point { pub x: i32, pub y: i32 }
#[derive(Serialize, Deserialize)] pub struct Empty {}

#[derive(Serialize, Deserialize)]
pub struct Prims {
    pub a: bool, pub b: u8, pub c: u16, pub d: u32, pub e: u64, pub f: i8, pub g: i16, pub h: i32, pub i: i64,
    pub j: f32, pub k: f64, pub l: char, pub m: String, pub n: ByteBuf, pub o: (), pub p: Option<u32>
}

#[derive(Serialize, Deserialize)]
pub struct Nested {
    pub p: Point, pub v: Vec<Point>, pub o: Option<Point>, pub m: BTreeMap<String, Point>,
    pub t: (u8, Point), pub n: NewU64, pub u: UnitS, pub ts: TupS
}

#[derive(Serialize, Deserialize)]
pub struct OptFields { pub a: Option<u8>, pub b: Option<String>, pub c: u8 }

#[derive(Serialize, Deserialize)]
pub enum Ext {
    A, B(u32), C(u8, String), D { x: i16, y: Option<bool> }, E(Point), F(Vec<u8>), G(()), H(Option<u8>)
}

#[derive(Serialize, Deserialize)]
pub enum Color { Red, Green, Blue }

/// std's network address types consult `is_human_readable()` on both sides of the bridge
#[derive(Serialize, Deserialize)]
pub struct NetS { pub ip: std::net::IpAddr, pub peer: Option<std::net::SocketAddr>, pub n: u8 }

#[derive(Serialize, Deserialize)]
pub struct TsColorOpt(pub Color, pub Option<String>, pub Color, pub Option<()>);

#[derive(Serialize, Deserialize)]
pub struct WithEnum { pub e: Ext, pub c: Color, pub l: Vec<Ext>, pub o: Option<Color>, pub m: BTreeMap<u8, Ext> }

// ---- representations that go through serde's private `Content` buffer

#[derive(Serialize, Deserialize)]
pub struct FlatInner { pub b: u16, pub c: String, pub o: Option<i8> }

#[derive(Serialize, Deserialize)]
pub struct FlatOuter { pub a: u8, #[serde(flatten)] pub inner: FlatInner, pub d: bool }

#[derive(Serialize, Deserialize)]
pub struct FlatInner2 {
    pub p: Point, pub v: Vec<u32>, pub f: f32, pub g: f64, pub e: Color, pub m: BTreeMap<String, u8>,
    pub t: (u8, i8), pub y: ByteBuf, pub us: UnitS, pub nn: NewU64, pub x: Ext, pub w: i64, pub q: u64
}

#[derive(Serialize, Deserialize)]
pub struct FlatDeep { #[serde(flatten)] pub inner: FlatInner2, pub z: i64 }

#[derive(Serialize, Deserialize)] pub struct CharIn { pub c: char }
#[derive(Serialize, Deserialize)] pub struct FlatChar { pub a: u8, #[serde(flatten)] pub inner: CharIn }
#[derive(Serialize, Deserialize)] pub struct UnitIn { pub u: () }
#[derive(Serialize, Deserialize)] pub struct FlatUnit { pub a: u8, #[serde(flatten)] pub inner: UnitIn }

#[derive(Serialize, Deserialize)]
#[serde(tag = "t")]
pub enum ITag { A, B { x: u8, s: String }, C(Point), D { v: Vec<i32>, o: Option<u16> } }

#[derive(Serialize, Deserialize)]
#[serde(tag = "t")]
pub enum ITagChar { V { c: char }, W { n: u8 } }

#[derive(Serialize, Deserialize)]
#[serde(tag = "t", content = "c")]
pub enum ATag { A, B(u32), C(u8, i8), D { x: String }, E(char), F(Point) }

#[derive(Serialize, Deserialize)]
#[serde(untagged)]
pub enum Untagged { Num(u32), Text(String), Pair(u8, u8), Rec { x: u8, y: String }, Pt(Point), Big(i64), Fl(f64), Flag(bool) }

#[derive(Serialize, Deserialize)]
#[serde(untagged)]
pub enum UntaggedUnit { Nil, Num(u8) }

#[derive(Serialize, Deserialize)]
#[serde(untagged)]
pub enum UntaggedChar { Ch(char), Pair(u8, u8) }

#[derive(Serialize, Deserialize)]
pub struct OptOpt { pub a: Option<Option<u8>> }

// ---- fields skipped at run time: `skip_serializing_if` (serde_derive lowers the `len` it passes and calls `skip_field`)

#[derive(Serialize, Deserialize)]
pub struct Record {
    pub id: u32,
    #[serde(default, skip_serializing_if = "Option::is_none")] pub note: Option<String>,
    #[serde(default, skip_serializing_if = "Vec::is_empty")] pub tags: Vec<u8>,
    pub last: bool
}

#[derive(Serialize, Deserialize)]
pub struct AllSkip {
    #[serde(default, skip_serializing_if = "Option::is_none")] pub a: Option<u8>,
    #[serde(default, skip_serializing_if = "Vec::is_empty")] pub b: Vec<Option<i16>>
}

#[derive(Serialize, Deserialize)]
pub enum Event {
    Ping,
    Update {
        seq: u64,
        #[serde(default, skip_serializing_if = "Option::is_none")] comment: Option<String>,
        #[serde(default, skip_serializing_if = "Vec::is_empty")] path: Vec<u16>
    },
    Note { #[serde(default, skip_serializing_if = "Option::is_none")] text: Option<Point> }
}

#[derive(Serialize, Deserialize)]
pub struct Holder { pub r: Record, pub e: Event, pub z: u8 }

