//! Builds a Rust value of any `Deserialize` type from an `Sx` tree (the orchestrator's way of
//! handing a value to the harness).  Self-describing: every request is answered from the
//! tree.  The harness re-traces the constructed value and refuses to go on unless the trace
//! equals the requested text, so this code is not trusted.
use crate::sx::{Kind, Sx};
use crate::trace::TErr;
use serde::de::{self, DeserializeSeed, IntoDeserializer, Visitor};
use serde::forward_to_deserialize_any;

impl de::Error for TErr {
    fn custom<T: std::fmt::Display>(m: T) -> Self { TErr(m.to_string()) }
}

pub struct D<'a>(pub &'a Sx);

impl<'de, 'a> de::Deserializer<'de> for D<'a> {
    type Error = TErr;

    fn deserialize_any<V: Visitor<'de>>(self, v: V) -> Result<V::Value, TErr> {
        match self.0 {
            Sx::Bool(b) => v.visit_bool(*b),
            Sx::Int(k, n) => match k {
                Kind::U8 => v.visit_u8(*n as u8), Kind::U16 => v.visit_u16(*n as u16),
                Kind::U32 => v.visit_u32(*n as u32), Kind::U64 => v.visit_u64(*n as u64),
                Kind::I8 => v.visit_i8(*n as i8), Kind::I16 => v.visit_i16(*n as i16),
                Kind::I32 => v.visit_i32(*n as i32), Kind::I64 => v.visit_i64(*n as i64)
            },
            Sx::F32(b) => v.visit_f32(f32::from_bits(*b)),
            Sx::F64(b) => v.visit_f64(f64::from_bits(*b)),
            Sx::Char(c) => v.visit_char(char::from_u32(*c).ok_or_else(|| TErr("char".into()))?),
            Sx::Str(b) => v.visit_string(String::from_utf8(b.clone()).map_err(|_| TErr("utf8".into()))?),
            Sx::Bytes(b) => v.visit_byte_buf(b.clone()),
            Sx::None => v.visit_none(),
            Sx::Some(x) => v.visit_some(D(x)),
            Sx::Unit | Sx::UnitStruct => v.visit_unit(),
            Sx::NewtypeStruct(x) => v.visit_newtype_struct(D(x)),
            Sx::Seq(_, xs) | Sx::Tuple(xs) | Sx::TupleStruct(xs) => v.visit_seq(SeqA(xs.iter())),
            Sx::Map(_, kvs) | Sx::Struct(kvs) => v.visit_map(MapA { it: kvs.iter(), val: None }),
            // a variant asked for with `deserialize_any` (it sits behind serde's Content buffer):
            // presented the way self-describing formats do, as a string or a one-entry map
            Sx::UnitVariant(n) => v.visit_string(n.clone()),
            Sx::NewtypeVariant(..) | Sx::TupleVariant(..) | Sx::StructVariant(..) => v.visit_map(OneA { v: self.0, state: 0 })
        }
    }

    fn deserialize_enum<V: Visitor<'de>>(self, _: &'static str, _: &'static [&'static str], v: V) -> Result<V::Value, TErr> {
        match self.0 {
            Sx::UnitVariant(_) | Sx::NewtypeVariant(..) | Sx::TupleVariant(..) | Sx::StructVariant(..) => v.visit_enum(EnumA(self.0)),
            _ => Err(TErr("expected a variant".into()))
        }
    }

    forward_to_deserialize_any! {
        bool i8 i16 i32 i64 i128 u8 u16 u32 u64 u128 f32 f64 char str string
        bytes byte_buf option unit unit_struct newtype_struct seq tuple
        tuple_struct map struct identifier ignored_any
    }

    fn is_human_readable(&self) -> bool { false }
}

struct SeqA<'a>(std::slice::Iter<'a, Sx>);

impl<'de, 'a> de::SeqAccess<'de> for SeqA<'a> {
    type Error = TErr;
    fn next_element_seed<T: DeserializeSeed<'de>>(&mut self, seed: T) -> Result<Option<T::Value>, TErr> {
        match self.0.next() {
            Some(x) => seed.deserialize(D(x)).map(Some),
            None => Ok(None)
        }
    }
}

struct MapA<'a> { it: std::slice::Iter<'a, (Sx, Sx)>, val: Option<&'a Sx> }

impl<'de, 'a> de::MapAccess<'de> for MapA<'a> {
    type Error = TErr;
    fn next_key_seed<K: DeserializeSeed<'de>>(&mut self, seed: K) -> Result<Option<K::Value>, TErr> {
        match self.it.next() {
            Some((k, v)) => { self.val = Some(v); seed.deserialize(D(k)).map(Some) }
            None => Ok(None)
        }
    }
    fn next_value_seed<V: DeserializeSeed<'de>>(&mut self, seed: V) -> Result<V::Value, TErr> {
        let v = self.val.take().ok_or_else(|| TErr("value before key".into()))?;
        seed.deserialize(D(v))
    }
}

/// the content of a non-unit variant, as a deserializer
struct VarContent<'a>(&'a Sx);

impl<'de, 'a> de::Deserializer<'de> for VarContent<'a> {
    type Error = TErr;
    fn deserialize_any<V: Visitor<'de>>(self, v: V) -> Result<V::Value, TErr> {
        match self.0 {
            Sx::NewtypeVariant(_, x) => D(x).deserialize_any(v),
            Sx::TupleVariant(_, xs) => v.visit_seq(SeqA(xs.iter())),
            Sx::StructVariant(_, kvs) => v.visit_map(MapA { it: kvs.iter(), val: None }),
            _ => Err(TErr("not a variant with content".into()))
        }
    }
    fn deserialize_option<V: Visitor<'de>>(self, v: V) -> Result<V::Value, TErr> {
        match self.0 { Sx::NewtypeVariant(_, x) => D(x).deserialize_option(v), _ => self.deserialize_any(v) }
    }
    fn deserialize_enum<V: Visitor<'de>>(self, a: &'static str, b: &'static [&'static str], v: V) -> Result<V::Value, TErr> {
        match self.0 { Sx::NewtypeVariant(_, x) => D(x).deserialize_enum(a, b, v), _ => self.deserialize_any(v) }
    }
    forward_to_deserialize_any! {
        bool i8 i16 i32 i64 i128 u8 u16 u32 u64 u128 f32 f64 char str string
        bytes byte_buf unit unit_struct newtype_struct seq tuple
        tuple_struct map struct identifier ignored_any
    }
    fn is_human_readable(&self) -> bool { false }
}

/// one-entry map `{variant name: content}`
struct OneA<'a> { v: &'a Sx, state: u8 }

impl<'de, 'a> de::MapAccess<'de> for OneA<'a> {
    type Error = TErr;
    fn next_key_seed<K: DeserializeSeed<'de>>(&mut self, seed: K) -> Result<Option<K::Value>, TErr> {
        if self.state != 0 { return Ok(None) }
        self.state = 1;
        let name: &str = match self.v {
            Sx::NewtypeVariant(n, _) | Sx::TupleVariant(n, _) | Sx::StructVariant(n, _) => n,
            _ => return Err(TErr("not a variant".into()))
        };
        let d: de::value::StringDeserializer<TErr> = name.to_string().into_deserializer();
        seed.deserialize(d).map(Some)
    }
    fn next_value_seed<V: DeserializeSeed<'de>>(&mut self, seed: V) -> Result<V::Value, TErr> {
        self.state = 2;
        seed.deserialize(VarContent(self.v))
    }
}

struct EnumA<'a>(&'a Sx);

impl<'de, 'a> de::EnumAccess<'de> for EnumA<'a> {
    type Error = TErr;
    type Variant = Self;
    fn variant_seed<V: DeserializeSeed<'de>>(self, seed: V) -> Result<(V::Value, Self), TErr> {
        let name: &str = match self.0 {
            Sx::UnitVariant(n) | Sx::NewtypeVariant(n, _) | Sx::TupleVariant(n, _) | Sx::StructVariant(n, _) => n,
            _ => return Err(TErr("not a variant".into()))
        };
        let d: de::value::StrDeserializer<'_, TErr> = name.into_deserializer();
        let v = seed.deserialize(d)?;
        Ok((v, self))
    }
}

impl<'de, 'a> de::VariantAccess<'de> for EnumA<'a> {
    type Error = TErr;
    fn unit_variant(self) -> Result<(), TErr> {
        if let Sx::UnitVariant(_) = self.0 { Ok(()) } else { Err(TErr("expected unit variant".into())) }
    }
    fn newtype_variant_seed<T: DeserializeSeed<'de>>(self, seed: T) -> Result<T::Value, TErr> {
        if let Sx::NewtypeVariant(_, x) = self.0 { seed.deserialize(D(x)) } else { Err(TErr("expected newtype variant".into())) }
    }
    fn tuple_variant<V: Visitor<'de>>(self, _: usize, v: V) -> Result<V::Value, TErr> {
        if let Sx::TupleVariant(_, xs) = self.0 { v.visit_seq(SeqA(xs.iter())) } else { Err(TErr("expected tuple variant".into())) }
    }
    fn struct_variant<V: Visitor<'de>>(self, _: &'static [&'static str], v: V) -> Result<V::Value, TErr> {
        if let Sx::StructVariant(_, kvs) = self.0 { v.visit_map(MapA { it: kvs.iter(), val: None }) } else { Err(TErr("expected struct variant".into())) }
    }
}
