//! The value syntax shared by harness, model driver and orchestrator: one word, no spaces.
//! A value is the *trace of Serializer calls* a `Serialize` impl makes (names of structs /
//! enums and variant indices, which `minicbor-serde` ignores, are not part of it).
//!
//! ```text
//! b0 b1 | u8:5 i64:-3 | f32:3f800000 f64:… | c:97 | s:<hex|-> | y:<hex|-> | n | S(v) | u | US
//! UV:name | NS(v) | NV:name(v) | [v,…] | [?v,…] | T(v,…) | TS(v,…) | TV:name(v,…)
//! M{k=v,…} | M?{k=v,…} | R{k=v,…} | RV:name{k=v,…}
//! ```

#[derive(Clone, Copy, Debug, PartialEq, Eq)]
pub enum Kind { U8, U16, U32, U64, I8, I16, I32, I64 }

impl Kind {
    pub fn name(self) -> &'static str {
        match self {
            Kind::U8 => "u8", Kind::U16 => "u16", Kind::U32 => "u32", Kind::U64 => "u64",
            Kind::I8 => "i8", Kind::I16 => "i16", Kind::I32 => "i32", Kind::I64 => "i64"
        }
    }
    pub fn parse(s: &str) -> Option<Kind> {
        Some(match s {
            "u8" => Kind::U8, "u16" => Kind::U16, "u32" => Kind::U32, "u64" => Kind::U64,
            "i8" => Kind::I8, "i16" => Kind::I16, "i32" => Kind::I32, "i64" => Kind::I64,
            _ => return None
        })
    }
    pub fn range(self) -> (i128, i128) {
        match self {
            Kind::U8 => (0, u8::MAX as i128), Kind::U16 => (0, u16::MAX as i128),
            Kind::U32 => (0, u32::MAX as i128), Kind::U64 => (0, u64::MAX as i128),
            Kind::I8 => (i8::MIN as i128, i8::MAX as i128), Kind::I16 => (i16::MIN as i128, i16::MAX as i128),
            Kind::I32 => (i32::MIN as i128, i32::MAX as i128), Kind::I64 => (i64::MIN as i128, i64::MAX as i128)
        }
    }
}

#[derive(Clone, Debug, PartialEq)]
pub enum Sx {
    Bool(bool),
    Int(Kind, i128),
    F32(u32),
    F64(u64),
    Char(u32),
    Str(Vec<u8>),
    Bytes(Vec<u8>),
    None,
    Some(Box<Sx>),
    Unit,
    UnitStruct,
    UnitVariant(String),
    NewtypeStruct(Box<Sx>),
    NewtypeVariant(String, Box<Sx>),
    Seq(bool, Vec<Sx>),
    Tuple(Vec<Sx>),
    TupleStruct(Vec<Sx>),
    TupleVariant(String, Vec<Sx>),
    Map(bool, Vec<(Sx, Sx)>),
    Struct(Vec<(Sx, Sx)>),
    StructVariant(String, Vec<(Sx, Sx)>)
}

fn hex(b: &[u8]) -> String {
    if b.is_empty() { return "-".into() }
    b.iter().map(|x| format!("{:02x}", x)).collect()
}

pub fn unhex(s: &str) -> Option<Vec<u8>> {
    if s == "-" { return Some(Vec::new()) }
    if s.len() % 2 != 0 || s.is_empty() { return None }
    (0 .. s.len() / 2).map(|i| u8::from_str_radix(s.get(2*i .. 2*i+2)?, 16).ok()).collect()
}

impl Sx {
    pub fn show(&self) -> String {
        let mut s = String::new();
        self.put(&mut s);
        s
    }

    fn put_list(xs: &[Sx], s: &mut String) {
        for (i, x) in xs.iter().enumerate() {
            if i > 0 { s.push(',') }
            x.put(s)
        }
    }

    fn put_kvs(kvs: &[(Sx, Sx)], s: &mut String) {
        for (i, (k, v)) in kvs.iter().enumerate() {
            if i > 0 { s.push(',') }
            k.put(s);
            s.push('=');
            v.put(s)
        }
    }

    fn put(&self, s: &mut String) {
        match self {
            Sx::Bool(b) => s.push_str(if *b { "b1" } else { "b0" }),
            Sx::Int(k, n) => { s.push_str(k.name()); s.push(':'); s.push_str(&n.to_string()) }
            Sx::F32(b) => s.push_str(&format!("f32:{:08x}", b)),
            Sx::F64(b) => s.push_str(&format!("f64:{:016x}", b)),
            Sx::Char(c) => s.push_str(&format!("c:{}", c)),
            Sx::Str(b) => { s.push_str("s:"); s.push_str(&hex(b)) }
            Sx::Bytes(b) => { s.push_str("y:"); s.push_str(&hex(b)) }
            Sx::None => s.push('n'),
            Sx::Some(x) => { s.push_str("S("); x.put(s); s.push(')') }
            Sx::Unit => s.push('u'),
            Sx::UnitStruct => s.push_str("US"),
            Sx::UnitVariant(n) => { s.push_str("UV:"); s.push_str(n) }
            Sx::NewtypeStruct(x) => { s.push_str("NS("); x.put(s); s.push(')') }
            Sx::NewtypeVariant(n, x) => { s.push_str("NV:"); s.push_str(n); s.push('('); x.put(s); s.push(')') }
            Sx::Seq(known, xs) => { s.push_str(if *known { "[" } else { "[?" }); Sx::put_list(xs, s); s.push(']') }
            Sx::Tuple(xs) => { s.push_str("T("); Sx::put_list(xs, s); s.push(')') }
            Sx::TupleStruct(xs) => { s.push_str("TS("); Sx::put_list(xs, s); s.push(')') }
            Sx::TupleVariant(n, xs) => { s.push_str("TV:"); s.push_str(n); s.push('('); Sx::put_list(xs, s); s.push(')') }
            Sx::Map(known, kvs) => { s.push_str(if *known { "M{" } else { "M?{" }); Sx::put_kvs(kvs, s); s.push('}') }
            Sx::Struct(kvs) => { s.push_str("R{"); Sx::put_kvs(kvs, s); s.push('}') }
            Sx::StructVariant(n, kvs) => { s.push_str("RV:"); s.push_str(n); s.push('{'); Sx::put_kvs(kvs, s); s.push('}') }
        }
    }

    pub fn parse(text: &str) -> Option<Sx> {
        let mut p = P { s: text.as_bytes(), i: 0 };
        let v = p.value()?;
        if p.i == p.s.len() { Some(v) } else { None }
    }
}

struct P<'a> { s: &'a [u8], i: usize }

impl<'a> P<'a> {
    fn peek(&self) -> Option<u8> { self.s.get(self.i).copied() }
    fn eat(&mut self, c: u8) -> Option<()> { if self.peek()? == c { self.i += 1; Some(()) } else { None } }
    fn word(&mut self) -> &'a str {
        let st = self.i;
        while let Some(c) = self.peek() {
            if c.is_ascii_alphanumeric() || c == b'_' || c == b'-' { self.i += 1 } else { break }
        }
        std::str::from_utf8(&self.s[st .. self.i]).unwrap()
    }
    fn list(&mut self, close: u8) -> Option<Vec<Sx>> {
        let mut v = Vec::new();
        if self.peek()? == close { self.i += 1; return Some(v) }
        loop {
            v.push(self.value()?);
            match self.peek()? {
                b',' => self.i += 1,
                c if c == close => { self.i += 1; return Some(v) }
                _ => return None
            }
        }
    }
    fn kvs(&mut self) -> Option<Vec<(Sx, Sx)>> {
        let mut v = Vec::new();
        if self.peek()? == b'}' { self.i += 1; return Some(v) }
        loop {
            let k = self.value()?;
            self.eat(b'=')?;
            let x = self.value()?;
            v.push((k, x));
            match self.peek()? {
                b',' => self.i += 1,
                b'}' => { self.i += 1; return Some(v) }
                _ => return None
            }
        }
    }
    fn value(&mut self) -> Option<Sx> {
        if self.peek()? == b'[' {
            self.i += 1;
            let known = if self.peek()? == b'?' { self.i += 1; false } else { true };
            return Some(Sx::Seq(known, self.list(b']')?))
        }
        let w = self.word();
        match w {
            "b0" => return Some(Sx::Bool(false)),
            "b1" => return Some(Sx::Bool(true)),
            "n" => return Some(Sx::None),
            "u" => return Some(Sx::Unit),
            "US" => return Some(Sx::UnitStruct),
            "S" => { self.eat(b'(')?; let v = self.value()?; self.eat(b')')?; return Some(Sx::Some(Box::new(v))) }
            "NS" => { self.eat(b'(')?; let v = self.value()?; self.eat(b')')?; return Some(Sx::NewtypeStruct(Box::new(v))) }
            "T" => { self.eat(b'(')?; return Some(Sx::Tuple(self.list(b')')?)) }
            "TS" => { self.eat(b'(')?; return Some(Sx::TupleStruct(self.list(b')')?)) }
            "R" => { self.eat(b'{')?; return Some(Sx::Struct(self.kvs()?)) }
            "M" => {
                let known = if self.peek()? == b'?' { self.i += 1; false } else { true };
                self.eat(b'{')?;
                return Some(Sx::Map(known, self.kvs()?))
            }
            _ => {}
        }
        self.eat(b':')?;
        let a = self.word();
        if let Some(k) = Kind::parse(w) {
            let n: i128 = a.parse().ok()?;
            let (lo, hi) = k.range();
            if n < lo || n > hi { return None }
            return Some(Sx::Int(k, n))
        }
        match w {
            "f32" => if a.len() == 8 { Some(Sx::F32(u32::from_str_radix(a, 16).ok()?)) } else { None },
            "f64" => if a.len() == 16 { Some(Sx::F64(u64::from_str_radix(a, 16).ok()?)) } else { None },
            "c" => { let n: u32 = a.parse().ok()?; char::from_u32(n)?; Some(Sx::Char(n)) }
            "s" => { let b = unhex(a)?; std::str::from_utf8(&b).ok()?; Some(Sx::Str(b)) }
            "y" => Some(Sx::Bytes(unhex(a)?)),
            "UV" => Some(Sx::UnitVariant(a.to_string())),
            "NV" => { self.eat(b'(')?; let v = self.value()?; self.eat(b')')?; Some(Sx::NewtypeVariant(a.to_string(), Box::new(v))) }
            "TV" => { self.eat(b'(')?; Some(Sx::TupleVariant(a.to_string(), self.list(b')')?)) }
            "RV" => { self.eat(b'{')?; Some(Sx::StructVariant(a.to_string(), self.kvs()?)) }
            _ => None
        }
    }
}
