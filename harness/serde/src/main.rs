//! hserde: executes protocol lines against the real minicbor-serde bridge (and, for the
//! shared data model, the native minicbor `Encode`/`Decode` impls).
//!
//! ```text
//! ser  <type> <value>   -> <hex>                        minicbor_serde::to_vec
//! de   <type> <hex>     -> ok <value> <pos> | err <class> <pos>     Deserializer + position
//! rt   <type> <value>   -> <hex> <de result on that hex>
//! iser <type> <value>   -> <native hex> <bridge hex>                 (shared types)
//! ide  <type> <hex>     -> <native result> | <bridge result>         (shared types)
//! ```
mod sx;
mod sxde;
mod trace;
mod types;

use serde::{de::DeserializeOwned, Serialize};
use std::collections::BTreeMap;
use std::io::{BufRead, Write};
use sx::Sx;
use types::*;

fn hex(b: &[u8]) -> String {
    if b.is_empty() { return "-".into() }
    b.iter().map(|x| format!("{:02x}", x)).collect()
}

fn guard<R>(f: impl FnOnce() -> R) -> Option<R> {
    std::panic::catch_unwind(std::panic::AssertUnwindSafe(f)).ok()
}

/// error class from the `Display` text (`DecodeError` does not expose the inner error)
fn class(msg: &str) -> &'static str {
    if msg.starts_with("end of input bytes") { "eoi" }
    else if msg.starts_with("unexpected type") { "type" }
    else if msg.starts_with("invalid char") { "char" }
    else if msg.starts_with("invalid utf-8") { "utf8" }
    else if msg.contains("overflows target type") { "overflow" }
    else if msg.starts_with("unexpected tag") { "tag" }
    else if msg.starts_with("unknown enum variant") { "variant" }
    else if msg.starts_with("missing value") { "missing" }
    else if msg.starts_with("decode error") { "message" }
    else { "other" }
}

fn build<T: DeserializeOwned + Serialize>(text: &str) -> Result<T, String> {
    let sx = Sx::parse(text).ok_or_else(|| "bad-op".to_string())?;
    let v = <T as serde::Deserialize>::deserialize(sxde::D(&sx)).map_err(|e| format!("bad-value {}", e.0.replace(' ', "_")))?;
    let back = trace::trace(&v).map_err(|e| format!("bad-trace {}", e.0.replace(' ', "_")))?;
    if back != sx { return Err(format!("bad-value trace={}", back.show())) }
    Ok(v)
}

fn show<T: Serialize>(v: &T) -> String {
    match trace::trace(v) { Ok(s) => s.show(), Err(e) => format!("bad-trace:{}", e.0.replace(' ', "_")) }
}

fn bridge_ser<T: Serialize>(v: &T) -> String {
    match minicbor_serde::to_vec(v) { Ok(b) => hex(&b), Err(e) => format!("err:{}", class(&e.to_string())) }
}

fn bridge_de<T: DeserializeOwned + Serialize>(b: &[u8]) -> String {
    let mut d = minicbor_serde::Deserializer::new(b);
    let r = <T as serde::Deserialize>::deserialize(&mut d);
    let pos = d.decoder().position();
    match r {
        Ok(v) => format!("ok {} {}", show(&v), pos),
        Err(e) => format!("err {} {}", class(&e.to_string()), pos)
    }
}

/// `twice <type> <hex>`: ONE `Deserializer` over the bytes: the value is read, the decoder rewound through `decoder_mut().set_position(0)`, the value read
/// again (and once more after a rewind to 0 from a failed / partial first pass): each pass answers what a fresh deserializer answers.
fn op_twice<T: DeserializeOwned + Serialize>(a: &str) -> String {
    let b = match sx::unhex(a) { Some(b) => b, None => return "bad-op".into() };
    let fresh = bridge_de::<T>(&b);
    let mut d = minicbor_serde::Deserializer::new(&b);
    for pass in 0 .. 3 {
        d.decoder_mut().set_position(0);
        let r = <T as serde::Deserialize>::deserialize(&mut d);
        let pos = d.decoder().position();
        let got = match r { Ok(v) => format!("ok {} {}", show(&v), pos), Err(e) => format!("err {} {}", class(&e.to_string()), pos) };
        if got != fresh { return format!("pass {} differs: {} | fresh: {}", pass, got, fresh) }
    }
    format!("same | {}", fresh)
}

fn native_de<T: for<'b> minicbor::Decode<'b, ()> + Serialize>(b: &[u8]) -> String {
    let mut d = minicbor::Decoder::new(b);
    let r: Result<T, _> = d.decode();
    let pos = d.position();
    match r {
        Ok(v) => format!("ok {} {}", show(&v), pos),
        Err(e) => format!("err {} {}", class(&e.to_string()), pos)
    }
}

fn op_ser<T: DeserializeOwned + Serialize>(a: &str) -> String {
    match build::<T>(a) { Ok(v) => bridge_ser(&v), Err(e) => e }
}

fn op_de<T: DeserializeOwned + Serialize>(a: &str) -> String {
    match sx::unhex(a) { Some(b) => bridge_de::<T>(&b), None => "bad-op".into() }
}

fn op_rt<T: DeserializeOwned + Serialize>(a: &str) -> String {
    let v = match build::<T>(a) { Ok(v) => v, Err(e) => return e };
    match minicbor_serde::to_vec(&v) {
        Ok(b) => format!("{} {}", hex(&b), bridge_de::<T>(&b)),
        Err(e) => format!("err:{}", class(&e.to_string()))
    }
}

/// `rt3 <type> <value>`: ONE `Serializer` writes the value, `Some(value)` and the value again; ONE `Deserializer` reads them back as
/// `T`, `Option<T>`, `T`: `<hex of the three> <shown 1> <shown 2> <shown 3> <end position>` (a serializer / deserializer is its
/// writer / input and position: nothing an earlier value did may show in a later one).
fn op_rt3<T: DeserializeOwned + Serialize>(a: &str) -> String {
    let v = match build::<T>(a) { Ok(v) => v, Err(e) => return e };
    let mut s = minicbor_serde::Serializer::new(Vec::new());
    if let Err(e) = v.serialize(&mut s) { return format!("err:{}", class(&e.to_string())) }
    if let Err(e) = Some(&v).serialize(&mut s) { return format!("err2:{}", class(&e.to_string())) }
    if let Err(e) = v.serialize(&mut s) { return format!("err3:{}", class(&e.to_string())) }
    let bytes = s.into_encoder().into_writer();
    let mut d = minicbor_serde::Deserializer::new(&bytes);
    let mut out = vec![hex(&bytes)];
    match <T as serde::Deserialize>::deserialize(&mut d) { Ok(x) => out.push(show(&x)), Err(e) => return format!("{} de1:{}", out[0], class(&e.to_string())) }
    match <Option<T> as serde::Deserialize>::deserialize(&mut d) {
        Ok(Some(x)) => out.push(show(&x)), Ok(None) => out.push("N".into()),
        Err(e) => return format!("{} de2:{}", out[0], class(&e.to_string())) }
    match <T as serde::Deserialize>::deserialize(&mut d) { Ok(x) => out.push(show(&x)), Err(e) => return format!("{} de3:{}", out[0], class(&e.to_string())) }
    out.push(d.decoder().position().to_string());
    out.join(" ")
}

fn op_iser<T: DeserializeOwned + Serialize + minicbor::Encode<()>>(a: &str) -> String {
    let v = match build::<T>(a) { Ok(v) => v, Err(e) => return e };
    let n = match minicbor::to_vec(&v) { Ok(b) => hex(&b), Err(_) => "err".into() };
    format!("{} {}", n, bridge_ser(&v))
}

fn op_ide<T: DeserializeOwned + Serialize + for<'b> minicbor::Decode<'b, ()>>(a: &str) -> String {
    match sx::unhex(a) {
        Some(b) => format!("{} | {}", native_de::<T>(&b), bridge_de::<T>(&b)),
        None => "bad-op".into()
    }
}

macro_rules! shared_types {
    ($name:expr, $f:ident, $a:expr, $else:expr) => {
        match $name {
            "bool" => $f::<bool>($a), "u8" => $f::<u8>($a), "u16" => $f::<u16>($a), "u32" => $f::<u32>($a), "u64" => $f::<u64>($a),
            "i8" => $f::<i8>($a), "i16" => $f::<i16>($a), "i32" => $f::<i32>($a), "i64" => $f::<i64>($a),
            "f32" => $f::<f32>($a), "f64" => $f::<f64>($a), "char" => $f::<char>($a), "string" => $f::<String>($a), "unit" => $f::<()>($a),
            "opt_u32" => $f::<Option<u32>>($a), "opt_string" => $f::<Option<String>>($a), "opt_unit" => $f::<Option<()>>($a),
            "opt_i64" => $f::<Option<i64>>($a), "opt_opt_u8" => $f::<Option<Option<u8>>>($a),
            "vec_u8" => $f::<Vec<u8>>($a), "vec_i64" => $f::<Vec<i64>>($a), "vec_string" => $f::<Vec<String>>($a),
            "vec_vec_u16" => $f::<Vec<Vec<u16>>>($a), "vec_opt_i8" => $f::<Vec<Option<i8>>>($a), "vec_unit" => $f::<Vec<()>>($a),
            "vec_char" => $f::<Vec<char>>($a), "vec_bool" => $f::<Vec<bool>>($a),
            "arr3_u16" => $f::<[u16; 3]>($a), "arr0_u8" => $f::<[u8; 0]>($a), "arr2_opt_bool" => $f::<[Option<bool>; 2]>($a),
            "tup1_u32" => $f::<(u32,)>($a), "tup2_u8_string" => $f::<(u8, String)>($a), "tup3_i64_bool_char" => $f::<(i64, bool, char)>($a),
            "tup_nested" => $f::<((u8, i8), Vec<u8>)>($a), "tup_f32_f64" => $f::<(f32, f64)>($a),
            "map_u8_string" => $f::<BTreeMap<u8, String>>($a), "map_string_vec_i32" => $f::<BTreeMap<String, Vec<i32>>>($a),
            "map_i32_map_char_bool" => $f::<BTreeMap<i32, BTreeMap<char, bool>>>($a), "map_bool_unit" => $f::<BTreeMap<bool, ()>>($a),
            "map_u64_i64" => $f::<BTreeMap<u64, i64>>($a),
            "opt_vec_tup" => $f::<Option<Vec<(u8, char)>>>($a), "vec_map" => $f::<Vec<BTreeMap<u16, Option<String>>>>($a),
            "tup_opt_arr" => $f::<(Option<u16>, [i8; 2], ())>($a),
            "opt_vec_opt" => $f::<Option<Vec<Option<u8>>>>($a), "opt_tup_opt" => $f::<Option<(Option<u8>, u8)>>($a),
            "opt_map_opt" => $f::<Option<BTreeMap<u8, Option<String>>>>($a), "vec_opt_vec_opt" => $f::<Vec<Option<Vec<Option<bool>>>>>($a),
            // tuples / arrays whose LAST components can be nil (whatever a codec does about trailing nils, both sides must do it)
            "tup_u8_opt" => $f::<(u8, Option<u8>)>($a), "tup_opt_opt" => $f::<(Option<u8>, Option<String>)>($a), "tup1_opt" => $f::<(Option<i64>,)>($a),
            "vec_tup_opt" => $f::<Vec<(u8, Option<i8>)>>($a), "tup_unit_last" => $f::<(u8, ())>($a), "tup_nested_opt" => $f::<(u8, (u8, Option<bool>))>($a),
            "map_tup_opt" => $f::<BTreeMap<u8, (bool, Option<u16>)>>($a),
            // keys that are not scalars (both codecs write them as they write the type anywhere else)
            "map_tupkey" => $f::<BTreeMap<(u8, bool), u8>>($a), "map_unitkey" => $f::<BTreeMap<(), u8>>($a), "map_veckey" => $f::<BTreeMap<Vec<u8>, String>>($a),
            "wdeque_u16" => $f::<Wrapped<u16>>($a), "wdeque_str" => $f::<Wrapped<String>>($a), "tup_wdeque" => $f::<(Wrapped<u8>, u8)>($a),
            _ => $else
        }
    };
}

macro_rules! serde_types {
    ($name:expr, $f:ident, $a:expr) => {
        shared_types!($name, $f, $a, match $name {
            "bytes" => $f::<ByteBuf>($a), "bytes2" => $f::<Bytes2>($a), "str2" => $f::<Str2>($a),
            "cseq_u16" => $f::<CollSeq<u16>>($a), "cseq_str" => $f::<CollSeq<String>>($a), "cmap_u8_str" => $f::<CollMap<u8, String>>($a),
            "kvmap_u8_str" => $f::<KvMap<u8, String>>($a), "kvmap_str_seq" => $f::<KvMap<String, Vec<i32>>>($a), "vec_kvmap" => $f::<Vec<KvMap<u8, bool>>>($a),
            "vec_cseq" => $f::<Vec<CollSeq<u8>>>($a), "tup_cseq_u8" => $f::<(CollSeq<u8>, u8)>($a),
            "useq_u16" => $f::<UnkSeq<u16>>($a), "useq_point" => $f::<UnkSeq<Point>>($a),
            "umap_string_i32" => $f::<UnkMap<String, i32>>($a), "umap_u8_useq" => $f::<UnkMap<u8, UnkSeq<bool>>>($a),
            "UnitS" => $f::<UnitS>($a), "NewU64" => $f::<NewU64>($a), "NewOpt" => $f::<NewOpt>($a), "NewVec" => $f::<NewVec>($a),
            "TupS" => $f::<TupS>($a), "Point" => $f::<Point>($a), "Empty" => $f::<Empty>($a), "Prims" => $f::<Prims>($a),
            "Nested" => $f::<Nested>($a), "OptFields" => $f::<OptFields>($a), "Ext" => $f::<Ext>($a), "Color" => $f::<Color>($a),
            "WithEnum" => $f::<WithEnum>($a), "vec_ext" => $f::<Vec<Ext>>($a), "opt_point" => $f::<Option<Point>>($a),
            "FlatOuter" => $f::<FlatOuter>($a), "FlatDeep" => $f::<FlatDeep>($a), "FlatChar" => $f::<FlatChar>($a), "FlatUnit" => $f::<FlatUnit>($a),
            "ITag" => $f::<ITag>($a), "ITagChar" => $f::<ITagChar>($a), "ATag" => $f::<ATag>($a),
            "Untagged" => $f::<Untagged>($a), "UntaggedUnit" => $f::<UntaggedUnit>($a), "UntaggedChar" => $f::<UntaggedChar>($a),
            "Record" => $f::<Record>($a), "AllSkip" => $f::<AllSkip>($a), "Event" => $f::<Event>($a), "Holder" => $f::<Holder>($a),
            "vec_record" => $f::<Vec<Record>>($a), "tup_record_u8" => $f::<(Record, u8)>($a), "vec_event" => $f::<Vec<Event>>($a),
            "tup_allskip_event_u8" => $f::<(AllSkip, Event, u8)>($a), "opt_record" => $f::<Option<Record>>($a),
            "OptOpt" => $f::<OptOpt>($a), "vec_itag" => $f::<Vec<ITag>>($a), "vec_untagged" => $f::<Vec<Untagged>>($a),
            "tup_color_opt" => $f::<(Color, Option<u8>)>($a), "vec_opt_color" => $f::<Vec<Option<Color>>>($a),
            "tup_ext_opt" => $f::<(Ext, Option<Ext>, Ext)>($a), "vec_opt_ext" => $f::<Vec<Option<Ext>>>($a),
            "TsColorOpt" => $f::<TsColorOpt>($a),
            "ipaddr" => $f::<std::net::IpAddr>($a), "sockaddr" => $f::<std::net::SocketAddr>($a), "vec_ipaddr" => $f::<Vec<std::net::IpAddr>>($a),
            "NetS" => $f::<NetS>($a),
            _ => "bad-op".to_string()
        })
    };
}

/// `ideb <kind> <hex>`: decoding into BORROWING targets of the shared data model through both codecs:
/// `str` (&str), `tup` ((&str, u8)), `vec` (Vec<&str>), `opt` (Option<&str>), `map` (BTreeMap<&str, &str>).
/// Output `<native> | <bridge>`, each `ok <strings as hex, joined by ,> <position>` or `err <class> <position>`.
fn op_ideb(kind: &str, a: &str) -> String {
    let b = match sx::unhex(a) { Some(b) => b, None => return "bad-op".into() };
    fn hx(s: &str) -> String { if s.is_empty() { "-".into() } else { hex(s.as_bytes()) } }
    macro_rules! both { ($t:ty, $show:expr) => {{
        let nat = { let mut d = minicbor::Decoder::new(&b); let r: Result<$t, _> = d.decode(); let pos = d.position();
            match r { Ok(v) => format!("ok {} {}", $show(&v), pos), Err(e) => format!("err {} {}", class(&e.to_string()), pos) } };
        let bri = { let mut d = minicbor_serde::Deserializer::new(&b); let r = <$t as serde::Deserialize>::deserialize(&mut d); let pos = d.decoder().position();
            match r { Ok(v) => format!("ok {} {}", $show(&v), pos), Err(e) => format!("err {} {}", class(&e.to_string()), pos) } };
        format!("{} | {}", nat, bri)
    }} }
    match kind {
        "str" => both!(&str, |v: &&str| hx(v)),
        "tup" => both!((&str, u8), |v: &(&str, u8)| format!("{},{}", hx(v.0), v.1)),
        "vec" => both!(Vec<&str>, |v: &Vec<&str>| if v.is_empty() { "[]".to_string() } else { v.iter().map(|s| hx(s)).collect::<Vec<_>>().join(",") }),
        "opt" => both!(Option<&str>, |v: &Option<&str>| match v { None => "N".to_string(), Some(s) => format!("S{}", hx(s)) }),
        "map" => both!(BTreeMap<&str, &str>, |v: &BTreeMap<&str, &str>| if v.is_empty() { "{}".to_string() } else { v.iter().map(|(k, x)| format!("{}={}", hx(k), hx(x))).collect::<Vec<_>>().join(",") }),
        _ => "bad-op".into()
    }
}

/// `iserh <u8|i64|str> <v1,v2,…|->`: a `BinaryHeap` built by pushing the values in this order, written by both codecs:
/// `<native hex> <bridge hex>` (the heap's internal order is not the push order; both codecs iterate the heap the same way).
fn op_iserh(kind: &str, a: &str) -> String {
    use std::collections::BinaryHeap;
    let items: Vec<&str> = if a == "-" { Vec::new() } else { a.split(',').collect() };
    macro_rules! go { ($t:ty, $parse:expr) => {{
        let mut h = BinaryHeap::<$t>::new();
        for x in &items { match $parse(x) { Some(v) => h.push(v), None => return "bad-op".into() } }
        // a few pops and pushes so that the buffer is not simply a heapified push sequence
        if h.len() > 3 { let top = h.pop(); let snd = h.pop(); if let Some(t) = top { h.push(t) } if let Some(t) = snd { h.push(t) } }
        let n = match minicbor::to_vec(&h) { Ok(b) => hex(&b), Err(_) => "err".into() };
        format!("{} {}", n, bridge_ser(&h))
    }} }
    match kind {
        "u8" => go!(u8, |x: &&str| x.parse::<u8>().ok()),
        "i64" => go!(i64, |x: &&str| x.parse::<i64>().ok()),
        "str" => go!(String, |x: &&str| sx::unhex(x).and_then(|b| String::from_utf8(b).ok())),
        _ => "bad-op".into()
    }
}

/// `ides2 <hex A> <hex B>`: ONE decoder / Deserializer over A ++ B: a `String` is read at 0 (whatever happens), the position is set to
/// `len(A)`, a `String` is read again: `<native second result> | <bridge second result>` (`ok <hex> <pos>` / `err <class> <pos>`).
fn op_ides2(a: &str, b: &str) -> String {
    let (a, b) = match (sx::unhex(a), sx::unhex(b)) { (Some(a), Some(b)) => (a, b), _ => return "bad-op".into() };
    let mut buf = a.clone(); buf.extend_from_slice(&b);
    let nat = {
        let mut d = minicbor::Decoder::new(&buf);
        let _ = d.decode::<String>();
        d.set_position(a.len());
        let r = d.decode::<String>();
        match r { Ok(v) => format!("ok {} {}", if v.is_empty() { "-".to_string() } else { hex(v.as_bytes()) }, d.position()), Err(e) => format!("err {} {}", class(&e.to_string()), d.position()) }
    };
    let bri = {
        let mut d = minicbor_serde::Deserializer::new(&buf);
        let _ = <String as serde::Deserialize>::deserialize(&mut d);
        d.decoder_mut().set_position(a.len());
        let r = <String as serde::Deserialize>::deserialize(&mut d);
        let pos = d.decoder().position();
        match r { Ok(v) => format!("ok {} {}", if v.is_empty() { "-".to_string() } else { hex(v.as_bytes()) }, pos), Err(e) => format!("err {} {}", class(&e.to_string()), pos) }
    };
    format!("{} | {}", nat, bri)
}

/// a value whose `Serialize` impl gives up after `k` elements of a sequence have been written (what the bridge's `to_vec` and the native
/// `to_vec` leave behind on this thread after a failed call must not show in the next one)
struct Failing(usize);
impl Serialize for Failing {
    fn serialize<S: serde::Serializer>(&self, s: S) -> Result<S::Ok, S::Error> {
        use serde::ser::{Error, SerializeSeq};
        let mut q = s.serialize_seq(Some(self.0 + 1))?;
        for i in 0 .. self.0 { q.serialize_element(&(i as u8))? }
        Err(S::Error::custom("gives up"))
    }
}
impl<C> minicbor::Encode<C> for Failing {
    fn encode<W: minicbor::encode::Write>(&self, e: &mut minicbor::Encoder<W>, _: &mut C) -> Result<(), minicbor::encode::Error<W::Error>> {
        e.array(self.0 as u64 + 1)?;
        for i in 0 .. self.0 { e.u8(i as u8)?; }
        Err(minicbor::encode::Error::message("gives up"))
    }
}

/// `serfail <k> <both|bridge|native>`: failed `to_vec` calls; `err | err`
fn op_serfail(k: &str, which: &str) -> String {
    let k = match k.parse::<usize>() { Ok(k) if k <= 100000 => k, _ => return "bad-op".into() };
    let a = if which != "native" { match minicbor_serde::to_vec(&Failing(k)) { Ok(b) => hex(&b), Err(_) => "err".into() } } else { "-".into() };
    let b = if which != "bridge" { match minicbor::to_vec(&Failing(k)) { Ok(b) => hex(&b), Err(_) => "err".into() } } else { "-".into() };
    format!("{} | {}", a, b)
}

/// `ikey <kind> <seed>`: a map whose KEYS are not scalars (tuples, unit, vectors, options, maps), built from the seed, through both codecs:
/// the native and the bridge encoding are the same bytes, and each decoder gives the map back from them.  `ok <hex>` or what differed.
fn op_ikey(kind: &str, seed: &str) -> String {
    let mut x: u64 = match seed.parse::<u64>() { Ok(s) => s.wrapping_mul(0x9E3779B97F4A7C15) | 1, Err(_) => return "bad-op".into() };
    let mut next = move || { x ^= x << 13; x ^= x >> 7; x ^= x << 17; x };
    fn both<T>(m: T) -> String where T: Serialize + DeserializeOwned + minicbor::Encode<()> + for<'b> minicbor::Decode<'b, ()> + PartialEq + std::fmt::Debug {
        let nb = match minicbor::to_vec(&m) { Ok(b) => b, Err(_) => return "native-encode-failed".into() };
        let sb = match minicbor_serde::to_vec(&m) { Ok(b) => b, Err(e) => return format!("bridge-encode-failed {}", e).replace(' ', "_") };
        if nb != sb { return format!("bytes native={} bridge={}", hex(&nb), hex(&sb)) }
        match minicbor::decode::<T>(&nb) { Ok(v) if v == m => {} Ok(_) => return format!("native-decode-differs {}", hex(&nb)), Err(_) => return format!("native-decode-failed {}", hex(&nb)) }
        match minicbor_serde::from_slice::<T>(&nb) { Ok(v) if v == m => {} Ok(_) => return format!("bridge-decode-differs {}", hex(&nb)), Err(_) => return format!("bridge-decode-failed {}", hex(&nb)) }
        format!("ok {}", hex(&nb))
    }
    let n = (next() % 5) as usize;
    match kind {
        "tup" => both((0 .. n).map(|_| (((next() % 300) as u16, next() % 2 == 0), (next() % 256) as u8)).collect::<BTreeMap<(u16, bool), u8>>()),
        "unit" => both((0 .. n.min(1)).map(|_| ((), (next() % 256) as u8)).collect::<BTreeMap<(), u8>>()),
        "vec" => both((0 .. n).map(|_| ((0 .. next() % 4).map(|_| (next() % 256) as u8).collect::<Vec<u8>>(), format!("v{}", next() % 1000))).collect::<BTreeMap<Vec<u8>, String>>()),
        "opt" => both((0 .. n).map(|_| (if next() % 3 == 0 { None } else { Some((next() % 256) as u8) }, (next() % 70000) as u32)).collect::<BTreeMap<Option<u8>, u32>>()),
        "arr" => both((0 .. n).map(|_| ([(next() % 256) as u8, (next() % 30) as u8], next() % 2 == 0)).collect::<BTreeMap<[u8; 2], bool>>()),
        "map" => both((0 .. n).map(|_| ((0 .. next() % 3).map(|_| ((next() % 50) as u8, (next() % 50) as u8)).collect::<BTreeMap<u8, u8>>(), (next() % 256) as u8)).collect::<BTreeMap<BTreeMap<u8, u8>, u8>>()),
        "nested" => both((0 .. n).map(|_| ((next() % 256) as u8, (0 .. next() % 3).map(|_| (((next() % 9) as u8, ()), Some((next() % 256) as u8))).collect::<BTreeMap<(u8, ()), Option<u8>>>())).collect::<BTreeMap<u8, BTreeMap<(u8, ()), Option<u8>>>>()),
        _ => "bad-op".into()
    }
}

/// `sdeb <kind> <hex>`: the bridge decoding types with BORROWING fields in positions that go through serde's Content buffer
fn op_sdeb(kind: &str, a: &str) -> String {
    use serde::Deserialize;
    let hx = |s: &str| hex(s.as_bytes());
    let b = match sx::unhex(a) { Some(b) => b, None => return "bad-op".into() };
    let mut de = minicbor_serde::Deserializer::new(&b);
    let inside = |p: *const u8, n: usize| n == 0 || (p as usize >= b.as_ptr() as usize && p as usize + n <= b.as_ptr() as usize + b.len());
    let r: Result<String, String> = match kind {
        "untagged" => UBorrow::deserialize(&mut de).map(|v| match v {
            UBorrow::S(s) => format!("S:{}{}", hx(s), if inside(s.as_ptr(), s.len()) { "" } else { ":copied" }),
            UBorrow::B(x) => format!("B:{}{}", hex(x), if inside(x.as_ptr(), x.len()) { "" } else { ":copied" }),
            UBorrow::N(n) => format!("N:{}", n) }).map_err(|e| e.to_string()),
        "flatten" => FlatBorrow::deserialize(&mut de).map(|v| format!("{},{}{}", v.id, hx(v.inner.name), if inside(v.inner.name.as_ptr(), v.inner.name.len()) { "" } else { ":copied" })).map_err(|e| e.to_string()),
        "itag" => ITagBorrow::deserialize(&mut de).map(|v| match v { ITagBorrow::V { s } => format!("V:{}", hx(s)), ITagBorrow::W { n } => format!("W:{}", n) }).map_err(|e| e.to_string()),
        _ => return "bad-op".into()
    };
    match r { Ok(v) => format!("ok {} {}", v, de.decoder().position()), Err(_) => "err".into() }
}

fn dispatch(w: &[&str]) -> String {
    if w.len() != 3 { return "bad-op".into() }
    if w[0] == "sdeb" { return op_sdeb(w[1], w[2]) }
    if w[0] == "ikey" { return op_ikey(w[1], w[2]) }
    if w[0] == "serfail" { return op_serfail(w[1], w[2]) }
    if w[0] == "ides2" { return op_ides2(w[1], w[2]) }
    if w[0] == "ideb" { return op_ideb(w[1], w[2]) }
    if w[0] == "iserh" { return op_iserh(w[1], w[2]) }
    let (t, a) = (w[1], w[2]);
    match w[0] {
        "ser" => serde_types!(t, op_ser, a),
        "de" => serde_types!(t, op_de, a),
        "rt" => serde_types!(t, op_rt, a),
        "rt3" => serde_types!(t, op_rt3, a),
        "twice" => serde_types!(t, op_twice, a),
        "iser" => shared_types!(t, op_iser, a, "bad-op".to_string()),
        "ide" => shared_types!(t, op_ide, a, "bad-op".to_string()),
        _ => "bad-op".into()
    }
}

// a hard cap on live heap bytes: an implementation that can be made to allocate without bound must abort this process
// (the orchestrator attributes the death to the operation) instead of taking the machine down
mod capped {
    use std::alloc::{GlobalAlloc, Layout, System};
    use std::sync::atomic::{AtomicUsize, Ordering};
    pub struct Capped;
    static LIVE: AtomicUsize = AtomicUsize::new(0);
    const HARD_CAP: usize = 3 << 30;
    unsafe impl GlobalAlloc for Capped {
        unsafe fn alloc(&self, l: Layout) -> *mut u8 {
            if LIVE.fetch_add(l.size(), Ordering::Relaxed) + l.size() > HARD_CAP { LIVE.fetch_sub(l.size(), Ordering::Relaxed); return std::ptr::null_mut() }
            System.alloc(l)
        }
        unsafe fn dealloc(&self, p: *mut u8, l: Layout) { LIVE.fetch_sub(l.size(), Ordering::Relaxed); System.dealloc(p, l) }
        unsafe fn realloc(&self, p: *mut u8, l: Layout, n: usize) -> *mut u8 {
            if n > l.size() {
                if LIVE.fetch_add(n - l.size(), Ordering::Relaxed) + (n - l.size()) > HARD_CAP { LIVE.fetch_sub(n - l.size(), Ordering::Relaxed); return std::ptr::null_mut() }
            } else { LIVE.fetch_sub(l.size() - n, Ordering::Relaxed); }
            System.realloc(p, l, n)
        }
    }
}
#[global_allocator]
static GLOBAL_CAP: capped::Capped = capped::Capped;

// per-operation watchdog: an operation that runs longer than LIMIT_MS aborts the process (the orchestrator attributes
// the death to the operation): a loop that never ends must not hang the check
mod watchdog {
    use std::sync::atomic::{AtomicU64, Ordering};
    use std::time::{Duration, Instant};
    static DEADLINE: AtomicU64 = AtomicU64::new(0);      // ms since START at which the running op is overdue; 0 = idle
    static mut START: Option<Instant> = None;
    const LIMIT_MS: u64 = 120_000;
    fn now_ms() -> u64 { unsafe { (*std::ptr::addr_of!(START)).map(|s| s.elapsed().as_millis() as u64).unwrap_or(0) } }
    pub fn start() {
        unsafe { START = Some(Instant::now()); }
        std::thread::Builder::new().stack_size(64 * 1024).spawn(|| loop {
            std::thread::sleep(Duration::from_millis(500));
            let d = DEADLINE.load(Ordering::Relaxed);
            if d != 0 && now_ms() > d { eprintln!("watchdog: operation exceeded its time limit"); std::process::abort() }
        }).expect("watchdog");
    }
    pub fn begin() { DEADLINE.store(now_ms() + LIMIT_MS, Ordering::Relaxed) }
    pub fn end() { DEADLINE.store(0, Ordering::Relaxed) }
}

fn main() {
    watchdog::start();
    std::panic::set_hook(Box::new(|_| {}));
    let stdin = std::io::stdin();
    let stdout = std::io::stdout();
    let mut out = std::io::BufWriter::new(stdout.lock());
    for line in stdin.lock().lines() {
        watchdog::begin();
        let line = line.expect("stdin");
        let line = line.trim();
        if line.is_empty() || line.starts_with('#') { continue }
        let w: Vec<&str> = line.split(' ').filter(|x| !x.starts_with('#')).collect();
        let r = guard(|| dispatch(&w)).unwrap_or_else(|| "panic".to_string());
        watchdog::end();
        writeln!(out, "{}", r).unwrap();
    }
}
