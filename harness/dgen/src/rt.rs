//! run-time support of the generated code: the value tree `V` (parsed from the protocol syntax),
//! the canonical value printer `Ctx` (which also records, by pointer range, whether a string /
//! byte-string leaf borrows from the decoder input), hex, error classes, panic capture.
use std::fmt::Write as _;

#[derive(Debug, Clone)]
pub enum V { Int(i128), Bool(bool), Text(String), Blob(Vec<u8>), None, Some(Box<V>), List(Vec<V>), Rec(Vec<V>), Enum(usize, Vec<V>) }

impl V {
    pub fn int(&self) -> i128 { if let V::Int(i) = self { *i } else { panic!("int") } }
    pub fn boolean(&self) -> bool { if let V::Bool(b) = self { *b } else { panic!("bool") } }
    pub fn text(&self) -> &str { if let V::Text(s) = self { s } else { panic!("text") } }
    pub fn blob(&self) -> &[u8] { if let V::Blob(b) = self { b } else { panic!("blob") } }
    pub fn opt(&self) -> Option<&V> { match self { V::None => None, V::Some(x) => Some(x), _ => panic!("opt") } }
    pub fn list(&self) -> &[V] { if let V::List(x) = self { x } else { panic!("list") } }
    pub fn rec(&self) -> &[V] { if let V::Rec(x) = self { x } else { panic!("rec") } }
    pub fn variant(&self) -> (usize, &[V]) { if let V::Enum(k, x) = self { (*k, x) } else { panic!("enum") } }
}

pub fn parse(s: &str) -> Option<V> {
    let b = s.as_bytes();
    let (v, rest) = parse_at(b, 0)?;
    if rest == b.len() { Some(v) } else { None }
}

fn parse_at(b: &[u8], mut i: usize) -> Option<(V, usize)> {
    let start = i;
    while i < b.len() && (b[i].is_ascii_alphanumeric() || b[i] == b'-' || b[i] == b'_') { i += 1 }
    let head = std::str::from_utf8(&b[start .. i]).ok()?;
    let mut args = Vec::new();
    let mut has_args = false;
    if i < b.len() && b[i] == b'(' {
        has_args = true;
        i += 1;
        if i < b.len() && b[i] == b')' { i += 1 } else {
            loop {
                let (v, j) = parse_at(b, i)?;
                args.push(v);
                i = j;
                if i >= b.len() { return None }
                if b[i] == b',' { i += 1; continue }
                if b[i] == b')' { i += 1; break }
                return None
            }
        }
    }
    let v = if has_args {
        match head {
            "so" => { if args.len() != 1 { return None } V::Some(Box::new(args.pop()?)) }
            "l" => V::List(args),
            "r" => V::Rec(args),
            "e" => { if args.is_empty() { return None } let k = args.remove(0).int() as usize; V::Enum(k, args) }
            _ => return None
        }
    } else {
        match head {
            "T" => V::Bool(true),
            "F" => V::Bool(false),
            "N" => V::None,
            _ if head.starts_with('s') && head[1..].bytes().all(|c| c.is_ascii_hexdigit()) && !head[1..].is_empty() || head == "s" =>
                V::Text(String::from_utf8(unhex_raw(&head[1..])?).ok()?),
            _ if head.starts_with('h') => V::Blob(unhex_raw(&head[1..])?),
            _ => V::Int(head.parse().ok()?)
        }
    };
    Some((v, i))
}

fn unhex_raw(s: &str) -> Option<Vec<u8>> {
    if s.len() % 2 != 0 { return None }
    (0 .. s.len() / 2).map(|i| u8::from_str_radix(s.get(2*i .. 2*i+2)?, 16).ok()).collect()
}

pub fn hex(b: &[u8]) -> String {
    if b.is_empty() { return "-".into() }
    hex_raw(b)
}

fn hex_raw(b: &[u8]) -> String {
    let mut s = String::with_capacity(b.len() * 2);
    for x in b { write!(s, "{:02x}", x).unwrap(); }
    s
}

pub fn unhex(s: &str) -> Option<Vec<u8>> {
    if s == "-" { return Some(Vec::new()) }
    unhex_raw(s)
}

pub struct Ctx { out: String, fl: String, lo: usize, hi: usize, pub mute: u32, first: Vec<bool> }

impl Ctx {
    pub fn new(input: &[u8]) -> Self {
        let lo = input.as_ptr() as usize;
        Ctx { out: String::new(), fl: String::new(), lo, hi: lo + input.len(), mute: 0, first: vec![true] }
    }
    pub fn open(&mut self, h: &str) { self.out.push_str(h); self.out.push('('); self.first.push(true) }
    pub fn close(&mut self) { self.out.push(')'); self.first.pop(); }
    pub fn item(&mut self) {
        let f = self.first.last_mut().unwrap();
        if *f { *f = false } else { self.out.push(',') }
    }
    pub fn raw(&mut self, s: &str) { self.out.push_str(s) }
    pub fn int(&mut self, x: i128) { write!(self.out, "{}", x).unwrap() }
    pub fn boolean(&mut self, b: bool) { self.out.push(if b { 'T' } else { 'F' }) }
    pub fn none(&mut self) { self.out.push('N') }
    fn flag(&mut self, p: usize, n: usize) {
        if self.mute == 0 {
            self.fl.push(if self.lo <= p && p + n <= self.hi { 'b' } else { 'o' })
        }
    }
    pub fn text(&mut self, s: &str) { self.out.push('s'); self.out.push_str(&hex_raw(s.as_bytes())); self.flag(s.as_ptr() as usize, s.len()) }
    pub fn blob(&mut self, b: &[u8]) { self.out.push('h'); self.out.push_str(&hex_raw(b)); self.flag(b.as_ptr() as usize, b.len()) }
    pub fn finish(self, pos: usize) -> String {
        format!("ok {} {} {}", self.out, pos, if self.fl.is_empty() { "-" } else { &self.fl })
    }
}

/// The class of a decode error, as in the model's `Err`.
pub fn dclass(e: &minicbor::decode::Error) -> &'static str {
    if e.is_end_of_input() { return "eoi" }
    if e.is_type_mismatch() { return "type" }
    if e.is_tag_mismatch() { return "tag" }
    if e.is_unknown_variant() { return "variant" }
    if e.is_missing_value() { return "missing" }
    if e.is_message() { return "message" }
    if e.is_custom() { return "custom" }
    let s = e.to_string();
    if s.starts_with("invalid char") { return "char" }
    if s.starts_with("invalid utf-8") { return "utf8" }
    if s.contains("overflows target type") { return "overflow" }
    "other"
}

pub fn err(e: &minicbor::decode::Error, pos: usize) -> String { format!("err {} {}", dclass(e), pos) }

pub fn guard<R>(f: impl FnOnce() -> R) -> Option<R> {
    std::panic::catch_unwind(std::panic::AssertUnwindSafe(f)).ok()
}

/// A hand-written nil-capable type that is not spelled `Option<..>`: `Encode::is_nil` / `Decode::nil` are
/// overridden, so the derive macros must treat a field of this type as absent when it holds `None`
/// (model field type: `opt(u16)`).
#[derive(Debug, Clone, PartialEq)]
pub struct NilOpt(pub Option<u16>);

impl<C> minicbor::Encode<C> for NilOpt {
    fn encode<W: minicbor::encode::Write>(&self, e: &mut minicbor::Encoder<W>, _: &mut C) -> Result<(), minicbor::encode::Error<W::Error>> {
        match self.0 { Some(x) => { e.u16(x)?; } None => { e.null()?; } }
        Ok(())
    }
    fn is_nil(&self) -> bool { self.0.is_none() }
}

impl<'b, C> minicbor::Decode<'b, C> for NilOpt {
    fn decode(d: &mut minicbor::Decoder<'b>, _: &mut C) -> Result<Self, minicbor::decode::Error> {
        if d.datatype()? == minicbor::data::Type::Null { d.skip()?; return Ok(NilOpt(None)) }
        d.u16().map(|x| NilOpt(Some(x)))
    }
    fn nil() -> Option<Self> { Some(NilOpt(None)) }
}

impl<C> minicbor::CborLen<C> for NilOpt {
    fn cbor_len(&self, ctx: &mut C) -> usize { match self.0 { Some(x) => x.cbor_len(ctx), None => 1 } }
}

/// A custom codec module WITHOUT nil functions (`#[cbor(with = "crate::rt::plainopt")]`, no `has_nil`) for
/// `Option<u16>` fields: the derive macros must fall back on `Option::is_none` / `Some(None)` because the field
/// type is syntactically an `Option` - however that `Option` is spelled.
pub mod plainopt {
    use minicbor::{Encoder, Decoder, CborLen, encode::{self as enc, Write}, decode::Error as DErr, data::Type};
    pub fn encode<C, W: Write>(v: &Option<u16>, e: &mut Encoder<W>, _: &mut C) -> Result<(), enc::Error<W::Error>> {
        match v { Some(x) => { e.u16(*x)?; } None => { e.null()?; } }
        Ok(())
    }
    pub fn decode<'b, C>(d: &mut Decoder<'b>, _: &mut C) -> Result<Option<u16>, DErr> {
        if d.datatype()? == Type::Null { d.skip()?; return Ok(None) }
        d.u16().map(Some)
    }
    pub fn cbor_len<C>(v: &Option<u16>, c: &mut C) -> usize { match v { Some(x) => x.cbor_len(c), None => 1 } }
}
