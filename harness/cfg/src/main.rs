//! hcfg: the operations that exist in every feature configuration of minicbor, executed by
//! the real library built with exactly the features this binary was built with.
//! The binary itself uses std freely; only the library under test is restricted.
use std::io::{BufRead, Write};
use std::fmt::Write as _;
use minicbor::{Decoder, Encoder, data::{Int, Tag, Type}};
use minicbor::encode::write::Cursor;

fn hex(b: &[u8]) -> String {
    if b.is_empty() { return "-".into() }
    let mut s = String::new();
    for x in b { write!(s, "{:02x}", x).unwrap(); }
    s
}

fn unhex(s: &str) -> Option<Vec<u8>> {
    if s == "-" { return Some(Vec::new()) }
    if s.len() % 2 != 0 { return None }
    (0 .. s.len() / 2).map(|i| u8::from_str_radix(s.get(2*i .. 2*i+2)?, 16).ok()).collect()
}

fn dclass(e: &minicbor::decode::Error) -> &'static str {
    if e.is_end_of_input() { return "eoi" }
    if e.is_type_mismatch() { return "type" }
    if e.is_tag_mismatch() { return "tag" }
    if e.is_unknown_variant() { return "variant" }
    if e.is_missing_value() { return "missing" }
    if e.is_message() { return "message" }
    #[cfg(feature = "alloc")]
    if e.is_custom() { return "custom" }
    let s = e.to_string();
    if s.starts_with("invalid char") { return "char" }
    if s.starts_with("invalid utf-8") { return "utf8" }
    if s.contains("overflows target type") { return "overflow" }
    "other"
}

fn tyname(t: Type) -> String {
    match t {
        Type::Bool => "bool".into(), Type::Null => "null".into(), Type::Undefined => "undefined".into(),
        Type::U8 => "u8".into(), Type::U16 => "u16".into(), Type::U32 => "u32".into(), Type::U64 => "u64".into(),
        Type::I8 => "i8".into(), Type::I16 => "i16".into(), Type::I32 => "i32".into(), Type::I64 => "i64".into(),
        Type::Int => "int".into(), Type::F16 => "f16".into(), Type::F32 => "f32".into(), Type::F64 => "f64".into(),
        Type::Simple => "simple".into(), Type::Bytes => "bytes".into(), Type::BytesIndef => "bytes_indef".into(),
        Type::String => "string".into(), Type::StringIndef => "string_indef".into(), Type::Array => "array".into(),
        Type::ArrayIndef => "array_indef".into(), Type::Map => "map".into(), Type::MapIndef => "map_indef".into(),
        Type::Tag => "tag".into(), Type::Break => "break".into(), Type::Unknown(n) => format!("unknown({})", n),
    }
}

fn opt(o: Option<u64>) -> String { match o { None => "none".into(), Some(n) => format!("some:{}", n) } }

fn chunks<'a, E>(it: impl Iterator<Item = Result<&'a [u8], E>>) -> Result<String, E> {
    let mut v = Vec::new();
    for c in it { v.push(hex(c?)); }
    Ok(format!("[{}]", v.join(",")))
}

fn dec(w: &[&str]) -> String {
    let input = match w.get(1).and_then(|h| unhex(h)) { Some(b) => b, None => return "bad-op".into() };
    let mut d = Decoder::new(&input);
    match dec_on(&mut d, w[0]) { Some(s) => s, None => "bad-op".into() }
}

/// `reuse <hex> <pos>:<accessor>;…`: ONE decoder through the whole script (`set_position`, then the accessor / typed decode of `dec`)
/// next to a fresh decoder per step: `<steps that agreed> -` or the first step that did not, `reused => fresh`.
fn reuse(w: &[&str]) -> String {
    if w.len() != 2 { return "bad-op".into() }
    let input = match unhex(w[0]) { Some(b) => b, None => return "bad-op".into() };
    let mut d = Decoder::new(&input);
    let mut same = 0usize;
    for st in w[1].split(';') {
        let (p, what) = match st.split_once(':') { Some(x) => x, None => return "bad-op".into() };
        let pos = match p.parse::<usize>() { Ok(p) if p <= input.len() => p, _ => return "bad-op".into() };
        d.set_position(pos);
        let a = match dec_on(&mut d, what) { Some(a) => a, None => return "bad-op".into() };
        let mut f = Decoder::new(&input);
        f.set_position(pos);
        let b = dec_on(&mut f, what).unwrap();
        if a != b { return format!("{} {}: {} => {}", same, st, a, b) }
        same += 1;
    }
    format!("{} -", same)
}

fn dec_on<'b>(d: &mut Decoder<'b>, name: &str) -> Option<String> {
    let r: Result<String, minicbor::decode::Error> = match name {
        "bool" => d.bool().map(|x| (x as u8).to_string()),
        "u8" => d.u8().map(|x| x.to_string()),
        "u16" => d.u16().map(|x| x.to_string()),
        "u32" => d.u32().map(|x| x.to_string()),
        "u64" => d.u64().map(|x| x.to_string()),
        "i8" => d.i8().map(|x| x.to_string()),
        "i16" => d.i16().map(|x| x.to_string()),
        "i32" => d.i32().map(|x| x.to_string()),
        "i64" => d.i64().map(|x| x.to_string()),
        "int" => d.int().map(|x| i128::from(x).to_string()),
        #[cfg(feature = "half")]
        "f16" => d.f16().map(|x| format!("{:08x}", x.to_bits())),
        "f32" => d.f32().map(|x| format!("{:08x}", x.to_bits())),
        "f64" => d.f64().map(|x| format!("{:016x}", x.to_bits())),
        "char" => d.char().map(|x| (x as u32).to_string()),
        "bytes" => d.bytes().map(hex),
        "str" => d.str().map(|s| hex(s.as_bytes())),
        "bytes_iter" => d.bytes_iter().and_then(|it| chunks(it)),
        "str_iter" => d.str_iter().and_then(|it| chunks(it.map(|r| r.map(|s| s.as_bytes())))),
        "array" => d.array().map(opt),
        "map" => d.map().map(opt),
        "tag" => d.tag().map(|t| t.as_u64().to_string()),
        "null" => d.null().map(|_| "()".into()),
        "undefined" => d.undefined().map(|_| "()".into()),
        "simple" => d.simple().map(|x| x.to_string()),
        "datatype" => d.datatype().map(tyname),
        "skip" => d.skip().map(|_| "()".into()),
        // typed decodes that exist without alloc (printed in the syntax of docs/TYPES_PROTOCOL.md)
        "t:opt(u8)" => d.decode::<Option<u8>>().map(|x| match x { None => "N".into(), Some(v) => format!("S({})", v) }),
        "t:tup(u8,i16,bool)" => d.decode::<(u8, i16, bool)>().map(|x| format!("[{},{},{}]", x.0, x.1, if x.2 { "T" } else { "F" })),
        "t:arr(3,u16)" => d.decode::<[u16; 3]>().map(|x| format!("[{},{},{}]", x[0], x[1], x[2])),
        "t:fields(u32,u32)" => d.decode::<core::ops::Range<u32>>().map(|x| format!("[{},{}]", x.start, x.end)),
        "t:duration" => d.decode::<core::time::Duration>().map(|x| format!("[{},{}]", x.as_secs(), x.subsec_nanos())),
        "t:str" => d.decode::<&str>().map(|s| format!("s{}", hex(s.as_bytes()))),
        "t:cstr" => d.decode::<&core::ffi::CStr>().map(|s| format!("h{}", hex(s.to_bytes()))),
        "t:bound(u8)" => d.decode::<core::ops::Bound<u8>>().map(|x| match x {
            core::ops::Bound::Included(v) => format!("V0({})", v),
            core::ops::Bound::Excluded(v) => format!("V1({})", v),
            core::ops::Bound::Unbounded => "V2(U)".into() }),
        "t:opt(fields(u32,u32))" => d.decode::<Option<core::ops::Range<u32>>>().map(|x| match x { None => "N".into(), Some(v) => format!("S([{},{}])", v.start, v.end) }),
        "t:tagged(0,str)" => d.decode::<minicbor::data::Tagged<0, &str>>().map(|x| format!("s{}", hex(x.value().as_bytes()))),
        "t:tagged(32,u8)" => d.decode::<minicbor::data::Tagged<32, u8>>().map(|x| x.value().to_string()),
        "t:tup(u8,tagged(1000,i16))" => d.decode::<(u8, minicbor::data::Tagged<1000, i16>)>().map(|x| format!("[{},{}]", x.0, x.1.value())),
        "t:opt(tagged(4294967296,bool))" => d.decode::<Option<minicbor::data::Tagged<4294967296, bool>>>().map(|x| match x {
            None => "N".into(), Some(v) => format!("S({})", if *v.value() { "T" } else { "F" }) }),
        "t:nz(u8)" => d.decode::<core::num::NonZeroU8>().map(|x| x.get().to_string()),
        "t:nz(i64)" => d.decode::<core::num::NonZeroI64>().map(|x| x.get().to_string()),
        "t:int" => d.decode::<Int>().map(|x| i128::from(x).to_string()),
        "t:tag" => d.decode::<Tag>().map(|x| x.as_u64().to_string()),
        "t:bool" => d.decode::<bool>().map(|x| if x { "T".into() } else { "F".into() }),
        "t:char" => d.decode::<char>().map(|x| (x as u32).to_string()),
        "t:unit" => d.decode::<()>().map(|_| "U".into()),
        "t:u64" => d.decode::<u64>().map(|x| x.to_string()),
        "t:i8" => d.decode::<i8>().map(|x| x.to_string()),
        "t:barr(4)" => d.decode::<minicbor::bytes::ByteArray<4>>().map(|x| format!("h{}", hex(&x[..]))),
        "t:bytes" => d.decode::<&minicbor::bytes::ByteSlice>().map(|x| format!("h{}", hex(&x[..]))),
        "t:arr(2,opt(tup(u8,bool)))" => d.decode::<[Option<(u8, bool)>; 2]>().map(|x| {
            let f = |o: &Option<(u8, bool)>| match o { None => "N".to_string(), Some((a, b)) => format!("S([{},{}])", a, if *b { "T" } else { "F" }) };
            format!("[{},{}]", f(&x[0]), f(&x[1])) }),
        "t:enum(u8,str)" => d.decode::<Result<u8, &str>>().map(|x| match x { Ok(v) => format!("V0({})", v), Err(e) => format!("V1(s{})", hex(e.as_bytes())) }),
        _ => return None
    };
    Some(match r {
        Ok(v) => format!("ok {} {}", v, d.position()),
        Err(e) => format!("err {} {}", dclass(&e), d.position())
    })
}

/// one Encoder call `name[:arg]` on any sink; `None` = malformed.
fn apply<W: minicbor::encode::Write>(e: &mut Encoder<W>, call: &str) -> Option<Result<(), minicbor::encode::Error<W::Error>>> {
    let (m, a) = match call.split_once(':') { Some((m, a)) => (m, a), None => (call, "") };
    macro_rules! num { ($t:ty) => { a.parse::<$t>().ok()? } }
    macro_rules! bits { ($t:ty) => { <$t>::from_str_radix(a, 16).ok()? } }
    Some(match m {
        "u8"  => e.u8(num!(u8)).map(|_| ()),
        "u16" => e.u16(num!(u16)).map(|_| ()),
        "u32" => e.u32(num!(u32)).map(|_| ()),
        "u64" => e.u64(num!(u64)).map(|_| ()),
        "i8"  => e.i8(num!(i8)).map(|_| ()),
        "i16" => e.i16(num!(i16)).map(|_| ()),
        "i32" => e.i32(num!(i32)).map(|_| ()),
        "i64" => e.i64(num!(i64)).map(|_| ()),
        "int" => e.int(Int::try_from(num!(i128)).ok()?).map(|_| ()),
        "simple" => e.simple(num!(u8)).map(|_| ()),
        "f32" => e.f32(f32::from_bits(bits!(u32))).map(|_| ()),
        "f64" => e.f64(f64::from_bits(bits!(u64))).map(|_| ()),
        "bool" => e.bool(a == "1").map(|_| ()),
        "char" => e.char(char::from_u32(num!(u32))?).map(|_| ()),
        "tag" => e.tag(Tag::new(num!(u64))).map(|_| ()),
        "bytes" => e.bytes(&unhex(a)?).map(|_| ()),
        "str" => e.str(&String::from_utf8(unhex(a)?).ok()?).map(|_| ()),
        "array" => e.array(num!(u64)).map(|_| ()),
        "map" => e.map(num!(u64)).map(|_| ()),
        "null" => e.null().map(|_| ()),
        "undefined" => e.undefined().map(|_| ()),
        "begin_array" => e.begin_array().map(|_| ()),
        "begin_bytes" => e.begin_bytes().map(|_| ()),
        "begin_map" => e.begin_map().map(|_| ()),
        "begin_str" => e.begin_str().map(|_| ()),
        "end" => e.end().map(|_| ()),
        _ => return None
    })
}

/// `encseq <kind> <cap> <call>…`: the calls on ONE encoder over a bounded sink of `cap` bytes (filled with ee),
/// carrying on after a failed call.  kinds: `slice` (`&mut [u8]`), `cslice` (`Cursor<&mut [u8]>`),
/// `carr` (`Cursor<[u8; 12]>`, cap must be 12).
/// Output: `<r1>,<r2>,… pos=<bytes accepted> buf=<hex of the whole sink>`, r = `ok` | `write` | `other`.
fn encseq(w: &[&str]) -> String {
    if w.len() < 2 { return "bad-op".into() }
    let cap = match w[1].parse::<usize>() { Ok(c) if c <= 4096 => c, _ => return "bad-op".into() };
    fn drive<W: minicbor::encode::Write>(e: &mut Encoder<W>, calls: &[&str]) -> Option<String> {
        let mut rs = Vec::new();
        for c in calls {
            rs.push(match apply(e, c)? { Ok(()) => "ok", Err(x) => if x.is_write() { "write" } else { "other" } });
        }
        Some(if rs.is_empty() { "-".into() } else { rs.join(",") })
    }
    let mut buf = vec![0xEEu8; cap];
    let (rs, pos) = match w[0] {
        "slice" => {
            let mut e = Encoder::new(&mut buf[..]);
            let rs = drive(&mut e, &w[2..]);
            let room = e.into_writer().len();
            (rs, cap - room)
        }
        "cslice" => {
            let mut e = Encoder::new(Cursor::new(&mut buf[..]));
            let rs = drive(&mut e, &w[2..]);
            let p = e.writer().position();
            (rs, p)
        }
        "carr" => {
            if cap != 12 { return "bad-op".into() }
            let mut e = Encoder::new(Cursor::new([0xEEu8; 12]));
            let rs = drive(&mut e, &w[2..]);
            let p = e.writer().position();
            buf.copy_from_slice(&e.writer().get_ref()[..]);
            (rs, p)
        }
        _ => return "bad-op".into()
    };
    match rs { Some(rs) => format!("{} pos={} buf={}", rs, pos, hex(&buf)), None => "bad-op".into() }
}

fn enc(w: &[&str]) -> String {
    let mut e = Encoder::new(Cursor::new([0u8; 96]));
    let a = w.get(1).copied().unwrap_or("");
    macro_rules! num { ($t:ty) => { match a.parse::<$t>() { Ok(x) => x, Err(_) => return "bad-op".into() } } }
    macro_rules! bits { ($t:ty) => { match <$t>::from_str_radix(a, 16) { Ok(x) => x, Err(_) => return "bad-op".into() } } }
    let r = match w[0] {
        "u8"  => e.u8(num!(u8)).map(|_| ()),
        "u16" => e.u16(num!(u16)).map(|_| ()),
        "u32" => e.u32(num!(u32)).map(|_| ()),
        "u64" => e.u64(num!(u64)).map(|_| ()),
        "i8"  => e.i8(num!(i8)).map(|_| ()),
        "i16" => e.i16(num!(i16)).map(|_| ()),
        "i32" => e.i32(num!(i32)).map(|_| ()),
        "i64" => e.i64(num!(i64)).map(|_| ()),
        "int" => {
            let v = num!(i128);
            let i = match Int::try_from(v) { Ok(i) => i, Err(_) => return "bad-op".into() };
            e.int(i).map(|_| ())
        }
        "simple" => e.simple(num!(u8)).map(|_| ()),
        #[cfg(feature = "half")]
        "f16" => e.f16(f32::from_bits(bits!(u32))).map(|_| ()),
        "f32" => e.f32(f32::from_bits(bits!(u32))).map(|_| ()),
        "f64" => e.f64(f64::from_bits(bits!(u64))).map(|_| ()),
        "bool" => e.bool(a == "1").map(|_| ()),
        "char" => match char::from_u32(num!(u32)) { Some(c) => e.char(c).map(|_| ()), None => return "bad-op".into() },
        "tag" => e.tag(Tag::new(num!(u64))).map(|_| ()),
        "bytes" => match unhex(a) { Some(b) => e.bytes(&b).map(|_| ()), None => return "bad-op".into() },
        "str" => match unhex(a).and_then(|b| String::from_utf8(b).ok()) { Some(s) => e.str(&s).map(|_| ()), None => return "bad-op".into() },
        "array" => e.array(num!(u64)).map(|_| ()),
        "map" => e.map(num!(u64)).map(|_| ()),
        "null" => e.null().map(|_| ()),
        "undefined" => e.undefined().map(|_| ()),
        _ => return "bad-op".into()
    };
    match r {
        Ok(()) => { let n = e.writer().position(); hex(&e.writer().get_ref()[.. n]) }
        Err(x) => format!("err {}", if x.is_write() { "write" } else { "other" })
    }
}

/// `tencc <type> <args>`: the built-in `Encode` / `CborLen` impls (not the Encoder methods) of types that exist in every configuration,
/// into a fixed buffer: `<hex> len=<minicbor::len>`.  Floats are given as bit patterns.
fn tencc(w: &[&str]) -> String {
    if w.len() != 2 { return "bad-op".into() }
    fn go<T: minicbor::Encode<()> + minicbor::CborLen<()>>(v: T) -> String {
        let n = minicbor::len(&v);
        let mut buf = [0u8; 96];
        let room = {
            let mut e = Encoder::new(&mut buf[..]);
            match e.encode(&v) { Ok(_) => e.into_writer().len(), Err(x) => return format!("err {} len={}", if x.is_write() { "write" } else { "other" }, n) }
        };
        format!("{} len={}", hex(&buf[.. 96 - room]), n)
    }
    let a = w[1];
    let b32 = |s: &str| u32::from_str_radix(s, 16).ok().map(f32::from_bits);
    let b64 = |s: &str| u64::from_str_radix(s, 16).ok().map(f64::from_bits);
    match w[0] {
        "f32" => match b32(a) { Some(x) => go(x), None => "bad-op".into() },
        "f64" => match b64(a) { Some(x) => go(x), None => "bad-op".into() },
        "opt_f32" => if a == "N" { go(None::<f32>) } else { match b32(a) { Some(x) => go(Some(x)), None => "bad-op".into() } },
        "tup_f32_f64" => match a.split_once(',') { Some((x, y)) => match (b32(x), b64(y)) { (Some(x), Some(y)) => go((x, y)), _ => "bad-op".into() }, None => "bad-op".into() },
        "arr2_f64" => match a.split_once(',') { Some((x, y)) => match (b64(x), b64(y)) { (Some(x), Some(y)) => go([x, y]), _ => "bad-op".into() }, None => "bad-op".into() },
        "tagged_f32" => match b32(a) { Some(x) => go(minicbor::data::Tagged::<5, f32>::new(x)), None => "bad-op".into() },
        "range_f64" => match a.split_once(',') { Some((x, y)) => match (b64(x), b64(y)) { (Some(x), Some(y)) => go(x .. y), _ => "bad-op".into() }, None => "bad-op".into() },
        "u64" => match a.parse::<u64>() { Ok(x) => go(x), Err(_) => "bad-op".into() },
        "i64" => match a.parse::<i64>() { Ok(x) => go(x), Err(_) => "bad-op".into() },
        "opt_u8" => if a == "N" { go(None::<u8>) } else { match a.parse::<u8>() { Ok(x) => go(Some(x)), Err(_) => "bad-op".into() } },
        "char" => match a.parse::<u32>().ok().and_then(char::from_u32) { Some(c) => go(c), None => "bad-op".into() },
        "bool" => go(a == "1"),
        "unit" => go(()),
        "str" => match unhex(a).and_then(|b| String::from_utf8(b).ok()) { Some(s) => go(&s[..]), None => "bad-op".into() },
        "duration" => match a.split_once(',') { Some((x, y)) => match (x.parse::<u64>(), y.parse::<u32>()) { (Ok(x), Ok(y)) if y < 1_000_000_000 => go(core::time::Duration::new(x, y)), _ => "bad-op".into() }, None => "bad-op".into() },
        _ => "bad-op".into()
    }
}

fn sclass(msg: &str) -> &'static str {
    if msg.starts_with("end of input bytes") { "eoi" }
    else if msg.starts_with("unexpected type") { "type" }
    else if msg.starts_with("invalid utf-8") { "utf8" }
    else if msg.starts_with("invalid char") { "char" }
    else if msg.contains("overflows target type") { "overflow" }
    else if msg.starts_with("decode error") { "message" }
    else { "other" }
}

/// `sde <type> <hex>`: the serde bridge's Deserializer on types that exist without alloc.
fn sde(w: &[&str]) -> String {
    use serde::Deserialize;
    let input = match w.get(1).and_then(|h| unhex(h)) { Some(b) => b, None => return "bad-op".into() };
    let mut de = minicbor_serde::Deserializer::new(&input);
    macro_rules! go { ($t:ty, $f:expr) => {{
        let r = <$t>::deserialize(&mut de);
        let pos = de.decoder().position();
        match r { Ok(v) => format!("ok {} {}", $f(v), pos), Err(e) => format!("err {} {}", sclass(&e.to_string()), pos) }
    }} }
    match w[0] {
        "u8" => go!(u8, |v: u8| v.to_string()),
        "u64" => go!(u64, |v: u64| v.to_string()),
        "i8" => go!(i8, |v: i8| v.to_string()),
        "i64" => go!(i64, |v: i64| v.to_string()),
        "bool" => go!(bool, |v: bool| (v as u8).to_string()),
        "char" => go!(char, |v: char| (v as u32).to_string()),
        "f32" => go!(f32, |v: f32| format!("{:08x}", v.to_bits())),
        "f64" => go!(f64, |v: f64| format!("{:016x}", v.to_bits())),
        "unit" => go!((), |_| "()".to_string()),
        "opt_u8" => go!(Option<u8>, |v: Option<u8>| match v { None => "N".to_string(), Some(x) => format!("S({})", x) }),
        "str" => go!(&str, |v: &str| hex(v.as_bytes())),
        "bytes" => go!(&[u8], |v: &[u8]| hex(v)),
        "tup2" => go!((u8, u8), |v: (u8, u8)| format!("[{},{}]", v.0, v.1)),
        "tup3n" => go!((u8, (i8, bool), u16), |v: (u8, (i8, bool), u16)| format!("[{},[{},{}],{}]", v.0, (v.1).0, (v.1).1 as u8, v.2)),
        "arr2" => go!([u8; 2], |v: [u8; 2]| format!("[{},{}]", v[0], v[1])),
        "arr2tup" => go!([(u8, u8); 2], |v: [(u8, u8); 2]| format!("[[{},{}],[{},{}]]", v[0].0, v[0].1, v[1].0, v[1].1)),
        "any" => go!(AnyShape, |v: AnyShape| v.0),
        "ignored" => go!(serde::de::IgnoredAny, |_| "()".to_string()),
        "picky" => go!(Picky, |v: Picky| v.0),
        "borrowed" => go!(Borrowed, |v: Borrowed| v.0),
        // a visitor that returns without reading its array / map to the end, then one more value from the same Deserializer
        "first" | "firstm" => {
            let r = if w[0] == "first" { First::deserialize(&mut de).map(|f| f.0) } else { FirstM::deserialize(&mut de).map(|f| f.0) };
            let p1 = de.decoder().position();
            let r2 = u8::deserialize(&mut de);
            let p2 = de.decoder().position();
            format!("{} {} then {} {}", match r { Ok(v) => format!("ok {}", v), Err(e) => format!("err {}", sclass(&e.to_string())) }, p1,
                    match r2 { Ok(v) => format!("ok {}", v), Err(e) => format!("err {}", sclass(&e.to_string())) }, p2)
        }
        "borrowed2" => go!((Borrowed, Borrowed), |v: (Borrowed, Borrowed)| format!("[{},{}]", (v.0).0, (v.1).0)),
        "picky2" => go!((Picky, Picky), |v: (Picky, Picky)| format!("[{},{}]", (v.0).0, (v.1).0)),
        "opt_tup" => go!(Option<(u8, u8)>, |v: Option<(u8, u8)>| match v { None => "N".to_string(), Some(x) => format!("S([{},{}])", x.0, x.1) }),
        _ => "bad-op".into()
    }
}

/// A value deserialised through `deserialize_any` (the only place where the bridge's behaviour depends on `alloc`:
/// indefinite-length strings are collected into an owned buffer, or refused).  The visitor needs no allocator in
/// the library: it renders what it is shown (the harness binary itself may use std).
struct AnyShape(String);

struct AnyVisitor;

impl<'de> serde::de::Visitor<'de> for AnyVisitor {
    type Value = AnyShape;
    fn expecting(&self, f: &mut core::fmt::Formatter) -> core::fmt::Result { f.write_str("anything") }
    fn visit_bool<E>(self, v: bool) -> Result<AnyShape, E> { Ok(AnyShape(format!("b{}", v as u8))) }
    fn visit_i64<E>(self, v: i64) -> Result<AnyShape, E> { Ok(AnyShape(format!("i{}", v))) }
    fn visit_u64<E>(self, v: u64) -> Result<AnyShape, E> { Ok(AnyShape(format!("u{}", v))) }
    fn visit_f32<E>(self, v: f32) -> Result<AnyShape, E> { Ok(AnyShape(format!("f{:08x}", v.to_bits()))) }
    fn visit_f64<E>(self, v: f64) -> Result<AnyShape, E> { Ok(AnyShape(format!("d{:016x}", v.to_bits()))) }
    fn visit_char<E>(self, v: char) -> Result<AnyShape, E> { Ok(AnyShape(format!("c{}", v as u32))) }
    fn visit_str<E>(self, v: &str) -> Result<AnyShape, E> { Ok(AnyShape(format!("s{}", hex(v.as_bytes())))) }
    fn visit_bytes<E>(self, v: &[u8]) -> Result<AnyShape, E> { Ok(AnyShape(format!("h{}", hex(v)))) }
    fn visit_none<E>(self) -> Result<AnyShape, E> { Ok(AnyShape("N".into())) }
    fn visit_some<D: serde::Deserializer<'de>>(self, d: D) -> Result<AnyShape, D::Error> {
        d.deserialize_any(AnyVisitor).map(|x| AnyShape(format!("S({})", x.0)))
    }
    fn visit_unit<E>(self) -> Result<AnyShape, E> { Ok(AnyShape("U".into())) }
    fn visit_seq<A: serde::de::SeqAccess<'de>>(self, mut a: A) -> Result<AnyShape, A::Error> {
        let mut v = Vec::new();
        while let Some(x) = a.next_element::<AnyShape>()? { v.push(x.0) }
        Ok(AnyShape(format!("[{}]", v.join(","))))
    }
    fn visit_map<A: serde::de::MapAccess<'de>>(self, mut a: A) -> Result<AnyShape, A::Error> {
        let mut v = Vec::new();
        while let Some((k, x)) = a.next_entry::<AnyShape, AnyShape>()? { v.push(format!("{}:{}", k.0, x.0)) }
        Ok(AnyShape(format!("{{{}}}", v.join(","))))
    }
}

impl<'de> serde::Deserialize<'de> for AnyShape {
    fn deserialize<D: serde::Deserializer<'de>>(d: D) -> Result<Self, D::Error> { d.deserialize_any(AnyVisitor) }
}

/// a selective visitor behind `deserialize_any`: a number or a name, everything else is refused with serde's default
/// `Error::invalid_type` (the one place where the error of a refusal is made by the bridge's `de::Error` impl, not by the decoder)
struct Picky(String);
struct PickyVisitor;
impl<'de> serde::de::Visitor<'de> for PickyVisitor {
    type Value = Picky;
    fn expecting(&self, f: &mut core::fmt::Formatter) -> core::fmt::Result { f.write_str("a number or a name") }
    fn visit_u64<E>(self, v: u64) -> Result<Picky, E> { Ok(Picky(format!("u{}", v))) }
    fn visit_str<E>(self, v: &str) -> Result<Picky, E> { Ok(Picky(format!("s{}", hex(v.as_bytes())))) }
}
impl<'de> serde::Deserialize<'de> for Picky {
    fn deserialize<D: serde::Deserializer<'de>>(d: D) -> Result<Self, D::Error> { d.deserialize_any(PickyVisitor) }
}

/// a visitor behind `deserialize_any` that takes strings only as borrows from the input (`&'de str` / `&'de [u8]` fields of an
/// untagged enum do this): a definite-length string is handed over borrowed in every configuration
struct Borrowed(String);
struct BorrowedVisitor;
impl<'de> serde::de::Visitor<'de> for BorrowedVisitor {
    type Value = Borrowed;
    fn expecting(&self, f: &mut core::fmt::Formatter) -> core::fmt::Result { f.write_str("a borrowed string or a number") }
    fn visit_u64<E>(self, v: u64) -> Result<Borrowed, E> { Ok(Borrowed(format!("u{}", v))) }
    fn visit_borrowed_str<E>(self, v: &'de str) -> Result<Borrowed, E> { Ok(Borrowed(format!("s{}", hex(v.as_bytes())))) }
    fn visit_borrowed_bytes<E>(self, v: &'de [u8]) -> Result<Borrowed, E> { Ok(Borrowed(format!("h{}", hex(v)))) }
    fn visit_seq<A: serde::de::SeqAccess<'de>>(self, mut a: A) -> Result<Borrowed, A::Error> {
        let mut v = Vec::new();
        while let Some(x) = a.next_element::<Borrowed>()? { v.push(x.0) }
        Ok(Borrowed(format!("[{}]", v.join(","))))
    }
}
impl<'de> serde::Deserialize<'de> for Borrowed {
    fn deserialize<D: serde::Deserializer<'de>>(d: D) -> Result<Self, D::Error> { d.deserialize_any(BorrowedVisitor) }
}

/// visitors that stop early: the first element of an array / the first entry of a map, the rest is left where it is
struct First(String);
struct FirstM(String);
struct FirstVisitor(bool);
impl<'de> serde::de::Visitor<'de> for FirstVisitor {
    type Value = String;
    fn expecting(&self, f: &mut core::fmt::Formatter) -> core::fmt::Result { f.write_str("an array or a map") }
    fn visit_seq<A: serde::de::SeqAccess<'de>>(self, mut a: A) -> Result<String, A::Error> {
        Ok(match a.next_element::<u8>()? { Some(x) => format!("S({})", x), None => "N".into() })
    }
    fn visit_map<A: serde::de::MapAccess<'de>>(self, mut a: A) -> Result<String, A::Error> {
        Ok(match a.next_entry::<u8, u8>()? { Some((k, v)) => format!("S({}:{})", k, v), None => "N".into() })
    }
}
impl<'de> serde::Deserialize<'de> for First {
    fn deserialize<D: serde::Deserializer<'de>>(d: D) -> Result<Self, D::Error> { d.deserialize_seq(FirstVisitor(false)).map(First) }
}
impl<'de> serde::Deserialize<'de> for FirstM {
    fn deserialize<D: serde::Deserializer<'de>>(d: D) -> Result<Self, D::Error> { d.deserialize_map(FirstVisitor(true)).map(FirstM) }
}

/// serialises through `Serializer::collect_str` (which needs `alloc`: documented)
struct Shown(u64);
impl serde::Serialize for Shown {
    fn serialize<S: serde::Serializer>(&self, s: S) -> Result<S::Ok, S::Error> { s.collect_str(&self.0) }
}

struct Odd(u8, bool);
impl serde::Serialize for Odd {
    fn serialize<S: serde::Serializer>(&self, s: S) -> Result<S::Ok, S::Error> {
        if self.1 { s.collect_map((0 .. self.0).filter(|x| x % 2 == 1).map(|x| (x, x as u16 * x as u16))) }
        else { s.collect_seq((0 .. self.0).filter(|x| x % 2 == 1)) }
    }
}

/// `sdereuse <n> <hex bad> <hex good>`: ONE `Deserializer` over bad ++ good: `(u8, (u8,))` is asked for at position 0 `n` times (the
/// answer does not matter), then at the start of `good`: `<last answer at 0> | <answer at good>`.
fn sdereuse(w: &[&str]) -> String {
    use serde::Deserialize;
    if w.len() != 3 { return "bad-op".into() }
    let n = match w[0].parse::<usize>() { Ok(n) if n <= 10000 => n, _ => return "bad-op".into() };
    let (bad, good) = match (unhex(w[1]), unhex(w[2])) { (Some(a), Some(b)) => (a, b), _ => return "bad-op".into() };
    let mut input = bad.clone(); input.extend_from_slice(&good);
    let mut de = minicbor_serde::Deserializer::new(&input);
    let show = |r: Result<(u8, (u8,)), minicbor_serde::error::DecodeError>, pos: usize| match r {
        Ok(v) => format!("ok [{},[{}]] {}", v.0, (v.1).0, pos), Err(e) => format!("err {} {}", sclass(&e.to_string()), pos) };
    let mut last = "-".to_string();
    for _ in 0 .. n {
        de.decoder_mut().set_position(0);
        let r = <(u8, (u8,))>::deserialize(&mut de);
        last = show(r, de.decoder().position());
    }
    de.decoder_mut().set_position(bad.len());
    let r = <(u8, (u8,))>::deserialize(&mut de);
    let g = show(r, de.decoder().position());
    format!("{} | {}", last, g)
}

/// `sser <type> <args…>`: the serde bridge's Serializer into a fixed buffer.
fn sser(w: &[&str]) -> String {
    use serde::Serialize;
    let mut ser = minicbor_serde::Serializer::new(Cursor::new([0u8; 96]));
    let a = w.get(1).copied().unwrap_or("");
    macro_rules! num { ($t:ty) => { match a.parse::<$t>() { Ok(x) => x, Err(_) => return "bad-op".into() } } }
    let r = match w[0] {
        "u8" => num!(u8).serialize(&mut ser).map(|_| ()),
        "u64" => num!(u64).serialize(&mut ser).map(|_| ()),
        "i8" => num!(i8).serialize(&mut ser).map(|_| ()),
        "i64" => num!(i64).serialize(&mut ser).map(|_| ()),
        "bool" => (a == "1").serialize(&mut ser).map(|_| ()),
        "char" => match char::from_u32(num!(u32)) { Some(c) => c.serialize(&mut ser).map(|_| ()), None => return "bad-op".into() },
        "unit" => ().serialize(&mut ser).map(|_| ()),
        "shown" => Shown(num!(u64)).serialize(&mut ser).map(|_| ()),
        "opt_u8" => (if a == "N" { None } else { Some(num!(u8)) }).serialize(&mut ser).map(|_| ()),
        "str" => match unhex(a).and_then(|b| String::from_utf8(b).ok()) { Some(s) => s.as_str().serialize(&mut ser).map(|_| ()), None => return "bad-op".into() },
        "tup2" => { let v = num!(u16); ((v >> 8) as u8, v as u8).serialize(&mut ser).map(|_| ()) }
        "arr2" => { let v = num!(u16); [(v >> 8) as u8, v as u8].serialize(&mut ser).map(|_| ()) }
        "f32" => match u32::from_str_radix(a, 16) { Ok(b) => f32::from_bits(b).serialize(&mut ser).map(|_| ()), Err(_) => return "bad-op".into() },
        // collect_seq / collect_map over iterators whose size hint is not tight (every odd number below n / its square)
        "cseq" => { let n = num!(u8); Odd(n, false).serialize(&mut ser).map(|_| ()) }
        "cmap" => { let n = num!(u8); Odd(n, true).serialize(&mut ser).map(|_| ()) }
        "tup_cseq" => { let n = num!(u8); (Odd(n, false), 7u8).serialize(&mut ser).map(|_| ()) }
        _ => return "bad-op".into()
    };
    match r {
        Ok(()) => { let e = ser.into_encoder(); let n = e.writer().position(); hex(&e.writer().get_ref()[.. n]) }
        Err(_) => "err".into()
    }
}

/// writes one byte and then gives up with a message error
#[cfg(feature = "alloc")]
struct GivesUp;
#[cfg(feature = "alloc")]
impl<C> minicbor::Encode<C> for GivesUp {
    fn encode<W: minicbor::encode::Write>(&self, e: &mut Encoder<W>, _: &mut C) -> Result<(), minicbor::encode::Error<W::Error>> {
        e.u8(7)?;
        Err(minicbor::encode::Error::message("giving up"))
    }
}

/// `tovecs <call>…`: successive `minicbor::to_vec` calls on this thread: `f` (fails after writing a byte), `u8:<n>`, `str:<hex>`;
/// the results joined by `,` (exists with alloc only)
#[cfg(feature = "alloc")]
fn tovecs(w: &[&str]) -> String {
    let mut out = Vec::new();
    for c in w {
        let (m, a) = match c.split_once(':') { Some((m, a)) => (m, a), None => (*c, "") };
        out.push(match m {
            "f" => match minicbor::to_vec((2u8, GivesUp)) { Ok(b) => hex(&b), Err(_) => "err".into() },
            "u8" => match a.parse::<u8>() { Ok(n) => minicbor::to_vec(n).map(|b| hex(&b)).unwrap_or("err".into()), Err(_) => return "bad-op".into() },
            "str" => match unhex(a).and_then(|b| String::from_utf8(b).ok()) { Some(s) => minicbor::to_vec(s.as_str()).map(|b| hex(&b)).unwrap_or("err".into()), None => return "bad-op".into() },
            _ => return "bad-op".into()
        });
    }
    if out.is_empty() { "-".into() } else { out.join(",") }
}
#[cfg(not(feature = "alloc"))]
fn tovecs(_: &[&str]) -> String { "bad-op".into() }

/// `tokshow <hex>`: the text form (`Display`) of each token of the input, one by one (exists in every configuration, unlike
/// `Display for Tokenizer`, which needs alloc); `!<class>` where tokenising stops with an error.
#[cfg(not(feature = "half"))]
fn tokshow(_: &[&str]) -> String { "bad-op".into() }
#[cfg(feature = "half")]
fn tokshow(w: &[&str]) -> String {
    let input = match w.first().and_then(|h| unhex(h)) { Some(b) => b, None => return "bad-op".into() };
    let mut out: Vec<String> = Vec::new();
    for t in minicbor::decode::Tokenizer::new(&input) {
        match t { Ok(t) => out.push(format!("{}", t)), Err(e) => { out.push(format!("!{}", dclass(&e))); break } }
    }
    if out.is_empty() { "-".into() } else { out.join(";") }
}

/// `ishow <decimal>`: `Display` of the 65-bit `Int` made from the number and of `Token::Int` around it.
fn ishow(w: &[&str]) -> String {
    let i = match w.first().and_then(|a| a.parse::<i128>().ok()).and_then(|v| Int::try_from(v).ok()) { Some(i) => i, None => return "bad-op".into() };
    #[cfg(feature = "half")]
    let (a, b) = (format!("{}", i), format!("{}", minicbor::data::Token::Int(i)));
    #[cfg(not(feature = "half"))]
    let (a, b) = (format!("{}", i), format!("{}", i));
    let c = format!("{:>24}|{:<24}|{:+}", i, i, i);
    if a == b { format!("{} {}", a, c) } else { format!("{} token:{} {}", a, b, c) }
}

fn dispatch(w: &[&str]) -> String {
    match w[0] {
        "tokshow" => tokshow(&w[1..]),
        "ishow" => ishow(&w[1..]),
        "tovecs" => tovecs(&w[1..]),
        "sde" => sde(&w[1..]),
        "tencc" => tencc(&w[1..]),
        "sser" => sser(&w[1..]),
        "sdereuse" => sdereuse(&w[1..]),
        "enc" => enc(&w[1..]),
        "encseq" => encseq(&w[1..]),
        "dec" => dec(&w[1..]),
        "reuse" => reuse(&w[1..]),
        _ => "bad-op".into()
    }
}

// a hard cap on live heap bytes: an implementation that can be made to allocate without bound must abort this process
// (the orchestrator attributes the death to the operation) instead of taking the machine down
mod capped {
    use std::alloc::{GlobalAlloc, Layout, System};
    use std::sync::atomic::{AtomicUsize, Ordering};
    pub struct Capped;
    static LIVE: AtomicUsize = AtomicUsize::new(0);
    const HARD_CAP: usize = 3 << 30;
    unsafe impl GlobalAlloc for Capped {
        unsafe fn alloc(&self, l: Layout) -> *mut u8 {
            if LIVE.fetch_add(l.size(), Ordering::Relaxed) + l.size() > HARD_CAP { LIVE.fetch_sub(l.size(), Ordering::Relaxed); return std::ptr::null_mut() }
            System.alloc(l)
        }
        unsafe fn dealloc(&self, p: *mut u8, l: Layout) { LIVE.fetch_sub(l.size(), Ordering::Relaxed); System.dealloc(p, l) }
        unsafe fn realloc(&self, p: *mut u8, l: Layout, n: usize) -> *mut u8 {
            if n > l.size() {
                if LIVE.fetch_add(n - l.size(), Ordering::Relaxed) + (n - l.size()) > HARD_CAP { LIVE.fetch_sub(n - l.size(), Ordering::Relaxed); return std::ptr::null_mut() }
            } else { LIVE.fetch_sub(l.size() - n, Ordering::Relaxed); }
            System.realloc(p, l, n)
        }
    }
}
#[global_allocator]
static GLOBAL_CAP: capped::Capped = capped::Capped;

// per-operation watchdog: an operation that runs longer than LIMIT_MS aborts the process (the orchestrator attributes
// the death to the operation): a loop that never ends must not hang the check
mod watchdog {
    use std::sync::atomic::{AtomicU64, Ordering};
    use std::time::{Duration, Instant};
    static DEADLINE: AtomicU64 = AtomicU64::new(0);      // ms since START at which the running op is overdue; 0 = idle
    static mut START: Option<Instant> = None;
    const LIMIT_MS: u64 = 120_000;
    fn now_ms() -> u64 { unsafe { (*std::ptr::addr_of!(START)).map(|s| s.elapsed().as_millis() as u64).unwrap_or(0) } }
    pub fn start() {
        unsafe { START = Some(Instant::now()); }
        std::thread::Builder::new().stack_size(64 * 1024).spawn(|| loop {
            std::thread::sleep(Duration::from_millis(500));
            let d = DEADLINE.load(Ordering::Relaxed);
            if d != 0 && now_ms() > d { eprintln!("watchdog: operation exceeded its time limit"); std::process::abort() }
        }).expect("watchdog");
    }
    pub fn begin() { DEADLINE.store(now_ms() + LIMIT_MS, Ordering::Relaxed) }
    pub fn end() { DEADLINE.store(0, Ordering::Relaxed) }
}

fn main() {
    watchdog::start();
    std::panic::set_hook(Box::new(|_| {}));
    if std::env::args().nth(1).as_deref() == Some("features") {
        println!("alloc={} std={} half={}", cfg!(feature = "alloc"), cfg!(feature = "std"), cfg!(feature = "half"));
        return
    }
    let stdin = std::io::stdin();
    let stdout = std::io::stdout();
    let mut out = std::io::BufWriter::new(stdout.lock());
    for line in stdin.lock().lines() {
        watchdog::begin();
        let line = line.expect("stdin");
        let line = line.trim();
        if line.is_empty() || line.starts_with('#') { continue }
        let w: Vec<&str> = line.split(' ').filter(|x| !x.starts_with('#')).collect();
        let r = std::panic::catch_unwind(std::panic::AssertUnwindSafe(|| dispatch(&w))).unwrap_or_else(|_| "panic".to_string());
        watchdog::end();
        writeln!(out, "{}", r).unwrap();
    }
}
