//! hnoalloc: `dec skip <hex>` against the real minicbor built WITHOUT the `alloc` feature
//! (the counting-only `Decoder::skip`, decoder.rs `#[cfg(not(feature = "alloc"))]`).
//! Same line protocol and output format as hcore: `ok () <pos>` | `err <class> <pos>` | `panic`.
use std::io::{BufRead, Write};

fn unhex(s: &str) -> Option<Vec<u8>> {
    if s == "-" { return Some(Vec::new()) }
    if s.len() % 2 != 0 { return None }
    (0 .. s.len() / 2).map(|i| u8::from_str_radix(s.get(2*i .. 2*i+2)?, 16).ok()).collect()
}

/// Error class, named as in hcore's `util::dclass` (no `is_custom` without `alloc`; `Display` is
/// available without alloc and is only used for the three classes that have no inspection method).
fn dclass(e: &minicbor::decode::Error) -> &'static str {
    if e.is_end_of_input() { return "eoi" }
    if e.is_type_mismatch() { return "type" }
    if e.is_tag_mismatch() { return "tag" }
    if e.is_unknown_variant() { return "variant" }
    if e.is_missing_value() { return "missing" }
    if e.is_message() { return "message" }
    let s = e.to_string();
    if s.starts_with("invalid char") { return "char" }
    if s.starts_with("invalid utf-8") { return "utf8" }
    if s.contains("overflows target type") { return "overflow" }
    "other"
}

fn run(w: &[&str]) -> String {
    if w.len() < 3 || w[0] != "dec" || w[1] != "skip" { return "bad-op".into() }
    let input = match unhex(w[2]) { Some(b) => b, None => return "bad-op".into() };
    let mut d = minicbor::Decoder::new(&input);
    match d.skip() {
        Ok(()) => format!("ok () {}", d.position()),
        Err(e) => format!("err {} {}", dclass(&e), d.position())
    }
}

fn main() {
    std::panic::set_hook(Box::new(|_| {}));
    let stdin = std::io::stdin();
    let stdout = std::io::stdout();
    let mut out = std::io::BufWriter::new(stdout.lock());
    for line in stdin.lock().lines() {
        let line = line.expect("stdin");
        let line = line.trim();
        if line.is_empty() || line.starts_with('#') { continue }
        let w: Vec<&str> = line.split(' ').filter(|x| !x.starts_with('#')).collect();
        let r = std::panic::catch_unwind(std::panic::AssertUnwindSafe(|| run(&w)))
            .unwrap_or_else(|_| "panic".to_string());
        writeln!(out, "{}", r).unwrap();
    }
}
