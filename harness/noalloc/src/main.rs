//! hnoalloc: `dec skip <hex>` against the real minicbor built WITHOUT the `alloc` feature
//! (the counting-only `Decoder::skip`, decoder.rs `#[cfg(not(feature = "alloc"))]`).
//! Same line protocol and output format as hcore: `ok () <pos>` | `err <class> <pos>` | `panic`.
use std::io::{BufRead, Write};

fn unhex(s: &str) -> Option<Vec<u8>> {
    if s == "-" { return Some(Vec::new()) }
    if s.len() % 2 != 0 { return None }
    (0 .. s.len() / 2).map(|i| u8::from_str_radix(s.get(2*i .. 2*i+2)?, 16).ok()).collect()
}

/// Error class, named as in hcore's `util::dclass` (no `is_custom` without `alloc`; `Display` is
/// available without alloc and is only used for the three classes that have no inspection method).
fn dclass(e: &minicbor::decode::Error) -> &'static str {
    if e.is_end_of_input() { return "eoi" }
    if e.is_type_mismatch() { return "type" }
    if e.is_tag_mismatch() { return "tag" }
    if e.is_unknown_variant() { return "variant" }
    if e.is_missing_value() { return "missing" }
    if e.is_message() { return "message" }
    let s = e.to_string();
    if s.starts_with("invalid char") { return "char" }
    if s.starts_with("invalid utf-8") { return "utf8" }
    if s.contains("overflows target type") { return "overflow" }
    "other"
}

fn run(w: &[&str]) -> String {
    if w.len() < 3 || w[0] != "dec" || w[1] != "skip" { return "bad-op".into() }
    let input = match unhex(w[2]) { Some(b) => b, None => return "bad-op".into() };
    let mut d = minicbor::Decoder::new(&input);
    match d.skip() {
        Ok(()) => format!("ok () {}", d.position()),
        Err(e) => format!("err {} {}", dclass(&e), d.position())
    }
}

// a hard cap on live heap bytes: an implementation that can be made to allocate without bound must abort this process
// (the orchestrator attributes the death to the operation) instead of taking the machine down
mod capped {
    use std::alloc::{GlobalAlloc, Layout, System};
    use std::sync::atomic::{AtomicUsize, Ordering};
    pub struct Capped;
    static LIVE: AtomicUsize = AtomicUsize::new(0);
    const HARD_CAP: usize = 3 << 30;
    unsafe impl GlobalAlloc for Capped {
        unsafe fn alloc(&self, l: Layout) -> *mut u8 {
            if LIVE.fetch_add(l.size(), Ordering::Relaxed) + l.size() > HARD_CAP { LIVE.fetch_sub(l.size(), Ordering::Relaxed); return std::ptr::null_mut() }
            System.alloc(l)
        }
        unsafe fn dealloc(&self, p: *mut u8, l: Layout) { LIVE.fetch_sub(l.size(), Ordering::Relaxed); System.dealloc(p, l) }
        unsafe fn realloc(&self, p: *mut u8, l: Layout, n: usize) -> *mut u8 {
            if n > l.size() {
                if LIVE.fetch_add(n - l.size(), Ordering::Relaxed) + (n - l.size()) > HARD_CAP { LIVE.fetch_sub(n - l.size(), Ordering::Relaxed); return std::ptr::null_mut() }
            } else { LIVE.fetch_sub(l.size() - n, Ordering::Relaxed); }
            System.realloc(p, l, n)
        }
    }
}
#[global_allocator]
static GLOBAL_CAP: capped::Capped = capped::Capped;

// per-operation watchdog: an operation that runs longer than LIMIT_MS aborts the process (the orchestrator attributes
// the death to the operation): a loop that never ends must not hang the check
mod watchdog {
    use std::sync::atomic::{AtomicU64, Ordering};
    use std::time::{Duration, Instant};
    static DEADLINE: AtomicU64 = AtomicU64::new(0);      // ms since START at which the running op is overdue; 0 = idle
    static mut START: Option<Instant> = None;
    const LIMIT_MS: u64 = 120_000;
    fn now_ms() -> u64 { unsafe { (*std::ptr::addr_of!(START)).map(|s| s.elapsed().as_millis() as u64).unwrap_or(0) } }
    pub fn start() {
        unsafe { START = Some(Instant::now()); }
        std::thread::Builder::new().stack_size(64 * 1024).spawn(|| loop {
            std::thread::sleep(Duration::from_millis(500));
            let d = DEADLINE.load(Ordering::Relaxed);
            if d != 0 && now_ms() > d { eprintln!("watchdog: operation exceeded its time limit"); std::process::abort() }
        }).expect("watchdog");
    }
    pub fn begin() { DEADLINE.store(now_ms() + LIMIT_MS, Ordering::Relaxed) }
    pub fn end() { DEADLINE.store(0, Ordering::Relaxed) }
}

fn main() {
    watchdog::start();
    std::panic::set_hook(Box::new(|_| {}));
    let stdin = std::io::stdin();
    let stdout = std::io::stdout();
    let mut out = std::io::BufWriter::new(stdout.lock());
    for line in stdin.lock().lines() {
        watchdog::begin();
        let line = line.expect("stdin");
        let line = line.trim();
        if line.is_empty() || line.starts_with('#') { continue }
        let w: Vec<&str> = line.split(' ').filter(|x| !x.starts_with('#')).collect();
        let r = std::panic::catch_unwind(std::panic::AssertUnwindSafe(|| run(&w)))
            .unwrap_or_else(|_| "panic".to_string());
        watchdog::end();
        writeln!(out, "{}", r).unwrap();
    }
}
