//! The four scenario ops.  Futures are driven by hand with a no-op waker; no executor.
use crate::script::*;
use crate::util::*;
use crate::val::*;
use minicbor_io::{AsyncReader, AsyncWriter, Reader, Writer};
use std::future::Future;
use std::pin::Pin;
use std::task::{Context, Poll, Waker};

/// The buffer handed to `with_buffer` for constructor tag `e` (empty), `c` (empty with capacity), `d` (dirty: 37
/// bytes 0xAA), `D` (dirty: 613 bytes 0x5C); `n` is `new`.  A reader / writer must behave the same whatever the
/// buffer it was given contains.
/// the `<maxlen>` argument: a number, or `d` = leave the constructor's default (documented: 512 KiB of payload)
fn maxlen(s: &str) -> Option<Option<u32>> { if s == "d" { Some(None) } else { s.parse::<u32>().ok().map(Some) } }

fn ctor_buf(tag: &str) -> Option<Option<Vec<u8>>> {
    Some(match tag {
        "n" => None,
        "e" => Some(Vec::new()),
        "c" => Some(Vec::with_capacity(64)),
        "d" => Some(vec![0xAA; 37]),
        "D" => Some(vec![0x5C; 613]),
        _ => return None
    })
}

/// `fwrite <maxlen> <vals> <script>`; `fwriteb <ctor> …` constructs with `with_buffer`
pub fn fwrite(w: &[&str]) -> Option<String> { fwrite_with("n", w) }
pub fn fwriteb(w: &[&str]) -> Option<String> { fwrite_with(w.first()?, &w[1..]) }
fn fwrite_with(ctor: &str, w: &[&str]) -> Option<String> {
    let [ml, vs, sc] = w else { return None };
    let (ml, vs, sc) = (maxlen(ml)?, parse_vals(vs)?, parse_script(sc)?);
    let mut wr = match ctor_buf(ctor)? { None => Writer::new(Snk::new(sc)), Some(b) => Writer::with_buffer(Snk::new(sc), b) };
    if let Some(ml) = ml { wr.set_max_len(ml) }
    calls_reset();
    let rs: Vec<String> = vs.iter().map(|v| show_write(&wr.write(v))).collect();
    let (snk, buf) = wr.into_parts();
    Some(format!("{} {} buf={} enc={}", join_or_dash(&rs), hex(&snk.out), buf.len(), enc_calls()))
}

/// `fread <maxlen> <nreads> <streamhex> <script>`
pub fn fread(w: &[&str]) -> Option<String> { fread_with("n", w) }
pub fn freadb(w: &[&str]) -> Option<String> { fread_with(w.first()?, &w[1..]) }
fn fread_with(ctor: &str, w: &[&str]) -> Option<String> {
    let [ml, n, st, sc] = w else { return None };
    let (ml, n, st, sc) = (maxlen(ml)?, n.parse::<usize>().ok()?, unhex(st)?, parse_script(sc)?);
    let mut rd = match ctor_buf(ctor)? { None => Reader::new(Src::new(st, sc)), Some(b) => Reader::with_buffer(Src::new(st, sc), b) };
    if let Some(ml) = ml { rd.set_max_len(ml) }
    calls_reset();
    peak_reset();
    let mut rs = Vec::new();
    for _ in 0 .. n {
        let r = measured(|| rd.read::<V>());
        rs.push(show_read(&r));
    }
    let (src, buf) = rd.into_parts();
    Some(format!("{} rem={} buf={} peak={} dec={}", join_or_dash(&rs), src.remaining(), buf.len(), peak(), dec_calls()))
}

/// `aread <maxlen> <streamhex> <script> <acts>`; acts: `p` poll (calling `read()` if no future
/// is alive), `d` drop the pending future.
pub fn aread(w: &[&str]) -> Option<String> { aread_with("n", w, None) }
pub fn areadb(w: &[&str]) -> Option<String> { aread_with(w.first()?, &w[1..], None) }
/// `areadm <maxlen> <streamhex> <script> <acts> <k>`: as `aread`, with a third act `m` = `set_max_len(k)` (taking `&mut self`, it can
/// only be called when no future is alive: a pending one is dropped first); its transcript entry is `-`.
pub fn areadm(w: &[&str]) -> Option<String> { let k = w.get(4)?.parse::<u32>().ok()?; aread_with("n", &w[.. 4], Some(k)) }
fn aread_with(ctor: &str, w: &[&str], setmax: Option<u32>) -> Option<String> {
    let [ml, st, sc, acts] = w else { return None };
    let (ml, st, sc) = (maxlen(ml)?, unhex(st)?, parse_script(sc)?);
    let acts: Vec<char> = if *acts == "-" { Vec::new() } else { acts.chars().collect() };
    if acts.iter().any(|c| *c != 'p' && *c != 'd' && !((*c == 'm' || *c == 'r' || *c == 'c') && setmax.is_some())) { return None }
    let mut rd = match ctor_buf(ctor)? { None => AsyncReader::new(Src::new(st, sc)), Some(b) => AsyncReader::with_buffer(Src::new(st, sc), b) };
    if let Some(ml) = ml { rd.set_max_len(ml) }
    calls_reset();
    let mut cx = Context::from_waker(Waker::noop());
    peak_reset();
    let mut out: Vec<String> = Vec::new();
    let mut i = 0;
    while i < acts.len() {
        if acts[i] == 'd' { out.push("-".into()); i += 1; continue }
        if acts[i] == 'm' { rd.set_max_len(setmax?); out.push("-".into()); i += 1; continue }
        // `r`: the accessors `reader_mut()` / `reader()` are called (nothing is done with the references); `c`: `read()` is called and the
        // future dropped without a poll.  Neither touches what has been received so far.
        if acts[i] == 'r' { let _ = rd.reader_mut(); let _ = rd.reader(); out.push("-".into()); i += 1; continue }
        if acts[i] == 'c' { { let f = rd.read::<V>(); drop(f); } out.push("-".into()); i += 1; continue }
        // 'p' with no future alive: call read() and poll the new future
        let mut fut = std::pin::pin!(rd.read::<V>());
        loop {
            let r = measured(|| fut.as_mut().poll(&mut cx));
            i += 1;
            match r {
                Poll::Ready(x) => { out.push(show_read(&x)); break }
                Poll::Pending => {
                    out.push("P".into());
                    if i >= acts.len() { break }
                    if acts[i] == 'd' { out.push("-".into()); i += 1; break }
                    if acts[i] == 'm' || acts[i] == 'r' || acts[i] == 'c' { break }            // the future is dropped, the outer loop makes the call
                }
            }
        }
        // the future is dropped here (completed, dropped by the script, or end of the scenario)
    }
    let (src, buf) = rd.into_parts();
    Some(format!("{} rem={} buf={} peak={} dec={}", join_or_dash(&out), src.remaining(), buf.len(), peak(), dec_calls()))
}

#[derive(Clone, Copy, PartialEq)]
enum WAct { Write(usize), Sync, Poll, Drop, SetMax(u32), Create(Option<usize>), Touch }

/// `awrite <maxlen> <vals> <script> <acts>`; acts: `w<i>` call `write(vals[i])` and poll once,
/// `s` call `sync()` and poll once, `p` poll the pending future, `d` drop it, `c<i>` / `cs` call `write(vals[i])` / `sync()` and drop
/// the future without polling it.  `w` / `s` while a
/// future is pending drop that future first (it borrows the writer).
pub fn awrite(w: &[&str]) -> Option<String> { awrite_with("n", 0, w) }
pub fn awriteb(w: &[&str]) -> Option<String> { awrite_with(w.first()?, 0, &w[1..]) }
/// `awritef <flush mode> …`: the sink's `poll_flush` answers Pending / Ok alternately (1), an error (2), Pending for ever (3)
pub fn awritef(w: &[&str]) -> Option<String> { awrite_with("n", w.first()?.parse::<u8>().ok()?, &w[1..]) }
fn awrite_with(ctor: &str, flush_mode: u8, w: &[&str]) -> Option<String> {
    let [ml, vs, sc, acts] = w else { return None };
    let (ml, vs, sc) = (maxlen(ml)?, parse_vals(vs)?, parse_script(sc)?);
    let acts: Vec<WAct> = split_list(acts).into_iter().map(|a| match a {
        "s" => Some(WAct::Sync),
        "p" => Some(WAct::Poll),
        "d" => Some(WAct::Drop),
        "cs" => Some(WAct::Create(None)),
        "g" => Some(WAct::Touch),
        _ if a.starts_with('c') => a[1..].parse::<usize>().ok().filter(|k| *k < vs.len()).map(|k| WAct::Create(Some(k))),
        _ if a.starts_with('m') => a[1..].parse::<u32>().ok().map(WAct::SetMax),
        _ => a.strip_prefix('w').and_then(|k| k.parse::<usize>().ok()).filter(|k| *k < vs.len()).map(WAct::Write)
    }).collect::<Option<_>>()?;
    let mut wr = match ctor_buf(ctor)? { None => AsyncWriter::new(Snk::with_flush(sc, flush_mode)), Some(b) => AsyncWriter::with_buffer(Snk::with_flush(sc, flush_mode), b) };
    if let Some(ml) = ml { wr.set_max_len(ml) }
    calls_reset();
    let mut cx = Context::from_waker(Waker::noop());
    let mut out: Vec<String> = Vec::new();
    let mut i = 0;
    while i < acts.len() {
        let mut fut: Pin<Box<dyn Future<Output = String> + '_>> = match acts[i] {
            WAct::Poll | WAct::Drop => { out.push("-".into()); i += 1; continue }
            // `set_max_len(&mut self)`: no future can be alive (the previous one was dropped at the end of the last iteration)
            WAct::SetMax(k) => { wr.set_max_len(k); out.push("-".into()); i += 1; continue }
            // a future that is created and dropped without ever being polled (the losing branch of a select, a task aborted before its
            // first poll): futures are lazy, nothing may have started
            WAct::Create(k) => {
                match k { Some(k) => { let f = wr.write(&vs[k]); drop(f) } None => { let f = wr.sync(); drop(f) } }
                out.push("-".into()); i += 1; continue
            }
            // the accessors `writer_mut()` / `writer()` are called (nothing is done with the references)
            WAct::Touch => { let _ = wr.writer_mut(); let _ = wr.writer(); out.push("-".into()); i += 1; continue }
            WAct::Write(k) => {
                let (wr, v) = (&mut wr, &vs[k]);
                Box::pin(async move { format!("w:{}", show_write(&wr.write(v).await)) })
            }
            WAct::Sync => {
                let wr = &mut wr;
                Box::pin(async move { match wr.sync().await { Ok(()) => "s:ok".to_string(), Err(e) => format!("s:{}", eclass(&e)) } })
            }
        };
        i += 1;
        loop {
            match fut.as_mut().poll(&mut cx) {
                Poll::Ready(x) => { out.push(x); break }
                Poll::Pending => {
                    out.push("P".into());
                    if i >= acts.len() { break }
                    match acts[i] {
                        WAct::Poll => { i += 1 }
                        WAct::Drop => { out.push("-".into()); i += 1; break }
                        WAct::Write(_) | WAct::Sync | WAct::SetMax(_) | WAct::Create(_) | WAct::Touch => break
                    }
                }
            }
        }
    }
    let (snk, buf) = wr.into_parts();
    Some(format!("{} {} buf={} enc={}", join_or_dash(&out), hex(&snk.out), buf.len(), enc_calls()))
}
