//! Shared helpers: hex, value / script syntax, error classes, panic capture, allocation peak.
use std::alloc::{GlobalAlloc, Layout, System};
use std::fmt::Write as _;
use std::sync::atomic::{AtomicBool, AtomicUsize, Ordering};

pub fn hex(b: &[u8]) -> String {
    if b.is_empty() { return "-".into() }
    let mut s = String::with_capacity(b.len() * 2);
    for x in b { write!(s, "{:02x}", x).unwrap(); }
    s
}

pub fn unhex(s: &str) -> Option<Vec<u8>> {
    if s == "-" { return Some(Vec::new()) }
    if s.len() % 2 != 0 { return None }
    (0 .. s.len() / 2).map(|i| u8::from_str_radix(s.get(2*i .. 2*i+2)?, 16).ok()).collect()
}

pub fn split_list(s: &str) -> Vec<&str> {
    if s == "-" { Vec::new() } else { s.split(',').collect() }
}

pub fn join_or_dash(v: &[String]) -> String {
    if v.is_empty() { "-".into() } else { v.join(",") }
}

/// The class of a decode error, as in the model's `Err`.
pub fn dclass(e: &minicbor::decode::Error) -> &'static str {
    if e.is_end_of_input() { return "eoi" }
    if e.is_type_mismatch() { return "type" }
    if e.is_tag_mismatch() { return "tag" }
    if e.is_unknown_variant() { return "variant" }
    if e.is_missing_value() { return "missing" }
    if e.is_message() { return "message" }
    if e.is_custom() { return "custom" }
    let s = e.to_string();
    if s.starts_with("invalid char") { return "char" }
    if s.starts_with("invalid utf-8") { return "utf8" }
    if s.contains("overflows target type") { return "overflow" }
    "other"
}

pub fn ioclass(e: &std::io::Error) -> &'static str {
    use std::io::ErrorKind::*;
    match e.kind() {
        UnexpectedEof => "eof",
        WriteZero => "zero",
        Interrupted => "intr",
        WouldBlock => "block",
        Other => "other",
        _ => "unknown"
    }
}

pub fn eclass(e: &minicbor_io::Error) -> String {
    match e {
        minicbor_io::Error::Io(e) => format!("err:io:{}", ioclass(e)),
        minicbor_io::Error::Decode(e) => format!("err:decode:{}", dclass(e)),
        minicbor_io::Error::Encode(_) => "err:encode".into(),
        minicbor_io::Error::InvalidLen => "err:len".into(),
        _ => "err:unknown".into()
    }
}

/// Run `f`, turning a panic into `None`.
pub fn guard<R>(f: impl FnOnce() -> R) -> Option<R> {
    std::panic::catch_unwind(std::panic::AssertUnwindSafe(f)).ok()
}

/// Global allocator recording the largest single allocation requested while a reader call
/// is being measured (the harness's own bookkeeping happens outside the window).
pub struct Counting;
static MEASURE: AtomicBool = AtomicBool::new(false);
static PEAK: AtomicUsize = AtomicUsize::new(0);

fn note(n: usize) {
    if MEASURE.load(Ordering::Relaxed) { PEAK.fetch_max(n, Ordering::Relaxed); }
}

unsafe impl GlobalAlloc for Counting {
    unsafe fn alloc(&self, l: Layout) -> *mut u8 { note(l.size()); System.alloc(l) }
    unsafe fn alloc_zeroed(&self, l: Layout) -> *mut u8 { note(l.size()); System.alloc_zeroed(l) }
    unsafe fn realloc(&self, p: *mut u8, l: Layout, n: usize) -> *mut u8 { note(n); System.realloc(p, l, n) }
    unsafe fn dealloc(&self, p: *mut u8, l: Layout) { System.dealloc(p, l) }
}

pub fn peak_reset() { PEAK.store(0, Ordering::Relaxed); MEASURE.store(false, Ordering::Relaxed) }
pub fn peak() -> usize { PEAK.load(Ordering::Relaxed) }
pub fn measured<R>(f: impl FnOnce() -> R) -> R {
    MEASURE.store(true, Ordering::Relaxed);
    let r = f();
    MEASURE.store(false, Ordering::Relaxed);
    r
}
