//! The payload type of the scenarios: an unsigned integer, a byte string, or a value whose
//! `Encode` impl fails after writing some bytes.  (Model: `Minicbor.Frame.Val`, `valCodec`.)
use crate::util::*;
use minicbor::{data::Type, decode, encode, Decode, Decoder, Encode, Encoder};

#[derive(Debug, Clone, PartialEq)]
pub enum V { U(u64), B(Vec<u8>), X(Vec<u8>), E, T(u64) }

thread_local! {
    /// calls of `V::encode` / `V::decode` since the last reset: a frame writer encodes a value once per `write`, a reader decodes a
    /// payload once per frame (an impl with side effects, or one that is merely expensive, must not run twice)
    pub static ENC_CALLS: std::cell::Cell<usize> = std::cell::Cell::new(0);
    pub static DEC_CALLS: std::cell::Cell<usize> = std::cell::Cell::new(0);
}
pub fn calls_reset() { ENC_CALLS.with(|c| c.set(0)); DEC_CALLS.with(|c| c.set(0)); }
pub fn enc_calls() -> usize { ENC_CALLS.with(|c| c.get()) }
pub fn dec_calls() -> usize { DEC_CALLS.with(|c| c.get()) }

impl<C> Encode<C> for V {
    fn encode<W: encode::Write>(&self, e: &mut Encoder<W>, _: &mut C) -> Result<(), encode::Error<W::Error>> {
        ENC_CALLS.with(|c| c.set(c.get() + 1));
        match self {
            V::U(n) => e.u64(*n)?.ok(),
            V::B(b) => e.bytes(b)?.ok(),
            V::T(n) => e.u64(*n)?.u8(0)?.ok(),    // one item more than the decoder reads (padding): a frame may hold more than the value consumes
            V::E => Ok(()),                       // writes nothing and succeeds: its frame is the four zero bytes of an empty payload
            V::X(p) => {
                e.writer_mut().write_all(p).map_err(encode::Error::write)?;
                Err(encode::Error::message("this value does not encode"))
            }
        }
    }
}

impl<'b, C> Decode<'b, C> for V {
    fn decode(d: &mut Decoder<'b>, _: &mut C) -> Result<Self, decode::Error> {
        DEC_CALLS.with(|c| c.set(c.get() + 1));
        match d.datatype()? {
            Type::U8 | Type::U16 | Type::U32 | Type::U64 => d.u64().map(V::U),
            Type::Bytes => d.bytes().map(|b| V::B(b.to_vec())),
            _ => Err(decode::Error::message("unsupported"))
        }
    }
}

pub fn parse_val(s: &str) -> Option<V> {
    let (k, r) = s.split_at_checked(1)?;
    match k {
        "u" => r.parse().ok().map(V::U),
        "b" => unhex(r).map(V::B),
        "x" => unhex(r).map(V::X),
        "e" if r.is_empty() => Some(V::E),
        "t" => r.parse().ok().map(V::T),
        _ => None
    }
}

pub fn parse_vals(s: &str) -> Option<Vec<V>> {
    split_list(s).into_iter().map(parse_val).collect()
}

pub fn show_val(v: &V) -> String {
    match v {
        V::U(n) => format!("u{}", n),
        V::B(b) => format!("b{}", hex(b)),
        V::X(p) => format!("x{}", hex(p)),
        V::E => "e".into(),
        V::T(n) => format!("t{}", n)
    }
}

pub fn show_read(r: &Result<Option<V>, minicbor_io::Error>) -> String {
    match r {
        Ok(Some(v)) => format!("some:{}", show_val(v)),
        Ok(None) => "none".into(),
        Err(e) => eclass(e)
    }
}

pub fn show_write(r: &Result<usize, minicbor_io::Error>) -> String {
    match r {
        Ok(n) => format!("ok:{}", n),
        Err(e) => eclass(e)
    }
}
