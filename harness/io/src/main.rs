//! hio: executes minicbor-io scenarios (one per input line) against the real crate:
//! scripted blocking and async byte streams, futures polled by hand with a no-op waker.
mod util;
mod val;
mod script;
mod ops;

use std::io::{BufRead, Write};

#[global_allocator]
static ALLOC: util::Counting = util::Counting;

// per-operation watchdog: an operation that runs longer than LIMIT_MS aborts the process (the orchestrator attributes
// the death to the operation): a loop that never ends must not hang the check
mod watchdog {
    use std::sync::atomic::{AtomicU64, Ordering};
    use std::time::{Duration, Instant};
    static DEADLINE: AtomicU64 = AtomicU64::new(0);      // ms since START at which the running op is overdue; 0 = idle
    static mut START: Option<Instant> = None;
    const LIMIT_MS: u64 = 120_000;
    fn now_ms() -> u64 { unsafe { (*std::ptr::addr_of!(START)).map(|s| s.elapsed().as_millis() as u64).unwrap_or(0) } }
    pub fn start() {
        unsafe { START = Some(Instant::now()); }
        std::thread::Builder::new().stack_size(64 * 1024).spawn(|| loop {
            std::thread::sleep(Duration::from_millis(500));
            let d = DEADLINE.load(Ordering::Relaxed);
            if d != 0 && now_ms() > d { eprintln!("watchdog: operation exceeded its time limit"); std::process::abort() }
        }).expect("watchdog");
    }
    pub fn begin() { DEADLINE.store(now_ms() + LIMIT_MS, Ordering::Relaxed) }
    pub fn end() { DEADLINE.store(0, Ordering::Relaxed) }
}

fn main() {
    watchdog::start();
    std::panic::set_hook(Box::new(|_| {}));
    let stdin = std::io::stdin();
    let stdout = std::io::stdout();
    let mut out = std::io::BufWriter::new(stdout.lock());
    for line in stdin.lock().lines() {
        watchdog::begin();
        let line = line.expect("stdin");
        let line = line.trim();
        if line.is_empty() || line.starts_with('#') { continue }
        let w: Vec<&str> = line.split(' ').filter(|x| !x.starts_with('#')).collect();
        let r = util::guard(|| dispatch(&w)).unwrap_or_else(|| "panic".to_string());
        watchdog::end();
        writeln!(out, "{}", r).unwrap();
    }
}

fn dispatch(w: &[&str]) -> String {
    let r = match w[0] {
        "fwrite" => ops::fwrite(&w[1..]),
        "fread" => ops::fread(&w[1..]),
        "aread" => ops::aread(&w[1..]),
        "awrite" => ops::awrite(&w[1..]),
        "fwriteb" => ops::fwriteb(&w[1..]),
        "freadb" => ops::freadb(&w[1..]),
        "areadb" => ops::areadb(&w[1..]),
        "areadm" => ops::areadm(&w[1..]),
        "awriteb" => ops::awriteb(&w[1..]),
        "awritef" => ops::awritef(&w[1..]),
        _ => None
    };
    r.unwrap_or_else(|| "bad-op".into())
}
