//! hio: executes minicbor-io scenarios (one per input line) against the real crate:
//! scripted blocking and async byte streams, futures polled by hand with a no-op waker.
mod util;
mod val;
mod script;
mod ops;

use std::io::{BufRead, Write};

#[global_allocator]
static ALLOC: util::Counting = util::Counting;

fn main() {
    std::panic::set_hook(Box::new(|_| {}));
    let stdin = std::io::stdin();
    let stdout = std::io::stdout();
    let mut out = std::io::BufWriter::new(stdout.lock());
    for line in stdin.lock().lines() {
        let line = line.expect("stdin");
        let line = line.trim();
        if line.is_empty() || line.starts_with('#') { continue }
        let w: Vec<&str> = line.split(' ').filter(|x| !x.starts_with('#')).collect();
        let r = util::guard(|| dispatch(&w)).unwrap_or_else(|| "panic".to_string());
        writeln!(out, "{}", r).unwrap();
    }
}

fn dispatch(w: &[&str]) -> String {
    let r = match w[0] {
        "fwrite" => ops::fwrite(&w[1..]),
        "fread" => ops::fread(&w[1..]),
        "aread" => ops::aread(&w[1..]),
        "awrite" => ops::awrite(&w[1..]),
        _ => None
    };
    r.unwrap_or_else(|| "bad-op".into())
}
