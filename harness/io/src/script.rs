//! Scripted byte streams: each call of the underlying `read` / `write` / `poll_read` /
//! `poll_write` is answered by the next script event.  Blocking streams with an exhausted
//! script transfer everything that is requested; async streams stay `Pending`.  The vectored entry points are real
//! scatter / gather transfers governed by the same script (a stream that only forwarded them to the first slice would hide
//! whatever a caller does with the second).
use crate::util::split_list;
use futures_io::{AsyncRead, AsyncWrite};
use std::collections::VecDeque;
use std::io;
use std::pin::Pin;
use std::task::{Context, Poll};

#[derive(Debug, Clone, Copy)]
pub enum Ev { Io(usize), Zero, Intr, Fail, Pend }

pub fn parse_script(s: &str) -> Option<VecDeque<Ev>> {
    split_list(s).into_iter().map(|t| match t {
        "z" => Some(Ev::Zero),
        "i" => Some(Ev::Intr),
        "e" => Some(Ev::Fail),
        "p" => Some(Ev::Pend),
        _ => t.parse().ok().map(Ev::Io)
    }).collect()
}

/// What one call does: transfer up to `n` bytes, fail, or (async only) stay pending.
enum Step { Xfer(usize), Err(io::ErrorKind), Pending }

fn step(script: &mut VecDeque<Ev>, requested: usize, exhausted: Step) -> Step {
    match script.pop_front() {
        None => exhausted,
        Some(Ev::Io(k)) => Step::Xfer(k.min(requested)),
        Some(Ev::Zero) => Step::Xfer(0),
        Some(Ev::Intr) => Step::Err(io::ErrorKind::Interrupted),
        Some(Ev::Fail) => Step::Err(io::ErrorKind::Other),
        Some(Ev::Pend) => Step::Pending
    }
}

pub struct Src { pub bytes: Vec<u8>, pub pos: usize, pub script: VecDeque<Ev> }

impl Src {
    pub fn new(bytes: Vec<u8>, script: VecDeque<Ev>) -> Self { Src { bytes, pos: 0, script } }
    pub fn remaining(&self) -> usize { self.bytes.len() - self.pos }
    fn deliver(&mut self, buf: &mut [u8], n: usize) -> usize {
        let n = n.min(self.remaining()).min(buf.len());
        buf[.. n].copy_from_slice(&self.bytes[self.pos .. self.pos + n]);
        self.pos += n;
        n
    }
    /// a real scatter read: the transfer fills the slices one after the other (what `&[u8]`, `Cursor`, sockets do).
    fn deliver_vectored(&mut self, bufs: &mut [io::IoSliceMut<'_>], n: usize) -> usize {
        let mut left = n.min(self.remaining());
        let mut done = 0;
        for b in bufs.iter_mut() {
            if left == 0 { break }
            let k = self.deliver(b, left);
            left -= k; done += k;
        }
        done
    }
}

// NB: only `read` is implemented, so `read_exact` is std's default implementation.
impl io::Read for Src {
    fn read(&mut self, buf: &mut [u8]) -> io::Result<usize> {
        match step(&mut self.script, buf.len(), Step::Xfer(buf.len())) {
            Step::Xfer(n) => Ok(self.deliver(buf, n)),
            Step::Err(k) => Err(k.into()),
            Step::Pending => Err(io::ErrorKind::WouldBlock.into())
        }
    }
    fn read_vectored(&mut self, bufs: &mut [io::IoSliceMut<'_>]) -> io::Result<usize> {
        let total: usize = bufs.iter().map(|b| b.len()).sum();
        match step(&mut self.script, total, Step::Xfer(total)) {
            Step::Xfer(n) => Ok(self.deliver_vectored(bufs, n)),
            Step::Err(k) => Err(k.into()),
            Step::Pending => Err(io::ErrorKind::WouldBlock.into())
        }
    }
}

impl AsyncRead for Src {
    fn poll_read(mut self: Pin<&mut Self>, _: &mut Context<'_>, buf: &mut [u8]) -> Poll<io::Result<usize>> {
        match step(&mut self.script, buf.len(), Step::Pending) {
            Step::Xfer(n) => Poll::Ready(Ok(self.deliver(buf, n))),
            Step::Err(k) => Poll::Ready(Err(k.into())),
            Step::Pending => Poll::Pending
        }
    }
    fn poll_read_vectored(mut self: Pin<&mut Self>, _: &mut Context<'_>, bufs: &mut [io::IoSliceMut<'_>]) -> Poll<io::Result<usize>> {
        let total: usize = bufs.iter().map(|b| b.len()).sum();
        match step(&mut self.script, total, Step::Pending) {
            Step::Xfer(n) => Poll::Ready(Ok(self.deliver_vectored(bufs, n))),
            Step::Err(k) => Poll::Ready(Err(k.into())),
            Step::Pending => Poll::Pending
        }
    }
}

pub struct Snk { pub out: Vec<u8>, pub script: VecDeque<Ev>, pub flush_mode: u8, pub flushes: usize }

impl Snk {
    pub fn new(script: VecDeque<Ev>) -> Self { Snk { out: Vec::new(), script, flush_mode: 0, flushes: 0 } }
    pub fn with_flush(script: VecDeque<Ev>, flush_mode: u8) -> Self { Snk { out: Vec::new(), script, flush_mode, flushes: 0 } }
    /// a real gather write: the accepted count runs through the slices in order.
    fn accept_vectored(&mut self, bufs: &[io::IoSlice<'_>], n: usize) -> usize {
        let mut left = n;
        for b in bufs {
            if left == 0 { break }
            let k = left.min(b.len());
            self.out.extend_from_slice(&b[.. k]);
            left -= k;
        }
        n - left
    }
}

// NB: only `write` / `flush`, so `write_all` is std's default implementation.
impl io::Write for Snk {
    fn write(&mut self, buf: &[u8]) -> io::Result<usize> {
        match step(&mut self.script, buf.len(), Step::Xfer(buf.len())) {
            Step::Xfer(n) => { self.out.extend_from_slice(&buf[.. n]); Ok(n) }
            Step::Err(k) => Err(k.into()),
            Step::Pending => Err(io::ErrorKind::WouldBlock.into())
        }
    }
    fn write_vectored(&mut self, bufs: &[io::IoSlice<'_>]) -> io::Result<usize> {
        let total: usize = bufs.iter().map(|b| b.len()).sum();
        match step(&mut self.script, total, Step::Xfer(total)) {
            Step::Xfer(n) => Ok(self.accept_vectored(bufs, n)),
            Step::Err(k) => Err(k.into()),
            Step::Pending => Err(io::ErrorKind::WouldBlock.into())
        }
    }
    fn flush(&mut self) -> io::Result<()> { Ok(()) }
}

impl AsyncWrite for Snk {
    fn poll_write(mut self: Pin<&mut Self>, _: &mut Context<'_>, buf: &[u8]) -> Poll<io::Result<usize>> {
        match step(&mut self.script, buf.len(), Step::Pending) {
            Step::Xfer(n) => { self.out.extend_from_slice(&buf[.. n]); Poll::Ready(Ok(n)) }
            Step::Err(k) => Poll::Ready(Err(k.into())),
            Step::Pending => Poll::Pending
        }
    }
    fn poll_write_vectored(mut self: Pin<&mut Self>, _: &mut Context<'_>, bufs: &[io::IoSlice<'_>]) -> Poll<io::Result<usize>> {
        let total: usize = bufs.iter().map(|b| b.len()).sum();
        match step(&mut self.script, total, Step::Pending) {
            Step::Xfer(n) => Poll::Ready(Ok(self.accept_vectored(bufs, n))),
            Step::Err(k) => Poll::Ready(Err(k.into())),
            Step::Pending => Poll::Pending
        }
    }
    fn poll_flush(mut self: Pin<&mut Self>, _: &mut Context<'_>) -> Poll<io::Result<()>> {
        // `write` / `sync` of the AsyncWriter never flush (only `AsyncWriter::flush` does): whatever a flush would answer must not show
        self.flushes += 1;
        match self.flush_mode {
            1 => if self.flushes % 2 == 1 { Poll::Pending } else { Poll::Ready(Ok(())) },
            2 => Poll::Ready(Err(io::ErrorKind::Other.into())),
            3 => Poll::Pending,
            _ => Poll::Ready(Ok(()))
        }
    }
    fn poll_close(self: Pin<&mut Self>, _: &mut Context<'_>) -> Poll<io::Result<()>> { Poll::Ready(Ok(())) }
}
