//! `intconv to:<T> <decimal>`: `Int::try_from(i128)` then `T::try_from(Int)` -> `ok <v>` | `err` | `norep` (not an Int);
//! `intconv from:<T> <decimal>`: `Int::from(T)` / `Int::try_from(T)` -> `ok <i128 of the Int>` | `err`.
use minicbor::data::Int;

pub fn run(w: &[&str]) -> String {
    let (dir, t) = match w.first().and_then(|s| s.split_once(':')) { Some(x) => x, None => return "bad-op".into() };
    let a = w.get(1).copied().unwrap_or("");
    if dir == "to" {
        let v: i128 = match a.parse() { Ok(v) => v, Err(_) => return "bad-op".into() };
        let i = match Int::try_from(v) { Ok(i) => i, Err(_) => return "norep".into() };
        macro_rules! conv { ($t:ty) => { match <$t>::try_from(i) { Ok(x) => format!("ok {}", x), Err(_) => "err".into() } } }
        return match t {
            "u8" => conv!(u8), "u16" => conv!(u16), "u32" => conv!(u32), "u64" => conv!(u64), "u128" => conv!(u128),
            "i8" => conv!(i8), "i16" => conv!(i16), "i32" => conv!(i32), "i64" => conv!(i64),
            "i128" => format!("ok {}", i128::from(i)),
            _ => "bad-op".into()
        }
    }
    if dir == "from" {
        macro_rules! from { ($t:ty) => { match a.parse::<$t>() { Ok(x) => format!("ok {}", i128::from(Int::from(x))), Err(_) => "bad-op".into() } } }
        return match t {
            "u8" => from!(u8), "u16" => from!(u16), "u32" => from!(u32), "u64" => from!(u64),
            "i8" => from!(i8), "i16" => from!(i16), "i32" => from!(i32), "i64" => from!(i64),
            "u128" => match a.parse::<u128>() { Ok(x) => match Int::try_from(x) { Ok(i) => format!("ok {}", i128::from(i)), Err(_) => "err".into() }, Err(_) => "bad-op".into() },
            "i128" => match a.parse::<i128>() { Ok(x) => match Int::try_from(x) { Ok(i) => format!("ok {}", i128::from(i)), Err(_) => "err".into() }, Err(_) => "bad-op".into() },
            _ => "bad-op".into()
        }
    }
    "bad-op".into()
}
