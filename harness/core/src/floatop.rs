//! `fblk <kind> <start-hex> <count> <stride>`: block evaluation of the float paths of the real
//! Encoder / Decoder over the binary32 patterns `x_i = (start + i*stride) mod 2^32`, i < count
//! (for `rt64`: 64-bit patterns from splitmix64 seeded with `start + i`).
//!
//! kinds
//!   enc16  Encoder::f16(f32::from_bits(x))            -> the 2 payload bytes (initial byte must be f9)
//!   dec64  Decoder::f64 on `fa <x>`                    -> f64 bits
//!   dec32  Decoder::f32 on `fa <x>`                    -> f32 bits
//!   rt32   Encoder::f32 then Decoder::f32             -> f32 bits
//!   rt64   Encoder::f64 then Decoder::f64             -> f64 bits
//!
//! Output: `blk h=<fnv1a-64 of all results> bad=<n> first=<hex|->` where `bad` counts the
//! patterns on which the implementation disagrees with the *independent reference arithmetic*
//! below (value based, computed in f64 / integers; it shares no code with the `half` crate and
//! does not use `as` float casts for widening), and `first` is the first such pattern.
//! For NaN inputs the reference only demands a NaN of the same sign (IEEE 754 leaves the payload open).
use minicbor::{Decoder, Encoder};

fn pow2(e: i32) -> f64 { f64::from_bits(((e + 1023) as u64) << 52) } // -1022 <= e <= 1023

/// exact value of a finite binary32 pattern, built from its fields.
fn f32_fields_value(x: u32) -> f64 {
    let e = ((x >> 23) & 0xff) as i32;
    let m = (x & 0x7f_ffff) as f64;
    if e == 0 { m * pow2(-149) } else { (m + 8388608.0) * pow2(e - 150) }
}

/// exponent of a positive normal f64.
fn ilog2(a: f64) -> i32 { ((a.to_bits() >> 52) & 0x7ff) as i32 - 1023 }

/// round-to-nearest-even conversion of a binary32 pattern to binary16, value based.
/// `None`: the input is a NaN.
pub fn ref_f32_to_f16(x: u32) -> Option<u16> {
    let sign = ((x >> 31) as u16) << 15;
    let e = (x >> 23) & 0xff;
    let m = x & 0x7f_ffff;
    if e == 255 { return if m == 0 { Some(sign | 0x7c00) } else { None } }
    let a = f32_fields_value(x);
    if a == 0.0 { return Some(sign) }
    let ulp = if a < pow2(-14) { pow2(-24) } else { pow2(ilog2(a) - 10) };
    let q = a / ulp;                       // exact: division by a power of two, q < 2^12 * 2^14
    let fl = q.floor();
    let fr = q - fl;                       // exact
    let r = if fr > 0.5 { fl + 1.0 } else if fr < 0.5 { fl } else if (fl as u64) % 2 == 0 { fl } else { fl + 1.0 };
    let v = r * ulp;
    if v >= 65536.0 { return Some(sign | 0x7c00) }
    if v < pow2(-14) { return Some(sign | (v / pow2(-24)) as u16) }
    let ex = ilog2(v);
    let man = (v / pow2(ex - 10)) as u16 - 1024;
    Some(sign | (((ex + 15) as u16) << 10) | man)
}

/// exact widening of a binary32 pattern to binary64 bits, value based.  `None`: NaN.
pub fn ref_f32_to_f64(x: u32) -> Option<u64> {
    let sign = ((x >> 31) as u64) << 63;
    let e = (x >> 23) & 0xff;
    let m = x & 0x7f_ffff;
    if e == 255 { return if m == 0 { Some(sign | 0x7ff0_0000_0000_0000) } else { None } }
    Some(sign | f32_fields_value(x).to_bits())
}

fn is_nan16(h: u16) -> bool { h & 0x7c00 == 0x7c00 && h & 0x3ff != 0 }
fn is_nan64(d: u64) -> bool { d & 0x7ff0_0000_0000_0000 == 0x7ff0_0000_0000_0000 && d & 0x000f_ffff_ffff_ffff != 0 }

fn splitmix(z: u64) -> u64 {
    let mut z = z.wrapping_add(0x9e37_79b9_7f4a_7c15);
    z = (z ^ (z >> 30)).wrapping_mul(0xbf58_476d_1ce4_e5b9);
    z = (z ^ (z >> 27)).wrapping_mul(0x94d0_49bb_1331_11eb);
    z ^ (z >> 31)
}

struct Fnv(u64);
impl Fnv {
    fn new() -> Self { Fnv(0xcbf2_9ce4_8422_2325) }
    fn put(&mut self, v: u64, nbytes: u32) {
        for k in (0 .. nbytes).rev() {
            self.0 ^= (v >> (8 * k)) & 0xff;
            self.0 = self.0.wrapping_mul(0x0000_0100_0000_01b3);
        }
    }
}

pub fn run(w: &[&str]) -> String {
    if w.len() != 4 { return "bad-op".into() }
    let start = match u64::from_str_radix(w[1], 16) { Ok(x) => x, Err(_) => return "bad-op".into() };
    let count = match w[2].parse::<u64>() { Ok(x) => x, Err(_) => return "bad-op".into() };
    let stride = match w[3].parse::<u64>() { Ok(x) => x, Err(_) => return "bad-op".into() };
    let mut h = Fnv::new();
    let mut bad = 0u64;
    let mut first: Option<u64> = None;
    let mut flag = |x: u64, bad: &mut u64| { *bad += 1; if first.is_none() { first = Some(x) } };
    for i in 0 .. count {
        let x64 = start.wrapping_add(i.wrapping_mul(stride));
        let x = x64 as u32;
        match w[0] {
            "enc16" => {
                let mut buf = [0u8; 3];
                let ok = Encoder::new(&mut buf[..]).f16(f32::from_bits(x)).is_ok();
                let r = u16::from_be_bytes([buf[1], buf[2]]);
                h.put(r as u64, 2);
                let good = ok && buf[0] == 0xf9 && match ref_f32_to_f16(x) {
                    Some(e) => e == r,
                    None => is_nan16(r) && (r >> 15) as u32 == x >> 31
                };
                if !good { flag(x as u64, &mut bad) }
            }
            "dec64" => {
                let b = x.to_be_bytes();
                let buf = [0xfa, b[0], b[1], b[2], b[3]];
                let mut d = Decoder::new(&buf);
                match d.f64() {
                    Ok(v) => {
                        let r = v.to_bits();
                        h.put(r, 8);
                        let good = d.position() == 5 && match ref_f32_to_f64(x) {
                            Some(e) => e == r,
                            None => is_nan64(r) && (r >> 63) as u32 == x >> 31
                        };
                        if !good { flag(x as u64, &mut bad) }
                    }
                    Err(_) => { h.put(0xffff_ffff_ffff_ffff, 8); flag(x as u64, &mut bad) }
                }
            }
            "dec32" => {
                let b = x.to_be_bytes();
                let buf = [0xfa, b[0], b[1], b[2], b[3]];
                let mut d = Decoder::new(&buf);
                match d.f32() {
                    Ok(v) => { let r = v.to_bits(); h.put(r as u64, 4); if r != x || d.position() != 5 { flag(x as u64, &mut bad) } }
                    Err(_) => { h.put(0xffff_ffff, 4); flag(x as u64, &mut bad) }
                }
            }
            "rt32" => {
                let mut buf = [0u8; 5];
                let ok = Encoder::new(&mut buf[..]).f32(f32::from_bits(x)).is_ok();
                let mut d = Decoder::new(&buf);
                match d.f32() {
                    Ok(v) => { let r = v.to_bits(); h.put(r as u64, 4); if !ok || r != x || d.position() != 5 { flag(x as u64, &mut bad) } }
                    Err(_) => { h.put(0xffff_ffff, 4); flag(x as u64, &mut bad) }
                }
            }
            "rt64" => {
                let y = splitmix(x64);
                let mut buf = [0u8; 9];
                let ok = Encoder::new(&mut buf[..]).f64(f64::from_bits(y)).is_ok();
                let mut d = Decoder::new(&buf);
                match d.f64() {
                    Ok(v) => { let r = v.to_bits(); h.put(r, 8); if !ok || r != y || d.position() != 9 { flag(y, &mut bad) } }
                    Err(_) => { h.put(0xffff_ffff_ffff_ffff, 8); flag(y, &mut bad) }
                }
            }
            _ => return "bad-op".into()
        }
    }
    let f = match first { Some(x) => format!("{:x}", x), None => "-".into() };
    format!("blk h={:016x} bad={} first={}", h.0, bad, f)
}


/// `fnarrow <f64 bits hex>…`: `f64 as f32` (what serde's f32 visitor does with a buffered f64): the f32 bits, joined by `,`.
pub fn run_narrow(w: &[&str]) -> String {
    let mut out = Vec::new();
    for a in w {
        match u64::from_str_radix(a, 16) {
            Ok(b) => out.push(format!("{:08x}", (f64::from_bits(b) as f32).to_bits())),
            Err(_) => return "bad-op".into()
        }
    }
    if out.is_empty() { "bad-op".into() } else { out.join(",") }
}
