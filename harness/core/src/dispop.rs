//! `display <hex>` -> hex of the UTF-8 text of `minicbor::display(bytes)` written into a
//! length-limited sink (so that an unbounded rendering is cut and reported, not hung).
use crate::util::*;
use std::fmt::Write;

struct Limited { buf: String, limit: usize, overflow: bool }

impl Write for Limited {
    fn write_str(&mut self, s: &str) -> std::fmt::Result {
        if self.buf.len() + s.len() > self.limit {
            self.overflow = true;
            return Err(std::fmt::Error)
        }
        self.buf.push_str(s);
        Ok(())
    }
}

pub fn run(w: &[&str]) -> String {
    let input = match w.first().and_then(|h| unhex(h)) { Some(b) => b, None => return "bad-op".into() };
    let mut out = Limited { buf: String::new(), limit: 64 * input.len() + 4096, overflow: false };
    let r = write!(out, "{}", minicbor::display(&input));
    if out.overflow { return format!("overflow {}", out.buf.len()) }
    if r.is_err() { return "fmt-error".into() }
    hex(out.buf.as_bytes())
}


/// `displayat <pos> <hex>`: the Display of `Decoder::tokens()` taken from a decoder that has already been advanced to `pos`
/// (the second way to obtain a `Tokenizer`), next to `minicbor::display(&bytes[pos..])`: `<hex of text> | <hex of text>`.
pub fn run_at(w: &[&str]) -> String {
    if w.len() != 2 { return "bad-op".into() }
    let pos = match w[0].parse::<usize>() { Ok(p) => p, Err(_) => return "bad-op".into() };
    let input = match unhex(w[1]) { Some(b) => b, None => return "bad-op".into() };
    if pos > input.len() { return "bad-op".into() }
    let lim = 64 * input.len() + 4096;
    let mut a = Limited { buf: String::new(), limit: lim, overflow: false };
    let mut d = minicbor::Decoder::new(&input);
    d.set_position(pos);
    let ra = write!(a, "{}", d.tokens());
    let mut b = Limited { buf: String::new(), limit: lim, overflow: false };
    let rb = write!(b, "{}", minicbor::display(&input[pos ..]));
    if a.overflow || b.overflow { return "overflow".into() }
    if ra.is_err() || rb.is_err() { return "fmt-error".into() }
    format!("{} | {}", hex(a.buf.as_bytes()), hex(b.buf.as_bytes()))
}
