//! `display <hex>` -> hex of the UTF-8 text of `minicbor::display(bytes)` written into a
//! length-limited sink (so that an unbounded rendering is cut and reported, not hung).
use crate::util::*;
use std::fmt::Write;

struct Limited { buf: String, limit: usize, overflow: bool }

impl Write for Limited {
    fn write_str(&mut self, s: &str) -> std::fmt::Result {
        if self.buf.len() + s.len() > self.limit {
            self.overflow = true;
            return Err(std::fmt::Error)
        }
        self.buf.push_str(s);
        Ok(())
    }
}

pub fn run(w: &[&str]) -> String {
    let input = match w.first().and_then(|h| unhex(h)) { Some(b) => b, None => return "bad-op".into() };
    let mut out = Limited { buf: String::new(), limit: 64 * input.len() + 4096, overflow: false };
    let r = write!(out, "{}", minicbor::display(&input));
    if out.overflow { return format!("overflow {}", out.buf.len()) }
    if r.is_err() { return "fmt-error".into() }
    hex(out.buf.as_bytes())
}
