//! `display <hex>` -> hex of the UTF-8 text of `minicbor::display(bytes)` written into a
//! length-limited sink (so that an unbounded rendering is cut and reported, not hung).
use crate::util::*;
use std::fmt::Write;

struct Limited { buf: String, limit: usize, overflow: bool }

impl Write for Limited {
    fn write_str(&mut self, s: &str) -> std::fmt::Result {
        if self.buf.len() + s.len() > self.limit {
            self.overflow = true;
            return Err(std::fmt::Error)
        }
        self.buf.push_str(s);
        Ok(())
    }
}

pub fn run(w: &[&str]) -> String {
    let input = match w.first().and_then(|h| unhex(h)) { Some(b) => b, None => return "bad-op".into() };
    let mut out = Limited { buf: String::new(), limit: 64 * input.len() + 4096, overflow: false };
    let r = write!(out, "{}", minicbor::display(&input));
    if out.overflow { return format!("overflow {}", out.buf.len()) }
    if r.is_err() { return "fmt-error".into() }
    hex(out.buf.as_bytes())
}


/// `displayf <hex>`: the same bytes rendered under format specifications other than `{}` (width, fill / alignment, precision, sign, zero
/// padding): the diagnostic notation is one text, no flag of the caller's `Formatter` reaches the items inside it.
/// `same <hex of the text>` or the first specification whose output differs.
pub fn run_f(w: &[&str]) -> String {
    let input = match w.first().and_then(|h| unhex(h)) { Some(b) => b, None => return "bad-op".into() };
    let lim = 64 * input.len() + 4096;
    let plain = { let mut o = Limited { buf: String::new(), limit: lim, overflow: false }; let _ = write!(o, "{}", minicbor::display(&input)); o.buf };
    macro_rules! chk { ($spec:literal) => {{
        let mut o = Limited { buf: String::new(), limit: lim, overflow: false };
        let _ = write!(o, $spec, minicbor::display(&input));
        if o.overflow || o.buf != plain { return format!("differs {} {}", $spec.replace(' ', "_"), hex(o.buf.as_bytes())) }
    }} }
    chk!("{:>6}"); chk!("{:<3}"); chk!("{:^9}"); chk!("{:*>12}"); chk!("{:.0}"); chk!("{:.3}"); chk!("{:+}"); chk!("{:04}"); chk!("{:#}"); chk!("{:1000}"); chk!("{:8.2}");
    let mut d = minicbor::Decoder::new(&input);
    let viatok = { let mut o = Limited { buf: String::new(), limit: lim, overflow: false }; let _ = write!(o, "{:>7.1}", d.tokens()); o.buf };
    if viatok != plain { return format!("differs tokens{{:>7.1}} {}", hex(viatok.as_bytes())) }
    format!("same {}", hex(plain.as_bytes()))
}

/// `displayat <pos> <hex>`: the Display of `Decoder::tokens()` taken from a decoder that has already been advanced to `pos`
/// (the second way to obtain a `Tokenizer`), next to `minicbor::display(&bytes[pos..])`: `<hex of text> | <hex of text>`.
pub fn run_at(w: &[&str]) -> String {
    if w.len() != 2 { return "bad-op".into() }
    let pos = match w[0].parse::<usize>() { Ok(p) => p, Err(_) => return "bad-op".into() };
    let input = match unhex(w[1]) { Some(b) => b, None => return "bad-op".into() };
    if pos > input.len() + 64 { return "bad-op".into() }          // a position beyond the end is legal (`set_position` does not check)
    let lim = 64 * input.len() + 4096;
    let mut a = Limited { buf: String::new(), limit: lim, overflow: false };
    let mut d = minicbor::Decoder::new(&input);
    d.set_position(pos);
    let ra = write!(a, "{}", d.tokens());
    let mut b = Limited { buf: String::new(), limit: lim, overflow: false };
    let rb = write!(b, "{}", minicbor::display(input.get(pos ..).unwrap_or(&[])));
    if a.overflow || b.overflow { return "overflow".into() }
    if ra.is_err() || rb.is_err() { return "fmt-error".into() }
    format!("{} | {}", hex(a.buf.as_bytes()), hex(b.buf.as_bytes()))
}

/// `cli <hex>`: the command line front end `cbor-display` (built from the repository's own bin target; path in `VERIF_CLI_BIN`) fed the
/// bytes on stdin and through `-f <file>`, next to `minicbor::display` of the same bytes in this process:
/// `<hex of stdout> | <hex of stdout> | <hex of display ++ newline>`.
pub fn run_cli(w: &[&str]) -> String {
    use std::io::Write as _;
    use std::process::{Command, Stdio};
    if w.len() != 1 { return "bad-op".into() }
    let input = match if w[0] == "-" { Some(Vec::new()) } else { unhex(w[0]) } { Some(b) => b, None => return "bad-op".into() };
    let bin = match std::env::var("VERIF_CLI_BIN") { Ok(b) => b, Err(_) => return "no-cli".into() };
    let via_stdin = (|| -> std::io::Result<Vec<u8>> {
        let mut c = Command::new(&bin).stdin(Stdio::piped()).stdout(Stdio::piped()).stderr(Stdio::null()).spawn()?;
        c.stdin.take().unwrap().write_all(&input)?;
        Ok(c.wait_with_output()?.stdout)
    })();
    let path = std::env::temp_dir().join(format!("verif-cli-{}.cbor", std::process::id()));
    let via_file = (|| -> std::io::Result<Vec<u8>> {
        std::fs::write(&path, &input)?;
        let o = Command::new(&bin).arg("-f").arg(&path).stdin(Stdio::null()).stderr(Stdio::null()).output()?;
        Ok(o.stdout)
    })();
    let _ = std::fs::remove_file(&path);
    let here = format!("{}\n", minicbor::display(&input));
    match (via_stdin, via_file) {
        (Ok(a), Ok(b)) => format!("{} | {} | {}", hex(&a), hex(&b), hex(here.as_bytes())),
        _ => "spawn-failed".into()
    }
}
