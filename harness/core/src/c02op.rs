//! C02 observations that need the real runtime: bytes allocated by a typed decode, and
//! exactly-once dropping of the elements decoded before a failure.
use std::alloc::{GlobalAlloc, Layout, System};
use std::sync::atomic::{AtomicUsize, Ordering};
use std::cell::Cell;

pub struct Counting;
pub static ALLOCATED: AtomicUsize = AtomicUsize::new(0);

/// live bytes; an operation that drives them past HARD_CAP is refused (null => `handle_alloc_error` aborts the
/// process, which the orchestrator attributes to the operation): a decoder that can be made to allocate without bound
/// must not take the machine down with it.
pub static LIVE: AtomicUsize = AtomicUsize::new(0);
pub const HARD_CAP: usize = 3 << 30;

unsafe impl GlobalAlloc for Counting {
    unsafe fn alloc(&self, l: Layout) -> *mut u8 {
        ALLOCATED.fetch_add(l.size(), Ordering::Relaxed);
        if LIVE.fetch_add(l.size(), Ordering::Relaxed) + l.size() > HARD_CAP { LIVE.fetch_sub(l.size(), Ordering::Relaxed); return std::ptr::null_mut() }
        System.alloc(l)
    }
    unsafe fn dealloc(&self, p: *mut u8, l: Layout) { LIVE.fetch_sub(l.size(), Ordering::Relaxed); System.dealloc(p, l) }
    unsafe fn realloc(&self, p: *mut u8, l: Layout, n: usize) -> *mut u8 {
        if n > l.size() {
            ALLOCATED.fetch_add(n - l.size(), Ordering::Relaxed);
            if LIVE.fetch_add(n - l.size(), Ordering::Relaxed) + (n - l.size()) > HARD_CAP { LIVE.fetch_sub(n - l.size(), Ordering::Relaxed); return std::ptr::null_mut() }
        } else {
            LIVE.fetch_sub(l.size() - n, Ordering::Relaxed);
        }
        System.realloc(p, l, n)
    }
}

/// `tdecm <rustname> <hex>`: like `tdec`, plus the number of bytes allocated while decoding and printing.
pub fn run_tdecm(w: &[&str]) -> String {
    crate::typed::PLAIN.with(|p| p.set(true));
    crate::typed::warm();
    let before = ALLOCATED.load(Ordering::Relaxed);
    let r = crate::typed::run_dec(w);
    let after = ALLOCATED.load(Ordering::Relaxed);
    crate::typed::PLAIN.with(|p| p.set(false));
    format!("{} alloc={}", r, after - before)
}

thread_local! {
    static CREATED: Cell<usize> = Cell::new(0);
    static DROPPED: Cell<usize> = Cell::new(0);
}

/// an element that counts its constructions and drops.
#[derive(PartialEq, Eq, PartialOrd, Ord, Hash)]
struct D(u8);
impl<'b, C> minicbor::Decode<'b, C> for D {
    fn decode(d: &mut minicbor::Decoder<'b>, _: &mut C) -> Result<Self, minicbor::decode::Error> {
        let v = d.u8()?;
        CREATED.with(|c| c.set(c.get() + 1));
        Ok(D(v))
    }
}
impl Drop for D { fn drop(&mut self) { DROPPED.with(|c| c.set(c.get() + 1)); } }

/// `dropcount <container> <hex>`: decode a container of counting elements, drop the result,
/// report `ok|err created=<n> dropped=<m>`; every created element must be dropped exactly once.
pub fn run_dropcount(w: &[&str]) -> String {
    let input = match w.get(1).and_then(|h| crate::util::unhex(h)) { Some(b) => b, None => return "bad-op".into() };
    CREATED.with(|c| c.set(0)); DROPPED.with(|c| c.set(0));
    let ok = match w[0] {
        "arr0" => minicbor::decode::<[D; 0]>(&input).is_ok(),
        "arr1" => minicbor::decode::<[D; 1]>(&input).is_ok(),
        "arr3" => minicbor::decode::<[D; 3]>(&input).is_ok(),
        "arr8" => minicbor::decode::<[D; 8]>(&input).is_ok(),
        "vec" => minicbor::decode::<Vec<D>>(&input).is_ok(),
        "deque" => minicbor::decode::<std::collections::VecDeque<D>>(&input).is_ok(),
        "bset" => minicbor::decode::<std::collections::BTreeSet<D>>(&input).is_ok(),
        "bmap" => minicbor::decode::<std::collections::BTreeMap<u8, D>>(&input).is_ok(),
        "hmap" => minicbor::decode::<std::collections::HashMap<u8, D>>(&input).is_ok(),
        "tup" => minicbor::decode::<(D, D, D)>(&input).is_ok(),
        "optarr" => minicbor::decode::<Option<[D; 2]>>(&input).is_ok(),
        "arrarr" => minicbor::decode::<[[D; 2]; 2]>(&input).is_ok(),
        "range" => minicbor::decode::<core::ops::Range<D>>(&input).is_ok(),
        _ => return "bad-op".into()
    };
    format!("{} created={} dropped={}", if ok { "ok" } else { "err" }, CREATED.with(|c| c.get()), DROPPED.with(|c| c.get()))
}
