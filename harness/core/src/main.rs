//! hcore: executes protocol lines against the real minicbor (std + half + derive).
//! One operation per input line, one canonical result line per operation.
mod util;
mod encop;
mod decop;
mod floatop;
mod dextra;
mod sinkop;
mod dispop;
mod intconv;
mod c02op;
mod typed;
mod tokop;

use std::io::{BufRead, Write};

#[global_allocator]
static GLOBAL: c02op::Counting = c02op::Counting;

const SMALL_STACK: usize = 192 * 1024;

// per-operation watchdog: an operation that runs longer than LIMIT_MS aborts the process (the orchestrator attributes
// the death to the operation): a loop that never ends must not hang the check
mod watchdog {
    use std::sync::atomic::{AtomicU64, Ordering};
    use std::time::{Duration, Instant};
    static DEADLINE: AtomicU64 = AtomicU64::new(0);      // ms since START at which the running op is overdue; 0 = idle
    static mut START: Option<Instant> = None;
    const LIMIT_MS: u64 = 120_000;
    fn now_ms() -> u64 { unsafe { (*std::ptr::addr_of!(START)).map(|s| s.elapsed().as_millis() as u64).unwrap_or(0) } }
    pub fn start() {
        unsafe { START = Some(Instant::now()); }
        std::thread::Builder::new().stack_size(64 * 1024).spawn(|| loop {
            std::thread::sleep(Duration::from_millis(500));
            let d = DEADLINE.load(Ordering::Relaxed);
            if d != 0 && now_ms() > d { eprintln!("watchdog: operation exceeded its time limit"); std::process::abort() }
        }).expect("watchdog");
    }
    pub fn begin() { DEADLINE.store(now_ms() + LIMIT_MS, Ordering::Relaxed) }
    pub fn end() { DEADLINE.store(0, Ordering::Relaxed) }
}

/// `iana all`: every `IanaTag` variant: `<name>=<u64::from(variant)>/<hex of Encoder::tag(variant)>/<IanaTag::try_from(Tag::new(that number))>`
fn iana() -> String {
    use minicbor::data::{IanaTag, Tag};
    let vs: [(&str, IanaTag); 41] = [("DateTime", IanaTag::DateTime), ("Timestamp", IanaTag::Timestamp), ("PosBignum", IanaTag::PosBignum), ("NegBignum", IanaTag::NegBignum), ("Decimal", IanaTag::Decimal), ("Bigfloat", IanaTag::Bigfloat), ("ToBase64Url", IanaTag::ToBase64Url), ("ToBase64", IanaTag::ToBase64), ("ToBase16", IanaTag::ToBase16), ("Cbor", IanaTag::Cbor), ("Uri", IanaTag::Uri), ("Base64Url", IanaTag::Base64Url), ("Base64", IanaTag::Base64), ("Regex", IanaTag::Regex), ("Mime", IanaTag::Mime), ("HomogenousArray", IanaTag::HomogenousArray), ("TypedArrayU8", IanaTag::TypedArrayU8), ("TypedArrayU8Clamped", IanaTag::TypedArrayU8Clamped), ("TypedArrayU16B", IanaTag::TypedArrayU16B), ("TypedArrayU32B", IanaTag::TypedArrayU32B), ("TypedArrayU64B", IanaTag::TypedArrayU64B), ("TypedArrayU16L", IanaTag::TypedArrayU16L), ("TypedArrayU32L", IanaTag::TypedArrayU32L), ("TypedArrayU64L", IanaTag::TypedArrayU64L), ("TypedArrayI8", IanaTag::TypedArrayI8), ("TypedArrayI16B", IanaTag::TypedArrayI16B), ("TypedArrayI32B", IanaTag::TypedArrayI32B), ("TypedArrayI64B", IanaTag::TypedArrayI64B), ("TypedArrayI16L", IanaTag::TypedArrayI16L), ("TypedArrayI32L", IanaTag::TypedArrayI32L), ("TypedArrayI64L", IanaTag::TypedArrayI64L), ("TypedArrayF16B", IanaTag::TypedArrayF16B), ("TypedArrayF32B", IanaTag::TypedArrayF32B), ("TypedArrayF64B", IanaTag::TypedArrayF64B), ("TypedArrayF128B", IanaTag::TypedArrayF128B), ("TypedArrayF16L", IanaTag::TypedArrayF16L), ("TypedArrayF32L", IanaTag::TypedArrayF32L), ("TypedArrayF64L", IanaTag::TypedArrayF64L), ("TypedArrayF128L", IanaTag::TypedArrayF128L), ("MultiDimArrayR", IanaTag::MultiDimArrayR), ("MultiDimArrayC", IanaTag::MultiDimArrayC)];
    vs.iter().map(|(n, v)| {
        let num = u64::from(*v);
        let mut e = minicbor::Encoder::new(Vec::new());
        let bytes = match e.tag(*v) { Ok(_) => util::hex(e.writer()), Err(_) => "err".into() };
        let back = match IanaTag::try_from(Tag::new(num)) { Ok(b) => format!("{:?}", b), Err(_) => "unknown".into() };
        format!("{}={}/{}/{}", n, num, bytes, back)
    }).collect::<Vec<_>>().join(",")
}

/// `intshow <i128>`: `Int::try_from(v)` rendered with Display / through `Token::Int` / Debug-free: `<text> | <text>`
fn intshow(w: &[&str]) -> String {
    let v = match w.first().and_then(|x| x.parse::<i128>().ok()) { Some(v) => v, None => return "bad-op".into() };
    match minicbor::data::Int::try_from(v) {
        Ok(i) => format!("{} | {}", i, minicbor::data::Token::Int(i)),
        Err(_) => "norep".into()
    }
}

/// `inteq <a> <b>`: `Int: PartialEq / Hash` on the two numbers (and on values decoded from their encodings): `eq` | `ne`, `sameHash` | `diffHash`
fn inteq(w: &[&str]) -> String {
    use std::hash::{Hash, Hasher};
    let p = |x: &&str| x.parse::<i128>().ok().and_then(|v| minicbor::data::Int::try_from(v).ok());
    let (a, b) = match (w.first().and_then(p), w.get(1).and_then(p)) { (Some(a), Some(b)) => (a, b), _ => return "bad-op".into() };
    let h = |i: &minicbor::data::Int| { let mut s = std::collections::hash_map::DefaultHasher::new(); i.hash(&mut s); s.finish() };
    let da = minicbor::to_vec(a).ok().and_then(|v| minicbor::decode::<minicbor::data::Int>(&v).ok());
    let db = minicbor::to_vec(b).ok().and_then(|v| minicbor::decode::<minicbor::data::Int>(&v).ok());
    let eq = a == b;
    if (b == a) != eq || da.zip(db).map(|(x, y)| x == y) != Some(eq) || da != Some(a) { return "inconsistent".into() }
    let mut set = std::collections::HashSet::new(); set.insert(a);
    if set.contains(&b) != eq { return "inconsistent-set".into() }
    format!("{} {}", if eq { "eq" } else { "ne" }, if h(&a) == h(&b) { "sameHash" } else { "diffHash" })
}

fn main() {
    watchdog::start();
    std::panic::set_hook(Box::new(|_| {}));
    if std::env::args().nth(1).as_deref() == Some("tlist") { typed::tlist(); return }
    let stdin = std::io::stdin();
    let stdout = std::io::stdout();
    let mut out = std::io::BufWriter::new(stdout.lock());
    for line in stdin.lock().lines() {
        watchdog::begin();
        let line = line.expect("stdin");
        let line = line.trim();
        if line.is_empty() || line.starts_with('#') { continue }
        let w: Vec<&str> = line.split(' ').filter(|x| !x.starts_with('#')).collect();
        // long operations (deep nests, long strings) run on a thread with a SMALL stack: the library's decoding,
        // skipping, tokenising and display loops keep their pending work on the heap, so their stack use must not
        // grow with the input; an implementation that recurses per nesting level dies here (the orchestrator
        // attributes the death to this line) instead of surviving on the 8 MiB main-thread stack
        // (values of the largest fixed-size byte arrays in the registry occupy 64 KiB and more of stack by themselves, several at a time)
        let big_value = w.len() > 1 && matches!(w[1], "ByteArray<65535>" | "ByteArray<65536>" | "ByteArray<70000>");
        let r = if line.len() > 600 && !big_value {
            let owned: Vec<String> = w.iter().map(|x| x.to_string()).collect();
            let h = std::thread::Builder::new().stack_size(SMALL_STACK).spawn(move || {
                let w: Vec<&str> = owned.iter().map(|x| x.as_str()).collect();
                util::guard(|| dispatch(&w)).unwrap_or_else(|| "panic".to_string())
            }).expect("spawn");
            h.join().unwrap_or_else(|_| "panic".to_string())
        } else {
            util::guard(|| dispatch(&w)).unwrap_or_else(|| "panic".to_string())
        };
        watchdog::end();
        writeln!(out, "{}", r).unwrap();
    }
}

fn dispatch(w: &[&str]) -> String {
    match w[0] {
        "enc" => encop::run(&w[1..]),
        "enciter" => encop::run_iter(&w[1..]),
        "dec" => decop::run(&w[1..]),
        "fblk" => floatop::run(&w[1..]),
        "fnarrow" => floatop::run_narrow(&w[1..]),
        "sink" => sinkop::run_raw(&w[1..]), "sinkenc" => sinkop::run_enc(&w[1..]), "sinkval" => sinkop::run_val(&w[1..]), "encseq" => sinkop::run_encseq(&w[1..]), "sinkiter" => sinkop::run_iter(&w[1..]), "sinkio" => sinkop::run_sinkio(&w[1..]), "givesup" => sinkop::run_givesup(&w[1..]), "sinktok" => sinkop::run_tok(&w[1..]),
        "display" => dispop::run(&w[1..]),
        "iana" => iana(),
        "intshow" => intshow(&w[1..]), "inteq" => inteq(&w[1..]),
        "cli" => dispop::run_cli(&w[1..]),
        "displayf" => dispop::run_f(&w[1..]),
        "displayat" => dispop::run_at(&w[1..]),
        "aiter" => decop::run_aiter(&w[1..]),
        "reuse" => decop::run_reuse(&w[1..]),
        "dextra" => dextra::run(&w[1..]),
        "intconv" => intconv::run(&w[1..]),
        "seq" => decop::run_seq(&w[1..]),
        "size" => decop::run_size(&w[1..]),
        "tdecm" => c02op::run_tdecm(&w[1..]),
        "dropcount" => c02op::run_dropcount(&w[1..]),
        "tenc" => typed::run_enc(&w[1..]),
        "tencpath" => typed::run_encpath(&w[1..]),
        "tdec" => typed::run_dec(&w[1..]),
        "tretry" => typed::run_retry(&w[1..]),
        "tsink" => typed::run_sink(&w[1..]),
        "tokenc" => tokop::run_enc(&w[1..]),
        "tokencs" => tokop::run_enc_split(&w[1..]),
        "tokdec" => tokop::run_dec(&w[1..]),
        "tokdec2" => tokop::run_dec2(&w[1..]),
        "tokcont" => tokop::run_cont(&w[1..]),
        _ => "bad-op".into()
    }
}
