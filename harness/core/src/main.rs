//! hcore: executes protocol lines against the real minicbor (std + half + derive).
//! One operation per input line, one canonical result line per operation.
mod util;
mod encop;
mod decop;

use std::io::{BufRead, Write};

fn main() {
    std::panic::set_hook(Box::new(|_| {}));
    let stdin = std::io::stdin();
    let stdout = std::io::stdout();
    let mut out = std::io::BufWriter::new(stdout.lock());
    for line in stdin.lock().lines() {
        let line = line.expect("stdin");
        let line = line.trim();
        if line.is_empty() || line.starts_with('#') { continue }
        let w: Vec<&str> = line.split(' ').filter(|x| !x.starts_with('#')).collect();
        let r = util::guard(|| dispatch(&w)).unwrap_or_else(|| "panic".to_string());
        writeln!(out, "{}", r).unwrap();
    }
}

fn dispatch(w: &[&str]) -> String {
    match w[0] {
        "enc" => encop::run(&w[1..]),
        "dec" => decop::run(&w[1..]),
        _ => "bad-op".into()
    }
}
