//! `dec <accessor> <hex>` -> `ok <value> <pos>` | `err <class> <pos>`.
use crate::util::*;
use minicbor::Decoder;
use minicbor::data::Type;

pub fn tyname(t: Type) -> String {
    match t {
        Type::Bool => "bool".into(), Type::Null => "null".into(), Type::Undefined => "undefined".into(),
        Type::U8 => "u8".into(), Type::U16 => "u16".into(), Type::U32 => "u32".into(), Type::U64 => "u64".into(),
        Type::I8 => "i8".into(), Type::I16 => "i16".into(), Type::I32 => "i32".into(), Type::I64 => "i64".into(),
        Type::Int => "int".into(), Type::F16 => "f16".into(), Type::F32 => "f32".into(), Type::F64 => "f64".into(),
        Type::Simple => "simple".into(), Type::Bytes => "bytes".into(), Type::BytesIndef => "bytes_indef".into(),
        Type::String => "string".into(), Type::StringIndef => "string_indef".into(), Type::Array => "array".into(),
        Type::ArrayIndef => "array_indef".into(), Type::Map => "map".into(), Type::MapIndef => "map_indef".into(),
        Type::Tag => "tag".into(), Type::Break => "break".into(), Type::Unknown(n) => format!("unknown({})", n),
    }
}

fn opt(o: Option<u64>) -> String { match o { None => "none".into(), Some(n) => format!("some:{}", n) } }

fn chunks<'a, E>(it: impl Iterator<Item = Result<&'a [u8], E>>) -> Result<String, E> {
    let mut v = Vec::new();
    for c in it { v.push(hex(c?)); }
    Ok(format!("[{}]", v.join(",")))
}

/// one accessor call on an existing decoder.
pub fn call<'b>(d: &mut Decoder<'b>, name: &str) -> Option<Result<String, minicbor::decode::Error>> {
    Some(match name {
        "bool" => d.bool().map(|x| (x as u8).to_string()),
        "u8" => d.u8().map(|x| x.to_string()),
        "u16" => d.u16().map(|x| x.to_string()),
        "u32" => d.u32().map(|x| x.to_string()),
        "u64" => d.u64().map(|x| x.to_string()),
        "i8" => d.i8().map(|x| x.to_string()),
        "i16" => d.i16().map(|x| x.to_string()),
        "i32" => d.i32().map(|x| x.to_string()),
        "i64" => d.i64().map(|x| x.to_string()),
        "int" => d.int().map(|x| i128::from(x).to_string()),
        "f16" => d.f16().map(|x| format!("{:08x}", x.to_bits())),
        "f32" => d.f32().map(|x| format!("{:08x}", x.to_bits())),
        "f64" => d.f64().map(|x| format!("{:016x}", x.to_bits())),
        "char" => d.char().map(|x| (x as u32).to_string()),
        "bytes" => d.bytes().map(hex),
        "str" => d.str().map(|s| hex(s.as_bytes())),
        "bytes_iter" => d.bytes_iter().and_then(|it| chunks(it)),
        "str_iter" => d.str_iter().and_then(|it| chunks(it.map(|r| r.map(|s| s.as_bytes())))),
        "array" => d.array().map(opt),
        "map" => d.map().map(opt),
        "tag" => d.tag().map(|t| t.as_u64().to_string()),
        "null" => d.null().map(|_| "()".into()),
        "undefined" => d.undefined().map(|_| "()".into()),
        "simple" => d.simple().map(|x| x.to_string()),
        "datatype" => d.datatype().map(tyname),
        "skip" => d.skip().map(|_| "()".into()),
        _ => return None
    })
}

pub fn run(w: &[&str]) -> String {
    let input = match w.get(1).and_then(|h| unhex(h)) { Some(b) => b, None => return "bad-op".into() };
    let mut d = Decoder::new(&input);
    let r = match call(&mut d, w[0]) { Some(r) => r, None => return "bad-op".into() };
    match r {
        Ok(v) => format!("ok {} {}", v, d.position()),
        Err(e) => format!("err {} {}", dclass(&e), d.position())
    }
}

/// `seq <hex> <call> <call> …`: a short sequence of calls on ONE decoder; a call is an accessor
/// name, `setpos:<n>` or `probe:<accessor>`.  Result: the per-call results joined by `;`.
pub fn run_seq(w: &[&str]) -> String {
    let input = match w.first().and_then(|h| unhex(h)) { Some(b) => b, None => return "bad-op".into() };
    let mut d = Decoder::new(&input);
    let mut out = Vec::new();
    for c in &w[1..] {
        if let Some(n) = c.strip_prefix("setpos:") {
            match n.parse::<usize>() { Ok(n) => d.set_position(n), Err(_) => return "bad-op".into() }
            out.push(format!("pos {}", d.position()));
            continue
        }
        if let Some(a) = c.strip_prefix("probe:") {
            let mut p = d.probe();
            let r = match call(&mut p, a) { Some(r) => r, None => return "bad-op".into() };
            let pp = p.position();
            drop(p);
            out.push(match r {
                Ok(v) => format!("ok {} {} {}", v, pp, d.position()),
                Err(e) => format!("err {} {} {}", dclass(&e), pp, d.position())
            });
            continue
        }
        let r = match call(&mut d, c) { Some(r) => r, None => return "bad-op".into() };
        out.push(match r {
            Ok(v) => format!("ok {} {}", v, d.position()),
            Err(e) => format!("err {} {}", dclass(&e), d.position())
        });
    }
    out.join(";")
}

/// `size head <byte>` / `size tail <hex>`: `decode::info::Size`.
pub fn run_size(w: &[&str]) -> String {
    use minicbor::decode::info::Size;
    let b = match w.get(1).and_then(|h| unhex(h)) { Some(b) => b, None => return "bad-op".into() };
    match w[0] {
        "head" => { if b.len() != 1 { return "bad-op".into() }
            match Size::head(b[0]) { Ok(n) => format!("ok {}", n), Err(e) => format!("err {}", dclass(&e)) } }
        "tail" => match Size::tail(&b) {
            Ok(Size::Head) => "ok head".into(), Ok(Size::Bytes(n)) => format!("ok bytes:{}", n),
            Ok(Size::Items(n)) => format!("ok items:{}", n), Ok(Size::Indef) => "ok indef".into(),
            Err(e) => format!("err {}", dclass(&e)) },
        _ => "bad-op".into()
    }
}
