//! `dec <accessor> <hex>` -> `ok <value> <pos>` | `err <class> <pos>`.
use crate::util::*;
use minicbor::Decoder;
use minicbor::data::Type;

pub fn tyname(t: Type) -> String {
    match t {
        Type::Bool => "bool".into(), Type::Null => "null".into(), Type::Undefined => "undefined".into(),
        Type::U8 => "u8".into(), Type::U16 => "u16".into(), Type::U32 => "u32".into(), Type::U64 => "u64".into(),
        Type::I8 => "i8".into(), Type::I16 => "i16".into(), Type::I32 => "i32".into(), Type::I64 => "i64".into(),
        Type::Int => "int".into(), Type::F16 => "f16".into(), Type::F32 => "f32".into(), Type::F64 => "f64".into(),
        Type::Simple => "simple".into(), Type::Bytes => "bytes".into(), Type::BytesIndef => "bytes_indef".into(),
        Type::String => "string".into(), Type::StringIndef => "string_indef".into(), Type::Array => "array".into(),
        Type::ArrayIndef => "array_indef".into(), Type::Map => "map".into(), Type::MapIndef => "map_indef".into(),
        Type::Tag => "tag".into(), Type::Break => "break".into(), Type::Unknown(n) => format!("unknown({})", n),
    }
}

fn opt(o: Option<u64>) -> String { match o { None => "none".into(), Some(n) => format!("some:{}", n) } }

fn chunks<'a, E>(it: impl Iterator<Item = Result<&'a [u8], E>>) -> Result<String, E> {
    let mut v = Vec::new();
    for c in it { v.push(hex(c?)); }
    Ok(format!("[{}]", v.join(",")))
}

/// one accessor call on an existing decoder.
pub fn call<'b>(d: &mut Decoder<'b>, name: &str) -> Option<Result<String, minicbor::decode::Error>> {
    Some(match name {
        "bool" => d.bool().map(|x| (x as u8).to_string()),
        "u8" => d.u8().map(|x| x.to_string()),
        "u16" => d.u16().map(|x| x.to_string()),
        "u32" => d.u32().map(|x| x.to_string()),
        "u64" => d.u64().map(|x| x.to_string()),
        "i8" => d.i8().map(|x| x.to_string()),
        "i16" => d.i16().map(|x| x.to_string()),
        "i32" => d.i32().map(|x| x.to_string()),
        "i64" => d.i64().map(|x| x.to_string()),
        "int" => d.int().map(|x| i128::from(x).to_string()),
        "f16" => d.f16().map(|x| format!("{:08x}", x.to_bits())),
        "f32" => d.f32().map(|x| format!("{:08x}", x.to_bits())),
        "f64" => d.f64().map(|x| format!("{:016x}", x.to_bits())),
        "char" => d.char().map(|x| (x as u32).to_string()),
        "bytes" => d.bytes().map(hex),
        "str" => d.str().map(|s| hex(s.as_bytes())),
        "bytes_iter" => d.bytes_iter().and_then(|it| chunks(it)),
        "str_iter" => d.str_iter().and_then(|it| chunks(it.map(|r| r.map(|s| s.as_bytes())))),
        "array" => d.array().map(opt),
        "map" => d.map().map(opt),
        "tag" => d.tag().map(|t| t.as_u64().to_string()),
        "null" => d.null().map(|_| "()".into()),
        "undefined" => d.undefined().map(|_| "()".into()),
        "simple" => d.simple().map(|x| x.to_string()),
        "datatype" => d.datatype().map(tyname),
        "skip" => d.skip().map(|_| "()".into()),
        _ => return None
    })
}

pub fn run(w: &[&str]) -> String {
    let input = match w.get(1).and_then(|h| unhex(h)) { Some(b) => b, None => return "bad-op".into() };
    let mut d = Decoder::new(&input);
    let r = match call(&mut d, w[0]) { Some(r) => r, None => return "bad-op".into() };
    match r {
        Ok(v) => format!("ok {} {}", v, d.position()),
        Err(e) => format!("err {} {}", dclass(&e), d.position())
    }
}

/// `seq <hex> <call> <call> …`: a short sequence of calls on ONE decoder; a call is an accessor
/// name, `setpos:<n>` or `probe:<accessor>`.  Result: the per-call results joined by `;`.
pub fn run_seq(w: &[&str]) -> String {
    let input = match w.first().and_then(|h| unhex(h)) { Some(b) => b, None => return "bad-op".into() };
    let mut d = Decoder::new(&input);
    let mut out = Vec::new();
    for c in &w[1..] {
        if let Some(n) = c.strip_prefix("setpos:") {
            match n.parse::<usize>() { Ok(n) => d.set_position(n), Err(_) => return "bad-op".into() }
            out.push(format!("pos {}", d.position()));
            continue
        }
        if let Some(a) = c.strip_prefix("probe:") {
            let mut p = d.probe();
            let r = match call(&mut p, a) { Some(r) => r, None => return "bad-op".into() };
            let pp = p.position();
            drop(p);
            out.push(match r {
                Ok(v) => format!("ok {} {} {}", v, pp, d.position()),
                Err(e) => format!("err {} {} {}", dclass(&e), pp, d.position())
            });
            continue
        }
        let r = match call(&mut d, c) { Some(r) => r, None => return "bad-op".into() };
        out.push(match r {
            Ok(v) => format!("ok {} {}", v, d.position()),
            Err(e) => format!("err {} {}", dclass(&e), d.position())
        });
    }
    out.join(";")
}

/// `size head <byte>` / `size tail <hex>`: `decode::info::Size`.
pub fn run_size(w: &[&str]) -> String {
    use minicbor::decode::info::Size;
    let b = match w.get(1).and_then(|h| unhex(h)) { Some(b) => b, None => return "bad-op".into() };
    match w[0] {
        "head" => { if b.len() != 1 { return "bad-op".into() }
            match Size::head(b[0]) { Ok(n) => format!("ok {}", n), Err(e) => format!("err {}", dclass(&e)) } }
        "tail" => match Size::tail(&b) {
            Ok(Size::Head) => "ok head".into(), Ok(Size::Bytes(n)) => format!("ok bytes:{}", n),
            Ok(Size::Items(n)) => format!("ok items:{}", n), Ok(Size::Indef) => "ok indef".into(),
            Err(e) => format!("err {}", dclass(&e)) },
        _ => "bad-op".into()
    }
}


/// `aiter <array|map> <adaptor> <hex>`: `Decoder::array_iter::<u8>()` / `map_iter::<u8, u8>()` driven through an iterator
/// adaptor, next to the same thing done with plain `next()` calls on a second decoder (what the adaptor is defined to
/// mean: `nth(n)` = n+1 calls of `next`, `skip(n)` = n calls then the rest, `step_by(k)` = every k-th, `last`, `count`).
/// adaptor: `all` | `nth:<n>` | `skip:<n>` | `step:<k>` | `take:<n>` | `last` | `count`
/// Output: `<adaptor transcript> @<pos> | <reference transcript> @<pos>`; items are `<v>` / `<k>=<v>` / `E:<class>`.
pub fn run_aiter(w: &[&str]) -> String {
    if w.len() != 3 { return "bad-op".into() }
    let input = match unhex(w[2]) { Some(b) => b, None => return "bad-op".into() };
    let (ad, arg) = match w[1].split_once(':') { Some((a, n)) => (a, n.parse::<usize>().ok()), None => (w[1], None) };
    let arg = arg.unwrap_or(0);
    if arg > 100000 { return "bad-op".into() }
    fn item<T: std::fmt::Display>(r: Result<T, minicbor::decode::Error>) -> String {
        match r { Ok(v) => v.to_string(), Err(e) => format!("E:{}", dclass(&e)) }
    }
    struct KV(u8, u8);
    impl std::fmt::Display for KV { fn fmt(&self, f: &mut std::fmt::Formatter) -> std::fmt::Result { write!(f, "{}={}", self.0, self.1) } }
    // drive an iterator of results through the adaptor (a) and through plain next() calls (b); stop after an error
    // (an iterator over an indefinite container may keep answering with errors) and after 4096 items
    fn through<T, I: Iterator<Item = Result<T, minicbor::decode::Error>>>(mut it: I, f: fn(Result<T, minicbor::decode::Error>) -> String, ad: &str, n: usize, reference: bool) -> Option<Vec<String>> {
        // the adaptor is applied to the library's iterator itself (an `nth` / `size_hint` / `fold` it overrides is what runs)
        let cap = 4096;
        let mut out = Vec::new();
        macro_rules! push { ($x:expr) => {{ let x: String = $x; let stop = x.starts_with("E:"); out.push(x); if stop || out.len() >= cap { return Some(out) } }} }
        match (ad, reference) {
            ("all", _) => { while let Some(x) = it.next() { push!(f(x)) } }
            // `allx`: carries on after elements that failed (a failed element is consumed like any other), at most 48 answers
            ("allx", _) => { while let Some(x) = it.next() { out.push(f(x)); if out.len() >= 48 { break } } }
            ("nth", false) => { match it.nth(n) { Some(x) => push!(f(x)), None => out.push("none".into()) } while let Some(x) = it.next() { push!(f(x)) } }
            ("nth", true) => {
                // n items are consumed and dropped whatever they are (errors included), the next one is the answer
                let mut last = None;
                for _ in 0 ..= n { last = it.next(); if last.is_none() { break } }
                match last { Some(x) => push!(f(x)), None => out.push("none".into()) }
                while let Some(x) = it.next() { push!(f(x)) }
            }
            ("skip", false) => { for x in it.skip(n) { push!(f(x)) } }
            ("skip", true) => {
                for _ in 0 .. n { if it.next().is_none() { return Some(out) } }
                while let Some(x) = it.next() { push!(f(x)) }
            }
            ("step", false) => { if n == 0 { return None } for x in it.step_by(n) { push!(f(x)) } }
            ("step", true) => {
                if n == 0 { return None }
                let mut i = 0usize;
                while let Some(x) = it.next() { if i % n == 0 { push!(f(x)) } i += 1; if i > 1 << 20 { break } }
            }
            ("take", false) => { for x in it.by_ref().take(n) { push!(f(x)) } out.push("|".into()); while let Some(x) = it.next() { push!(f(x)) } }
            ("take", true) => { for _ in 0 .. n { match it.next() { Some(x) => push!(f(x)), None => break } } out.push("|".into()); while let Some(x) = it.next() { push!(f(x)) } }
            ("last", false) => { match it.last() { Some(x) => out.push(f(x)), None => out.push("none".into()) } }
            ("last", true) => { let mut l = None; while let Some(x) = it.next() { l = Some(x) } out.push(l.map(f).unwrap_or("none".into())) }
            ("count", false) => { out.push(it.count().to_string()) }
            ("count", true) => { let mut c = 0usize; while let Some(_) = it.next() { c += 1; if c >= 1 << 20 { break } } out.push(c.to_string()) }
            // `fuse()`: after the first `None` the inner iterator is not asked again (unless it claims to be fused itself, in which
            // case `Fuse` forwards every call: then it had better be)
            ("fuse", false) => { let mut fz = it.fuse(); while let Some(x) = fz.next() { push!(f(x)) } for _ in 0 .. n { match fz.next() { Some(x) => push!(f(x)), None => out.push("none".into()) } } }
            ("fuse", true) => { while let Some(x) = it.next() { push!(f(x)) } for _ in 0 .. n { out.push("none".into()) } }
            ("hint", _) => { let h = it.size_hint(); out.push(format!("{}..{}", h.0, h.1.map(|x| x.to_string()).unwrap_or("inf".into()))); let mut c = 0usize; while let Some(x) = it.next() { c += 1; if x.is_err() { break } } out.push(c.to_string()) }
            _ => return None
        }
        Some(out)
    }
    fn kv(r: Result<(u8, u8), minicbor::decode::Error>) -> String { item(r.map(|(k, v)| KV(k, v))) }
    let mut res = Vec::new();
    for reference in [false, true] {
        let mut d = Decoder::new(&input);
        let tr = match w[0] {
            "array" => match d.array_iter::<u8>() {
                Ok(it) => through(it, item::<u8>, ad, arg, reference),
                Err(e) => Some(vec![format!("open:E:{}", dclass(&e))])
            },
            "arrayc" => {
                // (the result is bound before the block ends: the iterator — which may have a destructor — must not outlive `ctx`)
                let mut ctx = ();
                let r = match d.array_iter_with::<(), u8>(&mut ctx) {
                    Ok(it) => through(it, item::<u8>, ad, arg, reference),
                    Err(e) => Some(vec![format!("open:E:{}", dclass(&e))]) };
                r
            }
            "map" => match d.map_iter::<u8, u8>() {
                Ok(it) => through(it, kv, ad, arg, reference),
                Err(e) => Some(vec![format!("open:E:{}", dclass(&e))])
            },
            _ => None
        };
        // `count` / `last` with an error inside an indefinite container do not terminate by contract: those scripts are not generated
        match tr { Some(t) => res.push(format!("{} @{}", if t.is_empty() { "-".into() } else { t.join(",") }, d.position())), None => return "bad-op".into() }
    }
    format!("{} | {}", res[0], res[1])
}

/// `reuse <hex> <step>,<step>,...`: ONE `Decoder` over the buffer is driven through the whole script (a step = `<pos>:<what>`: `set_position(pos)`,
/// then one typed decode / accessor / partial iteration), next to a FRESH decoder per step.  A decoder is its input and a position:
/// whatever happened before on the same object (failed decodes, abandoned iterators, probes) must not change what a step answers.
/// `<n same> <first differing step: reused => fresh | ->`.
pub fn run_reuse(w: &[&str]) -> String {
    use std::collections::{BTreeMap, HashMap, VecDeque, BinaryHeap};
    if w.len() != 2 { return "bad-op".into() }
    let input = match unhex(w[0]) { Some(b) => b, None => return "bad-op".into() };
    fn fin<T: std::fmt::Debug>(r: Result<T, minicbor::decode::Error>, d: &Decoder<'_>) -> String {
        match r { Ok(v) => format!("ok:{:?}@{}", v, d.position()), Err(e) => format!("err:{}@{}", dclass(&e), d.position()) }
    }
    fn step<'b>(d: &mut Decoder<'b>, what: &str) -> Option<String> {
        Some(match what {
            "vu8" => { let r = d.decode::<Vec<u8>>(); fin(r, d) }
            "vvs" => { let r = d.decode::<Vec<Vec<String>>>(); fin(r, d) }
            "dq" => { let r = d.decode::<VecDeque<Option<u16>>>(); fin(r, d) }
            "bh" => { let r = d.decode::<BinaryHeap<u8>>().map(|h| h.into_sorted_vec()); fin(r, d) }
            "mu" => { let r = d.decode::<BTreeMap<u8, u8>>(); fin(r, d) }
            "hm" => { let r = d.decode::<HashMap<u8, Vec<u8>>>().map(|h| h.into_iter().collect::<BTreeMap<_, _>>()); fin(r, d) }
            "a3" => { let r = d.decode::<[u8; 3]>(); fin(r, d) }
            "t2" => { let r = d.decode::<(u8, Vec<u8>)>(); fin(r, d) }
            "ou" => { let r = d.decode::<Option<Vec<u8>>>(); fin(r, d) }
            "s" => { let r = d.str().map(|s| s.len()); fin(r, d) }
            "int" => { let r = d.int().map(i128::from); fin(r, d) }
            "tok" => { let r = d.decode::<minicbor::data::Token<'_>>().map(|t| crate::tokop::show(&t)); fin(r, d) }
            "ai1" => { let r = d.array_iter::<u8>().map(|mut it| it.next().map(|x| x.map_err(|e| dclass(&e)))); fin(r, d) }       // abandoned after one element
            "mi1" => { let r = d.map_iter::<u8, u8>().map(|mut it| it.next().map(|x| x.map_err(|e| dclass(&e)))); fin(r, d) }
            "bi1" => { let r = d.bytes_iter().map(|mut it| it.next().map(|x| x.map(|b| b.len()).map_err(|e| dclass(&e)))); fin(r, d) }
            // iterators that are created and dropped before their first `next()`, or after one item: what dropping does is the decoder's business too
            "bi0" => { let r = d.bytes_iter().map(|it| drop(it)); fin(r, d) }
            "si0" => { let r = d.str_iter().map(|it| drop(it)); fin(r, d) }
            "si1" => { let r = d.str_iter().map(|mut it| it.next().map(|x| x.map(|b| b.len()).map_err(|e| dclass(&e)))); fin(r, d) }
            "ai0" => { let r = d.array_iter::<u8>().map(|it| drop(it)); fin(r, d) }
            "mi0" => { let r = d.map_iter::<u8, u8>().map(|it| drop(it)); fin(r, d) }
            "bit0" => { let r = d.bytes_iter().map(|it| it.take(0).count()); fin(r, d) }
            "toks3" => { let v: Vec<String> = d.tokens().take(3).map(|t| match t { Ok(t) => crate::tokop::show(&t), Err(e) => format!("E:{}", dclass(&e)) }).collect(); format!("ok:{:?}@{}", v, d.position()) }
            "probe" => { let r = d.probe().array(); fin(r, d) }
            "skip" => { let r = d.skip(); fin(r, d) }
            "dt" => { let r = d.datatype().map(tyname); fin(r, d) }
            x if x.starts_with("x-") => { let r = call(d, &x[2..])?; fin(r, d) }                      // any plain accessor of `dec`
            _ => return None
        })
    }
    let mut d = Decoder::new(&input);
    let mut same = 0usize;
    for st in w[1].split(',') {
        let (p, what) = match st.split_once(':') { Some((p, x)) => (p, x), None => return "bad-op".into() };
        let pos = match p.parse::<usize>() { Ok(p) if p <= input.len() => p, _ => return "bad-op".into() };
        d.set_position(pos);
        let a = match step(&mut d, what) { Some(a) => a, None => return "bad-op".into() };
        let mut f = Decoder::new(&input);
        f.set_position(pos);
        let b = step(&mut f, what).unwrap();
        if a != b { return format!("{} {}: {} => {}", same, st, a, b) }
        // no call moves a decoder that stood inside its input to a position beyond the input's end (only `set_position` can put it there)
        if d.position() > input.len() { return format!("{} {}: position {} beyond the {} bytes of input", same, st, d.position(), input.len()) }
        same += 1;
    }
    format!("{} -", same)
}
