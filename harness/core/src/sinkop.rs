//! C13: the real sinks of `minicbor::encode::write`.
//!
//! `sink <kind> <cap> <chunk-hex>…`       raw `write_all` calls (carrying on after failures)
//! `sinkenc <kind> <cap> <method[:arg]>…` the calls chained on one `Encoder` over the sink (`?` semantics:
//!                                         the first failing call ends the encoding)
//! `sinkval <kind> <cap> <type>:<value>`  `Encoder::new(sink).encode(value)` (= `minicbor::encode`) for a few concrete types
//!
//! kinds: `slice` (`&mut [u8]`), `cslice` (`Cursor<&mut [u8]>`), `carray` (`Cursor<[u8; N]>`, N = cap ≤ 40),
//!        `cbox` (`Cursor<Box<[u8]>>`), `vec` (`Vec<u8>`), `tovec[w][h|b|n]` (`minicbor::to_vec[_with]`, sinkval only; h: after failed
//!        calls on this thread, b: after a big successful one, n: nested inside another `to_vec`), `io:<step>` (`Writer<Limited>`, a `std::io::Write`
//!        accepting at most `step` bytes per `write` call and `cap` bytes in total; `write_all` is std's default loop).
//!
//! The buffer is filled with 0xEE and lies between two 16-byte canary regions (0xA5… / 0x5A…): inside one
//! allocation for `slice`, `cslice`, `io`; as neighbouring fields of a `#[repr(C)]` struct for `carray`.
//! A `Box<[u8]>` is its own heap allocation and has no neighbours to guard (`canary=ok` is printed
//! unconditionally for `cbox` and `vec`).
//!
//! Output: `<status> pos=<position> buf=<hex of the buffer> canary=ok|clobbered`
//!   sink:    status = `seq:<r1>,<r2>,…` with r_i = `ok` | `err`   (`seq:-` if there are no calls)
//!   sinkenc / sinkval: status = `ok` | `err <class>`
//! `pos`: `Cursor::position()`; for `slice` cap − the remaining slice's length; `vec`: its length; `io`: bytes the
//! inner writer accepted.
use crate::util::*;
use minicbor::encode::write::{Cursor, Writer};
use minicbor::encode::{Error, Write};
use minicbor::{data::{Int, Tag}, Encoder};

const G: usize = 16;
const FILL: u8 = 0xEE;

fn guarded(cap: usize) -> Vec<u8> {
    let mut m = vec![FILL; cap + 2 * G];
    for i in 0 .. G { m[i] = 0xA5 ^ i as u8; m[G + cap + i] = 0x5A ^ i as u8; }
    m
}

fn canary_ok(m: &[u8], cap: usize) -> bool {
    m.len() == cap + 2 * G && (0 .. G).all(|i| m[i] == 0xA5 ^ i as u8 && m[G + cap + i] == 0x5A ^ i as u8)
}

/// A `std::io::Write` with a total capacity and a per-call limit; only `write` and `flush` are implemented,
/// so `write_all` is std's default loop.
struct Limited<'a> { buf: &'a mut [u8], pos: usize, step: usize }

impl<'a> std::io::Write for Limited<'a> {
    fn write(&mut self, b: &[u8]) -> std::io::Result<usize> {
        let n = self.step.min(self.buf.len() - self.pos).min(b.len());
        self.buf[self.pos .. self.pos + n].copy_from_slice(&b[.. n]);
        self.pos += n;
        Ok(n)
    }
    fn flush(&mut self) -> std::io::Result<()> { Ok(()) }
}

#[repr(C)]
struct GuardedArray<const N: usize> { left: [u8; G], cur: Cursor<[u8; N]>, right: [u8; G] }

enum Call<'a> { Raw(Vec<Vec<u8>>), Enc(&'a [&'a str]), Val(&'a str), Iter(&'a str, &'a str, Vec<u32>), Tok(&'a str) }

/// one Encoder method call `name[:arg]`.
fn apply<W: Write>(e: &mut Encoder<W>, call: &str) -> Option<Result<(), Error<W::Error>>> {
    let (m, a) = match call.split_once(':') { Some((m, a)) => (m, a), None => (call, "") };
    macro_rules! num { ($t:ty) => { a.parse::<$t>().ok()? } }
    macro_rules! bits { ($t:ty) => { <$t>::from_str_radix(a, 16).ok()? } }
    Some(match m {
        "u8"  => e.u8(num!(u8)).map(|_| ()),
        "u16" => e.u16(num!(u16)).map(|_| ()),
        "u32" => e.u32(num!(u32)).map(|_| ()),
        "u64" => e.u64(num!(u64)).map(|_| ()),
        "i8"  => e.i8(num!(i8)).map(|_| ()),
        "i16" => e.i16(num!(i16)).map(|_| ()),
        "i32" => e.i32(num!(i32)).map(|_| ()),
        "i64" => e.i64(num!(i64)).map(|_| ()),
        "int" => e.int(Int::try_from(num!(i128)).ok()?).map(|_| ()),
        "simple" => e.simple(num!(u8)).map(|_| ()),
        "f16" => e.f16(f32::from_bits(bits!(u32))).map(|_| ()),
        "f32" => e.f32(f32::from_bits(bits!(u32))).map(|_| ()),
        "f64" => e.f64(f64::from_bits(bits!(u64))).map(|_| ()),
        "bool" => e.bool(a == "1").map(|_| ()),
        "char" => e.char(char::from_u32(num!(u32))?).map(|_| ()),
        "tag" => e.tag(Tag::new(num!(u64))).map(|_| ()),
        "bytes" => e.bytes(&unhex(a)?).map(|_| ()),
        "str" => e.str(&String::from_utf8(unhex(a)?).ok()?).map(|_| ()),
        "array" => e.array(num!(u64)).map(|_| ()),
        "map" => e.map(num!(u64)).map(|_| ()),
        "null" => e.null().map(|_| ()),
        "undefined" => e.undefined().map(|_| ()),
        "begin_array" => e.begin_array().map(|_| ()),
        "begin_bytes" => e.begin_bytes().map(|_| ()),
        "begin_map" => e.begin_map().map(|_| ()),
        "begin_str" => e.begin_str().map(|_| ()),
        "end" => e.end().map(|_| ()),
        _ => return None
    })
}

/// run the calls on the sink; `None` = malformed op.
fn drive<W: Write>(w: W, call: &Call) -> Option<(String, W)> {
    match call {
        Call::Raw(chunks) => {
            let mut w = w;
            let mut rs = Vec::new();
            for c in chunks { rs.push(if w.write_all(c).is_ok() { "ok" } else { "err" }); }
            Some((format!("seq:{}", if rs.is_empty() { "-".into() } else { rs.join(",") }), w))
        }
        Call::Enc(calls) => {
            let mut e = Encoder::new(w);
            let mut status = "ok".to_string();
            for c in calls.iter() {
                match apply(&mut e, c)? {
                    Ok(()) => {}
                    Err(x) => { status = format!("err {}", eclass(&x)); break }
                }
            }
            Some((status, e.into_writer()))
        }
        Call::Val(v) => with_value(v, EncInto(w)),
        Call::Tok(list) => {
            // ONE `Encoder::tokens` call with the whole list (indefinite containers open when the sink runs out)
            let owned: Vec<crate::tokop::OTok> = if *list == "-" { Vec::new() } else { list.split(',').map(crate::tokop::parse).collect::<Option<_>>()? };
            let toks: Vec<minicbor::data::Token<'_>> = owned.iter().map(crate::tokop::OTok::borrow).collect();
            let mut e = Encoder::new(w);
            let st = match e.tokens(toks.iter()) { Ok(()) => "ok".to_string(), Err(x) => format!("err {}", eclass(&x)) };
            Some((st, e.into_writer()))
        }
        Call::Iter(kind, mode, vals) => {
            // `encode::ArrayIter` / `MapIter` over iterators whose size hint is exact, loose (upper bound only) or over-estimating
            use minicbor::encode::{ArrayIter, MapIter};
            let pairs: Vec<(u32, u32)> = vals.iter().enumerate().map(|(i, v)| (i as u32, *v)).collect();
            let mut e = Encoder::new(w);
            let r = match (*kind, *mode) {
                ("array", "exact") => e.encode(ArrayIter::new(vals.iter())).map(|_| ()),
                ("array", "loose") => e.encode(ArrayIter::new(vals.iter().filter(|_| true))).map(|_| ()),
                ("array", "even")  => e.encode(ArrayIter::new(vals.iter().filter(|x| **x % 2 == 0))).map(|_| ()),
                ("map", "exact") => e.encode(MapIter::new(pairs.iter().map(|p| (p.0, p.1)))).map(|_| ()),
                ("map", "loose") => e.encode(MapIter::new(pairs.iter().map(|p| (p.0, p.1)).filter(|_| true))).map(|_| ()),
                ("map", "even")  => e.encode(MapIter::new(pairs.iter().map(|p| (p.0, p.1)).filter(|p| p.1 % 2 == 0))).map(|_| ()),
                _ => return None
            };
            let st = match r { Ok(()) => "ok".to_string(), Err(x) => format!("err {}", eclass(&x)) };
            Some((st, e.into_writer()))
        }
    }
}

/// A computation over "the value denoted by `<type>:<value>`", whatever its Rust type is.
trait ValVisitor { type Out; fn visit<T: minicbor::Encode<()>>(self, x: T) -> Self::Out; }

/// `minicbor::encode(&value, sink)` (through `Encoder::encode`, so that the sink can be inspected afterwards).
struct EncInto<W>(W);
impl<W: Write> ValVisitor for EncInto<W> {
    type Out = (String, W);
    fn visit<T: minicbor::Encode<()>>(self, x: T) -> (String, W) {
        let mut e = Encoder::new(self.0);
        let st = match e.encode(x) { Ok(_) => "ok".to_string(), Err(x) => format!("err {}", eclass(&x)) };
        (st, e.into_writer())
    }
}

/// writes one byte and then gives up with a message error (the only way `to_vec` can fail: `Vec` never does)
struct GivesUp;
impl<C> minicbor::Encode<C> for GivesUp {
    fn encode<W: Write>(&self, e: &mut Encoder<W>, _: &mut C) -> Result<(), Error<W::Error>> {
        e.u8(7)?;
        Err(Error::message("giving up"))
    }
}

/// `givesup <k>`: `minicbor::to_vec` / `to_vec_with` of a value whose encoding fails after `k` + 2 bytes have been written, on the thread
/// the following operations run on (what a failed call leaves behind must not show in their results): `err` / `ok`
pub fn run_givesup(w: &[&str]) -> String {
    let k = match w.first().and_then(|x| x.parse::<usize>().ok()) { Some(k) if k <= 100_000 => k, _ => return "bad-op".into() };
    let a = minicbor::to_vec((minicbor::bytes::ByteVec::from(vec![0x5a; k]), GivesUp)).is_err();
    let b = minicbor::to_vec_with((vec![0x17u8; k.min(2000)], 2u8, GivesUp), &mut ()).is_err();
    if a && b { "err".into() } else { "ok".into() }
}

/// `minicbor::to_vec` / `to_vec_with` (the growable-vector entry points of lib.rs).  `history`: 0 = nothing before;
/// 1 = a failed `to_vec` and a failed `to_vec_with` on this thread first; 2 = a successful large `to_vec` first;
/// 3 = the call is made from inside another `to_vec` (an `Encode` impl that embeds CBOR in CBOR).
struct ToVec { history: u8, with: bool }
struct Nested<'a, T>(&'a T, bool, std::cell::RefCell<Option<Result<Vec<u8>, String>>>);
impl<'a, C, T: minicbor::Encode<()>> minicbor::Encode<C> for Nested<'a, T> {
    fn encode<W: Write>(&self, e: &mut Encoder<W>, _: &mut C) -> Result<(), Error<W::Error>> {
        e.array(2)?.u8(1)?;
        let r = if self.1 { minicbor::to_vec_with(self.0, &mut ()) } else { minicbor::to_vec(self.0) };
        *self.2.borrow_mut() = Some(r.map_err(|x| eclass(&x).to_string()));
        e.u8(2)?;
        Ok(())
    }
}
impl ValVisitor for ToVec {
    type Out = String;
    fn visit<T: minicbor::Encode<()>>(self, x: T) -> String {
        match self.history {
            1 => {
                let _ = minicbor::to_vec((2u8, GivesUp));
                let cell = std::cell::RefCell::new(5u8);
                let g = cell.borrow_mut();
                let _ = minicbor::to_vec_with([&cell, &cell], &mut ());
                drop(g);
            }
            2 => { let _ = minicbor::to_vec(vec![0xABCDu16; 40000]); }
            _ => {}
        }
        let r = if self.history == 3 {
            let n = Nested(&x, self.with, std::cell::RefCell::new(None));
            let outer = minicbor::to_vec(&n);
            if outer.as_deref().ok() != Some(&[0x82, 1, 2][..]) { return "err outer-encoding-differs".into() }
            n.2.into_inner().unwrap_or(Err("not-called".into()))
        } else if self.with {
            minicbor::to_vec_with(&x, &mut ()).map_err(|e| eclass(&e).to_string())
        } else {
            minicbor::to_vec(&x).map_err(|e| eclass(&e).to_string())
        };
        match r { Ok(v) => line("ok".into(), v.len(), &v, true), Err(c) => line(format!("err {}", c), 0, &[], true) }
    }
}

/// the value syntax: `u64:<n>` `i64:<n>` `str:<hex>` `bytes:<hex>` (ByteVec) `vecu16:<a,b,…|->`
/// `optu32:<n|none>` `tuple:<u8>,<hex>,<0|1>` ((u8, String, bool)) `mapu8:<k=v,…|->` (BTreeMap<u8, u16>).
fn with_value<V: ValVisitor>(v: &str, vis: V) -> Option<V::Out> {
    fn go<V: ValVisitor, T: minicbor::Encode<()>>(w: V, x: T) -> Option<V::Out> { Some(w.visit(x)) }
    let w = vis;
    let (t, a) = v.split_once(':')?;
    match t {
        "u64" => go(w, a.parse::<u64>().ok()?),
        "i64" => go(w, a.parse::<i64>().ok()?),
        "str" => go(w, String::from_utf8(unhex(a)?).ok()?),
        "bytes" => go(w, minicbor::bytes::ByteVec::from(unhex(a)?)),
        "vecu16" => {
            let xs: Option<Vec<u16>> = if a == "-" { Some(vec![]) } else { a.split(',').map(|x| x.parse().ok()).collect() };
            go(w, xs?)
        }
        "optu32" => go(w, if a == "none" { None } else { Some(a.parse::<u32>().ok()?) }),
        "tuple" => {
            let p: Vec<&str> = a.split(',').collect();
            if p.len() != 3 { return None }
            go(w, (p[0].parse::<u8>().ok()?, String::from_utf8(unhex(p[1])?).ok()?, p[2] == "1"))
        }
        "mapu8" => {
            let mut m = std::collections::BTreeMap::new();
            if a != "-" { for kv in a.split(',') { let (k, v) = kv.split_once('=')?; m.insert(k.parse::<u8>().ok()?, v.parse::<u16>().ok()?); } }
            go(w, m)
        }
        _ => None
    }
}

fn line(status: String, pos: usize, buf: &[u8], canary: bool) -> String {
    format!("{} pos={} buf={} canary={}", status, pos, hex(buf), if canary { "ok" } else { "clobbered" })
}

fn carray<const N: usize>(call: &Call) -> Option<String> {
    let mut g = GuardedArray::<N> { left: [0; G], cur: Cursor::new([FILL; N]), right: [0; G] };
    for i in 0 .. G { g.left[i] = 0xA5 ^ i as u8; g.right[i] = 0x5A ^ i as u8; }
    // the Cursor is written through a mutable reference into the guarded struct (`impl Write for &mut W`)
    let (st, _) = drive(&mut g.cur, call)?;
    let ok = (0 .. G).all(|i| g.left[i] == 0xA5 ^ i as u8 && g.right[i] == 0x5A ^ i as u8);
    Some(line(st, g.cur.position(), &g.cur.get_ref()[..], ok))
}

fn run_kind(kind: &str, cap: usize, call: &Call) -> Option<String> {
    if cap > 1 << 20 { return None }
    match kind {
        "slice" => {
            let mut m = guarded(cap);
            let remaining;
            let st;
            {
                let s: &mut [u8] = &mut m[G .. G + cap];
                let (a, rest) = drive(s, call)?;
                st = a; remaining = rest.len();
            }
            let ok = canary_ok(&m, cap);
            Some(line(st, cap - remaining, &m[G .. G + cap], ok))
        }
        "cslice" => {
            let mut m = guarded(cap);
            let (st, pos);
            {
                let c = Cursor::new(&mut m[G .. G + cap]);
                let (a, c) = drive(c, call)?;
                st = a; pos = c.position();
            }
            let ok = canary_ok(&m, cap);
            Some(line(st, pos, &m[G .. G + cap], ok))
        }
        "cbox" => {
            let b: Box<[u8]> = vec![FILL; cap].into_boxed_slice();
            let (st, c) = drive(Cursor::new(b), call)?;
            let pos = c.position();
            let b = c.into_inner();
            Some(line(st, pos, &b, b.len() == cap))
        }
        "carray" => {
            macro_rules! arr { ($($n:literal)*) => { match cap { $($n => carray::<$n>(call),)* _ => None } } }
            arr!(0 1 2 3 4 5 6 7 8 9 10 11 12 13 14 15 16 17 18 19 20 21 22 23 24 25 26 27 28 29 30 31 32 33 34 35 36 37 38 39 40)
        }
        "tovec" | "tovecw" | "tovech" | "tovecwh" | "tovecb" | "tovecn" | "tovecwn" => {
            let Call::Val(v) = call else { return None };
            let history = if kind.ends_with('h') { 1 } else if kind.ends_with('b') { 2 } else if kind.ends_with('n') { 3 } else { 0 };
            with_value(v, ToVec { history, with: kind.starts_with("tovecw") })
        }
        "vec" => {
            let (st, v) = drive(Vec::new(), call)?;
            Some(line(st, v.len(), &v, true))
        }
        _ => {
            let step = kind.strip_prefix("io:")?.parse::<usize>().ok()?;
            let mut m = guarded(cap);
            let (st, pos);
            {
                let l = Limited { buf: &mut m[G .. G + cap], pos: 0, step };
                let (a, w) = drive(Writer::new(l), call)?;
                st = a; pos = w.get_ref().pos;
            }
            let ok = canary_ok(&m, cap);
            Some(line(st, pos, &m[G .. G + cap], ok))
        }
    }
}

/// an inner `std::io::Write` that takes a chunk completely or not at all (`Ok(0)` for one that does not fit: room stays)
struct AllOrNothing { buf: Vec<u8>, cap: usize }
impl std::io::Write for AllOrNothing {
    fn write(&mut self, b: &[u8]) -> std::io::Result<usize> {
        if b.len() > self.cap - self.buf.len() { return Ok(0) }
        self.buf.extend_from_slice(b);
        Ok(b.len())
    }
    fn flush(&mut self) -> std::io::Result<()> { Ok(()) }
}

/// `sinkio <variant> <cap> <chunk-hex>…`: raw `write_all` calls on ONE `Writer` whose inner `std::io::Write` has room again after a
/// failed call.  `aon`: the inner writer is all-or-nothing.  `rewind`: `Writer<std::io::Cursor<&mut [u8]>>`, rewound through
/// `get_mut().set_position(0)` after every failed call.  `encaon`: like `aon`, the chunks are `u64` values encoded through one Encoder.
/// Output: `seq:<ok|err>,… buf=<hex of what the inner writer holds>`
pub fn run_sinkio(w: &[&str]) -> String {
    if w.len() < 2 { return "bad-op".into() }
    let cap = match w[1].parse::<usize>() { Ok(c) if c <= 4096 => c, _ => return "bad-op".into() };
    let mut rs: Vec<&str> = Vec::new();
    let buf: Vec<u8>;
    match w[0] {
        "aon" => {
            let mut wr = Writer::new(AllOrNothing { buf: Vec::new(), cap });
            for c in &w[2..] {
                let Some(b) = unhex(c) else { return "bad-op".into() };
                rs.push(if wr.write_all(&b).is_ok() { "ok" } else { "err" });
            }
            buf = wr.into_inner().buf;
        }
        "encaon" => {
            let mut e = Encoder::new(Writer::new(AllOrNothing { buf: Vec::new(), cap }));
            for c in &w[2..] {
                let Ok(v) = c.parse::<u64>() else { return "bad-op".into() };
                rs.push(match e.u64(v) { Ok(_) => "ok", Err(x) => if x.is_write() { "err" } else { "other" } });
            }
            buf = e.into_writer().into_inner().buf;
        }
        "rewind" => {
            let mut m = vec![FILL; cap];
            {
                let mut wr = Writer::new(std::io::Cursor::new(&mut m[..]));
                for c in &w[2..] {
                    let Some(b) = unhex(c) else { return "bad-op".into() };
                    if wr.write_all(&b).is_ok() { rs.push("ok") } else { rs.push("err"); wr.get_mut().set_position(0) }
                }
            }
            buf = m;
        }
        _ => return "bad-op".into()
    }
    format!("seq:{} buf={}", if rs.is_empty() { "-".into() } else { rs.join(",") }, hex(&buf))
}

/// `encseq <kind> <cap> <call>…`: the calls on ONE encoder over a bounded sink of `cap` bytes (filled with ee),
/// carrying on after a failed call (the same op exists in harness/cfg for the six configurations).
/// kinds: `slice`, `cslice`, `cbox`, `carr` (`Cursor<[u8; 12]>`, cap must be 12).
/// Output: `<r1>,<r2>,… pos=<bytes accepted> buf=<hex of the whole sink>`, r = `ok` | `write` | `other`.
pub fn run_encseq(w: &[&str]) -> String {
    if w.len() < 2 { return "bad-op".into() }
    let cap = match w[1].parse::<usize>() { Ok(c) if c <= 4096 => c, _ => return "bad-op".into() };
    fn drive_all<W: Write>(e: &mut Encoder<W>, calls: &[&str]) -> Option<String> {
        let mut rs = Vec::new();
        for c in calls {
            rs.push(match apply(e, c)? { Ok(()) => "ok", Err(x) => if x.is_write() { "write" } else { "other" } });
        }
        Some(if rs.is_empty() { "-".into() } else { rs.join(",") })
    }
    let mut m = guarded(cap);
    let (rs, pos) = match w[0] {
        "slice" => {
            let mut e = Encoder::new(&mut m[G .. G + cap]);
            let rs = drive_all(&mut e, &w[2..]);
            let room = e.into_writer().len();
            (rs, cap - room)
        }
        "cslice" => {
            let mut e = Encoder::new(Cursor::new(&mut m[G .. G + cap]));
            let rs = drive_all(&mut e, &w[2..]);
            let p = e.writer().position();
            (rs, p)
        }
        "cbox" => {
            let mut e = Encoder::new(Cursor::new(vec![FILL; cap].into_boxed_slice()));
            let rs = drive_all(&mut e, &w[2..]);
            let p = e.writer().position();
            m[G .. G + cap].copy_from_slice(&e.writer().get_ref()[..]);
            (rs, p)
        }
        "carr" => {
            if cap != 12 { return "bad-op".into() }
            let mut e = Encoder::new(Cursor::new([FILL; 12]));
            let rs = drive_all(&mut e, &w[2..]);
            let p = e.writer().position();
            m[G .. G + cap].copy_from_slice(&e.writer().get_ref()[..]);
            (rs, p)
        }
        _ => return "bad-op".into()
    };
    if !canary_ok(&m, cap) { return "canary clobbered".into() }
    match rs { Some(rs) => format!("{} pos={} buf={}", rs, pos, hex(&m[G .. G + cap])), None => "bad-op".into() }
}

/// `sinkiter <kind> <cap> <array|map> <exact|loose|even> <n1,n2,…|->`: `Encoder::encode(ArrayIter / MapIter)` into a bounded sink.
pub fn run_iter(w: &[&str]) -> String {
    if w.len() != 5 { return "bad-op".into() }
    let cap = match w[1].parse::<usize>() { Ok(c) => c, Err(_) => return "bad-op".into() };
    let vals: Vec<u32> = match w[4] {
        "-" => Vec::new(),
        s => match s.split(',').map(|x| x.parse::<u32>()).collect::<Result<Vec<_>, _>>() { Ok(v) => v, Err(_) => return "bad-op".into() }
    };
    match run_kind(w[0], cap, &Call::Iter(w[2], w[3], vals)) { Some(s) => s, None => "bad-op".into() }
}

pub fn run_raw(w: &[&str]) -> String {
    if w.len() < 2 { return "bad-op".into() }
    let cap = match w[1].parse::<usize>() { Ok(c) => c, Err(_) => return "bad-op".into() };
    let chunks: Option<Vec<Vec<u8>>> = w[2..].iter().map(|h| unhex(h)).collect();
    match chunks.and_then(|c| run_kind(w[0], cap, &Call::Raw(c))) { Some(s) => s, None => "bad-op".into() }
}

pub fn run_val(w: &[&str]) -> String {
    if w.len() != 3 { return "bad-op".into() }
    let cap = match w[1].parse::<usize>() { Ok(c) => c, Err(_) => return "bad-op".into() };
    match run_kind(w[0], cap, &Call::Val(w[2])) { Some(s) => s, None => "bad-op".into() }
}

/// `sinktok <kind> <cap> <tok>,<tok>,…`: the token list through one `Encoder::tokens` call into the sink
pub fn run_tok(w: &[&str]) -> String {
    if w.len() != 3 { return "bad-op".into() }
    let cap = match w[1].parse::<usize>() { Ok(c) => c, Err(_) => return "bad-op".into() };
    match run_kind(w[0], cap, &Call::Tok(w[2])) { Some(s) => s, None => "bad-op".into() }
}

pub fn run_enc(w: &[&str]) -> String {
    if w.len() < 2 { return "bad-op".into() }
    let cap = match w[1].parse::<usize>() { Ok(c) => c, Err(_) => return "bad-op".into() };
    match run_kind(w[0], cap, &Call::Enc(&w[2..])) { Some(s) => s, None => "bad-op".into() }
}
