//! `dextra <type> <args…>`: a few hand-written `#[derive(Encode, Decode, CborLen)]` types whose FIELD types the generated
//! corpus (harness/dgen) does not use: smart pointers around an `Option`, floats, `Cow<[u8]>` behind the bytes codec.
//! Output: `<hex of to_vec> len=<minicbor::len> dec=<value decoded from those bytes> pos=<position>`; the orchestrator
//! demands dec == the value given, pos == number of bytes == len.
//!   BoxA | BoxM | BoxE  <id:u8> <N|u8>            array- / map-encoded struct, enum variant: `Box<Option<u8>>` last
//!   DecOnlyA | DecOnlyM | EncOnlyA | AliasA  <id:u8> <N|u8>   a type alias of Option<u8> behind decode_with / encode_with only / no codec
//!   BoxMid              <N|u8> <id:u8>            `Box<Option<u8>>` before a mandatory field
//!   FltA | FltM | FltE  <id:u8> <f32 bits> <f64 bits>
//!   OptF                <N|f64 bits> <N|f32 bits>  `Option<f64>`, `Option<f32>` fields
//!   CowA                <hex> <z:u8>              `#[cbor(with = "minicbor::bytes")] Cow<[u8]>`
use crate::util::*;
use minicbor::{CborLen, Decode, Encode};
use std::borrow::Cow;

#[derive(Encode, Decode, CborLen, Debug, PartialEq)] struct BoxA { #[n(0)] id: u8, #[n(1)] parent: Box<Option<u8>> }
#[derive(Encode, Decode, CborLen, Debug, PartialEq)] #[cbor(map)] struct BoxM { #[n(0)] id: u8, #[n(1)] parent: Box<Option<u8>> }
#[derive(Encode, Decode, CborLen, Debug, PartialEq)] enum BoxE { #[n(0)] Leaf { #[n(0)] id: u8, #[n(1)] parent: Box<Option<u8>> }, #[n(1)] Nil }
#[derive(Encode, Decode, CborLen, Debug, PartialEq)] struct BoxMid { #[n(0)] parent: Box<Option<u8>>, #[n(1)] id: u8 }
#[derive(Encode, Decode, CborLen, Debug, PartialEq)] struct FltA { #[n(0)] id: u8, #[n(1)] a: f32, #[n(2)] b: f64 }
#[derive(Encode, Decode, CborLen, Debug, PartialEq)] #[cbor(map)] struct FltM { #[n(0)] id: u8, #[n(1)] a: f32, #[n(2)] b: f64 }
#[derive(Encode, Decode, CborLen, Debug, PartialEq)] enum FltE { #[n(0)] V { #[n(0)] id: u8, #[n(1)] a: f32, #[n(2)] b: f64 }, #[n(1)] W(#[n(0)] f64) }
#[derive(Encode, Decode, CborLen, Debug, PartialEq)] struct OptF { #[n(0)] a: Option<f64>, #[n(1)] b: Option<f32> }
#[derive(Encode, Decode, CborLen, Debug, PartialEq)] struct CowA<'a> { #[cbor(n(0), with = "minicbor::bytes")] a: Cow<'a, [u8]>, #[n(1)] z: u8 }

/// fields of a type with exactly one value (`()`, `PhantomData<_>`): mandatory fields like any other, written as the empty array
#[derive(Encode, Decode, CborLen, Debug, PartialEq)] struct UnitA<T> { #[n(0)] id: u8, #[n(1)] extra: T }
#[derive(Encode, Decode, CborLen, Debug, PartialEq)] #[cbor(map)] struct UnitM<T> { #[n(0)] id: u8, #[n(1)] extra: T }
#[derive(Encode, Decode, CborLen, Debug, PartialEq)] enum UnitE { #[n(0)] Ping(#[n(0)] ()), #[n(1)] Mark(#[n(0)] std::marker::PhantomData<u8>, #[n(1)] u8) }

/// `#[b]` on a `Cow` whose lifetime argument is spelled `'static`: decoding from a `'static` input borrows
#[derive(Encode, Decode, CborLen, Debug, PartialEq)] struct CowS { #[b(0)] a: Cow<'static, str>, #[n(1)] z: u8 }

/// an `index_only` enum whose variant carries a tag attribute (never written: an index_only value is its index alone), a transparent newtype
/// whose single field carries a tag attribute (a transparent newtype is its field, nothing in front)
#[derive(Encode, Decode, CborLen, Debug, PartialEq, Clone, Copy)] #[cbor(index_only)] enum IoT { #[n(0)] A, #[cbor(n(1), tag(5))] B, #[cbor(n(300), tag(70000))] C }
#[derive(Encode, Decode, CborLen, Debug, PartialEq)] #[cbor(transparent)] struct TrT(#[cbor(n(0), tag(1001))] u64);
#[derive(Encode, Decode, CborLen, Debug, PartialEq)] struct TrOuter { #[n(0)] a: TrT, #[n(1)] b: Option<TrT>, #[n(2)] k: IoT }

/// field names a macro might also use for its own locals (in struct-like variants the generated match arm binds fields by their names)
#[derive(Encode, Decode, CborLen, Debug, PartialEq)] enum NamesE { #[n(0)] Data { #[n(0)] len: u64, #[n(1)] num: u64, #[n(2)] nil: Option<u64>, #[n(3)] e: u64, #[n(4)] d: u64, #[n(5)] ctx: u64,
    #[n(6)] n: u64, #[n(7)] i: u64, #[n(8)] pos: u64, #[n(9)] tag: u64, #[n(10)] idx: u64, #[n(11)] val: u64 } }
#[derive(Encode, Decode, CborLen, Debug, PartialEq)] #[cbor(map)] enum NamesM { #[n(0)] Data { #[n(0)] len: u64, #[n(1)] num: u64, #[n(2)] nil: Option<u64>, #[n(3)] e: u64, #[n(4)] d: u64, #[n(5)] ctx: u64,
    #[n(6)] n: u64, #[n(7)] i: u64, #[n(8)] pos: u64, #[n(9)] tag: u64, #[n(10)] idx: u64, #[n(11)] val: u64 } }
#[derive(Encode, Decode, CborLen, Debug, PartialEq)] struct NamesS { #[n(0)] len: u64, #[n(1)] num: u64, #[n(2)] nil: Option<u64>, #[n(3)] e: u64, #[n(4)] d: u64, #[n(5)] ctx: u64,
    #[n(6)] n: u64, #[n(7)] i: u64, #[n(8)] pos: u64, #[n(9)] tag: u64, #[n(10)] idx: u64, #[n(11)] val: u64 }

/// structs without an encoded field under a struct-level tag; readers without fields of writers with fields
#[derive(Encode, Decode, CborLen, Debug, PartialEq)] #[cbor(tag(1001))] struct TagUnit;
#[derive(Encode, Decode, CborLen, Debug, PartialEq)] #[cbor(tag(7), map)] struct TagEmptyM {}
#[derive(Encode, Decode, CborLen, Debug, PartialEq)] #[cbor(tag(70000))] struct TagSkip { #[cbor(skip)] x: u8 }
#[derive(Encode, Decode, CborLen, Debug, PartialEq)] struct EmptyA;
#[derive(Encode, Decode, CborLen, Debug, PartialEq)] #[cbor(map)] struct EmptyM {}
#[derive(Encode, Decode, CborLen, Debug, PartialEq)] struct EmptyT();

/// `#[b(..)]` and `#[n(..)]` differ in what may be borrowed, never in the bytes
#[derive(Encode)] struct BSliceB<'a> { #[n(0)] id: u8, #[b(1)] data: &'a [u8], #[b(2)] more: Option<&'a [u8]> }
#[derive(Encode)] struct BSliceN<'a> { #[n(0)] id: u8, #[n(1)] data: &'a [u8], #[n(2)] more: Option<&'a [u8]> }

/// `#[b(..)]` and `#[n(..)]` indices mixed in one array-encoded type (an index is its number, whichever letter it is written with)
#[derive(Encode, Decode, CborLen, Debug, PartialEq)] struct MixBN<'a> { #[b(0)] name: &'a str, #[n(1)] age: u8, #[b(2)] nick: Option<&'a str>, #[n(3)] karma: Option<u32> }
#[derive(Encode, Decode, CborLen, Debug, PartialEq)] enum MixE<'a> { #[n(0)] V { #[b(0)] name: &'a str, #[n(1)] age: u8, #[n(2)] flags: Option<u8> } }
/// optional fields whose item is skipped (an unknown variant, a bare null at a tagged field) in front of further fields, in every framing
#[derive(Encode, Decode, CborLen, Debug, PartialEq, Clone, Copy)] enum Kind { #[n(0)] Plain, #[n(1)] Fancy(#[n(0)] u8) }
#[derive(Encode, Decode, CborLen, Debug, PartialEq)] struct SkipA { #[n(0)] kind: Option<Kind>, #[n(1)] seq: u8, #[n(2)] text: String, #[n(3)] last: Option<Kind> }
#[derive(Encode, Decode, CborLen, Debug, PartialEq)] struct StampA { #[cbor(n(0), tag(1))] at: Option<u64>, #[n(1)] seq: u8, #[cbor(n(2), tag(2))] end: Option<u64> }

/// std wrappers with interior mutability around an `Option`: mandatory fields for every reader (only `Option` itself and what forwards BOTH
/// `is_nil` and `nil` may be left out by a writer)
#[derive(Encode, Decode, CborLen, Debug, PartialEq)] struct CellA { #[n(0)] id: u8, #[n(1)] c: std::cell::Cell<Option<u8>> }
#[derive(Encode, Decode, CborLen, Debug, PartialEq)] #[cbor(map)] struct CellM { #[n(0)] id: u8, #[n(1)] c: std::cell::Cell<Option<u8>> }
#[derive(Encode, Decode, CborLen, Debug, PartialEq)] struct RefA { #[n(0)] id: u8, #[n(1)] c: std::cell::RefCell<Option<u8>> }
#[derive(Encode, Decode, CborLen, Debug, PartialEq)] #[cbor(map)] struct RefM { #[n(0)] c: std::cell::RefCell<Option<u8>>, #[n(1)] id: u8 }

/// a map-encoded reader that knows indices 0 and 2 of a writer's 0..3 (a gap below its highest index, unknown entries behind it)
#[derive(Encode, Decode, CborLen, Debug, PartialEq)] #[cbor(map)] struct GapM { #[n(0)] a: u8, #[n(2)] c: u8 }
#[derive(Encode, Decode, CborLen, Debug, PartialEq)] struct GapOuter { #[n(0)] m: GapM, #[n(1)] z: u8 }

/// transparent tuple structs with a skipped field in front of / behind the one encoded field: they encode as that field (repaired in /repo:
/// the derived Encode / CborLen forwarded to `self.0` whatever the field's position; Decode is not derivable for the skip-first shape)
#[derive(Encode, CborLen)] #[cbor(transparent)] struct TrSkipFirst(#[cbor(skip)] #[allow(dead_code)] std::marker::PhantomData<u8>, #[n(0)] u64);
#[derive(Encode, CborLen)] #[cbor(transparent)] struct TrSkipLast(#[n(0)] u64, #[cbor(skip)] #[allow(dead_code)] std::marker::PhantomData<u8>);
#[derive(Encode, CborLen)] #[cbor(transparent)] struct TrSkipMid(#[cbor(skip)] #[allow(dead_code)] (), #[cbor(skip)] #[allow(dead_code)] u8, #[n(7)] String);

/// a three-state user type: `Keep` is its nil value (left out by the derived encoder, filled in by `Decode::nil`), `Clear` is written as
/// `null` — a present value, which only the type's own decoder can tell from a number
#[derive(Debug, PartialEq, Clone, Copy)] enum Patch { Keep, Clear, Set(u8) }
impl<C> Encode<C> for Patch {
    fn encode<W: minicbor::encode::Write>(&self, e: &mut minicbor::Encoder<W>, _: &mut C) -> Result<(), minicbor::encode::Error<W::Error>> {
        match self { Patch::Keep | Patch::Clear => e.null()?.ok(), Patch::Set(n) => e.u8(*n)?.ok() }
    }
    fn is_nil(&self) -> bool { matches!(self, Patch::Keep) }
}
impl<C> CborLen<C> for Patch { fn cbor_len(&self, ctx: &mut C) -> usize { match self { Patch::Set(n) => n.cbor_len(ctx), _ => 1 } } }
impl<'b, C> Decode<'b, C> for Patch {
    fn decode(d: &mut minicbor::Decoder<'b>, _: &mut C) -> Result<Self, minicbor::decode::Error> {
        if d.datatype()? == minicbor::data::Type::Null { d.skip()?; Ok(Patch::Clear) } else { d.u8().map(Patch::Set) }
    }
    fn nil() -> Option<Self> { Some(Patch::Keep) }
}
#[derive(Encode, Decode, CborLen, Debug, PartialEq)] struct PatchA { #[n(0)] id: u8, #[n(1)] p: Patch, #[n(2)] q: Patch }
#[derive(Encode, Decode, CborLen, Debug, PartialEq)] #[cbor(map)] struct PatchM { #[n(0)] id: u8, #[n(1)] p: Patch, #[n(2)] q: Patch }
#[derive(Encode, Decode, CborLen, Debug, PartialEq)] enum PatchE { #[n(0)] V(#[n(0)] Patch, #[n(1)] Patch) }
fn patch(s: &str) -> Option<Patch> { match s { "K" => Some(Patch::Keep), "C" => Some(Patch::Clear), _ => s.parse().ok().map(Patch::Set) } }
fn show_patch(p: &Patch) -> String { match p { Patch::Keep => "K".into(), Patch::Clear => "C".into(), Patch::Set(n) => n.to_string() } }

/// a nil-able type that is not SPELLED `Option<..>` (the macros decide some things from the spelling, others from the traits)
type Maybe = Option<u8>;
fn dec_maybe<'b, C>(d: &mut minicbor::Decoder<'b>, _: &mut C) -> Result<Maybe, minicbor::decode::Error> {
    if minicbor::data::Type::Null == d.datatype()? { d.skip()?; return Ok(None) }
    d.u8().map(Some)
}
fn enc_maybe<C, W: minicbor::encode::Write>(v: &Maybe, e: &mut minicbor::Encoder<W>, _: &mut C) -> Result<(), minicbor::encode::Error<W::Error>> {
    match v { None => { e.null()?; } Some(x) => { e.u8(*x)?; } } Ok(())
}
#[derive(Encode, Decode, CborLen, Debug, PartialEq)] struct DecOnlyA { #[n(0)] id: u8, #[cbor(n(1), decode_with = "dec_maybe")] m: Maybe }
#[derive(Encode, Decode, CborLen, Debug, PartialEq)] #[cbor(map)] struct DecOnlyM { #[n(0)] id: u8, #[cbor(n(1), decode_with = "dec_maybe")] m: Maybe }
#[derive(Encode, Decode, Debug, PartialEq)] struct EncOnlyA { #[n(0)] id: u8, #[cbor(n(1), encode_with = "enc_maybe")] m: Maybe }
#[derive(Encode, Decode, CborLen, Debug, PartialEq)] struct AliasA { #[n(0)] id: u8, #[n(1)] m: Maybe }

fn opt_u8(s: &str) -> Option<Option<u8>> { if s == "N" { Some(None) } else { s.parse::<u8>().ok().map(Some) } }
fn show_opt(o: &Option<u8>) -> String { match o { None => "N".into(), Some(v) => v.to_string() } }

fn rt<'a, T: Encode<()> + CborLen<()> + for<'b> Decode<'b, ()>>(v: &T, show: impl Fn(&T) -> String) -> String {
    let n = minicbor::len(v);
    let b = match minicbor::to_vec(v) { Ok(b) => b, Err(e) => return format!("err enc {}", eclass(&e)) };
    let mut d = minicbor::Decoder::new(&b);
    match d.decode::<T>() {
        Ok(x) => format!("{} len={} dec={} pos={}", hex(&b), n, show(&x), d.position()),
        Err(e) => format!("{} len={} dec=err:{} pos={}", hex(&b), n, dclass(&e), d.position())
    }
}

pub fn run(w: &[&str]) -> String {
    let r: Option<String> = (|| Some(match (w[0], &w[1..]) {
        ("BoxA", [id, p]) => rt(&BoxA { id: id.parse().ok()?, parent: Box::new(opt_u8(p)?) }, |x| format!("{},{}", x.id, show_opt(&x.parent))),
        ("BoxM", [id, p]) => rt(&BoxM { id: id.parse().ok()?, parent: Box::new(opt_u8(p)?) }, |x| format!("{},{}", x.id, show_opt(&x.parent))),
        ("BoxE", [id, p]) => rt(&BoxE::Leaf { id: id.parse().ok()?, parent: Box::new(opt_u8(p)?) }, |x| match x { BoxE::Leaf { id, parent } => format!("{},{}", id, show_opt(parent)), BoxE::Nil => "nil".into() }),
        ("DecOnlyA", [id, p]) => rt(&DecOnlyA { id: id.parse().ok()?, m: opt_u8(p)? }, |x| format!("{},{}", x.id, show_opt(&x.m))),
        ("DecOnlyM", [id, p]) => rt(&DecOnlyM { id: id.parse().ok()?, m: opt_u8(p)? }, |x| format!("{},{}", x.id, show_opt(&x.m))),
        ("AliasA", [id, p]) => rt(&AliasA { id: id.parse().ok()?, m: opt_u8(p)? }, |x| format!("{},{}", x.id, show_opt(&x.m))),
        ("EncOnlyA", [id, p]) => {
            let v = EncOnlyA { id: id.parse().ok()?, m: opt_u8(p)? };
            let b = minicbor::to_vec(&v).ok()?;
            let mut d = minicbor::Decoder::new(&b);
            match d.decode::<EncOnlyA>() {
                Ok(x) => format!("{} len={} dec={},{} pos={}", hex(&b), b.len(), x.id, show_opt(&x.m), d.position()),
                Err(e) => format!("{} len={} dec=err:{} pos={}", hex(&b), b.len(), dclass(&e), d.position())
            }
        }
        ("UnitA", [id]) => rt(&UnitA::<()> { id: id.parse().ok()?, extra: () }, |x| format!("{}", x.id)),
        ("UnitM", [id]) => rt(&UnitM::<()> { id: id.parse().ok()?, extra: () }, |x| format!("{}", x.id)),
        ("UnitPA", [id]) => rt(&UnitA::<std::marker::PhantomData<String>> { id: id.parse().ok()?, extra: std::marker::PhantomData }, |x| format!("{}", x.id)),
        ("UnitPM", [id]) => rt(&UnitM::<std::marker::PhantomData<String>> { id: id.parse().ok()?, extra: std::marker::PhantomData }, |x| format!("{}", x.id)),
        ("UnitE", [k]) if *k == "ping" => rt(&UnitE::Ping(()), |x| match x { UnitE::Ping(()) => "ping".into(), _ => "other".into() }),
        ("UnitE", [n]) => rt(&UnitE::Mark(std::marker::PhantomData, n.parse().ok()?), |x| match x { UnitE::Mark(_, n) => format!("{}", n), _ => "other".into() }),
        ("PatchA", [id, p, q]) => rt(&PatchA { id: id.parse().ok()?, p: patch(p)?, q: patch(q)? }, |x| format!("{},{},{}", x.id, show_patch(&x.p), show_patch(&x.q))),
        ("PatchM", [id, p, q]) => rt(&PatchM { id: id.parse().ok()?, p: patch(p)?, q: patch(q)? }, |x| format!("{},{},{}", x.id, show_patch(&x.p), show_patch(&x.q))),
        ("PatchE", [p, q]) => rt(&PatchE::V(patch(p)?, patch(q)?), |x| match x { PatchE::V(p, q) => format!("{},{}", show_patch(p), show_patch(q)) }),
        ("CowS", [h, z]) => {
            let v = CowS { a: Cow::Owned(String::from_utf8(unhex(h)?).ok()?), z: z.parse().ok()? };
            let n = minicbor::len(&v);
            let b: &'static [u8] = Box::leak(minicbor::to_vec(&v).ok()?.into_boxed_slice());
            let mut d = minicbor::Decoder::new(b);
            match d.decode::<CowS>() {
                Ok(x) => {
                    let inside = match &x.a { Cow::Borrowed(s) => { let p = s.as_ptr() as usize; let lo = b.as_ptr() as usize; s.is_empty() || (p >= lo && p + s.len() <= lo + b.len()) } Cow::Owned(_) => false };
                    if !inside { format!("{} len={} dec=not-borrowed pos={}", hex(b), n, d.position()) }
                    else { format!("{} len={} dec={},{} pos={}", hex(b), n, hex(x.a.as_bytes()), x.z, d.position()) }
                }
                Err(e) => format!("{} len={} dec=err:{} pos={}", hex(b), n, dclass(&e), d.position())
            }
        }
        ("NamesE", a) | ("NamesM", a) | ("NamesS", a) if a.len() == 12 => {
            let v: Vec<u64> = a.iter().enumerate().map(|(k, x)| if k == 2 && *x == "N" { Some(0) } else { x.parse::<u64>().ok() }).collect::<Option<_>>()?;
            let nil = if a[2] == "N" { None } else { Some(v[2]) };
            let sh = |l: &u64, nu: &u64, ni: &Option<u64>, r: [&u64; 9]| format!("{},{},{},{}", l, nu, ni.map(|x| x.to_string()).unwrap_or("N".into()), r.iter().map(|x| x.to_string()).collect::<Vec<_>>().join(","));
            match w[0] {
                "NamesE" => rt(&NamesE::Data { len: v[0], num: v[1], nil, e: v[3], d: v[4], ctx: v[5], n: v[6], i: v[7], pos: v[8], tag: v[9], idx: v[10], val: v[11] },
                    |x| match x { NamesE::Data { len, num, nil, e, d, ctx, n, i, pos, tag, idx, val } => sh(len, num, nil, [e, d, ctx, n, i, pos, tag, idx, val]) }),
                "NamesM" => rt(&NamesM::Data { len: v[0], num: v[1], nil, e: v[3], d: v[4], ctx: v[5], n: v[6], i: v[7], pos: v[8], tag: v[9], idx: v[10], val: v[11] },
                    |x| match x { NamesM::Data { len, num, nil, e, d, ctx, n, i, pos, tag, idx, val } => sh(len, num, nil, [e, d, ctx, n, i, pos, tag, idx, val]) }),
                _ => rt(&NamesS { len: v[0], num: v[1], nil, e: v[3], d: v[4], ctx: v[5], n: v[6], i: v[7], pos: v[8], tag: v[9], idx: v[10], val: v[11] },
                    |x| sh(&x.len, &x.num, &x.nil, [&x.e, &x.d, &x.ctx, &x.n, &x.i, &x.pos, &x.tag, &x.idx, &x.val])),
            }
        }
        ("TagUnit", []) => rt(&TagUnit, |_| String::new()),
        ("TagEmptyM", []) => rt(&TagEmptyM {}, |_| String::new()),
        ("TagSkip", []) => rt(&TagSkip { x: 0 }, |_| String::new()),
        // a struct-level tag is demanded whether or not the struct has fields: the three tagged field-less types from the given bytes
        ("TagRead", [h]) => {
            let b = unhex(h)?;
            fn r<T>(x: Result<T, minicbor::decode::Error>) -> &'static str { if x.is_ok() { "ok" } else { "err" } }
            format!("{} len=0 dec={}/{}/{} pos=0", hex(&b), r(minicbor::decode::<TagUnit>(&b)), r(minicbor::decode::<TagEmptyM>(&b)), r(minicbor::decode::<TagSkip>(&b)))
        }
        // a reader without fields accepts what a writer with (optional) fields wrote: the items are skipped
        ("EmptyRead", [h]) => {
            let b = unhex(h)?;
            fn r<T>(b: &[u8]) -> String where T: for<'x> Decode<'x, ()> { let mut d = minicbor::Decoder::new(b); match d.decode::<T>() { Ok(_) => format!("ok:{}", d.position()), Err(e) => format!("err:{}", dclass(&e)) } }
            format!("{} len=0 dec={}/{}/{} pos=0", hex(&b), r::<EmptyA>(&b), r::<EmptyM>(&b), r::<EmptyT>(&b))
        }
        ("BSlice", [id, h, m]) => {
            let (data, more) = (unhex(h)?, if *m == "N" { None } else { Some(unhex(m)?) });
            let id: u8 = id.parse().ok()?;
            let b = minicbor::to_vec(&BSliceB { id, data: &data, more: more.as_deref() }).ok()?;
            let n = minicbor::to_vec(&BSliceN { id, data: &data, more: more.as_deref() }).ok()?;
            format!("{} len={} dec={} pos={}", hex(&b), b.len(), hex(&n), b.len())
        }
        ("MixBN", [name, age, nick, karma]) => {
            let (name, nick) = (String::from_utf8(unhex(name)?).ok()?, if *nick == "N" { None } else { Some(String::from_utf8(unhex(nick)?).ok()?) });
            let v = MixBN { name: &name, age: age.parse().ok()?, nick: nick.as_deref(), karma: if *karma == "N" { None } else { Some(karma.parse().ok()?) } };
            let n = minicbor::len(&v);
            let b = minicbor::to_vec(&v).ok()?;
            let mut d = minicbor::Decoder::new(&b);
            match d.decode::<MixBN>() {
                Ok(x) => format!("{} len={} dec={},{},{},{} pos={}", hex(&b), n, hex(x.name.as_bytes()), x.age, x.nick.map(|s| hex(s.as_bytes())).unwrap_or("N".into()), x.karma.map(|k| k.to_string()).unwrap_or("N".into()), d.position()),
                Err(e) => format!("{} len={} dec=err:{} pos={}", hex(&b), n, dclass(&e), d.position())
            }
        }
        ("MixE", [name, age, flags]) => {
            let name = String::from_utf8(unhex(name)?).ok()?;
            let v = MixE::V { name: &name, age: age.parse().ok()?, flags: if *flags == "N" { None } else { Some(flags.parse().ok()?) } };
            let n = minicbor::len(&v);
            let b = minicbor::to_vec(&v).ok()?;
            let mut d = minicbor::Decoder::new(&b);
            match d.decode::<MixE>() {
                Ok(MixE::V { name, age, flags }) => format!("{} len={} dec={},{},{} pos={}", hex(&b), n, hex(name.as_bytes()), age, flags.map(|k| k.to_string()).unwrap_or("N".into()), d.position()),
                Err(e) => format!("{} len={} dec=err:{} pos={}", hex(&b), n, dclass(&e), d.position())
            }
        }
        // what the two types with skip paths make of the given bytes (written by a peer that knows more variants / leaves a tagged field out)
        ("SkipRead", [which, h]) => {
            let b = unhex(h)?;
            let k = |k: &Option<Kind>| match k { None => "N".to_string(), Some(Kind::Plain) => "P".into(), Some(Kind::Fancy(n)) => format!("F{}", n) };
            let o = |x: &Option<u64>| x.map(|v| v.to_string()).unwrap_or("N".into());
            let mut d1 = minicbor::Decoder::new(&b);
            let r1 = match d1.decode::<SkipA>() { Ok(x) => format!("{}:{}:{}:{}@{}", k(&x.kind), x.seq, hex(x.text.as_bytes()), k(&x.last), d1.position()), Err(e) => format!("err:{}", dclass(&e)) };
            let mut d2 = minicbor::Decoder::new(&b);
            let r2 = match d2.decode::<StampA>() { Ok(x) => format!("{}:{}:{}@{}", o(&x.at), x.seq, o(&x.end), d2.position()), Err(e) => format!("err:{}", dclass(&e)) };
            format!("{} len=0 dec={} pos=0", hex(&b), if *which == "A" { r1 } else { r2 })
        }
        ("CellA", [id, p]) => rt(&CellA { id: id.parse().ok()?, c: std::cell::Cell::new(opt_u8(p)?) }, |x| format!("{},{}", x.id, show_opt(&x.c.get()))),
        ("CellM", [id, p]) => rt(&CellM { id: id.parse().ok()?, c: std::cell::Cell::new(opt_u8(p)?) }, |x| format!("{},{}", x.id, show_opt(&x.c.get()))),
        ("RefA", [id, p]) => rt(&RefA { id: id.parse().ok()?, c: std::cell::RefCell::new(opt_u8(p)?) }, |x| format!("{},{}", x.id, show_opt(&x.c.borrow()))),
        ("RefM", [id, p]) => rt(&RefM { id: id.parse().ok()?, c: std::cell::RefCell::new(opt_u8(p)?) }, |x| format!("{},{}", x.id, show_opt(&x.c.borrow()))),
        ("GapRead", [which, h]) => {
            let b = unhex(h)?;
            let mut d = minicbor::Decoder::new(&b);
            let r = if *which == "M" { d.decode::<GapM>().map(|x| format!("{},{}", x.a, x.c)) } else { d.decode::<GapOuter>().map(|x| format!("{},{},{}", x.m.a, x.m.c, x.z)) };
            format!("{} len=0 dec={} pos=0", hex(&b), match r { Ok(v) => format!("{}@{}", v, d.position()), Err(e) => format!("err:{}", dclass(&e)) })
        }
        ("TrSkip", [which, n]) => {
            let n: u64 = n.parse().ok()?;
            let (b, l) = match *which {
                "first" => { let v = TrSkipFirst(std::marker::PhantomData, n); (minicbor::to_vec(&v).ok()?, minicbor::len(&v)) }
                "last" => { let v = TrSkipLast(n, std::marker::PhantomData); (minicbor::to_vec(&v).ok()?, minicbor::len(&v)) }
                _ => { let v = TrSkipMid((), 9, n.to_string()); (minicbor::to_vec(&v).ok()?, minicbor::len(&v)) }
            };
            format!("{} len={} dec=- pos={}", hex(&b), l, b.len())
        }
        ("IoT", [k]) => { let v = match *k { "A" => IoT::A, "B" => IoT::B, _ => IoT::C }; rt(&v, |x| format!("{:?}", x)) }
        ("TrT", [n]) => rt(&TrT(n.parse().ok()?), |x| format!("{}", x.0)),
        ("TrOuter", [a, b, k]) => rt(&TrOuter { a: TrT(a.parse().ok()?), b: if *b == "N" { None } else { Some(TrT(b.parse().ok()?)) }, k: match *k { "A" => IoT::A, "B" => IoT::B, _ => IoT::C } },
            |x| format!("{},{},{:?}", x.a.0, x.b.as_ref().map(|t| t.0.to_string()).unwrap_or("N".into()), x.k)),
        // a mandatory field of a one-valued type that is absent is missing like any other
        ("UnitMiss", [id]) => {
            let idn: u8 = id.parse().ok()?;
            let mut b = vec![0x81]; b.extend_from_slice(&minicbor::to_vec(idn).ok()?);
            let r1 = minicbor::decode::<UnitA<()>>(&b).map(|_| ()).map_err(|e| dclass(&e));
            let mut m = vec![0xa1, 0x00]; m.extend_from_slice(&minicbor::to_vec(idn).ok()?);
            let r2 = minicbor::decode::<UnitM<std::marker::PhantomData<String>>>(&m).map(|_| ()).map_err(|e| dclass(&e));
            format!("{} len=0 dec={:?}/{:?} pos=0", hex(&b), r1, r2).replace(' ', "_").replacen("_len=0_dec=", " len=0 dec=", 1).replacen("_pos=0", " pos=0", 1)
        }
        // ONE decoder through `n` failed decodes of a derived type (missing field / wrong tag / unknown variant), then a good one
        ("Reuse", [n]) => {
            let n: usize = n.parse().ok()?;
            let good = minicbor::to_vec(&FltA { id: 7, a: 1.5, b: 2.5 }).ok()?;
            let bads: [&[u8]; 3] = [&[0x81, 0x01], &[0x83, 0x01, 0x61, 0x61, 0x00], &[0x82, 0x09, 0x80]];
            let mut buf = Vec::new(); let mut starts = Vec::new();
            for b in bads { starts.push(buf.len()); buf.extend_from_slice(b) }
            let gpos = buf.len(); buf.extend_from_slice(&good);
            let mut d = minicbor::Decoder::new(&buf);
            for i in 0 .. n {
                d.set_position(starts[i % 3]);
                let failed = match i % 3 { 0 => d.decode::<FltA>().is_err(), 1 => d.decode::<FltM>().is_err(), _ => d.decode::<BoxE>().is_err() };
                if !failed { return Some(format!("{} len=0 dec=unexpected-ok-at-{} pos=0", hex(&buf), i)) }
            }
            d.set_position(gpos);
            match d.decode::<FltA>() {
                Ok(x) => format!("{} len={} dec={},{:08x},{:016x} pos={}", hex(&good), good.len(), x.id, x.a.to_bits(), x.b.to_bits(), d.position() - gpos),
                Err(e) => format!("{} len={} dec=err:{} pos={}", hex(&good), good.len(), dclass(&e), d.position() - gpos)
            }
        }
        ("BoxMid", [p, id]) => rt(&BoxMid { parent: Box::new(opt_u8(p)?), id: id.parse().ok()? }, |x| format!("{},{}", show_opt(&x.parent), x.id)),
        ("FltA", [id, a, b]) => rt(&FltA { id: id.parse().ok()?, a: f32::from_bits(u32::from_str_radix(a, 16).ok()?), b: f64::from_bits(u64::from_str_radix(b, 16).ok()?) },
            |x| format!("{},{:08x},{:016x}", x.id, x.a.to_bits(), x.b.to_bits())),
        ("FltM", [id, a, b]) => rt(&FltM { id: id.parse().ok()?, a: f32::from_bits(u32::from_str_radix(a, 16).ok()?), b: f64::from_bits(u64::from_str_radix(b, 16).ok()?) },
            |x| format!("{},{:08x},{:016x}", x.id, x.a.to_bits(), x.b.to_bits())),
        ("FltE", [id, a, b]) => rt(&FltE::V { id: id.parse().ok()?, a: f32::from_bits(u32::from_str_radix(a, 16).ok()?), b: f64::from_bits(u64::from_str_radix(b, 16).ok()?) },
            |x| match x { FltE::V { id, a, b } => format!("{},{:08x},{:016x}", id, a.to_bits(), b.to_bits()), FltE::W(_) => "w".into() }),
        ("FltW", [b]) => rt(&FltE::W(f64::from_bits(u64::from_str_radix(b, 16).ok()?)), |x| match x { FltE::W(b) => format!("{:016x}", b.to_bits()), _ => "v".into() }),
        ("OptF", [a, b]) => {
            let a = if *a == "N" { None } else { Some(f64::from_bits(u64::from_str_radix(a, 16).ok()?)) };
            let b = if *b == "N" { None } else { Some(f32::from_bits(u32::from_str_radix(b, 16).ok()?)) };
            rt(&OptF { a, b }, |x| format!("{},{}", x.a.map(|v| format!("{:016x}", v.to_bits())).unwrap_or("N".into()), x.b.map(|v| format!("{:08x}", v.to_bits())).unwrap_or("N".into())))
        }
        ("CowA", [h, z]) => {
            let bytes = unhex(h)?;
            let v = CowA { a: Cow::Owned(bytes), z: z.parse().ok()? };
            let n = minicbor::len(&v);
            let b = minicbor::to_vec(&v).ok()?;
            let mut d = minicbor::Decoder::new(&b);
            match d.decode::<CowA>() {
                Ok(x) => format!("{} len={} dec={},{} pos={}", hex(&b), n, hex(&x.a), x.z, d.position()),
                Err(e) => format!("{} len={} dec=err:{} pos={}", hex(&b), n, dclass(&e), d.position())
            }
        }
        _ => return None
    }))();
    r.unwrap_or_else(|| "bad-op".into())
}
